"""C10 — type-checker widths are the real widths; accepted code has no width errors.

proof:          lean/PymtlVerif/Props/C10.lean (model: Model/TC.lean, Model/PyEval.lean, Model/TCSpec.lean)
correspondence: random update blocks (harness/checks/c10_gen.py) written as real module files;
                (1) BehavioralRTLIRGenPass + BehavioralRTLIRTypeCheckPass vs `checkBlock`: accept / reject class
                    and, when accepted, (width, _is_explicit, _value) of every RTLIR node;
                (2) every sub-expression's Python source evaluated with real Bits objects vs `evalPy`;
                (3) the block simulated under DefaultPassGroup vs `execS` (final outputs / exception class).
direct oracle:  on the real code only: a block the real checker accepts, that has no explicit width-changing
                cast and no misaligned shift, (a) raises no bitwidth / truncation ValueError in simulation and
                (b) every explicitly sized RTLIR node whose Python value is a Bits has nbits == static width;
                `_get_nbits_from_value` (both copies) returns the least w >= 1 with v < 2**w.
"""
import os, types

from ..common import leanio
from ..common.leanio import InfraError
from . import c10_gen as G
from . import c10_struct as ST

PID = 'C10'
DRIVERS = ['tc']
MODULE = 'PymtlVerif.Props.C10'
THEOREMS = ['PV.C10.' + t for t in [
  'literal_min_width', 'literal_min_width_int', 'literal_min_width_neg', 'width_sound', 'subexpr_accepted',
  'width_sound_subexpr', 'explicit_final_width',
  'no_width_error', 'stmt_no_width_error', 'block_no_width_error', 'explicit_mismatch_rejected',
  'assign_mismatch_rejected', 'implicit_rhs_fits', 'mismatch_raises', 'check_implies_WT', 'check_implies_WT_stmt',
  'F12_counterexample', 'F12_negative_counterexample', 'N1_counterexample', 'N4_counterexample',
  'F4_rejected', 'N2_rejected', 'N3_repaired', 'N5_rejected',
]]
TRUSTED = [
  'bitstruct-typed signals (L3 of the type checker: struct <-> BitsN and struct <-> struct assignment, field access) and lists of '
  'Bits constants are NOT in the Lean model: harness/checks/c10_struct.py drives them through the real Gen + TypeCheck passes and '
  'DefaultPassGroup simulation and judges them with the model-independent oracle only (streams struct, N6, lutctl, intlut, N7, N8, N9)',
  'Model/TC.lean follows BehavioralRTLIRTypeCheckL1/L2Pass (visitor + enforcer), RTLIRDataType._get_nbits_from_value / get_index_width; '
  'Model/PyEval.lean composes the PythonBits model of C04/C05 (Model/Bits.lean) with Python int arithmetic',
  'a signal read is modelled as Bits(w, value mod 2**w): the mask is the identity on reachable states',
  'Python bool results of int-int comparisons are modelled as the ints 0/1',
  'the direct oracle classifies ValueError messages of PythonBits as width / range / other by their text',
]
ASSUMPTIONS = [
  'core language: Bits signals (ports of the component), int literals / int, bool and BitsN constants referenced by bare name (module level or construct() locals) / Bits constants '
  'held as component attributes, loop and temporary variables, ~ unary-minus + - * & | ^ % << >>, comparisons, if-expressions, BitsN casts, '
  'zext/sext/trunc (int and BitsN width), reduce_*, concat, bit index, constant and lo:lo+N slices, @= assignments to signals / bits / '
  'slices, temporaries, if, for over constant ranges; not modelled: / ** unary + (no Bits method: TypeError), struct fields, interfaces, sub-component ports, arrays, <<= in update_ff (same __ilshift__ checks as @=), '
  'widths >= 1024',
  'the theorems need the block to be clean (Model/TCSpec.lean, issuesS = []): every excluded shape is either an exclusion of the '
  'property itself (width-changing cast, misaligned shift), a soundness hole of the checker with a Lean counter-example '
  '(F12 implicit arithmetic, N1 temporary assigned both a literal and a signal, N4 arithmetic between if-expressions with a literal '
  'branch) or a shape outside the proof only (slices whose bounds are not plain integer expressions, widths >= 1024); '
  'F4, N2, N3, N5 were repaired in /repo and the model follows the repaired rules',
]
RULE = ('streams: typed (type-directed terms, no injected defects), unconst (~ / - applied directly to BitsN constants - cast, s.CONST, bare name, list element - in wider / equal / narrower contexts), multi (2-3 instances of one class with different per-instance constants read through s.P / s.cfg.n / s.T[1], checked forwards, backwards and inside one design), mixite (if-expressions with one implicit and one explicitly sized branch, both orders, in wider/equal/narrower explicit contexts, directly / through a temporary / nested), tmpseq (straight-line re-assignments of a temporary: literal/explicit/other width, then a narrower/equal/wider use), boolop (comparison results / Bool-typed terms as left and right operands against explicitly sized w-bit operands), desc (descending constant ranges whose loop variable meets a w-bit operand: first value fits / only the last fits), noisy (same with width/literal defects injected at each choice point), '
        'wild (unconstrained small terms, mostly rejected), one labelled stream per known hole (F12, N1, N4) and per repaired one (F4, N2, N3, N5: must now be rejected / clean), directed corpus; '
        'signal values boundary-biased; non-trivial = elaborated and checked by the real passes; distinct = distinct case tuple')

# known soundness holes of the checker that are NOT repaired (known findings); F4, N2, N3, N5 were repaired
# in /repo: their former witness streams ('F4', 'N2', 'N3', 'N5') are ordinary cases now (no finding label)
FINDING_OF_ISSUE = [('implArith', 'F12-implicit-arith'), ('tmpFlip', 'N1-tmpvar-explicit-flip'),
                    ('softArith', 'N4-soft-int-arith')]
FINDING_OF_STREAM = {'F12': 'F12-implicit-arith', 'N1': 'N1-tmpvar-explicit-flip', 'N4': 'N4-soft-int-arith',
                     'N7': 'N7-heterogeneous-interface-list', 'N8': 'N8-heterogeneous-component-list'}
# N9 (`Pt( 300, 1 )` with x: Bits8 accepted by visit_StructInst): set to True once the repair is in /repo; the stream
# 'N9' then runs as a regression stream (its blocks must be rejected; a failure is labelled regression-N9-...)
N9_FIXED = True or os.environ.get('C10_N9_FIXED') == '1'   # (the environment variable is for trying the patch)

# ------------------------------------------------------------------ real side

_real = {}
def real():
  if not _real:
    from pymtl3.datatypes import Bits, mk_bits
    from pymtl3.passes.PassGroups import DefaultPassGroup
    from pymtl3.passes.rtlir import BehavioralRTLIRGenPass, BehavioralRTLIRTypeCheckPass
    from pymtl3.passes.rtlir.behavioral import BehavioralRTLIR as bir
    from pymtl3.passes.rtlir.errors import PyMTLSyntaxError, PyMTLTypeError
    from pymtl3.passes.rtlir.rtype import RTLIRType as rt
    _real.update(locals())
  return types.SimpleNamespace(**_real)

def canon_exc(e):
  n = type(e).__name__
  if n in ('UnboundLocalError',): n = 'NameError'
  if n == 'ValueError':
    m = str(e)
    if 'negative shift count' in m: return 'ValueError:negshift'
    if ('itwidth' in m or 'too wide to be used to construct' in m or 'too narrow to be used to construct' in m
        or 'Cannot fit a Bits' in m): return 'ValueError:width'
    if ('not a valid binop operand' in m or 'too wide for' in m or 'Cannot fit' in m or 'too big for the 1-bit slice' in m
        or 'Only support 1 <= nbits < 1024' in m): return 'ValueError:range'
    return 'ValueError:other'
  return n

def is_width_err(c):
  return c in ('ValueError:width', 'ValueError:range', 'ValueError:other')

def canon_val(v):
  R = real()
  if isinstance(v, R.Bits): return ['b', int(v.nbits), int(v.uint())]
  if isinstance(v, (bool, int)): return ['i', int(v)]
  return ['other', type(v).__name__]

def show_val(c):
  if c[0] == 'b': return f'(b {c[1]} {c[2]})'
  if c[0] == 'i': return f'(i {c[1]})'
  return '(' + ' '.join(str(x) for x in c) + ')'

def real_check(cls):
  R = real()
  m = cls(); m.elaborate()
  try:
    m.apply(R.BehavioralRTLIRGenPass(m))
    m.apply(R.BehavioralRTLIRTypeCheckPass(m))
  except R.PyMTLSyntaxError as e: return 'reject syntax', None, str(e).split('\n')[-1][:160]
  except R.PyMTLTypeError as e: return 'reject type', None, str(e).split('\n')[-1][:160]
  except Exception as e: return 'reject crash', None, f'{type(e).__name__}: {e}'[:160]
  ups = m.get_metadata(R.BehavioralRTLIRGenPass.rtlir_upblks)
  if len(ups) != 1: raise InfraError(f'expected one update block, got {len(ups)}')
  return 'ok', list(ups.values())[0], ''

def rann(n):
  R = real()
  t = getattr(n, 'Type', None)
  w = t.get_dtype().get_length() if isinstance(t, R.rt.Signal) else None
  return [w, bool(n._is_explicit), getattr(n, '_value', None)]

def mann(a):
  """annotation of a parsed model node [tag, w, ex, val, kids...]"""
  return [int(a[1]), a[2] == '1', None if a[3] == 'n' else int(a[3])]

KIND_CLASS = {'sig': 'Attribute', 'lv': 'LoopVar', 'tmp': 'TmpVar', 'un': 'UnaryOp', 'bin': 'BinOp', 'cmp': 'Compare',
              'ite': 'IfExp', 'cast': 'SizeCast', 'red': 'Reduce', 'catn': 'Concat', 'idx': 'Index', 'slc': 'Slice'}
EXT_CLASS = {'zext': 'ZeroExt', 'sext': 'SignExt', 'trunc': 'Truncate'}

class Walk:
  """simultaneous walk of generator term, real RTLIR node and model annotation tree"""
  def __init__(self):
    self.diffs = []          # (path, what, model, real)
    self.nodes = 0
    self.casts = []          # (n, child ann)
    self.shifts = []         # (left ann, right ann)
    self.explicit = []       # (generator node, static width) of explicitly sized real nodes

  def node(self, path, g, r, a):
    self.nodes += 1
    cls = type(r).__name__
    k = g[0]
    if k == 'num': want = ('Number', 'FreeVar')
    elif k == 'cast' and ':' in g[3]: want = ('SizeCast',)
    elif k == 'cast' and g[3] in ('globfv', 'locfv'): want = ('FreeVar',)
    elif k == 'ext': want = (EXT_CLASS[g[1]],)
    else: want = (KIND_CLASS[k],)
    if cls not in want:
      self.diffs.append((path, 'node-class', want, cls)); return False
    ra, ma = rann(r), mann(a)
    if ra != ma: self.diffs.append((path, 'annotation(width,explicit,value)', ma, ra))
    if ra[1] and ra[0] is not None: self.explicit.append((g, ra[0]))
    return True

  def expr(self, path, g, r, a):
    k = g[0]
    if k == 'catn':
      xs = g[1]
      if not self.node(path, g, r, a): return
      cur = a
      for j, x in enumerate(xs[:-1]):
        self.expr(path + [j], x, r.values[j], cur[4])
        if j < len(xs) - 2: cur = cur[5]
      self.expr(path + [len(xs) - 1], xs[-1], r.values[len(xs) - 1], cur[5])
      return
    if not self.node(path, g, r, a): return
    if k in ('sig', 'num', 'lv', 'tmp'): return
    if k == 'un': self.expr(path + [0], g[2], r.operand, a[4])
    elif k in ('bin', 'cmp'):
      self.expr(path + [0], g[2], r.left, a[4]); self.expr(path + [1], g[3], r.right, a[5])
      if k == 'bin' and g[1] in ('shl', 'shr'): self.shifts.append((rann(r.left), rann(r.right)))
    elif k == 'ite':
      self.expr(path + [0], g[1], r.cond, a[4]); self.expr(path + [1], g[2], r.body, a[5]); self.expr(path + [2], g[3], r.orelse, a[6])
    elif k == 'cast' and g[3] in ('globfv', 'locfv'):
      pass       # a BitsN free variable is one explicit leaf; the model's literal child has no RTLIR node
    elif k == 'cast':
      if int(r.nbits) != g[1]: self.diffs.append((path, 'cast-nbits', g[1], int(r.nbits)))
      self.expr(path + [0], g[2], r.value, a[4]); self.casts.append((g[1], rann(r.value)))
    elif k == 'ext':
      if int(r.nbits) != g[4]: self.diffs.append((path, 'ext-nbits', g[4], int(r.nbits)))
      self.expr(path + [0], g[3], r.value, a[4])
    elif k == 'red': self.expr(path + [0], g[2], r.value, a[4])
    elif k == 'idx':
      self.base(path, g, r.value); self.expr(path + [0], g[3], r.idx, a[4])
    elif k == 'slc':
      self.base(path, g, r.value); self.expr(path + [0], g[3], r.lower, a[4]); self.expr(path + [1], g[4], r.upper, a[5])

  def base(self, path, g, r):
    ra = rann(r)
    if type(r).__name__ != 'Attribute' or ra[0] != g[2] or not ra[1]:
      self.diffs.append((path, 'base-signal', [g[2], True], ra))

  def stmts(self, path, gs, rs, a):
    if len(gs) != len(rs):
      self.diffs.append((path, 'statement-count', len(gs), len(rs))); return
    if not gs:
      if a != ['skip']: self.diffs.append((path, 'shape', 'skip', a))
      return
    cur = a
    for j, (g, r) in enumerate(zip(gs, rs)):
      if j < len(gs) - 1:
        if cur[0] != 'seq': self.diffs.append((path, 'shape', 'seq', cur[0])); return
        node, cur = cur[1], cur[2]
      else: node = cur
      self.stmt(path + [j], g, r, node)

  def stmt(self, path, g, r, a):
    k = g[0]; cls = type(r).__name__
    want = {'asg': 'Assign', 'tasg': 'Assign', 'ifs': 'If', 'for': 'For'}[k]
    if cls != want or a[0] != k:
      self.diffs.append((path, 'statement-class', (want, k), (cls, a[0]))); return
    if k == 'asg':
      self.expr(path + ['t'], g[1], r.targets[0], a[1]); self.expr(path + ['v'], g[2], r.value, a[2])
    elif k == 'tasg':
      t = r.targets[0]
      ra = rann(t); ma = [int(a[1][0]), a[1][1] == '1', None]
      if type(t).__name__ != 'TmpVar' or ra != ma: self.diffs.append((path + ['t'], 'tmpvar-target', ma, [type(t).__name__] + ra))
      self.nodes += 1
      self.expr(path + ['v'], g[2], r.value, a[2])
    elif k == 'ifs':
      self.expr(path + ['c'], g[1], r.cond, a[1])
      self.stmts(path + ['b'], g[2], r.body, a[2]); self.stmts(path + ['o'], g[3], r.orelse, a[3])
    elif k == 'for':
      self.stmts(path + ['b'], g[5], r.body, a[2])

def real_exclusions(rtlir):
  """casts and shifts of the REAL annotated tree alone (no generator term, no model)"""
  R = real()
  w = types.SimpleNamespace(casts=[], shifts=[])
  seen = set()
  def go(n):
    if id(n) in seen: return
    seen.add(id(n))
    cls = type(n).__name__
    if cls == 'SizeCast': w.casts.append((int(n.nbits), rann(n.value)))
    if cls == 'BinOp' and type(n.op).__name__ in ('ShiftLeft', 'ShiftRightLogic'): w.shifts.append((rann(n.left), rann(n.right)))
    for f, v in vars(n).items():
      if f in ('ast', 'component'): continue
      if isinstance(v, R.bir.BaseBehavioralRTLIR): go(v)
      elif isinstance(v, list):
        for x in v:
          if isinstance(x, R.bir.BaseBehavioralRTLIR): go(x)
  go(rtlir)
  return excluded(w)

def excluded(w):
  """the property's own exclusions, decided on the REAL annotations: explicit width-changing cast, misaligned shift"""
  why = []
  for n, ca in w.casts:
    if ca[1]:
      if ca[0] != n: why.append('cast')
    elif ca[0] is None or ca[0] > n: why.append('cast')
  for la, ra in w.shifts:
    if ra[1]:
      if ra[0] != la[0]: why.append('shift')
    elif ra[0] is None or la[0] is None or ra[0] > la[0]: why.append('shift')
  return sorted(set(why))

# ------------------------------------------------------------------ environments and evaluation

def rand_value(rng, w):
  top = (1 << w) - 1
  r = rng.random()
  if r < 0.4: return max(0, min(top, rng.choice([0, 1, top, top - 1, 1 << (w - 1), (1 << (w - 1)) - 1, w, w - 1, 2, 3])))
  if r < 0.55: return rng.getrandbits(min(w, 4))
  return rng.getrandbits(w)

def loops_of(stmts, out=None):
  out = [] if out is None else out
  for st in stmts:
    if st[0] == 'for': out.append((st[1], st[2], st[3], st[4])); loops_of(st[5], out)
    elif st[0] == 'ifs': loops_of(st[2], out); loops_of(st[3], out)
  return out

def make_env(rng, case, mod):
  """a Python environment of the block: s.<sig> = Bits objects, loop variables inside their ranges,
  temporaries = the value of their (textually last) defining expression"""
  R = real()
  s = types.SimpleNamespace()
  sigs = []
  for x, w, d in case['sigs']:
    v = rand_value(rng, w)
    setattr(s, ('i%d' if d == 'in' else 'o%d') % x, R.mk_bits(w)(v)); sigs.append([x, v])
  for n, v in G.class_source(case)[3]: setattr(s, f'KB{n}_{v}', R.mk_bits(n)(v))
  loc = {'s': s}
  for nm, src in G.free_vars(case)[1]: loc[nm] = eval(src, mod.__dict__)
  pa = G.param_attrs(case)
  if pa:
    for l in G.param_lines(pa, lambda j, src: src): exec(l, mod.__dict__, {'s': s})
  lvs = []
  for i, a, b, c in loops_of(case['block']):
    try: rg = list(range(a, b, c))
    except ValueError: rg = []
    if rg:
      k = rng.choice(rg); loc[f'i{i}'] = k; lvs.append([i, k])
  tmps = {}
  for t, e in G.tmp_defs(case['block']):
    try: v = eval(G.render(case, e), mod.__dict__, loc)
    except Exception: continue
    c = canon_val(v)
    if c[0] == 'other': continue
    loc[f't{t}'] = v; tmps[t] = c
  rho = (tuple(tuple(p) for p in sigs), tuple(tuple(p) for p in lvs), tuple((t, tuple(c)) for t, c in sorted(tmps.items())))
  return loc, rho

def py_eval(src, mod, loc):
  try: return show_val(canon_val(eval(src, mod.__dict__, dict(loc))))
  except Exception as e: return '(err ' + canon_exc(e) + ')'

def int_bound(e, lvmax):
  """largest value a plain integer expression can take (None: not a plain integer expression / unknown)"""
  k = e[0]
  if k == 'num': return e[1]
  if k == 'lv': return lvmax.get(e[1], 8)
  if k == 'un':
    b = int_bound(e[2], lvmax); return None if b is None else b + 1
  if k == 'cmp': return 1
  if k == 'bin':
    l, r = int_bound(e[2], lvmax), int_bound(e[3], lvmax)
    if l is None or r is None: return None
    if e[1] == 'shl': return (l << r) if r <= 4096 else (1 << 100000)
    if e[1] == 'mul': return l * r
    return l + r
  return None

def certainly_bits(e, tdefs):
  k = e[0]
  if k in ('sig', 'cast', 'ext', 'red', 'catn', 'idx', 'slc'): return True
  if k == 'un': return e[1] == 'inv' and certainly_bits(e[2], tdefs)
  if k == 'bin':
    if e[1] in ('shl', 'shr'): return certainly_bits(e[2], tdefs)
    return certainly_bits(e[2], tdefs) or certainly_bits(e[3], tdefs)
  if k == 'cmp': return certainly_bits(e[2], tdefs) or certainly_bits(e[3], tdefs)
  if k == 'ite': return certainly_bits(e[2], tdefs) and certainly_bits(e[3], tdefs)
  if k == 'tmp':
    ds = tdefs.get(e[1], [])
    return bool(ds) and all(certainly_bits(d, {}) for d in ds)
  return False

def safe_case(case):
  """no constant shift amounts that would make Python (or the model) build astronomically large ints;
  no reduce_xor of something that may be a negative Python int (helpers.reduce_xor loops for ever on it)"""
  lvmax = {}
  for i, a, b, c in loops_of(case['block']):
    lvmax[i] = max(abs(a), abs(b), 8)
  ok = [True]
  tdefs = {}
  for t, d in G.tmp_defs(case['block']): tdefs.setdefault(t, []).append(d)
  def see(e):
    if e[0] == 'red' and e[1] == 'xor' and not certainly_bits(e[2], tdefs): ok[0] = False
    if e[0] == 'bin' and e[1] == 'shl':
      r = int_bound(e[3], lvmax); l = int_bound(e[2], lvmax)
      if r is not None and r > 300 and l is not None: ok[0] = False
    if e[0] == 'bin' and int_bound(e, lvmax) is not None and int_bound(e, lvmax) > (1 << 4000): ok[0] = False
  for ex, _ in G.top_exprs(case['block']): G.walk_exprs(ex, see)
  return ok[0]

def simulate(cls, case, vectors):
  """[(initial signal values, result)] under DefaultPassGroup; result = ('ok', {x: v}) | ('err', class)"""
  R = real()
  m = cls(); m.elaborate(); m.apply(R.DefaultPassGroup())
  names = {x: ('i%d' if d == 'in' else 'o%d') % x for x, w, d in case['sigs']}
  out = []
  for vec in vectors:
    for x, v in vec.items():
      sig = getattr(m, names[x]); sig @= v
    init = {x: int(getattr(m, names[x])) for x in names}
    try:
      m.sim_eval_combinational()
      res = ('ok', {x: int(getattr(m, names[x])) for x in names})
    except Exception as e:
      res = ('err', canon_exc(e), str(e).split('\n')[0][:120])
    out.append((init, res))
  return out

# ------------------------------------------------------------------ one batch

REPAIRED_STREAMS = {'F4': 'regression-F4-implicit-rhs-too-wide', 'N2': 'regression-N2-ifexp-width',
                    'N3': 'regression-N3-explicit-const-fold', 'N5': 'regression-N5-ifexp-bool-branch',
                    'N6': 'regression-N6-const-array-element-implicit', 'N9': 'regression-N9-structinst-arg-too-wide'}

def finding_sig(case, issues):
  if case['stream'] in FINDING_OF_STREAM: return FINDING_OF_STREAM[case['stream']]
  if case['stream'] in REPAIRED_STREAMS: return REPAIRED_STREAMS[case['stream']]
  for iss, f in FINDING_OF_ISSUE:
    if iss in issues: return f
  return 'unexplained'

_ncollect = [0]
def _collect():
  """young generations after every batch, a full collection now and then (a full collection after every batch is
  quadratic when the code under test keeps every AST alive)"""
  import gc
  _ncollect[0] += 1
  gc.collect() if _ncollect[0] % 40 == 0 else gc.collect(1)

def _watchdog(signum, frame):
  raise leanio.MachineryError('C10: evaluation of a generated block on the real code did not finish within 60 s')

def process(ck, cases, nvec):
  import signal
  import gc
  signal.signal(signal.SIGALRM, _watchdog)
  signal.alarm(120)
  gc.disable()          # thousands of live component objects make every generational collection slower and slower
  try:
    _process(ck, cases, nvec)
  finally:
    signal.alarm(0)
    G.drop_modules()
    gc.enable(); _collect()

def _process(ck, cases, nvec):
  rng = ck.rng
  cases = [c for c in cases if safe_case(c)]
  if not cases: return
  mod, names = G.load_module(ck.workdir, cases)
  drv = ck.drv('tc')
  model_check = drv.batch([leanio.line('tc', 'check', G.stmts_to_model(c['block'])) for c in cases])
  ev_lines, ev_meta, ex_lines, ex_meta = [], [], [], []
  results = []
  for c, name, mc in zip(cases, names, model_check):
    cls = getattr(mod, name)
    try:
      verdict, rtlir, msg = real_check(cls)
    except Exception as e:
      # elaboration itself failed: the generator produced something outside the DSL front end
      ck.hist('outcome', 'elaboration-failed:' + type(e).__name__); ck.count(c, False)
      results.append(None); continue
    res = {'case': c, 'verdict': verdict, 'msg': msg, 'model': mc, 'walk': None, 'issues': [], 'excl': []}
    results.append(res)
    ck.count(c, True)
    ck.hist('stream', c['stream'])
    ck.hist('outcome', verdict)
    mverdict = mc if mc.startswith('reject') else 'ok'
    if mverdict != verdict:
      res['verdict_diff'] = True
    if mverdict == 'ok':
      parsed = leanio.parse_sexp(mc)
      res['issues'] = list(parsed[2])
      res['mas'] = parsed[1]
    if verdict == 'ok':
      res['excl'] = real_exclusions(rtlir)
    if verdict == 'ok' and mverdict == 'ok':
      w = Walk(); w.stmts([], c['block'], rtlir.body, res['mas'])
      res['walk'] = w
      if excluded(w) != res['excl']: raise InfraError('C10: the two walks of the real tree disagree on casts/shifts')
      ck.hist('rtlir_nodes_compared', min(60, w.nodes // 5 * 5))
      ck.hist('accepted_blocks', 'clean' if not res['issues'] else '+'.join(sorted(res['issues'])))
      def see(e): ck.hist('node_kinds_in_accepted', e[0] if e[0] not in ('bin', 'un', 'ext') else e[0] + ':' + e[1])
      for ex, _ in G.top_exprs(c['block']): G.walk_exprs(ex, see)
    # (2) sub-expression evaluation: model lines + real evaluation
    loc, rho = make_env(rng, c, mod)
    res['env'] = rho
    for ex, loops in G.top_exprs(c['block']):
      srcs = G.sub_sources(c, ex)
      ev_lines.append(leanio.line('tc', 'evalx', rho, G.to_model(ex)))
      ev_meta.append((res, ex, srcs, [py_eval(s, mod, loc) for s in srcs]))
    # oracle (b): static width == runtime nbits for explicitly sized nodes of accepted blocks
    if verdict == 'ok' and res['walk'] is not None and not res['excl']:
      R = real()
      for g, sw in res['walk'].explicit:
        try: v = eval(G.render(c, g), mod.__dict__, dict(loc))
        except Exception: continue
        if isinstance(v, R.Bits) and int(v.nbits) != sw:
          res.setdefault('width_viol', []).append((G.render(c, g), sw, int(v.nbits)))
    # (3) simulation
    if verdict == 'ok':
      vectors = [{x: 0 for x, w, d in c['sigs'] if d == 'in'}, {x: (1 << w) - 1 for x, w, d in c['sigs'] if d == 'in'}]
      vectors += [{x: rand_value(rng, w) for x, w, d in c['sigs'] if d == 'in'} for _ in range(nvec)]
      sims = simulate(cls, c, vectors)
      res['sims'] = sims
      for init, r in sims:
        rho0 = (tuple((x, v) for x, v in sorted(init.items())), (), ())
        ex_lines.append(leanio.line('tc', 'exec', rho0, G.stmts_to_model(c['block'])))
        ex_meta.append((res, init, r))
  ev_out = drv.batch(ev_lines)
  ex_out = drv.batch(ex_lines)
  # ---- verdicts: direct oracle first
  for res in results:
    if res is None: continue
    c = res['case']
    if res['verdict'] == 'ok':
      bad = [(init, r) for init, r in res.get('sims', []) if r[0] == 'err' and is_width_err(r[1])]
      issues = res['issues']
      if bad and not res['excl']:
        f = finding_sig(c, issues)
        ck.hist('violations', f + ' @' + c['stream'])
        ck.violation('accepted-block-raises-width-error', {'finding': f},
                     {'case': c, 'inputs': {str(k): v for k, v in bad[0][0].items()}},
                     {'oracle': 'real type checker accepted the block; real simulation (DefaultPassGroup) raised',
                      'exception': bad[0][1][1], 'message': bad[0][1][2], 'source': G.class_source(c)[1],
                      'model_issues': issues})
      elif res.get('width_viol') and not res['excl']:
        f = finding_sig(c, issues)
        ck.hist('violations', f)
        ck.violation('static-width-differs-from-runtime-nbits', {'finding': f}, {'case': c, 'env': res['env']},
                     {'oracle': 'explicitly sized RTLIR node: static width vs nbits of the Python value',
                      'nodes(src, static, runtime)': res['width_viol'][:3], 'source': G.class_source(c)[1], 'model_issues': issues})
      elif c['stream'] in FINDING_OF_STREAM:
        ck.hist('labelled_without_failure', c['stream'])
      if bad and res['excl']: ck.hist('excluded_raises', '+'.join(res['excl']))
  # ---- then model vs implementation
  for res in results:
    if res is None: continue
    c = res['case']
    if res.get('verdict_diff'):
      ck.disagreement('accept/reject: checkBlock≈Gen+TypeCheck pass', c, res['model'][:200], res['verdict'] + ' ' + res['msg'])
    w = res['walk']
    if w is not None and w.diffs:
      d = w.diffs[0]
      ck.disagreement('RTLIR node annotation: checkS≈TypeCheck visitor+enforcer', {'case': c, 'path': d[0], 'what': d[1]},
                      str(d[2]), str(d[3]))
  for (res, ex, srcs, pyv), mo in zip(ev_meta, ev_out):
    mv = [_unparse(x) for x in leanio.parse_sexp(mo)[0]]
    ck.hist('subexpr_evals', 'n', len(srcs))
    if len(mv) != len(pyv):
      raise InfraError(f'evalx arity {len(mv)} vs {len(pyv)} for {srcs[0]}')
    for s, a, b in zip(srcs, mv, pyv):
      if a != b:
        ck.disagreement('sub-expression value: evalPy≈Python/PythonBits', {'case': res['case'], 'src': s, 'env': res['env']}, a, b)
        break
  for (res, init, r), mo in zip(ex_meta, ex_out):
    p = leanio.parse_sexp(mo)[0]
    if r[0] == 'err':
      impl = 'err ' + r[1]
      model = ('err ' + p[1]) if p[0] == 'err' else 'ok'
    else:
      impl = 'ok ' + str(sorted(r[1].items()))
      if p[0] == 'err': model = 'err ' + p[1]
      else:
        fin = dict(init)
        for x, v in p[1:]: fin[int(x)] = int(v)
        model = 'ok ' + str(sorted(fin.items()))
    ck.hist('sim_outcome', impl.split()[0] + (' ' + impl.split()[1] if impl.startswith('err') else ''))
    if impl != model:
      ck.disagreement('block execution: execS≈DefaultPassGroup simulation', {'case': res['case'], 'inputs': {str(k): v for k, v in init.items()}},
                      model[:300], impl[:300])

# ------------------------------------------------------------------ several instances of one class

def flat_ann(R, rtlir):
  out, seen = [], set()
  def go(n):
    if id(n) in seen: return
    seen.add(id(n))
    t = getattr(n, 'Type', None)
    if isinstance(t, R.rt.Signal): out.append((type(n).__name__, int(t.get_dtype().get_length()), bool(n._is_explicit), getattr(n, '_value', None)))
    for f, v in vars(n).items():
      if f in ('ast', 'component', 'base', 'size'): continue
      if isinstance(v, R.bir.BaseBehavioralRTLIR): go(v)
      elif isinstance(v, list):
        for x in v:
          if isinstance(x, R.bir.BaseBehavioralRTLIR): go(x)
  go(rtlir)
  return out

def check_instance(R, m, top):
  try:
    m.apply(R.BehavioralRTLIRGenPass(top)); m.apply(R.BehavioralRTLIRTypeCheckPass(top))
  except R.PyMTLSyntaxError: return ('reject syntax', None)
  except R.PyMTLTypeError: return ('reject type', None)
  except Exception as e: return ('reject crash', type(e).__name__)
  ups = m.get_metadata(R.BehavioralRTLIRGenPass.rtlir_upblks)
  return ('ok', flat_ann(R, list(ups.values())[0]))

def process_multi(ck, cases, nvec):
  """2-3 instances of ONE class with different per-instance constants (attributes set from constructor
  parameters), type-checked forwards, backwards and as children of one design; direct oracle on the real code:
  verdict and node annotations of an instance equal those of the same instance checked FIRST in a fresh copy of the
  class; accepted in any order => its simulation (own constants) raises no width error.  The model comparison of every
  instance goes through `process` on the instantiated blocks."""
  import signal, gc
  R = real()
  signal.signal(signal.SIGALRM, _watchdog); signal.alarm(120); gc.disable()
  try:
    for c in cases:
      src, name, topname, args = G.multi_source(c)
      K = len(args)
      def fresh(): return G.load_source(ck.workdir, src)
      def inst(mod, k):
        m = eval(f'{name}( ' + ', '.join(args[k]) + ' )', mod.__dict__); m.elaborate(); return m
      try:
        ref = []
        for k in range(K):
          mod = fresh(); m = inst(mod, k); ref.append(check_instance(R, m, m))
        runs = {}
        mod = fresh(); runs['forward'] = [(k, check_instance(R, *(lambda m: (m, m))(inst(mod, k)))) for k in range(K)]
        mod = fresh(); runs['backward'] = [(k, check_instance(R, *(lambda m: (m, m))(inst(mod, k)))) for k in reversed(range(K))]
        mod = fresh(); top = getattr(mod, topname)(); top.elaborate()
        runs['one design'] = [(k, check_instance(R, getattr(top, f'c{k}'), top)) for k in range(K)]
      except Exception as e:
        ck.hist('outcome_multi', 'elaboration-failed:' + type(e).__name__); ck.count(c, False); continue
      ck.count(c, True); ck.hist('stream', 'multi')
      accepted_somewhere = set()
      viol = None
      for order, rs in runs.items():
        for k, res in rs:
          if res[0] == 'ok': accepted_somewhere.add(k)
          if res != ref[k] and viol is None:
            viol = (order, k, ref[k], res)
      for k in range(K):
        ck.hist('outcome_multi', ref[k][0])
        if ref[k][0] == 'ok': accepted_somewhere.add(k)
      srclines = src.split('\n')
      if viol is not None:
        order, k, a, b = viol
        ck.hist('violations', 'instance-order @multi')
        ck.violation('typing-depends-on-instance-order', {'finding': 'unexplained'}, {'multi_case': c, 'instance': k, 'order': order},
                     {'oracle': 'verdict and (node class, width, _is_explicit, _value) of every RTLIR node of an instance must equal those of '
                                'the same instance checked first in a fresh copy of the class',
                      'instance_args': args[k], 'checked_first': str(a)[:400], 'checked_in_order': str(b)[:400], 'source': srclines})
      # accepted => no width error with the instance's own constants
      for k in sorted(accepted_somewhere):
        mod = fresh(); m = inst(mod, k); m.apply(R.DefaultPassGroup())
        bad = None
        for j in range(nvec + 2):
          ins = {}
          for x, w, d in c['sigs']:
            if d == 'in':
              v = 0 if j == 0 else ((1 << w) - 1 if j == 1 else rand_value(ck.rng, w))
              sig = getattr(m, f'i{x}'); sig @= v; ins[x] = v
          try: m.sim_eval_combinational()
          except Exception as e:
            ce = canon_exc(e)
            if is_width_err(ce): bad = (ins, ce, str(e).split('\n')[0][:140]); break
        if bad is not None and ref[k][0] != 'ok':
          # only accepted because another instance was checked before it
          ck.hist('violations', 'instance-order-accepts @multi')
          ck.violation('accepted-block-raises-width-error', {'finding': 'unexplained'},
                       {'multi_case': c, 'instance': k, 'inputs': {str(a): b for a, b in bad[0].items()}},
                       {'oracle': 'an instance accepted by the real type checker (after another instance of its class) raises in simulation',
                        'instance_args': args[k], 'exception': bad[1], 'message': bad[2], 'source': srclines})
    # model vs implementation (and the usual oracle) for every instance as a class of its own
    insts = []
    for c in cases:
      for k in range(len(c['insts'])): insts.append(G.instantiate(c, k))
  finally:
    signal.alarm(0); G.drop_modules(); gc.enable(); gc.collect(1)
  process(ck, insts, nvec)

# ------------------------------------------------------------------ oracle-only streams (bitstructs, constant lists)

def canon_exc_struct(e):
  c = canon_exc(e)
  if c == 'AssertionError' and 'bitstruct' in str(e) and '<>' in str(e): return 'AssertionError:width'
  return c

def process_src(ck, cases, nvec):
  """source-level cases of c10_struct.py: real Gen + TypeCheck (all levels) and DefaultPassGroup simulation; no model"""
  import signal, gc
  R = real()
  signal.signal(signal.SIGALRM, _watchdog); signal.alarm(120); gc.disable()
  try:
    mod, names = ST.load(ck.workdir, cases)
    for c, name in zip(cases, names):
      cls = getattr(mod, name)
      try:
        verdict, rtlir, msg = real_check(cls)
      except Exception as e:
        ck.hist('outcome_src', 'elaboration-failed:' + type(e).__name__); ck.count(c, False); continue
      ck.count(c, True); ck.hist('stream', c['stream']); ck.hist('outcome_src', c['stream'] + ' ' + verdict)
      if verdict != 'ok': continue
      m = cls(); m.elaborate(); m.apply(R.DefaultPassGroup())
      bad, wviol = None, []
      nodes = ST.explicit_nodes(R, rtlir)
      def widths_ok():
        for src, sw in nodes:
          try: v = eval(src, mod.__dict__, {'s': m})
          except Exception: continue
          nb = getattr(v, 'nbits', None)
          if isinstance(nb, int) and not isinstance(v, type):
            if nb != sw: wviol.append((src, sw, nb))
          elif isinstance(v, int) and not (-(1 << (sw - 1)) <= v < (1 << sw)):
            wviol.append((src, sw, f'int {v}'))      # an int value the static width cannot hold
      sweep = c.get('sweep')
      nsweep = 0
      for n, d, t in c['ports']:
        if n == sweep: nsweep = 1 << int(t[4:])
      for k in range(nvec + 2 + nsweep):
        ins = {}
        for n, d, t in c['ports']:
          if d == 'in' and t.startswith('Bits'):
            w = int(t[4:]); v = 0 if k == 0 else ((1 << w) - 1 if k == 1 else rand_value(ck.rng, w))
            if n == sweep and k >= nvec + 2: v = k - (nvec + 2)
            sig = getattr(m, n); sig @= v; ins[n] = v
        try: m.sim_eval_combinational()
        except Exception as e:
          ce = canon_exc_struct(e)
          ck.hist('sim_outcome_src', 'err ' + ce)
          if ce.endswith(':width') or ce.endswith(':range') or ce == 'ValueError:other':
            bad = (ins, ce, str(e).split('\n')[0][:140]); break
          continue
        ck.hist('sim_outcome_src', 'ok')
        if sweep and not wviol: widths_ok()
      if bad is None and not wviol: widths_ok()
      f = FINDING_OF_STREAM.get(c['stream'], REPAIRED_STREAMS.get(c['stream'], 'unexplained'))
      if bad is not None:
        ck.hist('violations', f + ' @' + c['stream'])
        ck.violation('accepted-block-raises-width-error', {'finding': f}, {'src_case': c, 'inputs': bad[0]},
                     {'oracle': 'real type checker accepted the block; real simulation (DefaultPassGroup) raised',
                      'exception': bad[1], 'message': bad[2], 'source': ST.source(c)[1]})
      elif wviol:
        ck.hist('violations', f + ' @' + c['stream'])
        ck.violation('static-width-differs-from-runtime-nbits', {'finding': f}, {'src_case': c},
                     {'oracle': 'explicitly sized RTLIR node: static width vs nbits of the Python value',
                      'nodes(src, static, runtime)': wviol[:3], 'source': ST.source(c)[1]})
      elif c['stream'] in FINDING_OF_STREAM: ck.hist('labelled_without_failure', c['stream'])
  finally:
    signal.alarm(0); ST.drop(); gc.enable(); _collect()

def _unparse(x):
  if isinstance(x, list): return '(' + ' '.join(_unparse(y) for y in x) + ')'
  return x

# ------------------------------------------------------------------ literal widths, int arithmetic

def least_width(v):
  w = 1
  while v >= (1 << w): w += 1
  return w

def check_literals(ck, n):
  from pymtl3.passes.rtlir.rtype import RTLIRDataType as rdt
  from pymtl3.passes.rtlir.behavioral.BehavioralRTLIRTypeCheckL1Pass import BehavioralRTLIRTypeCheckVisitorL1 as V1
  rng = ck.rng
  vals = list(range(0, 70)) + [(1 << k) + d for k in range(1, 130) for d in (-1, 0, 1)]
  vals += [rng.getrandbits(rng.randint(1, 140)) for _ in range(n)]
  vals += [-v for v in vals[:400]]
  out = ck.drv('tc').batch([leanio.line('tc', 'nbits', v) for v in vals])
  for v, mo in zip(vals, out):
    a = int(rdt._get_nbits_from_value(v)); b = int(V1._get_nbits_from_value(None, v))
    ck.count(['nbits', v], True)
    if v >= 0 and (a != least_width(v) or b != least_width(v)):
      ck.violation('literal-width-not-minimal', {'finding': 'literal-width'}, ['nbits', v],
                   {'RTLIRDataType': a, 'TypeCheckL1': b, 'least': least_width(v), 'oracle': 'least w>=1 with v < 2**w'})
    elif f'int {a}' != mo or a != b:
      ck.disagreement('nbitsInt≈_get_nbits_from_value', ['nbits', v], mo, f'int {a} / int {b}')
  ws = list(range(1, 1024))
  out = ck.drv('tc').batch([leanio.line('tc', 'idxw', w) for w in ws])
  for w, mo in zip(ws, out):
    a = int(rdt.Vector(w).get_index_width())
    if f'int {a}' != mo: ck.disagreement('idxW≈Vector.get_index_width', ['idxw', w], mo, f'int {a}')

def check_intops(ck, n):
  import operator
  rng = ck.rng
  ops = {'add': operator.add, 'sub': operator.sub, 'mul': operator.mul, 'band': operator.and_, 'bor': operator.or_,
         'bxor': operator.xor, 'mod': operator.mod, 'shl': operator.lshift, 'shr': operator.rshift}
  cases = []
  for _ in range(n):
    op = rng.choice(list(ops))
    l = rng.choice([0, 1, -1, 2, -2, 5, -5, 255, -256, rng.randint(-1 << 70, 1 << 70), rng.randint(-300, 300)])
    r = rng.choice([0, 1, -1, 2, -3, 7, 64, rng.randint(-300, 300)]) if op in ('shl', 'shr') else \
        rng.choice([0, 1, -1, 2, -2, 12, -12, rng.randint(-1 << 70, 1 << 70), rng.randint(-300, 300)])
    cases.append((op, l, r))
  out = ck.drv('tc').batch([leanio.line('tc', 'iop', *c) for c in cases])
  for c, mo in zip(cases, out):
    try: impl = f'int {ops[c[0]](c[1], c[2])}'
    except Exception as e: impl = 'err ' + canon_exc(e)
    if impl != mo: ck.disagreement('intBin≈Python int arithmetic', list(c), mo, impl)
  rcases = [(rng.randint(-2, 6), rng.randint(-2, 8), rng.choice([1, 1, 2, 3, -1, -2, -3])) for _ in range(n // 4)]
  out = ck.drv('tc').batch([leanio.line('tc', 'range', *c) for c in rcases])
  for c, mo in zip(rcases, out):
    impl = '(' + ' '.join(str(x) for x in range(*c)) + ')'
    if mo.rsplit(' ', 1)[0] != impl: ck.disagreement('pyRange≈range()', list(c), mo, impl)

# ------------------------------------------------------------------ directed corpus

def corpus():
  S = lambda x, w: ['sig', x, w]
  N = lambda v: ['num', v, 'lit']
  def mk(uid, sigs, block, stream='corpus'):
    return {'uid': uid, 'stream': stream, 'sigs': sigs, 'block': block}
  io8 = [[0, 8, 'in'], [1, 8, 'in'], [2, 1, 'in'], [3, 8, 'out']]
  io4 = [[0, 4, 'in'], [1, 4, 'in'], [2, 1, 'in'], [3, 4, 'out']]
  cs = [
    # the witnesses of DESIGN.md §6 and of the new findings
    mk(0, [[0, 4, 'out']], [['asg', S(0, 4), N(300)]], 'F4'),
    mk(1, [[0, 2, 'in'], [1, 2, 'out']], [['for', 0, 0, 4, 1, [['asg', S(1, 2), ['bin', 'add', S(0, 2), ['bin', 'add', ['lv', 0], N(1)]]]]]], 'F12'),
    mk(2, io8, [['asg', S(3, 8), ['bin', 'add', S(0, 8), ['bin', 'sub', N(1), N(2)]]]], 'F12'),
    mk(3, io8, [['asg', S(3, 8), ['bin', 'add', S(0, 8), ['un', 'neg', N(1)]]]], 'F12'),
    mk(4, [[0, 3, 'in'], [1, 1, 'in'], [2, 3, 'out']],
       [['ifs', S(1, 1), [['tasg', 0, N(5)]], [['tasg', 0, S(0, 3)]]], ['asg', S(2, 3), ['bin', 'add', ['tmp', 0], ['tmp', 0]]]], 'N1'),
    mk(5, io4, [['asg', S(3, 4), ['bin', 'add', S(0, 4), ['ite', S(2, 1), N(1), N(200)]]]], 'N2'),
    mk(6, [[0, 3, 'out']], [['asg', S(0, 3), ['bin', 'add', ['cast', 8, N(3), 'call'], N(1)]]], 'N3'),
    mk(7, io8, [['asg', S(3, 8), ['bin', 'add', ['ite', S(2, 1), S(0, 8), N(200)], ['ite', S(2, 1), S(1, 8), N(100)]]]], 'N4'),
    mk(29, [[0, 8, 'in'], [1, 8, 'in'], [2, 1, 'in'], [3, 1, 'out']],
       [['asg', S(3, 1), ['ite', S(2, 1), ['cmp', 'lt', S(0, 8), S(1, 8)], S(1, 8)]]], 'N5'),
    # ordinary accepted shapes
    mk(8, io8, [['asg', S(3, 8), ['bin', 'add', S(0, 8), N(255)]]]),
    mk(9, io8, [['asg', S(3, 8), ['ite', S(2, 1), S(0, 8), N(0)]]]),
    mk(10, io8, [['for', 0, 0, 8, 1, [['asg', ['idx', 3, 8, ['lv', 0]], ['bin', 'band', ['idx', 0, 8, ['lv', 0]], ['idx', 1, 8, ['lv', 0]]]]]]]),
    mk(11, io8, [['for', 0, 0, 2, 1, [['asg', ['slc', 3, 8, ['bin', 'mul', ['lv', 0], N(4)], ['bin', 'add', ['bin', 'mul', ['lv', 0], N(4)], N(4)]],
                                       ['slc', 0, 8, ['bin', 'mul', ['lv', 0], N(4)], ['bin', 'add', ['bin', 'mul', ['lv', 0], N(4)], N(4)]]]]]]),
    mk(12, io8, [['tasg', 0, ['bin', 'bxor', S(0, 8), S(1, 8)]], ['asg', S(3, 8), ['bin', 'shr', ['tmp', 0], N(3)]]]),
    mk(13, io8, [['asg', S(3, 8), ['catn', [['slc', 0, 8, N(0), N(3)], ['ext', 'zext', False, ['slc', 1, 8, N(4), N(8)], 5]]]]]),
    mk(14, io8, [['asg', S(3, 8), ['ext', 'sext', True, ['slc', 0, 8, N(0), N(4)], 8]]]),
    mk(15, io8, [['ifs', ['cmp', 'lt', S(0, 8), N(128)], [['asg', S(3, 8), ['un', 'inv', S(1, 8)]]], [['asg', S(3, 8), ['cast', 8, N(7), 'const']]]]]),
    # rejected shapes
    mk(16, io8, [['asg', S(3, 8), ['bin', 'add', S(0, 8), S(2, 1)]]]),
    mk(17, io8, [['asg', S(3, 8), ['bin', 'add', S(0, 8), N(256)]]]),
    mk(18, io8, [['asg', S(3, 8), ['cmp', 'eq', S(0, 8), S(1, 8)]]]),
    mk(19, io8, [['asg', S(3, 8), ['ite', S(2, 1), S(0, 8), S(2, 1)]]]),
    mk(20, io8, [['asg', S(3, 8), ['slc', 0, 8, N(4), N(2)]]]),
    mk(21, io8, [['asg', S(3, 8), ['ext', 'trunc', False, S(2, 1), 8]]]),
    mk(22, io8, [['asg', ['idx', 3, 8, N(8)], S(2, 1)]]),
    mk(23, io8, [['asg', S(3, 8), ['bin', 'add', S(0, 8), ['bin', 'mod', N(5), N(0)]]]]),
    mk(24, io8, [['asg', S(3, 8), ['tmp', 0]]]),
    mk(25, io8, [['for', 0, 0, 4, 0, [['asg', S(3, 8), S(0, 8)]]]]),
    # the property's own exclusions
    mk(26, io8, [['asg', S(3, 8), ['cast', 8, S(2, 1), 'call']]]),
    mk(27, io8, [['asg', S(3, 8), ['bin', 'shl', S(0, 8), S(2, 1)]]]),
    mk(28, [[0, 2, 'in'], [1, 2, 'out']], [['asg', S(1, 2), ['bin', 'shl', S(0, 2), N(5)]]]),
    # descending ranges: the loop variable is sized by its first (largest) value
    mk(30, [[0, 3, 'in'], [1, 3, 'out']], [['for', 0, 8, 0, -1, [['asg', S(1, 3), ['bin', 'add', S(0, 3), ['lv', 0]]]]]]),
    mk(31, [[0, 4, 'out']], [['for', 0, 16, 0, -4, [['asg', S(0, 4), ['lv', 0]]]]]),
    mk(32, [[0, 3, 'in'], [1, 3, 'out']], [['for', 0, 8, 0, -1, [['ifs', ['cmp', 'eq', S(0, 3), ['lv', 0]], [['asg', S(1, 3), S(0, 3)]], []]]]]),
    # ~ applied directly to an explicitly sized constant: the constant keeps its width
    mk(61, [[0, 16, 'out']], [['asg', S(0, 16), ['un', 'inv', ['cast', 8, N(15), 'call']]]]),
    mk(62, [[0, 16, 'in'], [1, 16, 'out']], [['asg', S(1, 16), ['bin', 'band', S(0, 16), ['un', 'inv', ['cast', 8, N(15), 'const']]]]]),
    mk(63, [[0, 16, 'in'], [1, 1, 'out']], [['asg', S(1, 1), ['cmp', 'eq', S(0, 16), ['un', 'inv', ['cast', 8, N(15), 'globfv']]]]]),
    mk(64, [[0, 8, 'in'], [1, 8, 'out']], [['asg', S(1, 8), ['bin', 'band', S(0, 8), ['un', 'inv', ['cast', 8, N(15), 'locfv']]]]]),
    mk(65, [[0, 8, 'out']], [['asg', S(0, 8), ['un', 'inv', ['cast', 8, N(15), 'const']]]]),
    # BitsN constants referenced by bare name (module level / construct() local): explicit of their own width
    mk(54, io8, [['asg', S(3, 8), ['bin', 'add', S(0, 8), ['cast', 4, N(3), 'globfv']]]]),
    mk(55, io8, [['asg', S(3, 8), ['bin', 'add', S(0, 8), ['cast', 8, N(3), 'locfv']]]]),
    mk(56, io8, [['asg', S(3, 8), ['cast', 4, N(3), 'locfv']]]),
    mk(57, [[0, 8, 'in'], [1, 1, 'in'], [2, 8, 'out']], [['asg', S(2, 8), ['ite', S(1, 1), S(0, 8), ['cast', 4, N(3), 'globfv']]]]),
    mk(58, [[0, 8, 'in'], [1, 1, 'out']], [['asg', S(1, 1), ['cmp', 'eq', ['cast', 4, N(3), 'globfv'], S(0, 8)]]]),
    mk(59, io8, [['asg', S(3, 8), ['bin', 'add', S(0, 8), ['num', 200, 'loc']]]]),
    mk(60, [[0, 1, 'in'], [1, 1, 'out']], [['asg', S(1, 1), ['bin', 'band', S(0, 1), ['num', 1, 'globb']]]]),
    # mixed if-expressions (one literal branch, one explicitly sized branch) in a wider / equal context, both orders
    mk(47, [[0, 1, 'in'], [1, 8, 'in'], [2, 16, 'out']], [['asg', S(2, 16), ['ite', S(0, 1), N(0), S(1, 8)]]]),
    mk(48, [[0, 1, 'in'], [1, 8, 'in'], [2, 16, 'in'], [3, 16, 'out']],
       [['asg', S(3, 16), ['bin', 'add', S(2, 16), ['ite', S(0, 1), N(0), S(1, 8)]]]]),
    mk(49, [[0, 1, 'in'], [1, 8, 'in'], [2, 16, 'in'], [3, 1, 'out']],
       [['asg', S(3, 1), ['cmp', 'eq', S(2, 16), ['ite', S(0, 1), N(3), S(1, 8)]]]]),
    mk(50, [[0, 1, 'in'], [1, 8, 'in'], [2, 16, 'in'], [3, 16, 'out']],
       [['tasg', 0, ['ite', S(0, 1), N(1), S(1, 8)]], ['asg', S(3, 16), ['bin', 'band', S(2, 16), ['tmp', 0]]]]),
    mk(51, [[0, 1, 'in'], [1, 8, 'in'], [2, 8, 'out']], [['asg', S(2, 8), ['ite', S(0, 1), N(0), S(1, 8)]]]),
    mk(52, [[0, 1, 'in'], [1, 8, 'in'], [2, 8, 'in'], [3, 8, 'out']],
       [['asg', S(3, 8), ['bin', 'add', S(2, 8), ['ite', S(0, 1), S(1, 8), N(7)]]]]),
    mk(53, [[0, 1, 'in'], [1, 8, 'in'], [2, 16, 'out']], [['asg', S(2, 16), ['ite', S(0, 1), S(1, 8), N(0)]]]),
    # straight-line re-assignment of a temporary: type and explicitness of the LAST assignment count
    mk(40, [[0, 1, 'in'], [1, 8, 'out']], [['tasg', 0, N(1)], ['tasg', 0, S(0, 1)], ['asg', S(1, 8), ['tmp', 0]]]),
    mk(41, [[0, 8, 'in'], [1, 8, 'in'], [2, 8, 'out']],
       [['tasg', 0, N(0)], ['tasg', 0, ['cmp', 'lt', S(0, 8), S(1, 8)]], ['asg', S(2, 8), ['bin', 'add', S(0, 8), ['tmp', 0]]]]),
    mk(42, [[0, 3, 'in'], [1, 8, 'in'], [2, 1, 'out']],
       [['tasg', 0, N(5)], ['tasg', 0, S(0, 3)], ['asg', S(2, 1), ['cmp', 'eq', S(1, 8), ['tmp', 0]]]]),
    mk(43, [[0, 3, 'in'], [1, 8, 'in'], [2, 8, 'out']],
       [['tasg', 0, S(0, 3)], ['tasg', 0, N(5)], ['asg', S(2, 8), ['bin', 'add', S(1, 8), ['tmp', 0]]]]),
    mk(44, [[0, 3, 'in'], [1, 3, 'out']], [['tasg', 0, N(5)], ['tasg', 0, S(0, 3)], ['asg', S(1, 3), ['tmp', 0]]]),
    mk(45, [[0, 3, 'in'], [1, 4, 'in'], [2, 3, 'out']], [['tasg', 0, S(0, 3)], ['tasg', 0, S(1, 4)], ['asg', S(2, 3), ['tmp', 0]]]),
    mk(46, [[0, 1, 'in'], [1, 8, 'out']],
       [['for', 0, 0, 2, 1, [['tasg', 0, ['lv', 0]], ['tasg', 0, S(0, 1)], ['asg', S(1, 8), ['tmp', 0]]]]]),
    # a comparison result (rdt.Bool, one bit) against an 8-bit / 1-bit operand, on either side
    mk(34, io8, [['asg', S(3, 8), ['bin', 'band', S(0, 8), ['cmp', 'lt', S(0, 8), S(1, 8)]]]]),
    mk(35, io8, [['asg', S(3, 8), ['bin', 'band', ['cmp', 'lt', S(0, 8), S(1, 8)], S(0, 8)]]]),
    mk(36, [[0, 8, 'in'], [1, 8, 'in'], [2, 1, 'out']], [['asg', S(2, 1), ['cmp', 'eq', S(0, 8), ['cmp', 'lt', S(0, 8), S(1, 8)]]]]),
    mk(37, [[0, 8, 'in'], [1, 8, 'in'], [2, 1, 'out']], [['asg', S(2, 1), ['cmp', 'eq', ['cmp', 'lt', S(0, 8), S(1, 8)], S(0, 8)]]]),
    mk(38, [[0, 8, 'in'], [1, 1, 'in'], [2, 1, 'out']], [['asg', S(2, 1), ['bin', 'bor', S(1, 1), ['cmp', 'lt', S(0, 8), S(0, 8)]]]]),
    mk(39, [[0, 8, 'in'], [1, 1, 'in'], [2, 1, 'out']], [['asg', S(2, 1), ['bin', 'bxor', ['un', 'inv', ['cmp', 'ge', S(0, 8), S(0, 8)]], S(1, 1)]]]),
    mk(33, [[0, 3, 'in'], [1, 3, 'out']], [['for', 0, 7, 0, -2, [['asg', S(1, 3), ['bin', 'add', S(0, 3), ['lv', 0]]]]]]),
  ]
  return cs

def run(ck):
  rng = ck.rng
  quick = ck.tier == 'quick'
  nvec = 2 if quick else 4
  check_literals(ck, 400 if quick else 20000)
  check_intops(ck, 2000 if quick else 60000)
  process(ck, corpus(), nvec)
  process_src(ck, ST.corpus(), nvec)
  canon = [ST.gen_hetero(rng, 900101, 'N7', True), ST.gen_hetero(rng, 900102, 'N8', True)]
  if N9_FIXED: canon.append(ST.gen_structinst(rng, 900103, True))
  process_src(ck, canon, nvec)
  uid = [1000]
  def batch(n, f):
    cs = []
    for _ in range(n):
      uid[0] += 1
      cs.append(f(uid[0]))
    process(ck, cs, nvec)
  rounds = 19 if quick else 70
  per = 110 if quick else 300
  for _ in range(rounds):
    batch(per, lambda u: G.gen_typed(rng, u, 0.0, 'typed'))
    batch(per // 2, lambda u: G.gen_typed(rng, u, 0.08, 'noisy'))
    batch(per // 2, lambda u: G.gen_wild(rng, u))
    batch(12 if quick else 30, lambda u: G.gen_desc(rng, u))
    batch(12 if quick else 30, lambda u: G.gen_boolop(rng, u))
    batch(14 if quick else 36, lambda u: G.gen_tmpseq(rng, u))
    batch(14 if quick else 36, lambda u: G.gen_mixite(rng, u))
    batch(14 if quick else 36, lambda u: G.gen_fvar(rng, u))
    batch(12 if quick else 30, lambda u: G.gen_unconst(rng, u))
    mc = []
    for _ in range(5 if quick else 14):
      uid[0] += 1; mc.append(G.gen_multi(rng, uid[0]))
    process_multi(ck, mc, nvec)
    nsrc = (10, 3, 2, 8, 5) if quick else (30, 8, 6, 24, 14)
    src_cases = []
    for n, f in zip(nsrc, (lambda u: ST.gen_struct(rng, u), lambda u: ST.gen_lut(rng, u, 'N6'), lambda u: ST.gen_lut(rng, u, 'lutctl'),
                           lambda u: ST.gen_intlut(rng, u), lambda u: ST.gen_matstruct(rng, u))):
      for _ in range(n):
        uid[0] += 1; src_cases.append(f(uid[0]))
    for which in ('N7', 'N8'):
      for _ in range(2 if quick else 5):
        uid[0] += 1; src_cases.append(ST.gen_hetero(rng, uid[0], which))
    if N9_FIXED:
      for _ in range(3 if quick else 8):
        uid[0] += 1; src_cases.append(ST.gen_structinst(rng, uid[0]))
    process_src(ck, src_cases, nvec)
    for which in ('F4', 'F12', 'N1', 'N2', 'N3', 'N4', 'N5'):
      batch(6 if quick else 20, lambda u: G.gen_finding(rng, u, which))
    if len(ck.breaks) > 50 or sum(1 for v in ck.violations if v.signature.get('finding') not in FINDING_OF_STREAM.values()) > 20: break

def replay(ck, data):
  case = data['case']
  if isinstance(case, list) and case and case[0] == 'nbits':
    from pymtl3.passes.rtlir.rtype import RTLIRDataType as rdt
    v = case[1]; a = int(rdt._get_nbits_from_value(v))
    print(f'_get_nbits_from_value({v}) = {a}; least width = {least_width(v)}; model: ' + ck.drv('tc').batch([leanio.line('tc', 'nbits', v)])[0])
    return 0 if v < 0 or a == least_width(v) else 1
  if isinstance(case, dict) and 'case' in case: case = case['case']
  if isinstance(case, dict) and 'multi_case' in case:
    n0 = len(ck.violations)
    print(G.multi_source(case['multi_case'])[0])
    process_multi(ck, [case['multi_case']], 4)
    for v in ck.violations[n0:][:2]: print('VIOLATION', v.kind, v.signature, v.detail.get('instance_args'), v.detail.get('checked_first'), v.detail.get('checked_in_order'))
    return 1 if len(ck.violations) > n0 else 0
  if isinstance(case, dict) and 'src_case' in case:
    n0 = len(ck.violations)
    sc = case['src_case']
    print('\n'.join(ST.source(sc)[1]))
    for k in range(4): process_src(ck, [dict(sc, uid=sc['uid'] * 10 + k, types=[[t[0], t[1]] for t in sc['types']])], 4)
    for v in ck.violations[n0:][:2]: print('VIOLATION', v.kind, v.signature, v.detail.get('exception'), v.detail.get('message'))
    return 1 if len(ck.violations) > n0 else 0
  if not isinstance(case, dict) or 'block' not in case:
    print('no replayable block in', data.get('kind')); return 0
  n0 = len(ck.violations)
  print('\n'.join(G.class_source(case)[1]))
  print('model:', ck.drv('tc').batch([leanio.line('tc', 'check', G.stmts_to_model(case['block']))])[0])
  for k in range(8):
    process(ck, [dict(case, uid=case['uid'] * 100 + k)], 4)
  for v in ck.violations[n0:][:2]: print('VIOLATION', v.kind, v.signature, v.detail.get('exception'), v.detail.get('message'))
  for b in ck.breaks[:2]: print('DISAGREEMENT', b)
  return 1 if len(ck.violations) > n0 else 0
