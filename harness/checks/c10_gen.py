"""C10 helper: random update blocks over the core language of Model/TC.lean.

A case is JSON-able:
  {'uid': int, 'stream': str, 'sigs': [[x, w, 'in'|'out'], ...], 'block': [stmt, ...]}
expressions (lists):
  ['sig', x, w]  ['num', v, style]  ['lv', i]  ['tmp', t]  ['un', op, e]  ['bin', op, l, r]  ['cmp', op, l, r]
  ['ite', c, t, f]  ['cast', n, e, style]  ['ext', kind, ty, e, n]  ['red', op, e]  ['catn', [e, ...]]
  ['idx', x, w, i]  ['slc', x, w, lo, hi]
statements:
  ['asg', tgt, e]  ['tasg', t, e]  ['ifs', c, [body], [orelse]]  ['for', i, start, stop, step, [body]]
`style` only changes how a literal is written ('lit' 12, 'hex' 0xc, 'glob' a module-level int constant;
cast style 'const' = a module-level Bits constant), the model sees the same term.
"""
import importlib.util, os, sys

BINOP = {'add': '+', 'sub': '-', 'mul': '*', 'band': '&', 'bor': '|', 'bxor': '^', 'mod': '%', 'shl': '<<', 'shr': '>>'}
CMPOP = {'eq': '==', 'ne': '!=', 'lt': '<', 'le': '<=', 'gt': '>', 'ge': '>='}
MAXOPS = ['add', 'sub', 'mul', 'band', 'bor', 'bxor', 'mod']
SHIFTS = ['shl', 'shr']
WIDTHS = [1, 2, 3, 4, 5, 8, 9, 16, 31, 32, 33, 64, 70]

# ------------------------------------------------------------------ rendering

def signame(case, x):
  for sx, w, d in case['sigs']:
    if sx == x: return ('s.i%d' if d == 'in' else 's.o%d') % x
  raise KeyError(x)

def render(case, e):
  k = e[0]
  if k == 'sig': return signame(case, e[1])
  if k == 'num':
    v, style = e[1], e[2]
    if style.startswith('attr:'): return f's.P{style[5:]}'
    if style.startswith('cfg:'): return f's.cfg.n{style[4:]}'
    if style == 'glob': return f'KI_{v}'
    if style == 'loc': return f'LI_{v}'
    if style == 'globb': return f'KB_{v}'
    if style == 'hex': return hex(v)
    return str(v)
  if k == 'lv': return f'i{e[1]}'
  if k == 'tmp': return f't{e[1]}'
  if k == 'un': return ('~' if e[1] == 'inv' else '-') + '(' + render(case, e[2]) + ')'
  if k == 'bin': return '(' + render(case, e[2]) + ' ' + BINOP[e[1]] + ' ' + render(case, e[3]) + ')'
  if k == 'cmp': return '(' + render(case, e[2]) + ' ' + CMPOP[e[1]] + ' ' + render(case, e[3]) + ')'
  if k == 'ite': return '(' + render(case, e[2]) + ' if ' + render(case, e[1]) + ' else ' + render(case, e[3]) + ')'
  if k == 'cast':
    if e[3].startswith('attr:'): return f's.P{e[3][5:]}'
    if e[3].startswith('cfg:'): return f's.cfg.n{e[3][4:]}'
    if e[3].startswith('tab:'): return f's.T{e[3][4:]}[ 1 ]'
    if e[3] == 'const': return f's.KB{e[1]}_{e[2][1]}'
    if e[3] == 'globfv': return f'KG{e[1]}_{e[2][1]}'
    if e[3] == 'locfv': return f'LB{e[1]}_{e[2][1]}'
    return f'Bits{e[1]}( ' + render(case, e[2]) + ' )'
  if k == 'ext':
    return f'{e[1]}( ' + render(case, e[3]) + ', ' + (f'Bits{e[4]}' if e[2] else str(e[4])) + ' )'
  if k == 'red': return f'reduce_{e[1]}( ' + render(case, e[2]) + ' )'
  if k == 'catn': return 'concat( ' + ', '.join(render(case, x) for x in e[1]) + ' )'
  if k == 'idx': return signame(case, e[1]) + '[ ' + render(case, e[3]) + ' ]'
  if k == 'slc': return signame(case, e[1]) + '[ ' + render(case, e[3]) + ' : ' + render(case, e[4]) + ' ]'
  raise ValueError(k)

def render_stmts(case, stmts, ind):
  out = []
  pad = '  ' * ind
  for st in stmts:
    k = st[0]
    if k == 'asg': out.append(pad + render(case, st[1]) + ' @= ' + render(case, st[2]))
    elif k == 'tasg': out.append(pad + f't{st[1]} = ' + render(case, st[2]))
    elif k == 'ifs':
      out.append(pad + 'if ' + render(case, st[1]) + ':')
      out += render_stmts(case, st[2], ind + 1)
      if st[3]:
        out.append(pad + 'else:')
        out += render_stmts(case, st[3], ind + 1)
    elif k == 'for':
      i, a, b, c = st[1], st[2], st[3], st[4]
      if c == 1 and a == 0: args = f'{b}'
      elif c == 1: args = f'{a}, {b}'
      else: args = f'{a}, {b}, {c}'
      out.append(pad + f'for i{i} in range( {args} ):')
      out += render_stmts(case, st[5], ind + 1)
    else: raise ValueError(k)
  return out

def walk_exprs(e, f):
  """preorder over generator nodes"""
  f(e)
  k = e[0]
  if k in ('un', 'red'): walk_exprs(e[2], f)
  elif k in ('bin', 'cmp'): walk_exprs(e[2], f); walk_exprs(e[3], f)
  elif k == 'ite': walk_exprs(e[1], f); walk_exprs(e[2], f); walk_exprs(e[3], f)
  elif k == 'cast': walk_exprs(e[2], f)
  elif k == 'ext': walk_exprs(e[3], f)
  elif k == 'catn':
    for x in e[1]: walk_exprs(x, f)
  elif k == 'idx': walk_exprs(e[3], f)
  elif k == 'slc': walk_exprs(e[3], f); walk_exprs(e[4], f)

def top_exprs(stmts, env=None, out=None):
  """every maximal expression of the block with its enclosing loops: [(expr, [(i, a, b, c), ...])]"""
  env = env or []
  out = [] if out is None else out
  for st in stmts:
    k = st[0]
    if k == 'asg': out.append((st[1], list(env))); out.append((st[2], list(env)))
    elif k == 'tasg': out.append((st[2], list(env)))
    elif k == 'ifs':
      out.append((st[1], list(env)))
      top_exprs(st[2], env, out); top_exprs(st[3], env, out)
    elif k == 'for':
      top_exprs(st[5], env + [(st[1], st[2], st[3], st[4])], out)
  return out

def tmp_defs(stmts, out=None):
  """textual order of temporary assignments [(t, expr)]"""
  out = [] if out is None else out
  for st in stmts:
    if st[0] == 'tasg': out.append((st[1], st[2]))
    elif st[0] == 'ifs': tmp_defs(st[2], out); tmp_defs(st[3], out)
    elif st[0] == 'for': tmp_defs(st[5], out)
  return out

def param_attrs(case):
  """per-instance constants read through attributes of the component: {slot: (kind, source of the value)}"""
  out = {}
  def see(e):
    if e[0] == 'num' and ':' in e[2]:
      kind, j = e[2].split(':'); out[int(j)] = (kind, str(e[1]))
    if e[0] == 'cast' and ':' in e[3]:
      kind, j = e[3].split(':'); out[int(j)] = (kind, f'Bits{e[1]}( {e[2][1]} )')
  for ex, _ in top_exprs(case['block']): walk_exprs(ex, see)
  return out

def param_lines(pa, value_of):
  """construct() lines that bind the constants; value_of(j, src) = the text to assign"""
  lines = []
  if any(k == 'cfg' for k, _ in pa.values()): lines.append('s.cfg = Cfg()')
  for j, (kind, src) in sorted(pa.items()):
    v = value_of(j, src)
    if kind == 'attr': lines.append(f's.P{j} = {v}')
    elif kind == 'cfg': lines.append(f's.cfg.n{j} = {v}')
    elif kind == 'tab': lines.append(f's.T{j} = [ {v}, {v} ]')
  return lines

def free_vars(case):
  """bare-name constants of the block: module level [(name, source)], construct() locals [(name, source)]"""
  glob, loc = {}, {}
  def see(e):
    if e[0] == 'num':
      if e[2] == 'loc': loc[f'LI_{e[1]}'] = str(e[1])
      if e[2] == 'globb': glob[f'KB_{e[1]}'] = 'True' if e[1] else 'False'
    if e[0] == 'cast':
      if e[3] == 'globfv': glob[f'KG{e[1]}_{e[2][1]}'] = f'Bits{e[1]}( {e[2][1]} )'
      if e[3] == 'locfv': loc[f'LB{e[1]}_{e[2][1]}'] = f'Bits{e[1]}( {e[2][1]} )'
  for ex, _ in top_exprs(case['block']): walk_exprs(ex, see)
  return sorted(glob.items()), sorted(loc.items())

def class_source(case):
  cons_i, cons_b, widths = set(), set(), set()
  def see(e):
    if e[0] == 'num' and e[2] == 'glob': cons_i.add(e[1])
    if e[0] == 'cast':
      widths.add(e[1])
      if e[3] == 'const': cons_b.add((e[1], e[2][1]))
    if e[0] == 'ext' and e[2]: widths.add(e[4])
  for ex, _ in top_exprs(case['block']): walk_exprs(ex, see)
  for x, w, d in case['sigs']: widths.add(w)
  lines = []
  name = f'C10_{case["uid"]}'
  lines.append(f'class {name}( Component ):')
  lines.append('  def construct( s ):')
  for x, w, d in case['sigs']:
    lines.append(f'    s.{"i" if d == "in" else "o"}{x} = {"InPort" if d == "in" else "OutPort"}( Bits{w} )')
  for n, v in sorted(cons_b): lines.append(f'    s.KB{n}_{v} = Bits{n}( {v} )')
  for nm, src in free_vars(case)[1]: lines.append(f'    {nm} = {src}')
  for l in param_lines(param_attrs(case), lambda j, src: src): lines.append('    ' + l)
  lines.append('    @update')
  lines.append('    def up():')
  body = render_stmts(case, case['block'], 3)
  lines += body
  return name, lines, cons_i, cons_b, widths

def module_source(cases):
  cons_i, cons_b, widths = set(), set(), set()
  body, names = [], []
  for c in cases:
    name, lines, ci, cb, ws = class_source(c)
    names.append(name); body += lines + ['']
    cons_i |= ci; cons_b |= cb; widths |= ws
  head = ['from pymtl3 import *', 'from pymtl3.datatypes import mk_bits', '', 'class Cfg: pass', '']
  for w in sorted(widths): head.append(f'Bits{w} = mk_bits( {w} )')
  for v in sorted(cons_i): head.append(f'KI_{v} = {v}')
  gl = {}
  for c in cases: gl.update(dict(free_vars(c)[0]))
  for nm, src in sorted(gl.items()): head.append(f'{nm} = {src}')
  return '\n'.join(head + [''] + body) + '\n', names

_modcount = [0]
_loaded = []
def drop_modules():
  """forget the generated modules of finished batches"""
  for m in _loaded: sys.modules.pop(m, None)
  del _loaded[:]

def load_module(workdir, cases):
  src, names = module_source(cases)
  _modcount[0] += 1
  modname = f'c10gen_{os.getpid()}_{_modcount[0]}'
  path = os.path.join(workdir, modname + '.py')
  with open(path, 'w') as f: f.write(src)
  spec = importlib.util.spec_from_file_location(modname, path)
  mod = importlib.util.module_from_spec(spec)
  sys.modules[modname] = mod
  _loaded.append(modname)
  spec.loader.exec_module(mod)
  return mod, names

# ------------------------------------------------------------------ model terms

def to_model(e):
  k = e[0]
  if k == 'sig': return ('sig', e[1], e[2])
  if k == 'num': return ('num', e[1])
  if k == 'lv': return ('lv', e[1])
  if k == 'tmp': return ('tmp', e[1])
  if k == 'un': return ('un', e[1], to_model(e[2]))
  if k in ('bin', 'cmp'): return (k, e[1], to_model(e[2]), to_model(e[3]))
  if k == 'ite': return ('ite', to_model(e[1]), to_model(e[2]), to_model(e[3]))
  if k == 'cast': return ('cast', e[1], to_model(e[2]))
  if k == 'ext': return ('ext', e[1], bool(e[2]), to_model(e[3]), e[4])
  if k == 'red': return ('red', e[1], to_model(e[2]))
  if k == 'catn':
    xs = [to_model(x) for x in e[1]]
    t = xs[-1]
    for x in reversed(xs[:-1]): t = ('cat', x, t)
    return t
  if k == 'idx': return ('idx', e[1], e[2], to_model(e[3]))
  if k == 'slc': return ('slc', e[1], e[2], to_model(e[3]), to_model(e[4]))
  raise ValueError(k)

def stmts_to_model(stmts):
  if not stmts: return ('skip',)
  ms = [stmt_to_model(s) for s in stmts]
  t = ms[-1]
  for m in reversed(ms[:-1]): t = ('seq', m, t)
  return t

def stmt_to_model(st):
  k = st[0]
  if k == 'asg': return ('asg', to_model(st[1]), to_model(st[2]))
  if k == 'tasg': return ('tasg', st[1], to_model(st[2]))
  if k == 'ifs': return ('ifs', to_model(st[1]), stmts_to_model(st[2]), stmts_to_model(st[3]))
  if k == 'for': return ('for', st[1], st[2], st[3], st[4], stmts_to_model(st[5]))
  raise ValueError(k)

def sub_sources(case, e):
  """source text of every sub-expression in the model's preorder (`subs` of Driver/Tc.lean)"""
  out = []
  def go(e):
    k = e[0]
    if k == 'catn':
      xs = e[1]
      for j in range(len(xs) - 1):
        out.append('concat( ' + ', '.join(render(case, x) for x in xs[j:]) + ' )')
        go(xs[j])
      go(xs[-1])
      return
    out.append(render(case, e))
    if k in ('un', 'red'): go(e[2])
    elif k in ('bin', 'cmp'): go(e[2]); go(e[3])
    elif k == 'ite': go(e[1]); go(e[2]); go(e[3])
    elif k == 'cast': go(e[2])
    elif k == 'ext': go(e[3])
    elif k == 'idx': go(e[3])
    elif k == 'slc': go(e[3]); go(e[4])
  go(e)
  return out

# ------------------------------------------------------------------ generation

def lit_value(rng, w):
  """a literal that fits w bits, boundary biased"""
  top = (1 << w) - 1
  r = rng.random()
  if r < 0.35: return rng.choice([0, 1, top, top >> 1, (top >> 1) + 1, min(top, 2), min(top, 3)])
  if w > 8 and r < 0.6: return rng.randint(0, 255)
  return rng.randint(0, top)

def num(rng, v):
  r = rng.random()
  if r < 0.05: return ['num', v, 'loc']                      # an int local of construct() captured by the block
  if r < 0.08 and v <= 1: return ['num', v, 'globb']          # a module-level bool
  return ['num', v, 'glob' if r < 0.18 else ('hex' if r < 0.3 else 'lit')]

def bits_const(rng, n, v):
  """a BitsN constant: cast call, component attribute, module-level name or construct() local"""
  if v >= (1 << n): return ['cast', n, ['num', v, 'lit'], 'call']      # does not fit: only the call form can be written
  return ['cast', n, ['num', v, 'lit'], rng.choice(['call', 'const', 'globfv', 'locfv'])]

class Gen:
  """type-directed generator: `hard(w)` builds a term that is a w-bit Bits value, `soft(w)` one that may
  also be a literal / loop variable that fits; `noise` is the probability of a deliberate defect
  (wrong width, oversized literal, int-int arithmetic) at each choice point."""
  def __init__(self, rng, uid, stream, noise):
    self.rng, self.uid, self.stream, self.noise = rng, uid, stream, noise
    nin = rng.randint(2, 5)
    ws = [rng.choice(WIDTHS) for _ in range(nin)]
    if rng.random() < 0.7: ws[0] = rng.choice([4, 8]); ws[1] = ws[0]
    if rng.random() < 0.5: ws.append(1)
    self.sigs = [[x, w, 'in'] for x, w in enumerate(ws)]
    self.nout = 0
    self.lvs = []           # [(i, a, b, c)] enclosing loops
    self.tmps = {}          # t -> (w, explicit)
    self.next_lv = 0
    self.next_tmp = 0

  def ins(self, w=None):
    return [s for s in self.sigs if s[2] == 'in' and (w is None or s[1] == w)]

  def new_in(self, w):
    x = len(self.sigs); self.sigs.append([x, w, 'in']); return self.sigs[-1]

  def new_out(self, w):
    x = len(self.sigs); self.sigs.append([x, w, 'out']); self.nout += 1; return self.sigs[-1]

  def bad(self):
    return self.rng.random() < self.noise

  def width_near(self, w):
    if self.bad(): return max(1, w + self.rng.choice([-1, 1, 1, 2]))
    return w

  def sig(self, w):
    c = self.ins(w)
    s = self.rng.choice(c) if c and self.rng.random() < 0.85 else self.new_in(w)
    return ['sig', s[0], s[1]]

  def literal(self, w):
    """an implicit term that fits w bits"""
    rng = self.rng
    if self.bad():
      v = rng.choice([1 << w, (1 << w) + 1, (1 << (w + 1)) - 1, 1 << 70, (1 << w) + rng.randint(0, 300)])
      return num(rng, v)
    fit_lv = [l for l in self.lvs if self.lv_max(l) < (1 << w)]
    if fit_lv and rng.random() < 0.3: return ['lv', rng.choice(fit_lv)[0]]
    # a loop variable whose LAST value fits although an earlier (larger) one may not: must be rejected then
    last_fit = [l for l in self.lvs if 0 <= self.lv_last(l) < (1 << w)]
    if last_fit and rng.random() < 0.12 + 2 * self.noise: return ['lv', rng.choice(last_fit)[0]]
    fit_t = [t for t, (tw, ex) in self.tmps.items() if not ex and tw <= w]
    if fit_t and rng.random() < 0.2: return ['tmp', rng.choice(fit_t)]
    if rng.random() < 0.06:
      a = lit_value(rng, max(1, w // 2)); b = lit_value(rng, max(1, w // 2))
      return ['bin', rng.choice(['add', 'mul', 'bor', 'shl'] if b < 8 else ['add', 'bor']), num(rng, a), num(rng, b)]
    return num(rng, lit_value(rng, w))

  def lv_max(self, l):
    i, a, b, c = l
    r = list(range(a, b, c)) if c != 0 else []
    return max(r) if r else max(a, b, c, 0)

  def lv_last(self, l):
    i, a, b, c = l
    r = list(range(a, b, c)) if c != 0 else []
    return r[-1] if r else -1

  def const_int(self, lo, hi):
    return num(self.rng, self.rng.randint(lo, hi))

  def index_expr(self, w):
    """an index into a w-bit signal"""
    rng = self.rng
    iw = 1 if w <= 1 else (w - 1).bit_length()
    r = rng.random()
    fit_lv = [l for l in self.lvs if self.lv_max(l) < w or self.bad()]
    if fit_lv and r < 0.45:
      l = rng.choice(fit_lv)
      if rng.random() < 0.25 and self.lv_max(l) + 1 < w: return ['bin', 'add', ['lv', l[0]], num(rng, rng.randint(0, w - 1 - self.lv_max(l)))]
      return ['lv', l[0]]
    if r < 0.6 and iw <= 70:
      return self.hard(self.width_near(iw), 1)
    v = rng.randint(0, w - 1)
    if self.bad(): v = rng.choice([w, w + 1, 1 << iw])
    return num(rng, v)

  def slice_of(self, x, w, want=None):
    """a constant or `lo : lo + n` part selection of a w-bit signal (width `want` if given and possible)"""
    rng = self.rng
    if want is not None and want <= w:
      n = want
    else:
      n = rng.randint(1, w)
    lo = rng.randint(0, w - n)
    if self.bad(): lo = rng.choice([w - n + 1, w, lo])
    plus = [l for l in self.lvs if (self.lv_max(l) + 1) * n <= w]
    if plus and rng.random() < 0.35:
      l = rng.choice(plus)
      base = ['bin', 'mul', ['lv', l[0]], num(rng, n)] if n > 1 or rng.random() < 0.5 else ['lv', l[0]]
      import copy
      return ['slc', x, w, base, ['bin', 'add', copy.deepcopy(base), num(rng, n)]], n
    if self.bad() and rng.random() < 0.3:
      return ['slc', x, w, num(rng, lo + n), num(rng, lo)], n
    return ['slc', x, w, num(rng, lo), num(rng, lo + n)], n

  def soft(self, w, d):
    """operand for a w-bit context: a hard term, an implicit one that fits, or an if-expression with one
    literal branch (typed explicit, may hold a Python int)"""
    r = self.rng.random()
    if r < 0.33: return self.literal(w)
    if self.rng.random() < 0.04 + self.noise:
      # a BitsN constant referenced by bare name, narrower / equal / wider than the context: explicit of its own width
      nw = max(1, w + self.rng.choice([0, 0, -1, -2, 1, 4]))
      return ['cast', nw, ['num', lit_value(self.rng, nw), 'lit'], self.rng.choice(['globfv', 'locfv'])]
    if self.rng.random() < 0.05 + self.noise:
      # a comparison result (RTLIR data type Bool, one bit) meeting a w-bit operand: rejected unless w == 1
      return self.bool_term(max(0, d - 1))
    if r < 0.45 and d > 0:
      t, f = self.hard(w, d - 1), self.literal(w)
      if self.rng.random() < 0.4: t, f = f, t
      return ['ite', self.cond(d - 1), t, f]
    return self.hard(self.width_near(w), d)

  def bool_term(self, d):
    """a term whose RTLIR data type is rdt.Bool: a comparison, its complement, an if-expression of comparisons,
    a temporary assigned from a comparison"""
    rng = self.rng
    cw = rng.choice([1, 2, 3, 4, 8])
    l, r = self.hard(cw, d), (self.hard(cw, d) if rng.random() < 0.6 else self.literal(cw))
    if rng.random() < 0.3: l, r = r, l
    c = ['cmp', rng.choice(list(CMPOP)), l, r]
    k = rng.random()
    if k < 0.6: return c
    if k < 0.75: return ['un', 'inv', c]
    c2 = ['cmp', rng.choice(list(CMPOP)), self.hard(cw, 0), self.hard(cw, 0)]
    return ['ite', self.cond(0), c, c2]

  def cond(self, d):
    rng = self.rng
    r = rng.random()
    if self.lvs and r < 0.3:
      l = rng.choice(self.lvs)
      return ['cmp', rng.choice(list(CMPOP)), ['lv', l[0]], num(rng, rng.randint(0, max(1, self.lv_max(l))))]
    if r < 0.6:
      w = rng.choice([1, 1, 4, 8])
      return self.hard(w, d)
    w = rng.choice(WIDTHS[:8])
    return ['cmp', rng.choice(list(CMPOP)), self.hard(w, d), self.soft(w, d)]

  def hard(self, w, d):
    """a term that evaluates to a w-bit Bits value (when no defect was injected)"""
    rng = self.rng
    if d <= 0 or rng.random() < 0.25:
      ts = [t for t, (tw, ex) in self.tmps.items() if ex and tw == w]
      if ts and rng.random() < 0.3: return ['tmp', rng.choice(ts)]
      return self.sig(w)
    ch = rng.random()
    if ch < 0.30:
      op = rng.choice(MAXOPS if rng.random() < 0.85 else ['add', 'sub', 'band'])
      l, r = self.hard(w, d - 1), self.soft(w, d - 1)
      if rng.random() < 0.3: l, r = r, l
      return ['bin', op, l, r]
    if ch < 0.38:
      op = rng.choice(SHIFTS)
      amt = self.hard(w, d - 1) if rng.random() < 0.5 else num(rng, rng.randint(0, min(w + 1, (1 << w) - 1)))
      if self.bad(): amt = self.hard(max(1, w - 1), 0)
      return ['bin', op, self.hard(w, d - 1), amt]
    if ch < 0.46 and w == 1:
      cw = rng.choice(WIDTHS[:9])
      l, r = self.hard(cw, d - 1), self.soft(cw, d - 1)
      if rng.random() < 0.3: l, r = r, l
      return ['cmp', rng.choice(list(CMPOP)), l, r]
    if ch < 0.46 and w == 1:
      return ['red', rng.choice(['and', 'or', 'xor']), self.hard(rng.choice(WIDTHS[:9]), d - 1)]
    if ch < 0.54:
      t, f = self.hard(w, d - 1), self.hard(self.width_near(w), d - 1)
      if self.bad(): f = self.literal(w)
      return ['ite', self.cond(d - 1), t, f]
    if ch < 0.60: return ['un', 'inv', self.hard(w, d - 1)]
    if ch < 0.67:
      if rng.random() < 0.5:
        v = lit_value(rng, w)
        if self.bad(): v = (1 << w) + rng.randint(0, 3)
        return bits_const(rng, w, v)
      return ['cast', w, self.hard(self.width_near(w), d - 1), 'call']
    if ch < 0.76:
      kind = rng.choice(['zext', 'sext', 'trunc'])
      if kind == 'trunc':
        src = w + rng.randint(0, 6)
        if self.bad(): src = max(1, w - 1)
      else:
        src = max(1, w - rng.randint(0, 6))
        if self.bad(): src = w + 1
      return ['ext', kind, rng.random() < 0.4, self.hard(src, d - 1), w]
    if ch < 0.80 and w == 1:
      return ['red', rng.choice(['and', 'or', 'xor']), self.hard(rng.choice(WIDTHS[:9]), d - 1)]
    if ch < 0.86 and w >= 2:
      k = rng.randint(2, min(3, w))
      cuts = sorted(rng.sample(range(1, w), k - 1))
      parts = [b - a for a, b in zip([0] + cuts, cuts + [w])]
      if self.bad(): parts[0] += 1
      return ['catn', [self.hard(p, d - 1) for p in parts]]
    if ch < 0.93:
      wide = [s for s in self.ins() if s[1] >= w]
      s = rng.choice(wide) if wide else self.new_in(w + rng.randint(0, 8))
      if w == 1 and rng.random() < 0.6: return ['idx', s[0], s[1], self.index_expr(s[1])]
      e, n = self.slice_of(s[0], s[1], w)
      return e
    return self.sig(w)

  def target(self, w=None):
    """an assignment target and its width"""
    rng = self.rng
    outs = [s for s in self.sigs if s[2] == 'out']
    if outs and rng.random() < 0.35: s = rng.choice(outs)
    else: s = self.new_out(w or rng.choice(WIDTHS[:10]))
    r = rng.random()
    if r < 0.55: return ['sig', s[0], s[1]], s[1]
    if r < 0.75: return ['idx', s[0], s[1], self.index_expr(s[1])], 1
    e, n = self.slice_of(s[0], s[1])
    return e, n

  def stmt(self, d):
    rng = self.rng
    r = rng.random()
    if r < 0.55 or d <= 0:
      tgt, w = self.target()
      rr = rng.random()
      if rr < 0.2: rhs = self.literal(w)
      elif rr < 0.35: rhs = self.soft(w, rng.randint(1, 3))
      else: rhs = self.hard(self.width_near(w), rng.randint(0, 3))
      return ['asg', tgt, rhs]
    if r < 0.70:
      reuse = [t for t in self.tmps if rng.random() < 0.3]
      if reuse:
        t = rng.choice(reuse); w, ex = self.tmps[t]
        rhs = self.hard(self.width_near(w), 2) if (ex or self.bad()) else num(rng, lit_value(rng, w) | (1 << (w - 1)))
      else:
        t = self.next_tmp; self.next_tmp += 1
        if rng.random() < 0.75:
          w = rng.choice(WIDTHS[:10]); rhs = self.hard(w, 2); ex = True
        else:
          v = lit_value(rng, rng.choice([1, 3, 4, 8])); rhs = num(rng, v); w = max(1, v.bit_length()); ex = False
        self.tmps[t] = (w, ex)
      return ['tasg', t, rhs]
    if r < 0.85:
      c = self.cond(2)
      body = [self.stmt(d - 1) for _ in range(rng.randint(1, 2))]
      orelse = [self.stmt(d - 1) for _ in range(rng.randint(0, 2))]
      return ['ifs', c, body, orelse]
    i = self.next_lv; self.next_lv += 1
    rr = rng.random()
    if rr < 0.6: a, b, c = 0, rng.randint(1, 6), 1
    elif rr < 0.8: a = rng.randint(0, 3); b = a + rng.randint(0, 5); c = rng.choice([1, 1, 2, 3])
    elif rr < 0.88: b = rng.randint(0, 3); a = b + rng.randint(0, 5); c = rng.choice([-1, -1, -2])
    elif rr < 0.95: a = rng.choice([2, 3, 4, 7, 8, 9, 15, 16, 17]); b = rng.randint(0, min(3, a - 1)); c = -rng.randint(1, 4)
    else: a, b, c = rng.choice([(0, 0, 1), (3, 3, 1), (-1, 3, 1), (0, 4, 0), (2, -1, -1)])
    self.lvs.append((i, a, b, c))
    body = [self.stmt(d - 1) for _ in range(rng.randint(1, 2))]
    self.lvs.pop()
    return ['for', i, a, b, c, body]

  def case(self):
    n = self.rng.randint(1, 3)
    block = [self.stmt(2) for _ in range(n)]
    return {'uid': self.uid, 'stream': self.stream, 'sigs': self.sigs, 'block': block}

def gen_typed(rng, uid, noise=0.0, stream='typed'):
  return Gen(rng, uid, stream, noise).case()

# ---- unconstrained small terms: mostly rejected, exercise every reject path of the checker

def wild_expr(rng, g, d):
  r = rng.random()
  if d <= 0 or r < 0.3:
    rr = rng.random()
    if rr < 0.5:
      s = rng.choice(g.ins()); return ['sig', s[0], s[1]]
    if rr < 0.8: return num(rng, rng.choice([0, 1, 2, 3, 7, 8, 15, 16, 255, 256, 300, rng.randint(0, 1 << 12)]))
    if g.lvs and rr < 0.9: return ['lv', rng.choice(g.lvs)[0]]
    if g.tmps: return ['tmp', rng.choice(list(g.tmps))]
    return num(rng, rng.randint(0, 9))
  if r < 0.5: return ['bin', rng.choice(MAXOPS + SHIFTS), wild_expr(rng, g, d - 1), wild_expr(rng, g, d - 1)]
  if r < 0.58: return ['cmp', rng.choice(list(CMPOP)), wild_expr(rng, g, d - 1), wild_expr(rng, g, d - 1)]
  if r < 0.66: return ['ite', wild_expr(rng, g, d - 1), wild_expr(rng, g, d - 1), wild_expr(rng, g, d - 1)]
  if r < 0.72: return ['un', rng.choice(['inv', 'inv', 'neg']), wild_expr(rng, g, d - 1)]
  if r < 0.78: return ['cast', rng.choice([1, 2, 4, 8]), wild_expr(rng, g, d - 1), 'call']
  if r < 0.85: return ['ext', rng.choice(['zext', 'sext', 'trunc']), rng.random() < 0.4, wild_expr(rng, g, d - 1), rng.choice([1, 2, 4, 8, 9, 16])]
  if r < 0.88: return ['red', rng.choice(['and', 'or', 'xor']), wild_expr(rng, g, d - 1)]
  if r < 0.92: return ['catn', [wild_expr(rng, g, d - 1) for _ in range(rng.randint(2, 3))]]
  s = rng.choice(g.ins())
  if r < 0.96: return ['idx', s[0], s[1], wild_expr(rng, g, d - 1)]
  return ['slc', s[0], s[1], wild_expr(rng, g, 0), wild_expr(rng, g, 0 if rng.random() < 0.7 else 1)]

def gen_wild(rng, uid):
  g = Gen(rng, uid, 'wild', 0.0)
  block = []
  for _ in range(rng.randint(1, 2)):
    r = rng.random()
    if r < 0.7:
      s = g.new_out(rng.choice([1, 2, 4, 8]))
      rr = rng.random()
      tgt = ['sig', s[0], s[1]] if rr < 0.6 else (['idx', s[0], s[1], wild_expr(rng, g, 1)] if rr < 0.8 else
             ['slc', s[0], s[1], wild_expr(rng, g, 0), wild_expr(rng, g, 0)])
      block.append(['asg', tgt, wild_expr(rng, g, rng.randint(1, 3))])
    elif r < 0.85:
      t = rng.randint(0, 1); g.tmps[t] = (1, True)
      block.append(['tasg', t, wild_expr(rng, g, 2)])
    else:
      i = g.next_lv; g.next_lv += 1
      a, b, c = rng.randint(0, 2), rng.randint(0, 5), rng.choice([1, 1, 2, -1])
      g.lvs.append((i, a, b, c))
      s = g.new_out(rng.choice([2, 4, 8]))
      body = [['asg', ['sig', s[0], s[1]], wild_expr(rng, g, 2)]]
      g.lvs.pop()
      block.append(['for', i, a, b, c, body])
  return {'uid': uid, 'stream': 'wild', 'sigs': g.sigs, 'block': block}

# ---- descending constant ranges: the loop variable must be sized by its LARGEST (first) value

def gen_desc(rng, uid):
  """`for i in range(a, b, -c)` (a > b >= 0) whose loop variable meets a w-bit operand / target: accepted and
  simulated when the first value fits w bits, rejected when only the last one does"""
  g = Gen(rng, uid, 'desc', 0.0)
  w = rng.choice([1, 2, 3, 4, 5, 8])
  top = (1 << w) - 1
  r = rng.random()
  if r < 0.45: a = top + rng.randint(1, 2 * top + 2)      # the first value does not fit
  elif r < 0.65: a = top + 1
  else: a = rng.randint(1, top)                           # everything fits
  c = -rng.randint(1, 4)
  b = rng.randint(0, min(a - 1, top))
  rg = list(range(a, b, c))
  if rg[-1] > top: b = 0; c = -1                          # make the last value fit
  x = g.new_in(w); o = g.new_out(w); o1 = g.new_out(1)
  X, O, O1, I = ['sig', x[0], w], ['sig', o[0], w], ['sig', o1[0], 1], ['lv', 0]
  k = rng.random()
  if k < 0.3: body = [['asg', O, ['bin', rng.choice(['add', 'sub', 'bxor', 'band', 'bor']), X, I] if rng.random() < 0.7 else ['bin', 'add', I, X]]]
  elif k < 0.5: body = [['asg', O, I]]
  elif k < 0.7: body = [['ifs', ['cmp', rng.choice(list(CMPOP)), X, I], [['asg', O, X]], []]]
  elif k < 0.8: body = [['asg', O1, ['cmp', rng.choice(list(CMPOP)), I, X]]]
  elif k < 0.9: body = [['asg', O, ['ite', ['sig', x[0], w] if w == 1 else ['idx', x[0], w, num(rng, 0)], X, I]]]
  else:
    big = g.new_in(max(2, a + rng.randint(0, 1)))
    body = [['asg', O1, ['idx', big[0], big[1], I]]]
  return {'uid': uid, 'stream': 'desc', 'sigs': g.sigs, 'block': [['for', 0, a, b, c, body]]}

# ---- comparison results (rdt.Bool) as operands of operators against explicitly sized operands

def gen_boolop(rng, uid):
  """`X op C` / `C op X` with X an explicitly sized w-bit term and C of RTLIR data type Bool (one bit): accepted and
  simulated for w == 1, rejected for w > 1, whichever side the Bool is on"""
  g = Gen(rng, uid, 'boolop', 0.0)
  w = rng.choice([1, 1, 2, 3, 4, 8])
  x = g.new_in(w); o = g.new_out(w); o1 = g.new_out(1)
  O, O1 = ['sig', o[0], w], ['sig', o1[0], 1]
  X = g.hard(w, rng.randint(0, 1))
  block = []
  if rng.random() < 0.25:
    cw = rng.choice([2, 4, 8])
    block.append(['tasg', 0, ['cmp', rng.choice(list(CMPOP)), g.hard(cw, 0), g.hard(cw, 0)]])
    g.tmps[0] = (1, True)
    C = ['tmp', 0]
  else:
    C = g.bool_term(rng.randint(0, 1))
  l, r = (X, C) if rng.random() < 0.5 else (C, X)
  k = rng.random()
  if k < 0.55: block.append(['asg', O, ['bin', rng.choice(MAXOPS), l, r]])
  elif k < 0.85: block.append(['asg', O1, ['cmp', rng.choice(list(CMPOP)), l, r]])
  elif k < 0.93: block.append(['ifs', ['cmp', rng.choice(['eq', 'ne']), l, r], [['asg', O, X]], []])
  else: block.append(['asg', O, ['ite', ['idx', x[0], w, num(rng, 0)], l, r]])
  return {'uid': uid, 'stream': 'boolop', 'sigs': g.sigs, 'block': block}

# ---- straight-line re-assignment of temporaries: type and explicitness are those of the LAST assignment

def gen_tmpseq(rng, uid):
  """`t = v1; t = v2 [; t = v3]; use t` in straight-line code (optionally inside a loop, first bound to the loop
  index): literal -> explicit of the same width, explicit -> literal, explicit -> explicit of another width (type
  conflict), literal -> literal; then t meets a narrower / equal / wider explicitly sized context"""
  g = Gen(rng, uid, 'tmpseq', 0.0)
  w = rng.choice([1, 1, 2, 3, 4, 8])
  top = (1 << w) - 1
  def lit():   # a literal of minimal width exactly w
    return num(rng, rng.randint((top >> 1) + 1, top) if w > 1 else rng.randint(0, 1))
  def expl(ww):
    r = rng.random()
    if ww == 1 and r < 0.4:
      cw = rng.choice([2, 4, 8]); return ['cmp', rng.choice(list(CMPOP)), g.hard(cw, 0), g.hard(cw, 0)]
    return g.hard(ww, rng.randint(0, 1))
  in_loop = rng.random() < 0.2
  seq = []
  kinds = []
  n = rng.randint(2, 3)
  for j in range(n):
    r = rng.random()
    if j == 0 and in_loop and rng.random() < 0.7: seq.append(['tasg', 0, ['lv', 0]]); kinds.append('lv')
    elif r < 0.45: seq.append(['tasg', 0, lit()]); kinds.append('lit')
    elif r < 0.9: seq.append(['tasg', 0, expl(w)]); kinds.append('ex')
    else: seq.append(['tasg', 0, expl(max(1, w + rng.choice([-1, 1, 2])))]); kinds.append('exw')
  if kinds[0] not in ('lit', 'lv') and rng.random() < 0.5: seq[0] = ['tasg', 0, lit()]
  if in_loop:
    # the loop index needs exactly w bits
    hi = max(top, 1)
    loop = (0, (top >> 1) + 1 if w > 1 else 0, hi + 1, 1)
  cw = rng.choice([w, w, max(1, w - 1), w + 1, w + 4, 8])       # the context t is used in
  x = g.new_in(cw); o = g.new_out(cw); o1 = g.new_out(1)
  X, O, O1, T = ['sig', x[0], cw], ['sig', o[0], cw], ['sig', o1[0], 1], ['tmp', 0]
  k = rng.random()
  if k < 0.3: use = ['asg', O, T]
  elif k < 0.6:
    l, r = (X, T) if rng.random() < 0.5 else (T, X)
    use = ['asg', O, ['bin', rng.choice(['add', 'band', 'bor', 'bxor', 'sub']), l, r]]
  elif k < 0.8:
    l, r = (X, T) if rng.random() < 0.5 else (T, X)
    use = ['asg', O1, ['cmp', rng.choice(list(CMPOP)), l, r]]
  elif k < 0.9: use = ['asg', O, ['ite', ['idx', x[0], cw, num(rng, 0)], X, T]]
  else: use = ['ifs', ['cmp', 'eq', X, T], [['asg', O, X]], []]
  body = seq + [use]
  block = [['for', 0, loop[1], loop[2], loop[3], body]] if in_loop else body
  return {'uid': uid, 'stream': 'tmpseq', 'sigs': g.sigs, 'block': block}

# ---- mixed if-expressions: one implicit branch, one explicitly sized branch, in both orders

def gen_mixite(rng, uid):
  """`(<implicit> if c else <explicit w bits>)` and the other order, met by a wider / equal / narrower explicitly
  sized consumer (assignment target, BinOp / Compare operand, through a temporary, nested if-expression); the
  condition is a 1-bit input so the all-0 / all-1 vectors drive it both ways"""
  g = Gen(rng, uid, 'mixite', 0.0)
  w = rng.choice([1, 2, 3, 4, 8])
  cw = rng.choice([w, w, w + rng.choice([1, 4, 8]), w + 8, max(1, w - 1)])
  sel = g.new_in(1); a = g.new_in(w); b = g.new_in(cw); o = g.new_out(cw); o1 = g.new_out(1)
  SEL, A, B, O, O1 = ['sig', sel[0], 1], ['sig', a[0], w], ['sig', b[0], cw], ['sig', o[0], cw], ['sig', o1[0], 1]
  top = (1 << w) - 1
  block, pre = [], []
  in_loop = rng.random() < 0.15
  r = rng.random()
  if in_loop and top >= 1: imp = ['lv', 0]
  elif r < 0.75: imp = num(rng, rng.choice([0, 1, top, rng.randint(0, top)]))
  else:
    pre.append(['tasg', 1, num(rng, rng.randint(0, top))]); imp = ['tmp', 1]
  ex = A if rng.random() < 0.7 else g.hard(w, 1)
  cond = SEL if rng.random() < 0.7 else ['cmp', rng.choice(['eq', 'ne']), SEL, num(rng, rng.randint(0, 1))]
  t, f = (imp, ex) if rng.random() < 0.6 else (ex, imp)
  ite = ['ite', cond, t, f]
  if rng.random() < 0.15: ite = ['ite', SEL, ite, ['ite', cond, ex, imp]] if rng.random() < 0.5 else ['ite', SEL, num(rng, 0), ite]
  k = rng.random()
  if k < 0.2:
    pre.append(['tasg', 0, ite]); ite = ['tmp', 0]
  k = rng.random()
  if k < 0.3: use = ['asg', O, ite]
  elif k < 0.65:
    l, r2 = (B, ite) if rng.random() < 0.6 else (ite, B)
    use = ['asg', O, ['bin', rng.choice(['add', 'sub', 'band', 'bor', 'bxor']), l, r2]]
  elif k < 0.9:
    l, r2 = (B, ite) if rng.random() < 0.6 else (ite, B)
    use = ['asg', O1, ['cmp', rng.choice(list(CMPOP)), l, r2]]
  else: use = ['ifs', ['cmp', 'eq', B, ite], [['asg', O, B]], []]
  body = pre + [use]
  block = [['for', 0, 0, min(top, 3) + 1, 1, body]] if in_loop and top >= 1 else body
  return {'uid': uid, 'stream': 'mixite', 'sigs': g.sigs, 'block': block}

# ---- free variables: bare names bound to BitsN constants / ints / bools at module level or as construct() locals

def gen_fvar(rng, uid):
  """a bare-name constant K (BitsN narrower / equal / wider than its partner, or an int / bool) as operand of an
  operator, of a comparison, if-expression branch, right-hand side, index, slice bound or shift amount"""
  g = Gen(rng, uid, 'fvar', 0.0)
  w = rng.choice([2, 3, 4, 8, 16])
  x = g.new_in(w); c = g.new_in(1); o = g.new_out(w); o1 = g.new_out(1)
  X, C, O, O1 = ['sig', x[0], w], ['sig', c[0], 1], ['sig', o[0], w], ['sig', o1[0], 1]
  r = rng.random()
  if r < 0.7:
    kw = max(1, rng.choice([w, w, w - 1, w - 2, w // 2, 1, w + 1, w + 4]))
    K = ['cast', kw, ['num', lit_value(rng, kw), 'lit'], rng.choice(['globfv', 'locfv', 'globfv', 'locfv', 'const'])]
  elif r < 0.9: K = ['num', lit_value(rng, rng.choice([w, w, w + 2])), rng.choice(['glob', 'loc'])]
  else: K = ['num', rng.randint(0, 1), 'globb']
  l, rr = (X, K) if rng.random() < 0.6 else (K, X)
  k = rng.random()
  if k < 0.3: st = ['asg', O, ['bin', rng.choice(MAXOPS), l, rr]]
  elif k < 0.45: st = ['asg', O1, ['cmp', rng.choice(list(CMPOP)), l, rr]]
  elif k < 0.6: st = ['asg', O, ['ite', C, l, rr]]
  elif k < 0.72: st = ['asg', O, K]
  elif k < 0.8: st = ['asg', O, ['bin', rng.choice(SHIFTS), X, K]]
  elif k < 0.88: st = ['asg', O1, ['idx', x[0], w, K]]
  elif k < 0.94: st = ['ifs', ['cmp', 'eq', l, rr], [['asg', O, X]], []]
  else:
    kv = K[2][1] if K[0] == 'cast' else K[1]
    lo = min(kv, w - 1)
    K2 = K[:2] + [['num', lo, 'lit']] + K[3:] if K[0] == 'cast' else ['num', lo, K[2] if lo > 1 or K[2] != 'globb' else 'glob']
    o2 = g.new_out(w - lo)
    st = ['asg', ['sig', o2[0], w - lo], ['slc', x[0], w, K2, num(rng, w)]]
  return {'uid': uid, 'stream': 'fvar', 'sigs': g.sigs, 'block': [st]}

# ---- several instances of one class with different per-instance constants

def gen_multi(rng, uid):
  """a block reading constants through `s.P<j>` / `s.cfg.n<j>` / `s.T<j>[1]`; 'insts' gives 2-3 bindings of the slots
  (ints that fit / do not fit, BitsN of the context width / another width)"""
  g = Gen(rng, uid, 'multi', 0.0)
  w = rng.choice([2, 4, 8])
  x = g.new_in(w); c = g.new_in(1); o = g.new_out(w); o1 = g.new_out(1)
  X, C, O, O1 = ['sig', x[0], w], ['sig', c[0], 1], ['sig', o[0], w], ['sig', o1[0], 1]
  top = (1 << w) - 1
  nslots = rng.randint(1, 2)
  slots, leaves = [], []
  for j in range(nslots):
    if rng.random() < 0.5:
      kind = rng.choice(['attr', 'cfg']); slots.append('i'); leaves.append(['num', 1, f'{kind}:{j}'])
    else:
      kind = rng.choice(['attr', 'cfg', 'tab']); slots.append('b'); leaves.append(['cast', w, ['num', 1, 'lit'], f'{kind}:{j}'])
  def val(kind):
    if kind == 'i': return rng.choice([rng.randint(0, top), top, top + 1 + rng.randint(0, 300), 0])
    n = rng.choice([w, w, max(1, w - 1), w + 4, 1]); return [n, rng.randint(0, (1 << n) - 1)]
  insts = []
  for _ in range(rng.randint(2, 3)): insts.append([val(k) for k in slots])
  if insts[0] == insts[1]: insts[1] = [val(k) for k in slots]
  P0 = leaves[0]; P1 = leaves[-1]
  k = rng.random()
  if k < 0.3: block = [['asg', O, ['bin', rng.choice(MAXOPS), ['bin', rng.choice(['band', 'add', 'bxor']), X, P0], P1]]]
  elif k < 0.45: block = [['asg', O1, ['cmp', rng.choice(list(CMPOP)), X, P0]]]
  elif k < 0.6: block = [['asg', O, ['ite', C, X, P0]]]
  elif k < 0.7: block = [['asg', O, P0]]
  elif k < 0.82: block = [['tasg', 0, P0], ['asg', O, ['bin', 'add', X, ['tmp', 0]]]]
  elif k < 0.9: block = [['asg', O, ['bin', rng.choice(SHIFTS), X, P0]]]
  else: block = [['ifs', ['cmp', 'eq', X, P0], [['asg', O, P1 if slots[-1] == 'b' else X]], [['asg', O, X]]]]
  return {'uid': uid, 'stream': 'multi', 'sigs': g.sigs, 'block': block, 'slots': slots, 'insts': insts}

def instantiate(case, k):
  """the ordinary case of instance k: the slot leaves carry that instance's values"""
  import copy
  b = case['insts'][k]
  def sub(e):
    if isinstance(e, list):
      if e and e[0] == 'num' and isinstance(e[2], str) and ':' in e[2]:
        return ['num', b[int(e[2].split(':')[1])], e[2]]
      if e and e[0] == 'cast' and isinstance(e[3], str) and ':' in e[3]:
        n, v = b[int(e[3].split(':')[1])]; return ['cast', n, ['num', v, 'lit'], e[3]]
      return [sub(x) for x in e]
    return e
  return {'uid': case['uid'] * 10 + k, 'stream': 'multi', 'sigs': copy.deepcopy(case['sigs']), 'block': sub(case['block'])}

def multi_source(case):
  """one parameterised class, one Top with all instances; returns (source, class name, top name, [arg source lists])"""
  pa = param_attrs(instantiate(case, 0))
  name, top = f'C10M_{case["uid"]}', f'C10T_{case["uid"]}'
  ns = len(case['slots'])
  lines = ['from pymtl3 import *', 'from pymtl3.datatypes import mk_bits', '', 'class Cfg: pass', '']
  ws = {w for x, w, d in case['sigs']}
  for b in case['insts']:
    for v in b:
      if isinstance(v, list): ws.add(v[0])
  lines += [f'Bits{w} = mk_bits( {w} )' for w in sorted(ws)] + ['']
  lines += [f'class {name}( Component ):', '  def construct( s, ' + ', '.join(f'p{j}' for j in range(ns)) + ' ):']
  for x, w, d in case['sigs']:
    lines.append(f'    s.{"i" if d == "in" else "o"}{x} = {"InPort" if d == "in" else "OutPort"}( Bits{w} )')
  lines += ['    ' + l for l in param_lines(pa, lambda j, src: f'p{j}')]
  lines += ['    @update', '    def up():'] + render_stmts(instantiate(case, 0), case['block'], 3)
  args = [[(f'Bits{v[0]}( {v[1]} )' if isinstance(v, list) else str(v)) for v in b] for b in case['insts']]
  lines += ['', f'class {top}( Component ):', '  def construct( s ):']
  for k, a in enumerate(args): lines.append(f'    s.c{k} = {name}( ' + ', '.join(a) + ' )')
  return '\n'.join(lines) + '\n', name, top, args

def load_source(workdir, src):
  _modcount[0] += 1
  modname = f'c10gen_{os.getpid()}_{_modcount[0]}'
  path = os.path.join(workdir, modname + '.py')
  with open(path, 'w') as f: f.write(src)
  spec = importlib.util.spec_from_file_location(modname, path)
  mod = importlib.util.module_from_spec(spec)
  sys.modules[modname] = mod
  _loaded.append(modname)
  spec.loader.exec_module(mod)
  return mod

# ---- unary operators applied directly to explicitly sized constants

def gen_unconst(rng, uid):
  """`~K` / `-K` with K a BitsN constant (cast call, s.CONST attribute, bare name at module level or construct()
  local) in a context strictly wider / equal / narrower than K: K keeps its explicit width under the operator"""
  g = Gen(rng, uid, 'unconst', 0.0)
  kw = rng.choice([1, 2, 4, 8])
  cw = rng.choice([kw, kw, kw + rng.choice([1, 4, 8]), kw + 8, max(1, kw - 1)])
  x = g.new_in(cw); c = g.new_in(1); o = g.new_out(cw); o1 = g.new_out(1)
  X, C, O, O1 = ['sig', x[0], cw], ['sig', c[0], 1], ['sig', o[0], cw], ['sig', o1[0], 1]
  K = ['cast', kw, ['num', lit_value(rng, kw), 'lit'], rng.choice(['call', 'const', 'globfv', 'locfv'])]
  U = ['un', 'inv' if rng.random() < 0.8 else 'neg', K]
  if rng.random() < 0.1: U = ['un', 'inv', U]
  l, r = (X, U) if rng.random() < 0.6 else (U, X)
  k = rng.random()
  if k < 0.25: block = [['asg', O, U]]
  elif k < 0.55: block = [['asg', O, ['bin', rng.choice(MAXOPS), l, r]]]
  elif k < 0.7: block = [['asg', O1, ['cmp', rng.choice(list(CMPOP)), l, r]]]
  elif k < 0.82: block = [['asg', O, ['ite', C, l, r]]]
  elif k < 0.92: block = [['tasg', 0, U], ['asg', O, ['bin', 'band', X, ['tmp', 0]]]]
  else: block = [['ifs', ['cmp', 'eq', l, r], [['asg', O, X]], []]]
  return {'uid': uid, 'stream': 'unconst', 'sigs': g.sigs, 'block': block}

# ---- labelled streams: one per known soundness hole of the checker (each is a parameterised witness)

def gen_finding(rng, uid, which):
  g = Gen(rng, uid, which, 0.0)
  w = rng.choice([2, 3, 4, 8])
  a = g.new_in(w); b = g.new_in(w); c = g.new_in(1); o = g.new_out(w)
  A, B, C, O = ['sig', a[0], w], ['sig', b[0], w], ['sig', c[0], 1], ['sig', o[0], w]
  big = (1 << w) + rng.randint(0, 40)
  if which == 'F4':
    r = rng.random()
    if r < 0.4: block = [['asg', O, num(rng, big)]]
    elif r < 0.7: block = [['asg', O, ['ite', C, num(rng, 1), num(rng, big)]]]
    else: block = [['asg', ['slc', o[0], w, num(rng, 0), num(rng, w - 1)], num(rng, big)]] if w > 1 else [['asg', O, num(rng, big)]]
  elif which == 'F12':
    r = rng.random()
    if r < 0.35:
      n = (1 << w) - rng.randint(0, 1)
      block = [['for', 0, 0, n, 1, [['asg', O, ['bin', rng.choice(['add', 'bor', 'bxor']), A, ['bin', 'add', ['lv', 0], num(rng, rng.randint(1, 2))]]]]]]
    elif r < 0.6: block = [['asg', O, ['bin', 'add', A, ['bin', 'sub', num(rng, 1), num(rng, rng.randint(2, 5))]]]]
    elif r < 0.8: block = [['asg', O, ['bin', rng.choice(['add', 'band']), A, ['un', 'neg', num(rng, rng.randint(1, 3))]]]]
    else: block = [['for', 0, 0, 3, 1, [['asg', O, ['bin', 'add', A, ['bin', 'shl', num(rng, 1), ['bin', 'mul', ['lv', 0], num(rng, w)]]]]]]]
  elif which == 'N1':
    v = (1 << w) - 1 - rng.randint(0, 1)
    first, second = (['tasg', 0, num(rng, v)], ['tasg', 0, A])
    block = [['ifs', C, [first], [second]], ['asg', O, ['bin', rng.choice(['add', 'mul']), ['tmp', 0], ['tmp', 0]]]]
  elif which == 'N2':
    r = rng.random()
    ife = ['ite', C, num(rng, rng.randint(0, 1)), num(rng, big)]
    block = [['asg', O, ['bin', rng.choice(['add', 'bor']), A, ife]]] if r < 0.7 else [['asg', O, ['bin', 'add', ife, A]]]
  elif which == 'N3':
    v = rng.randint(1, (1 << w) - 2)
    wn = max(1, (v + 1).bit_length())
    o2 = g.new_out(wn)
    block = [['asg', ['sig', o2[0], wn], ['bin', 'add', ['cast', w + 4, ['num', v, 'lit'], rng.choice(['call', 'const'])], num(rng, 1)]]]
  elif which == 'N4':
    hi = (1 << w) - 1
    block = [['asg', O, ['bin', 'add', ['ite', C, A, num(rng, hi)], ['ite', C, B, num(rng, rng.randint(1, hi))]]]]
  elif which == 'N5':
    wd = w + rng.randint(1, 4)
    d = g.new_in(wd); o1 = g.new_out(1)
    cmp = ['cmp', rng.choice(list(CMPOP)), A, B]
    D = ['sig', d[0], wd]
    if rng.random() < 0.6: block = [['asg', ['sig', o1[0], 1], ['ite', C, cmp, D]]]
    else: block = [['tasg', 0, cmp], ['asg', ['sig', o1[0], 1], ['ite', C, ['tmp', 0], D]]]
  else:
    raise ValueError(which)
  return {'uid': uid, 'stream': which, 'sigs': g.sigs, 'block': block}
