"""Hand-written designs for C03 / C12: shapes seen in the pymtl3 test-suite and the witnesses of repaired defects."""

CORPUS = [
  {'label': 'corpus:hierarchy-struct-array', 'backends': ('verilog',), 'features': ['corpus'], 'src': 'from pymtl3 import *\n' + '@bitstruct\nclass Inner:\n  x: Bits3\n  y: Bits5\n\n@bitstruct\nclass Pt:\n  a: Bits4\n  b: [Bits2]*3\n  c: Inner\n\nclass Child( Component ):\n  def construct( s, k ):\n    s.in_ = InPort( Bits8 )\n    s.out = OutPort( Bits8 )\n    s.r = Wire( Bits8 )\n    @update_ff\n    def ffb():\n      if s.reset:\n        s.r <<= 0\n      else:\n        s.r <<= s.in_ + k\n    @update\n    def cb():\n      s.out @= s.r ^ 0x55\n\nclass Top( Component ):\n  def construct( s ):\n    s.a = InPort( Bits8 )\n    s.b = InPort( Bits4 )\n    s.p = InPort( Pt )\n    s.q = OutPort( Pt )\n    s.arr = [ InPort( Bits4 ) for _ in range(3) ]\n    s.o = OutPort( Bits8 )\n    s.o2 = OutPort( Bits16 )\n    s.o3 = [ OutPort( Bits4 ) for _ in range(3) ]\n    s.w = Wire( Bits8 )\n    s.c = [ Child(i+1) for i in range(2) ]\n    s.c[0].in_ //= s.a\n    s.c[1].in_ //= s.c[0].out\n    s.K = 5\n    s.lst = [ Bits8(1), Bits8(2), Bits8(3) ]\n    @update\n    def up1():\n      s.w @= s.c[1].out + zext( s.b, 8 ) + s.K\n      t = s.a[0:4] + s.b\n      s.o @= concat( t, s.p.a ) if s.a[7] else sext( s.b, 8 )\n      for i in range(3):\n        s.o3[i] @= s.arr[i] & trunc( s.lst[1], 4 )\n    @update\n    def up2():\n      s.o2 @= 0\n      s.o2[0:8] @= s.w\n      s.o2[8:16] @= zext( reduce_xor( s.a ), 8 ) + zext( s.a < s.w, 8 )\n      if s.p.c.x == 3:\n        s.o2[8] @= 1\n    s.q //= s.p\n\n'},
  {'label': 'corpus:selects-structinst', 'backends': ('verilog', 'yosys'), 'features': ['corpus'], 'src': 'from pymtl3 import *\n' + '@bitstruct\nclass In2:\n  x: Bits3\n  y: Bits5\n@bitstruct\nclass Pt:\n  a: Bits4\n  b: [Bits2]*4\n  c: In2\n@bitstruct\nclass Fl:\n  a: Bits4\n  b: Bits4\nclass Top( Component ):\n  def construct( s ):\n    s.a = InPort( Bits8 )\n    s.sel = InPort( Bits2 )\n    s.p = InPort( Pt )\n    s.arr = [ InPort( Bits4 ) for _ in range(4) ]\n    s.o1 = OutPort( Bits8 )\n    s.o2 = OutPort( Bits8 )\n    s.o3 = OutPort( Bits8 )\n    s.o4 = OutPort( Bits4 )\n    s.o5 = OutPort( Bits8 )\n    s.q = OutPort( Fl )\n    s.w = Wire( Fl )\n    s.ii = InPort( Bits4 )\n    s.pb = Wire( Bits3 )\n    @update\n    def up0():\n      s.pb @= zext( s.sel, 3 )\n    @update\n    def up1():\n      s.o1 @= sext( s.arr[1][0:3], 8 )\n      s.o2 @= sext( s.p.b[1][1], 8 )\n      s.o3 @= zext( s.a[s.pb:s.pb+4], 8 )\n      s.o4 @= s.arr[s.sel] + zext( s.p.b[s.sel], 4 ) + zext( s.a[zext(s.sel,3)], 4 )\n      s.w @= Fl( s.a[0:4], s.a[4:8] )\n    @update\n    def up2():\n      s.q @= s.w\n      s.o5 @= 0\n      for i in range(4):\n        s.o5[i] @= s.ii[i]\n'},
  {'label': 'corpus:interfaces-consts-ff', 'backends': ('verilog',), 'features': ['corpus'], 'src': 'from pymtl3 import *\n' + '@bitstruct\nclass Fl:\n  a: Bits4\n  b: Bits4\nclass GIfc( Interface ):\n  def construct( s, W ):\n    s.msg = InPort( W )\n    s.val = InPort()\n    s.rdy = OutPort()\nclass OIfc( Interface ):\n  def construct( s ):\n    s.msg = OutPort( Bits8 )\n    s.en = OutPort()\nclass Top( Component ):\n  def construct( s ):\n    s.a = InPort( Bits8 )\n    s.ifc = GIfc( Bits8 )\n    s.ifcs = [ GIfc( Bits4 ) for _ in range(2) ]\n    s.oi = OIfc()\n    s.q = OutPort( Fl )\n    s.w = Wire( Fl )\n    s.w2 = Wire( Fl )\n    s.o1 = OutPort( Bits8 )\n    s.o2 = OutPort( Bits8 )\n    s.o3 = OutPort( Bits8 )\n    s.r = Wire( Bits8 )\n    s.KL = [ Bits8(3), Bits8(5), Bits8(9) ]\n    s.K = 7\n    s.o3[0:4] //= s.a[4:8]\n    s.o3[4:8] //= 9\n    @update\n    def up1():\n      s.w.a @= s.a[0:4]\n      s.w.b @= s.a[4:8] ^ s.ifcs[1].msg\n      s.ifc.rdy @= s.ifc.val & s.ifc.msg[0]\n      for i in range(2):\n        s.ifcs[i].rdy @= s.ifcs[i].val\n    @update\n    def up2():\n      s.w2 @= s.w\n      s.oi.msg @= s.a + s.KL[1] + s.K\n      s.oi.en @= s.w.a == s.w2.b\n      s.q @= s.w2\n    @update_ff\n    def upff():\n      t = s.a + 1\n      if s.reset:\n        s.r <<= 0\n      elif s.a[0]:\n        s.r <<= t\n      elif s.a[1]:\n        s.r <<= t + s.r\n      else:\n        s.r <<= s.r\n    @update\n    def up3():\n      s.o1 @= s.r\n      s.o2 @= 0\n      for i in range(2):\n        for j in range(2):\n          s.o2[i*2+j] @= s.a[j*2+i]\n'},
  {'label': 'corpus:comp-array-struct-ports', 'backends': ('verilog',), 'features': ['corpus'], 'src': 'from pymtl3 import *\n' + '@bitstruct\nclass Fl:\n  a: Bits4\n  b: Bits4\nclass Leaf( Component ):\n  def construct( s, W=8 ):\n    s.in_ = InPort( mk_bits(W) )\n    s.out = OutPort( mk_bits(W) )\n    s.p = InPort( Fl )\n    s.q = OutPort( Fl )\n    @update\n    def lb():\n      s.out @= s.in_ + zext( s.p.a, W )\n      s.q @= Fl( s.p.b, s.p.a )\nclass Mid( Component ):\n  def construct( s ):\n    s.x = InPort( Bits8 )\n    s.y = OutPort( Bits8 )\n    s.p = InPort( Fl )\n    s.q = OutPort( Fl )\n    s.l = [ Leaf() for _ in range(2) ]\n    s.r = [ Wire( Bits8 ) for _ in range(2) ]\n    s.l[0].in_ //= s.x\n    s.l[0].p //= s.p\n    s.l[1].p //= s.l[0].q\n    s.q //= s.l[1].q\n    @update\n    def mb():\n      s.l[1].in_ @= s.l[0].out ^ s.r[0]\n      s.y @= s.l[1].out - s.r[1]\n    @update_ff\n    def mf():\n      for i in range(2):\n        s.r[i] <<= s.x + i\nclass Top( Component ):\n  def construct( s ):\n    s.a = InPort( Bits8 )\n    s.b = InPort( Bits8 )\n    s.c = InPort( Bits1 )\n    s.pb = InPort( Bits3 )\n    s.p = InPort( Fl )\n    s.q = OutPort( Fl )\n    s.o1 = OutPort( Bits8 )\n    s.o2 = OutPort( Bits8 )\n    s.o3 = OutPort( Bits8 )\n    s.o4 = OutPort( Bits1 )\n    s.o5 = OutPort( Bits8 )\n    s.o6 = OutPort( Bits16 )\n    s.m = Mid()\n    s.m.x //= s.a\n    s.m.p //= s.p\n    s.q //= s.m.q\n    s.o1 //= s.m.y\n    @update\n    def up1():\n      s.o2 @= ( s.a if s.c else s.b ) + ( s.b if s.a < s.b else ( s.a if s.a[0] else ~s.b ) )\n      s.o3 @= ( s.a >> s.b ) | ( s.a << 3 ) | ( s.b % ( s.a | 1 ) )\n      s.o4 @= ( s.a < s.b ) & ( s.a != 5 ) | ~( s.a == s.b ) & reduce_xor( s.a ^ s.b )\n      s.o5 @= ( s.a * s.b ) - ( s.a & 0xf )\n      s.o6 @= sext( s.a[0:4], 16 ) + zext( s.a >= s.b, 16 )\n'},
  {'label': 'corpus:two-level-struct-ports', 'backends': ('verilog', 'yosys'), 'features': ['corpus'], 'src': 'from pymtl3 import *\n' + '@bitstruct\nclass Fl:\n  a: Bits4\n  b: Bits4\nclass Leaf( Component ):\n  def construct( s, W=8 ):\n    s.in_ = InPort( mk_bits(W) )\n    s.out = OutPort( mk_bits(W) )\n    s.p = InPort( Fl )\n    s.q = OutPort( Fl )\n    @update\n    def lb():\n      s.out @= s.in_ + zext( s.p.a, W )\n      s.q @= Fl( s.p.b, s.p.a )\nclass Mid( Component ):\n  def construct( s ):\n    s.x = InPort( Bits8 )\n    s.y = OutPort( Bits8 )\n    s.p = InPort( Fl )\n    s.q = OutPort( Fl )\n    s.l0 = Leaf()\n    s.l1 = Leaf()\n    s.r = [ Wire( Bits8 ) for _ in range(2) ]\n    s.l0.in_ //= s.x\n    s.l0.p //= s.p\n    s.l1.p //= s.l0.q\n    s.q //= s.l1.q\n    @update\n    def mb():\n      s.l1.in_ @= s.l0.out ^ s.r[0]\n      s.y @= s.l1.out - s.r[1]\n    @update_ff\n    def mf():\n      for i in range(2):\n        s.r[i] <<= s.x + i\nclass Top( Component ):\n  def construct( s ):\n    s.a = InPort( Bits8 )\n    s.b = InPort( Bits8 )\n    s.c = InPort( Bits1 )\n    s.pb = InPort( Bits3 )\n    s.p = InPort( Fl )\n    s.q = OutPort( Fl )\n    s.o1 = OutPort( Bits8 )\n    s.o2 = OutPort( Bits8 )\n    s.o3 = OutPort( Bits8 )\n    s.o4 = OutPort( Bits1 )\n    s.o5 = OutPort( Bits8 )\n    s.o6 = OutPort( Bits16 )\n    s.m = Mid()\n    s.m.x //= s.a\n    s.m.p //= s.p\n    s.q //= s.m.q\n    s.o1 //= s.m.y\n    @update\n    def up1():\n      s.o2 @= ( s.a if s.c else s.b ) + ( s.b if s.a < s.b else ( s.a if s.a[0] else ~s.b ) )\n      s.o3 @= ( s.a >> s.b ) | ( s.a << 3 ) | ( s.b % ( s.a | 1 ) )\n      s.o4 @= ( s.a < s.b ) & ( s.a != 5 ) | ~( s.a == s.b ) & reduce_xor( s.a ^ s.b )\n      s.o5 @= ( s.a * s.b ) - ( s.a & 0xf )\n      s.o6 @= sext( s.a[0:4], 16 ) + zext( s.a >= s.b, 16 )\n'},
  {'label': 'corpus:F13-F14-repaired', 'backends': ('verilog', 'yosys'), 'features': ['corpus'], 'src': 'from pymtl3 import *\n' + 'class Top( Component ):\n  def construct( s ):\n    s.a = InPort( Bits4 )\n    s.b = InPort( Bits4 )\n    s.o1 = OutPort( Bits8 )\n    s.o2 = OutPort( Bits1 )\n    s.o3 = OutPort( Bits1 )\n    @update\n    def up():\n      s.o1 @= sext( s.a + s.b, 8 )\n      s.o2 @= reduce_or( s.a & s.b )\n      s.o3 @= reduce_xor( s.a + s.b )\n'},
]

# ---------------------------------------------------------------------------------------------
# canonical witnesses of the KNOWN findings (reproduced on every run, with fixed inputs)
# ---------------------------------------------------------------------------------------------
F10 = 'F10-struct-output-written-by-field'
F17 = 'F17-negative-step-loop-wraps'
_F10_EXPECT = ('multi-driver', 'undriven', 'output-mismatch')
F20 = 'F20-yosys-2d-list-of-interfaces-or-subcomponents-transposed'
F21 = 'F21-verilog-2d-port-list-of-listed-subcomponent'
_FL = '@bitstruct\nclass Fl:\n  a: Bits4\n  b: Bits4\n\n'
WITNESSES = [
  {'label': F17 + ':witness', 'finding': F17, 'variant': None, 'expect': ('loop-overrun', 'output-mismatch'), 'backends': ('verilog',),
   'features': ['finding-stream'],
   'cycles': [{'.a': 0x80, '.reset': 0}, {'.a': 0xff, '.reset': 0}],
   'src': 'from pymtl3 import *\n'
          'class Top( Component ):\n  def construct( s ):\n    s.a = InPort( Bits8 )\n    s.o = OutPort( Bits8 )\n'
          '    @update\n    def up():\n      s.o @= 0\n      for i in range(5, 0, -2):\n        s.o[i] @= s.a[i]\n'},
  {'label': F10 + ':field-write:witness', 'finding': F10, 'variant': 'field-write', 'expect': _F10_EXPECT, 'backends': ('yosys',),
   'features': ['finding-stream'],
   'cycles': [{'.x': 3, '.y': 5, '.reset': 0}],
   'src': 'from pymtl3 import *\n' + _FL +
          'class Top( Component ):\n  def construct( s ):\n    s.x = InPort( Bits4 )\n    s.y = InPort( Bits4 )\n    s.q = OutPort( Fl )\n'
          '    @update\n    def up():\n      s.q.a @= s.x\n      s.q.b @= s.y\n'},
  {'label': F10 + ':nested-leaf:witness', 'finding': F10, 'variant': 'nested-leaf', 'expect': _F10_EXPECT, 'backends': ('yosys',),
   'features': ['finding-stream'],
   'cycles': [{'.p': 0x2b9, '.reset': 0}],
   'src': 'from pymtl3 import *\n'
          '@bitstruct\nclass Ne:\n  a: Bits4\n  b: [Bits2]*3\n\n'
          'class Top( Component ):\n  def construct( s ):\n    s.p = InPort( Ne )\n    s.q = OutPort( Ne )\n    s.q //= s.p\n'},
  {'label': F10 + ':struct-wire:witness', 'finding': F10, 'variant': 'struct-wire', 'expect': _F10_EXPECT, 'backends': ('yosys',),
   'features': ['finding-stream'],
   'cycles': [{'.x': 2, '.y': 6, '.reset': 0}],
   'src': 'from pymtl3 import *\n' + _FL +
          'class Top( Component ):\n  def construct( s ):\n    s.x = InPort( Bits4 )\n    s.y = InPort( Bits4 )\n    s.w = Wire( Fl )\n    s.q = OutPort( Fl )\n'
          '    @update\n    def up1():\n      s.w.a @= s.x\n      s.w.b @= s.y\n    @update\n    def up2():\n      s.q @= s.w\n'},
  {'label': F10 + ':comp-array:witness', 'finding': F10, 'variant': 'comp-array', 'expect': _F10_EXPECT, 'backends': ('yosys',),
   'features': ['finding-stream'],
   'cycles': [{'.p': 0x35, '.reset': 0}],
   'src': 'from pymtl3 import *\n' + _FL +
          'class Leaf( Component ):\n  def construct( s ):\n    s.p = InPort( Fl )\n    s.o = OutPort( Bits4 )\n'
          '    @update\n    def lb():\n      s.o @= s.p.a + 1\n\n'
          'class Top( Component ):\n  def construct( s ):\n    s.p = InPort( Fl )\n    s.o = [ OutPort( Bits4 ) for _ in range(2) ]\n'
          '    s.l = [ Leaf() for _ in range(2) ]\n    for i in range(2):\n      s.l[i].p //= s.p\n      s.o[i] //= s.l[i].o\n'},
]

# witnesses of defects repaired by fix: commits 06cfd35 (F20) and ad19f30 (F21): clean corpus cases now
CORPUS += [
  {'label': 'corpus:fixed:' + F20 + ':subcomponent', 'backends': ('verilog', 'yosys'),
   'features': ['corpus', 'fixed-defect-shape'],
   'cycles': [{'.a[0][0]': 1, '.a[0][1]': 2, '.a[0][2]': 3, '.a[1][0]': 4, '.a[1][1]': 5, '.a[1][2]': 6, '.reset': 0}],
   'src': 'from pymtl3 import *\n'
          'class Sub( Component ):\n  def construct( s, k ):\n    s.in_ = InPort( Bits4 )\n    s.out = OutPort( Bits4 )\n'
          '    @update\n    def sb():\n      s.out @= s.in_ + k\n\n'
          'class Top( Component ):\n  def construct( s ):\n    s.a = [ [ InPort( Bits4 ) for _ in range(3) ] for _ in range(2) ]\n'
          '    s.o = [ [ OutPort( Bits4 ) for _ in range(3) ] for _ in range(2) ]\n'
          '    s.c = [ [ Sub( i * 3 + j ) for j in range(3) ] for i in range(2) ]\n'
          '    for i in range(2):\n      for j in range(3):\n        s.c[i][j].in_ //= s.a[i][j]\n        s.o[i][j] //= s.c[i][j].out\n'},
  {'label': 'corpus:fixed:' + F20 + ':interface', 'backends': ('verilog', 'yosys'),
   'features': ['corpus', 'fixed-defect-shape'],
   'cycles': [{'.ifc[0][0].msg': 1, '.ifc[0][1].msg': 2, '.ifc[0][2].msg': 3, '.ifc[1][0].msg': 4, '.ifc[1][1].msg': 5, '.ifc[1][2].msg': 6,
               '.ifc[0][0].val': 0, '.ifc[0][1].val': 0, '.ifc[0][2].val': 1, '.ifc[1][0].val': 0, '.ifc[1][1].val': 0, '.ifc[1][2].val': 0, '.reset': 0}],
   'src': 'from pymtl3 import *\n'
          'class GIfc( Interface ):\n  def construct( s, T ):\n    s.msg = InPort( T )\n    s.val = InPort()\n    s.rdy = OutPort()\n\n'
          'class Top( Component ):\n  def construct( s ):\n    s.ifc = [ [ GIfc( Bits4 ) for _ in range(3) ] for _ in range(2) ]\n'
          '    s.o = OutPort( Bits4 )\n    @update\n    def up():\n      s.o @= s.ifc[1][2].msg\n'
          '      for i in range(2):\n        for j in range(3):\n          s.ifc[i][j].rdy @= s.ifc[i][j].val\n'},
  {'label': 'corpus:fixed:' + F21, 'backends': ('verilog', 'yosys'),
   'features': ['corpus', 'fixed-defect-shape'],
   'cycles': [{'.x': 5, '.reset': 0}],
   'src': 'from pymtl3 import *\n'
          'class Sub( Component ):\n  def construct( s ):\n    s.in0 = [ [ InPort( Bits4 ) for _ in range(3) ] for _ in range(2) ]\n'
          '    s.out = OutPort( Bits4 )\n    @update\n    def sb():\n      s.out @= s.in0[0][2]\n\n'
          'class Top( Component ):\n  def construct( s ):\n    s.x = InPort( Bits4 )\n    s.o = [ OutPort( Bits4 ) for _ in range(2) ]\n'
          '    s.c = [ Sub(), Sub() ]\n    for i in range(2):\n      for j in range(3):\n        s.c[0].in0[i][j] //= 0\n'
          '    @update\n    def up():\n      for i in range(2):\n        for j in range(3):\n          s.c[1].in0[i][j] @= s.x\n'
          '    s.o[0] //= s.c[0].out\n    s.o[1] //= s.c[1].out\n'},
]

F22 = 'F22-yosys-cast-of-compound-unparenthesised'
CORPUS_F22 = [
  {'label': 'corpus:fixed:' + F22, 'backends': ('verilog', 'yosys'), 'features': ['corpus', 'fixed-defect-shape'],
   'cycles': [{'.a': 3, '.b': 4, '.reset': 0}],
   'src': 'from pymtl3 import *\n'
          'class Top( Component ):\n  def construct( s ):\n    s.a = InPort( Bits4 )\n    s.b = InPort( Bits4 )\n    s.o = OutPort( Bits4 )\n'
          '    @update\n    def up():\n      s.o @= s.a ^ Bits4( s.b | 1 )\n'},
]

CORPUS += CORPUS_F22      # repaired by fix: commit 0d5888c

F23 = 'F23-yosys-truncating-cast-selects-an-expression'
CORPUS_F23 = [
  {'label': 'corpus:fixed:' + F23, 'backends': ('verilog', 'yosys'), 'features': ['corpus', 'fixed-defect-shape'],
   'cycles': [{'.a': 3, '.b': 4, '.reset': 0}],
   'src': 'from pymtl3 import *\n'
          'class Top( Component ):\n  def construct( s ):\n    s.a = InPort( Bits8 )\n    s.b = InPort( Bits8 )\n    s.o = OutPort( Bits4 )\n'
          '    @update\n    def up():\n      s.o @= Bits4( s.a + s.b )\n'},
]

CORPUS += CORPUS_F23      # repaired by fix: commit b310bc9 (the PyMTL simulation raises: only the text is checked)

# directed shapes (clean): instance constants derived from constructor parameters read through attributes and constant
# subscripts by two instances of one class; a list of struct ports whose struct has list fields of another length
CORPUS += [
  {'label': 'corpus:two-instances-instance-constants', 'backends': ('verilog', 'yosys'), 'features': ['corpus'],
   'src': 'from pymtl3 import *\n'
          'MODK = 3\n'
          'class Clamp( Component ):\n  def construct( s, limit, step ):\n    s.in_ = InPort( Bits8 )\n    s.out = OutPort( Bits8 )\n'
          '    s.r = Wire( Bits8 )\n    s.LIMIT = limit\n    s.STEP = Bits8( step )\n    s.TABLE = [ Bits8( limit + 1 ), Bits8( step * 2 ) ]\n'
          '    @update\n    def cb():\n      if s.in_ > s.LIMIT:\n        s.out @= s.r + s.TABLE[1]\n      else:\n        s.out @= ( s.in_ + s.STEP ) ^ s.TABLE[0]\n'
          '    @update_ff\n    def fb():\n      s.r <<= s.r + s.STEP + MODK\n\n'
          'class Top( Component ):\n  def construct( s ):\n    s.a = InPort( Bits8 )\n    s.o = [ OutPort( Bits8 ) for _ in range(3) ]\n'
          '    s.c0 = Clamp( 20, 3 )\n    s.c1 = Clamp( 200, 17 )\n    s.cs = [ Clamp( 7, 1 ), Clamp( 99, 5 ) ]\n'
          '    s.c0.in_ //= s.a\n    s.c1.in_ //= s.a\n    s.cs[0].in_ //= s.a\n    s.cs[1].in_ //= s.c0.out\n'
          '    s.o[0] //= s.c0.out\n    s.o[1] //= s.c1.out\n'
          '    @update\n    def up():\n      s.o[2] @= s.cs[0].out ^ s.cs[1].out\n'},
  {'label': 'corpus:struct-port-list-with-list-fields', 'backends': ('verilog', 'yosys'), 'features': ['corpus'],
   'src': 'from pymtl3 import *\n'
          '@bitstruct\nclass In2:\n  x: Bits3\n  y: Bits2\n\n'
          '@bitstruct\nclass Pk:\n  tag: Bits2\n  ch: [Bits2]*3\n  sub: [In2]*3\n  grid: [[Bits2]*3]*2\n\n'
          'class Top( Component ):\n  def construct( s ):\n    s.in_ = [ InPort( Pk ) for _ in range(2) ]\n    s.sel = InPort( Bits1 )\n'
          '    s.o = [ OutPort( Bits2 ) for _ in range(6) ]\n    s.x = OutPort( Bits3 )\n    s.g = OutPort( Bits2 )\n    s.pk = OutPort( Bits35 )\n'
          '    @update\n    def up():\n      for p in range(2):\n        for e in range(3):\n          s.o[p*3+e] @= s.in_[p].ch[e] ^ s.in_[p].tag\n'
          '      s.x @= s.in_[1].sub[2].x + s.in_[s.sel].sub[0].x\n      s.g @= s.in_[1].grid[1][2] ^ s.in_[0].grid[0][1]\n      s.pk @= s.in_[1]\n'},
]

# ---------------------------------------------------------------------------------------------
# round 5: witnesses of F12 (translator face), F25, F10 variant struct-tmpvar (known) and of the repaired F29
# ---------------------------------------------------------------------------------------------
F12 = 'F12-implicit-arithmetic-width'
F25 = 'F25-yosys-interface-containing-interface-list'
_F25_EXPECT = ('syntax-invalid', 'undriven', 'output-mismatch', 'multi-driver')
_IFCS = ('class Inner( Interface ):\n  def construct( s ):\n    s.msg = InPort( Bits4 )\n    s.ack = OutPort( Bits1 )\n\n'
         'class Outer( Interface ):\n  def construct( s ):\n    s.val = InPort( Bits1 )\n    s.ch = [ Inner() for _ in range(3) ]\n\n')
WITNESSES += [
  {'label': F12 + ':witness', 'finding': F12, 'variant': 'tmpvar', 'expect': ('output-mismatch',), 'backends': ('verilog', 'yosys'), 'features': ['finding-stream'],
   'cycles': [{'.a': 0, '.reset': 0}, {'.a': 4, '.reset': 0}],
   'src': 'from pymtl3 import *\n'
          'class Top( Component ):\n  def construct( s ):\n    s.a = InPort( Bits4 )\n    s.o = OutPort( Bits4 )\n'
          '    @update\n    def up():\n      s.o @= 0\n      for i in range(4):\n        t = i + 1\n        if s.a == t:\n          s.o @= 1\n'},
  {'label': F25 + ':top:witness', 'finding': F25, 'variant': 'top', 'expect': _F25_EXPECT, 'backends': ('yosys',), 'features': ['finding-stream'],
   'cycles': [{'.ifc.val': 1, '.ifc.ch[0].msg': 1, '.ifc.ch[1].msg': 5, '.ifc.ch[2].msg': 8, '.reset': 0}],
   'src': 'from pymtl3 import *\n' + _IFCS +
          'class Top( Component ):\n  def construct( s ):\n    s.ifc = Outer()\n    s.o = OutPort( Bits4 )\n'
          '    @update\n    def up():\n      s.o @= s.ifc.ch[1].msg ^ s.ifc.ch[2].msg\n'
          '      for i in range(3):\n        s.ifc.ch[i].ack @= s.ifc.val & s.ifc.ch[i].msg[0]\n'},
  {'label': F25 + ':subcomponent:witness', 'finding': F25, 'variant': 'subcomponent', 'expect': _F25_EXPECT, 'backends': ('yosys',), 'features': ['finding-stream'],
   'cycles': [{'.a': 9, '.reset': 0}],
   'src': 'from pymtl3 import *\n' + _IFCS +
          'class Sub( Component ):\n  def construct( s ):\n    s.ifc = Outer()\n    s.o = OutPort( Bits4 )\n'
          '    @update\n    def sb():\n      s.o @= s.ifc.ch[1].msg\n      for i in range(3):\n        s.ifc.ch[i].ack @= s.ifc.val\n\n'
          'class Top( Component ):\n  def construct( s ):\n    s.a = InPort( Bits4 )\n    s.o = OutPort( Bits4 )\n    s.c = Sub()\n'
          '    s.c.ifc.val //= 1\n    for k in range(3):\n      s.c.ifc.ch[k].msg //= s.a\n    s.o //= s.c.o\n'},
  {'label': F10 + ':struct-tmpvar:witness', 'finding': F10, 'variant': 'struct-tmpvar', 'expect': _F10_EXPECT + ('syntax-invalid',), 'backends': ('yosys',),
   'features': ['finding-stream'],
   'cycles': [{'.in_': 0x1e, '.reset': 0}],
   'src': 'from pymtl3 import *\n' + _FL +
          'class Top( Component ):\n  def construct( s ):\n    s.in_ = InPort( Fl )\n    s.out = OutPort( Bits4 )\n    s.out2 = OutPort( Bits4 )\n'
          '    @update\n    def up():\n      t = s.in_\n      s.out @= t.a\n      s.out2 @= t.b + 1\n'},
]
CORPUS += [
  {'label': 'corpus:fixed:F29-tmpvar-part-write-nonblocking-in-update-ff', 'backends': ('verilog', 'yosys'), 'features': ['corpus', 'fixed-defect-shape'],
   'cycles': [{'.a': 0, '.b': 0xa3, '.reset': 0}, {'.a': 0x12, '.b': 0x4f, '.reset': 0}],
   'src': 'from pymtl3 import *\n'          # repaired by fix: commit 662dede
          'class Top( Component ):\n  def construct( s ):\n    s.a = InPort( Bits8 )\n    s.b = InPort( Bits8 )\n    s.r = OutPort( Bits8 )\n'
          '    @update_ff\n    def ff():\n      t = s.a | s.b\n      t[0:4] = s.b[4:8]\n      s.r <<= t\n'},
]

CORPUS += [
  {'label': 'corpus:fixed:F30-yosys-index-or-field-of-temporary', 'backends': ('verilog', 'yosys'), 'features': ['corpus', 'fixed-defect-shape'],
   'src': 'from pymtl3 import *\n'          # repaired by fix: commit 552251d (the struct-field write of a struct temporary stays F10 in yosys: not here)
          'class Top( Component ):\n  def construct( s ):\n    s.a = InPort( Bits8 )\n    s.b = InPort( Bits8 )\n    s.sel = InPort( Bits3 )\n'
          '    s.r = OutPort( Bits8 )\n    s.r2 = OutPort( Bits8 )\n    s.r3 = OutPort( Bits1 )\n'
          '    @update_ff\n    def ff():\n      u = s.a ^ s.b\n      u[7] = s.b[0]\n      u[0:2] = s.a[6:8]\n      s.r <<= u\n'
          '    @update\n    def cb():\n      v = s.a + s.b\n      v[2:6] = s.b[0:4]\n      if s.a[0]:\n        v[0] = s.b[7]\n'
          '      s.r2 @= v\n      s.r3 @= v[s.sel] ^ v[3]\n'},
]

CORPUS += [
  {'label': 'corpus:chained-assignment-to-temporaries', 'backends': ('verilog', 'yosys'), 'features': ['corpus'],
   'src': 'from pymtl3 import *\n'
          'class Top( Component ):\n  def construct( s ):\n    s.a = InPort( Bits8 )\n    s.b = InPort( Bits8 )\n'
          '    s.o1 = OutPort( Bits8 )\n    s.o2 = OutPort( Bits8 )\n    s.o3 = OutPort( Bits8 )\n    s.r = OutPort( Bits8 )\n'
          '    @update\n    def up():\n      t = s.a | 0\n      t = u = t + 1\n      s.o1 @= t\n      s.o2 @= u\n'
          '      v = w = x = ( s.a ^ s.b )\n      v = x = v - s.b\n      s.o3 @= v + w + x\n'
          '    @update_ff\n    def ff():\n      p = s.b | 0\n      p = q = p + s.a\n      s.r <<= p ^ ( q << 1 )\n'},
]

# ---------------------------------------------------------------------------------------------
# round 6: F35 (known) and the witnesses of the repaired F31-F34 (eb8e8a7, 2d78ca6, de4f2c7, bce9656)
# ---------------------------------------------------------------------------------------------
F35 = 'F35-chained-assignment-sole-body-without-begin-end'
WITNESSES += [
  {'label': F35 + ':witness', 'finding': F35, 'variant': 'else', 'expect': ('output-mismatch', 'multi-driver', 'undriven'), 'backends': ('verilog', 'yosys'),
   'features': ['finding-stream'],
   'cycles': [{'.a': 30, '.b': 90, '.c': 1, '.reset': 0}, {'.a': 30, '.b': 90, '.c': 0, '.reset': 0}],
   'src': 'from pymtl3 import *\n'
          'class Top( Component ):\n  def construct( s ):\n    s.a = InPort( Bits8 )\n    s.b = InPort( Bits8 )\n    s.c = InPort( Bits1 )\n'
          '    s.o5 = OutPort( Bits8 )\n    s.o6 = OutPort( Bits8 )\n'
          '    @update\n    def up3():\n      t = s.a | 0\n      u = s.b | 0\n      if s.c:\n        t = s.b + 1\n      else:\n        t = u = s.a - s.b\n'
          '      s.o5 @= t\n      for k in range(2):\n        t = u = u + 1\n      s.o6 @= t ^ u\n'},
]
CORPUS += [
  {'label': 'corpus:fixed:F31-F34-chained-mirror-samewidth-folded-global', 'backends': ('verilog', 'yosys'), 'features': ['corpus', 'fixed-defect-shape'],
   'src': 'from pymtl3 import *\ni = 5\n'
          'class Top( Component ):\n  def construct( s ):\n    s.a = InPort( Bits8 )\n    s.b = InPort( Bits8 )\n'
          '    s.o1 = OutPort( Bits8 )\n    s.o2 = OutPort( Bits8 )\n    s.o3 = OutPort( Bits1 )\n    s.o4 = OutPort( Bits8 )\n    s.o7 = OutPort( Bits8 )\n    s.o8 = OutPort( Bits8 )\n'
          '    s.N = 3\n'
          '    @update\n    def up1():\n      s.o1 @= s.a & zext( s.a | s.b, 8 )\n      s.o2 @= s.a ^ trunc( s.a + s.b, 8 ) ^ sext( s.b - s.a, 8 )\n      s.o3 @= s.a[2*s.N]\n'
          '    @update\n    def up2():\n      s.o4 @= 0\n      for i in range(8):\n        s.o4[i] @= s.a[i] & s.b[7-i]\n'
          '    @update\n    def up4():\n      v = s.b | 0\n      w = v = v + 1\n      s.o7 @= w\n      s.o8 @= v + (2*s.N)\n'},
]

# ---------------------------------------------------------------------------------------------
# round 7: F10 variant const-array-field - a struct CONSTANT with a list-of-struct field connected to a struct output, with
# further connections and a child after it.  Only the forms of `cfg` are affected on the current tree ('scope'); invalid
# text or damage to the other connections is not part of the known finding (seeded C12-6).
# ---------------------------------------------------------------------------------------------
WITNESSES += [
  {'label': 'F10-struct-output-written-by-field:const-array-field:witness', 'finding': 'F10-struct-output-written-by-field', 'variant': 'const-array-field',
   'expect': ('multi-driver', 'undriven'), 'scope': ('cfg',), 'backends': ('yosys',), 'features': ['finding-stream'],
   'cycles': [{'.in_': 5, '.reset': 0}, {'.in_': 200, '.reset': 0}],
   'src': 'from pymtl3 import *\n'
          '@bitstruct\nclass Pair:\n  x: Bits4\n  y: Bits2\n\n@bitstruct\nclass Cfg:\n  a: Bits4\n  b: [ Pair ] * 2\n\n'
          'class Inc( Component ):\n  def construct( s ):\n    s.in_ = InPort( Bits8 )\n    s.out = OutPort( Bits8 )\n    s.out //= s.in_\n\n'
          'class Top( Component ):\n  def construct( s ):\n    s.in_ = InPort( Bits8 )\n    s.cfg = OutPort( Cfg )\n    s.o1 = OutPort( Bits8 )\n    s.o2 = OutPort( Bits8 )\n'
          '    s.sub = Inc()\n    s.cfg //= Cfg( 1, [ Pair( 2, 3 ), Pair( 4, 1 ) ] )\n    s.sub.in_ //= s.in_\n    s.o1 //= s.sub.out\n    s.o2 //= s.in_\n'},
]
CORPUS += [
  {'label': 'corpus:struct-constant-with-list-of-struct-fields-connected', 'backends': ('verilog',), 'features': ['corpus'],
   'src': 'from pymtl3 import *\n'
          '@bitstruct\nclass Pair:\n  x: Bits4\n  y: Bits2\n\n@bitstruct\nclass Deep:\n  p: [ Pair ] * 2\n  z: Bits3\n\n'
          '@bitstruct\nclass Cfg:\n  a: Bits4\n  b: [ Pair ] * 2\n  c: [ [ Pair ] * 2 ] * 2\n  d: [ Deep ] * 2\n\n'
          'class Inc( Component ):\n  def construct( s ):\n    s.in_ = InPort( Bits8 )\n    s.out = OutPort( Bits8 )\n    s.k = OutPort( Pair )\n    s.out //= s.in_\n    s.k //= Pair( 3, 1 )\n\n'
          'class Top( Component ):\n  def construct( s ):\n    s.in_ = InPort( Bits8 )\n    s.cfg = OutPort( Cfg )\n    s.o1 = OutPort( Bits8 )\n    s.o2 = OutPort( Bits8 )\n    s.k = OutPort( Pair )\n'
          '    s.sub = Inc()\n'
          '    s.cfg //= Cfg( 1, [ Pair( 2, 3 ), Pair( 4, 1 ) ], [ [ Pair(1,1), Pair(2,2) ], [ Pair(3,3), Pair(4,0) ] ], [ Deep( [ Pair(5,1), Pair(6,2) ], 5 ), Deep( [ Pair(7,3), Pair(8,0) ], 2 ) ] )\n'
          '    s.sub.in_ //= s.in_\n    s.o1 //= s.sub.out\n    s.o2 //= s.in_\n    s.k //= s.sub.k\n'},
]

# ---------------------------------------------------------------------------------------------
# round 8: F12 variant cast-of-sum (known, both backends); witnesses of the repaired F38 (059826b) and F39 (24d6fc0)
# ---------------------------------------------------------------------------------------------
WITNESSES += [
  {'label': F12 + ':cast-of-sum:witness', 'finding': F12, 'variant': 'cast-of-sum', 'expect': ('output-mismatch', 'cast-reading-dependent'),
   'backends': ('verilog', 'yosys'), 'features': ['finding-stream'],
   'cycles': [{'.a': 0, '.reset': 0}, {'.a': 4, '.reset': 0}],
   'src': 'from pymtl3 import *\n'
          'class Top( Component ):\n  def construct( s ):\n    s.a = InPort( Bits8 )\n    s.o = OutPort( Bits8 )\n'
          '    @update\n    def up():\n      s.o @= 0\n      for i in range(4):\n        if s.a == Bits8(i + 1):\n          s.o @= Bits8(i + 1) + 100\n'},
]
CORPUS += [
  {'label': 'corpus:fixed:F38-bool-constant-attribute', 'backends': ('verilog', 'yosys'), 'features': ['corpus', 'fixed-defect-shape'],
   'src': 'from pymtl3 import *\nGF = True\n'
          'class Top( Component ):\n  def construct( s ):\n    s.a = InPort( Bits8 )\n    s.o = OutPort( Bits8 )\n    s.p = OutPort( Bits1 )\n    s.q = OutPort( Bits1 )\n    s.r = OutPort( Bits8 )\n'
          '    s.FLAG = True\n    s.FL = [ True, False ]\n    cf = True\n'
          '    @update\n    def up():\n      if s.FLAG:\n        s.o @= s.a + 1\n      else:\n        s.o @= s.a\n'
          '      s.p @= s.a[0] & s.FLAG\n      s.q @= s.a[1] & s.FL[0] | s.FL[1]\n'
          '    @update\n    def up2():\n      s.r @= s.a\n      if GF & cf:\n        s.r @= ~s.a\n'},
  {'label': 'corpus:fixed:F39-if-expression-loop-bound', 'backends': ('verilog', 'yosys'), 'features': ['corpus', 'fixed-defect-shape'],
   'src': 'from pymtl3 import *\n'
          'class Top( Component ):\n  def construct( s ):\n    s.a = InPort( Bits8 )\n    s.mode = InPort( Bits1 )\n    s.o = OutPort( Bits8 )\n    s.q = OutPort( Bits8 )\n    s.MODE = 0\n'
          '    @update\n    def up():\n      s.o @= 0\n      for i in range(4 if s.MODE else 8):\n        s.o @= s.o + s.a\n'
          '      s.q @= 0\n      for j in range(2 if s.mode else 5):\n        s.q @= s.q + 1\n'},
]
