"""C10 helper: oracle-only streams (NOT modelled in Lean): bitstruct-typed signals (L3 of the type checker) and
lists of Bits constants.  Blocks are written as source text, checked by the real Gen + TypeCheck passes and simulated
under DefaultPassGroup; the verdict comes from the model-independent oracle only:
  accepted  =>  simulation raises no bitwidth error, and every explicitly sized RTLIR node whose Python value is a
                Bits / bitstruct has nbits == static width.
A case is JSON-able: {'uid', 'stream', 'types': [[name, [[field, spec], ...]], ...], 'ports': [[name, dir, type]],
'attrs': [construct lines], 'body': [update block lines]}; spec / type = 'Bits<N>' | struct name | ['list', 'Bits<N>', k].
"""
import ast, importlib.util, os, sys, types

FW = [1, 2, 3, 4, 8, 16]

def dims_of(t):
  return t[2] if isinstance(t[2], list) else [t[2]]

def spec_width(case, t):
  if isinstance(t, list):
    n = 1
    for d in dims_of(t): n *= d
    return int(t[1][4:]) * n
  if t.startswith('Bits'): return int(t[4:])
  for name, fields in case['types']:
    if name == t: return sum(spec_width(case, s) for _, s in fields)
  raise KeyError(t)

def spec_src(t):
  if isinstance(t, list):
    src = t[1]
    for d in reversed(dims_of(t)): src = '[ ' + ', '.join([src] * d) + ' ]'
    return src
  return t

def source(case):
  lines = []
  for name, fields in case['types']:
    lines += ['@bitstruct', f'class {name}:'] + [f'  {f}: {spec_src(s)}' for f, s in fields] + ['']
  lines += list(case.get('prelude', []))
  cname = f'C10S_{case["uid"]}'
  lines += [f'class {cname}( Component ):', '  def construct( s ):']
  for n, d, t in case['ports']:
    lines.append(f'    s.{n} = {"InPort" if d == "in" else "OutPort"}( {t} )')
  lines += ['    ' + a for a in case['attrs']]
  lines += ['    @update', '    def up():'] + ['      ' + b for b in case['body']]
  return cname, lines

_count = [0]
_loaded = []
def load(workdir, cases):
  src = ['from pymtl3 import *', 'from pymtl3.datatypes import mk_bits']
  ws = set()
  for c in cases:
    for n, d, t in c['ports']:
      if t.startswith('Bits'): ws.add(int(t[4:]))
    for w in c.get('widths', []): ws.add(w)
  src += [f'Bits{w} = mk_bits( {w} )' for w in sorted(ws)] + ['']
  names = []
  for c in cases:
    n, ls = source(c); names.append(n); src += ls + ['']
  _count[0] += 1
  modname = f'c10s_{os.getpid()}_{_count[0]}'
  path = os.path.join(workdir, modname + '.py')
  with open(path, 'w') as f: f.write('\n'.join(src) + '\n')
  spec = importlib.util.spec_from_file_location(modname, path)
  mod = importlib.util.module_from_spec(spec)
  sys.modules[modname] = mod; _loaded.append(modname)
  spec.loader.exec_module(mod)
  return mod, names

def drop():
  for m in _loaded: sys.modules.pop(m, None)
  del _loaded[:]

# ------------------------------------------------------------------ generators

def rand_struct(rng, name, inner=None):
  fields = []
  for j in range(rng.randint(1, 3)):
    fields.append([f'f{j}', f'Bits{rng.choice(FW)}'])
  if inner is not None:
    fields.insert(rng.randint(0, len(fields)), ['p', inner])
  if rng.random() < 0.35:
    fields.append(['v', ['list', f'Bits{rng.choice([1, 4, 8])}', rng.randint(2, 3)]])
  return [name, fields]

MD_DIMS = [[2, 3], [3, 2], [1, 3], [1, 4], [2, 2, 2], [3, 1], [2, 4], [2, 2]]

def gen_matstruct(rng, uid):
  """a bitstruct with a list field of two or three dimensions (sum of the dimensions != their product) used as a
  whole against BitsN of its real width / the width obtained with the sum of the dimensions / neighbouring widths"""
  ew = rng.choice([1, 2, 4, 8])
  dims = rng.choice(MD_DIMS)
  fields = [['m', ['list', f'Bits{ew}', dims]]]
  if rng.random() < 0.7: fields.insert(rng.randint(0, 1), ['tag', f'Bits{rng.choice([1, 4, 8])}'])
  M = [f'SM{uid}', fields]
  case = {'uid': uid, 'stream': 'struct', 'types': [M], 'ports': [], 'attrs': [], 'body': [], 'widths': []}
  if rng.random() < 0.3:
    N = [f'SN{uid}', [['h', f'Bits{rng.choice([1, 3, 8])}'], ['p', M[0]]]]
    case['types'].append(N); S = N
  else: S = M
  W = spec_width(case, S[0])
  prod = 1
  for d in dims: prod *= d
  Wsum = W - ew * prod + ew * sum(dims)
  n = max(1, rng.choice([W, W, Wsum, Wsum, W - 1, W + 1, Wsum + 1, W + ew]))
  k = rng.random()
  if k < 0.45:
    case['ports'] = [['in_', 'in', S[0]], ['out', 'out', f'Bits{n}']]
    case['body'] = ['s.out @= s.in_'] if rng.random() < 0.75 else ['t = s.in_', 's.out @= t']
  elif k < 0.8:
    case['ports'] = [['in_', 'in', f'Bits{n}'], ['out', 'out', S[0]]]
    case['body'] = ['s.out @= s.in_']
  elif k < 0.9:
    case['ports'] = [['a', 'in', S[0]], ['b', 'in', S[0]], ['c', 'in', 'Bits1'], ['out', 'out', f'Bits{n}']]
    case['body'] = ['s.out @= s.a if s.c else s.b']
  else:
    idx = ''.join(f'[{rng.randint(0, d - 1)}]' for d in dims)
    path = ('p.' if S is not M else '') + 'm' + idx
    case['ports'] = [['in_', 'in', S[0]], ['out', 'out', f'Bits{rng.choice([ew, ew, ew + 1])}']]
    case['body'] = [f's.out @= s.in_.{path}']
  case['widths'] = [n]
  return case

def near(rng, w):
  return max(1, rng.choice([w, w, w, w - 1, w + 1, 1, w + 8, 16, 2 * w]))

def gen_struct(rng, uid):
  """one block around bitstruct-typed ports: struct <-> BitsN, struct <-> struct, fields as operands / targets"""
  A = rand_struct(rng, f'SA{uid}')
  B = rand_struct(rng, f'SB{uid}', inner=A[0]) if rng.random() < 0.5 else rand_struct(rng, f'SB{uid}')
  case = {'uid': uid, 'stream': 'struct', 'types': [A, B], 'ports': [], 'attrs': [], 'body': [], 'widths': []}
  S = rng.choice([A, B])
  W = spec_width(case, S[0])
  k = rng.random()
  def leaf_fields(T, prefix=''):
    out = []
    for f, s in T[1]:
      if isinstance(s, list):
        idxs = ['']
        for d in dims_of(s): idxs = [i + f'[{j}]' for i in idxs for j in range(d)]
        for i in idxs: out.append((f'{prefix}{f}{i}', int(s[1][4:])))
      elif s.startswith('Bits'): out.append((prefix + f, int(s[4:])))
      else:
        T2 = [t for t in case['types'] if t[0] == s][0]
        out += leaf_fields(T2, prefix + f + '.')
    return out
  if k < 0.22:      # struct -> bits
    n = near(rng, W)
    case['ports'] = [['in_', 'in', S[0]], ['out', 'out', f'Bits{n}']]
    case['body'] = ['s.out @= s.in_'] if rng.random() < 0.7 else ['t = s.in_', 's.out @= t']
  elif k < 0.40:    # bits -> struct
    n = near(rng, W)
    case['ports'] = [['in_', 'in', f'Bits{n}'], ['out', 'out', S[0]]]
    case['body'] = ['s.out @= s.in_']
  elif k < 0.52:    # struct -> struct
    T = rng.choice([A, B])
    case['ports'] = [['in_', 'in', T[0]], ['out', 'out', S[0]]]
    case['body'] = ['s.out @= s.in_']
  elif k < 0.60:    # struct-typed if-expression
    T = rng.choice([S, S, A, B])
    case['ports'] = [['a', 'in', S[0]], ['b', 'in', T[0]], ['c', 'in', 'Bits1'], ['out', 'out', S[0]]]
    case['body'] = ['s.out @= s.a if s.c else s.b']
  elif k < 0.82:    # field as operand
    f, fw = rng.choice(leaf_fields(S))
    aw, ow = near(rng, fw), near(rng, fw)
    if rng.random() < 0.6: aw = fw
    if rng.random() < 0.6: ow = fw
    case['ports'] = [['in_', 'in', S[0]], ['a', 'in', f'Bits{aw}'], ['out', 'out', f'Bits{ow}'], ['o1', 'out', 'Bits1']]
    r = rng.random()
    if r < 0.45: case['body'] = [f's.out @= s.in_.{f} {rng.choice(["+", "&", "|", "^", "-"])} s.a']
    elif r < 0.6: case['body'] = [f's.out @= s.a + s.in_.{f}']
    elif r < 0.75: case['body'] = [f's.o1 @= s.in_.{f} {rng.choice(["==", "<", "!="])} s.a']
    elif r < 0.9: case['body'] = [f's.out @= s.in_.{f}']
    else: case['body'] = [f's.out @= s.in_.{f} if s.a[0] else s.a']
  else:             # field as target
    f, fw = rng.choice(leaf_fields(S))
    aw = fw if rng.random() < 0.6 else near(rng, fw)
    case['ports'] = [['a', 'in', f'Bits{aw}'], ['out', 'out', S[0]]]
    r = rng.random()
    if r < 0.7: case['body'] = [f's.out.{f} @= s.a']
    elif r < 0.85: case['body'] = [f's.out.{f} @= {rng.choice([0, 1, (1 << fw) - 1, 1 << fw])}']
    else: case['body'] = [f's.out.{f} @= s.a + {rng.choice([1, (1 << aw) - 1])}']
  return case

IDX_FORMS = ['0+1', '2-1', '1*1', '0+0', '1+1', '4>>1']

def gen_lut(rng, uid, stream='N6'):
  """an element of a list of Bits constants selected by a constant index expression that the generation pass does
  not fold (`s.lut[0+1]`): the element is a Bits<K> at run time; `stream` 'N6' = K differs from the context"""
  K = rng.choice([2, 4, 8])
  W = K if stream == 'lutctl' else K + rng.choice([1, 4, 8])
  n = rng.randint(3, 4)
  vals = [rng.randint(0, (1 << K) - 1) for _ in range(n)]
  idx = rng.choice(IDX_FORMS) if rng.random() < 0.85 or stream == 'N6' else str(rng.randint(0, 2))
  case = {'uid': uid, 'stream': stream, 'types': [], 'widths': [K, W],
          'ports': [['a', 'in', f'Bits{W}'], ['out', 'out', f'Bits{W}'], ['o1', 'out', 'Bits1']],
          'attrs': [f's.lut = [ ' + ', '.join(f'Bits{K}( {v} )' for v in vals) + ' ]']}
  E = f's.lut[ {idx} ]'
  if rng.random() < 0.3: E = '~' + E          # a unary operator directly on the constant element
  r = rng.random()
  if r < 0.4: case['body'] = [f's.out @= s.a {rng.choice(["+", "&", "|", "^"])} {E}']
  elif r < 0.55: case['body'] = [f's.out @= {E} + s.a']
  elif r < 0.7: case['body'] = [f's.out @= {E}']
  elif r < 0.85: case['body'] = [f's.o1 @= s.a == {E}']
  else: case['body'] = [f's.out @= s.a if s.a[0] else {E}']
  return case

def gen_intlut(rng, uid):
  """a 1-D list of plain Python ints (same or mixed minimal widths; the first element the narrowest, the widest, or
  neither) read through a signal index, a loop-variable index or a constant index expression the generation pass
  does not fold, in a context as wide as element 0 / as the widest element / in between.  A list of ints of
  different widths is rejected at RTLIR conversion by the clean code."""
  n = rng.choice([2, 3, 4])
  r = rng.random()
  if r < 0.45:     # first element the narrowest
    w0 = rng.choice([1, 1, 2, 3])
    vals = [rng.randint(1 << (w0 - 1), (1 << w0) - 1) if w0 > 1 else rng.randint(0, 1)]
    vals += [rng.randint(1 << w0, (1 << (w0 + rng.randint(1, 3))) - 1) if rng.random() < 0.7 else rng.randint(0, (1 << w0) - 1) for _ in range(n - 1)]
    if max(vals[1:]) < (1 << w0): vals[-1] = (1 << w0) + 1
  elif r < 0.7:    # all of the same minimal width
    w0 = rng.choice([1, 2, 3, 4])
    vals = [rng.randint(1 << (w0 - 1), (1 << w0) - 1) if w0 > 1 else rng.randint(0, 1) for _ in range(n)]
  else:            # first element the widest
    w0 = rng.choice([2, 3, 4])
    vals = [rng.randint(1 << (w0 - 1), (1 << w0) - 1)] + [rng.randint(0, (1 << (w0 - 1)) - 1) for _ in range(n - 1)]
  wmax = max(1, max(vals).bit_length())
  w0 = max(1, vals[0].bit_length())
  cw = rng.choice([w0, w0, wmax, max(w0, wmax - 1), wmax + 2])
  iw = 1 if n <= 2 else (n - 1).bit_length()
  case = {'uid': uid, 'stream': 'intlut', 'types': [], 'widths': [cw, iw],
          'ports': [['sel', 'in', f'Bits{iw}'], ['a', 'in', f'Bits{cw}'], ['en', 'in', f'Bits{cw}'], ['out', 'out', f'Bits{cw}'],
                    ['o1', 'out', 'Bits1']],
          'attrs': ['s.lut = [ ' + ', '.join(str(v) for v in vals) + ' ]'], 'sweep': 'sel', 'nlut': n}
  form = rng.random()
  if form < 0.4: E = 's.lut[ s.sel ]'
  elif form < 0.7: E = 's.lut[ i ]'
  else: E = f's.lut[ {rng.choice(["0+1", "2-1", "1*1", "0+0"] + (["1+1"] if n > 2 else []))} ]'
  k = rng.random()
  if k < 0.3: stmt = f's.out @= {E}'
  elif k < 0.6: stmt = f's.out @= s.a {rng.choice(["+", "&", "|", "^"])} {E}'
  elif k < 0.75: stmt = f's.out @= s.out | ( {E} & s.en )'
  elif k < 0.9: stmt = f's.o1 @= s.a == {E}'
  else: stmt = f's.out @= s.a if s.a[0] else {E}'
  if 'lut[ i ]' in E: case['body'] = ['s.out @= 0', f'for i in range( {n} ):', '  ' + stmt]
  else: case['body'] = [stmt]
  return case

def gen_hetero(rng, uid, which, canonical=False):
  """known findings N7 / N8: a list of interfaces (N7) / of sub-components whose ports live inside an interface (N8)
  built from ONE class with different type parameters is typed by its first element; reading a port of a later,
  differently sized element into a port of element 0's width is accepted"""
  w0 = 8 if canonical else rng.choice([2, 4, 8])
  w1 = 16 if canonical else w0 + rng.choice([1, 4, 8])
  n = 2 if canonical else rng.randint(2, 3)
  ws = [w0] + [w1 if j == 1 else rng.choice([w0, w1]) for j in range(1, n)]
  pick = 1 if canonical else rng.choice([j for j in range(n) if ws[j] != w0])
  I, S = f'Ifc{uid}', f'Sub{uid}'
  case = {'uid': uid, 'stream': which, 'types': [], 'widths': sorted(set(ws)), 'ports': [['out', 'out', f'Bits{w0}']],
          'prelude': [f'class {I}( Interface ):', '  def construct( s, T ):',
                      f'    s.msg = {"InPort" if which == "N7" else "OutPort"}( T )', '']}
  if which == 'N7':
    case['attrs'] = ['s.ifc = [ ' + ', '.join(f'{I}( Bits{w} )' for w in ws) + ' ]']
    E = f's.ifc[ {pick} ].msg'
  else:
    case['prelude'] += [f'class {S}( Component ):', '  def construct( s, T ):', f'    s.ifc = {I}( T )', '    @update', '    def up_sub():',
                        '      s.ifc.msg @= 1', '']
    case['attrs'] = ['s.sub = [ ' + ', '.join(f'{S}( Bits{w} )' for w in ws) + ' ]']
    E = f's.sub[ {pick} ].ifc.msg'
  r = 0.0 if canonical else rng.random()
  if r < 0.5: case['body'] = [f's.out @= {E}']
  elif r < 0.8:
    case['ports'].append(['a', 'in', f'Bits{w0}']); case['body'] = [f's.out @= s.a {rng.choice(["+", "&", "|"])} {E}']
  else:
    case['ports'] += [['a', 'in', f'Bits{w0}'], ['o1', 'out', 'Bits1']]; case['body'] = [f's.o1 @= s.a == {E}']
  return case

def gen_structinst(rng, uid, canonical=False):
  """N9 (repair pending): an implicit argument of a bitstruct instantiation that needs more bits than its field"""
  fw = 8 if canonical else rng.choice([1, 2, 4, 8])
  gw = 4 if canonical else rng.choice([1, 4, 8])
  v = 300 if canonical else (1 << fw) + rng.randint(0, 300)
  T = [f'SI{uid}', [['x', f'Bits{fw}'], ['y', f'Bits{gw}']]]
  case = {'uid': uid, 'stream': 'N9', 'types': [T], 'widths': [], 'ports': [['out', 'out', T[0]], ['a', 'in', f'Bits{gw}']], 'attrs': []}
  r = 0.0 if canonical else rng.random()
  if r < 0.6: case['body'] = [f's.out @= {T[0]}( {v}, 1 )']
  elif r < 0.8: case['body'] = [f's.out @= {T[0]}( {v}, s.a )']
  else: case['body'] = [f's.out @= {T[0]}( {rng.randint(0, (1 << fw) - 1)}, {(1 << gw) + rng.randint(0, 9)} )']
  return case

def corpus():
  P = ['SP', [['x', 'Bits8'], ['y', 'Bits16']]]
  N = ['SN', [['p', 'SP'], ['v', ['list', 'Bits4', 2]]]]
  Q = ['SQ', [['a', 'Bits16'], ['b', 'Bits8']]]
  def mk(uid, ports, body, attrs=(), stream='struct', widths=()):
    return {'uid': uid, 'stream': stream, 'types': [[f'{t[0]}_{uid}', [[f, (s + f'_{uid}' if isinstance(s, str) and s.startswith('S') else s)]
                                                                          for f, s in t[1]]] for t in (P, N, Q)],
            'ports': [[n, d, (t + f'_{uid}' if t.startswith('S') else t)] for n, d, t in ports], 'attrs': list(attrs),
            'body': body, 'widths': list(widths)}
  cs = []
  u = 900000
  for S, W in (('SP', 24), ('SN', 32)):
    for n in (1, 16, 24, 32, 40):
      u += 1; cs.append(mk(u, [['in_', 'in', S], ['out', 'out', f'Bits{n}']], ['s.out @= s.in_']))
      u += 1; cs.append(mk(u, [['in_', 'in', f'Bits{n}'], ['out', 'out', S]], ['s.out @= s.in_']))
  u += 1; cs.append(mk(u, [['in_', 'in', 'SQ'], ['out', 'out', 'SP']], ['s.out @= s.in_']))
  for n in (44, 52, 51, 53):       # Mat{ m: [[Bits8]*3]*2, tag: Bits4 } is 52 bits wide
    for body, ports in ((['s.out @= s.in_'], lambda T: [['in_', 'in', T], ['out', 'out', f'Bits{n}']]),
                        (['s.out @= s.in_'], lambda T: [['in_', 'in', f'Bits{n}'], ['out', 'out', T]])):
      u += 1
      T = f'Mat_{u}'
      cs.append({'uid': u, 'stream': 'struct', 'types': [[T, [['m', ['list', 'Bits8', [2, 3]]], ['tag', 'Bits4']]]],
                 'ports': ports(T), 'attrs': [], 'body': body, 'widths': [n]})
  u += 1; cs.append(mk(u, [['in_', 'in', 'SP'], ['a', 'in', 'Bits8'], ['out', 'out', 'Bits8']], ['s.out @= s.in_.x + s.a']))
  u += 1; cs.append(mk(u, [['in_', 'in', 'SP'], ['a', 'in', 'Bits8'], ['out', 'out', 'Bits8']], ['s.out @= s.in_.y + s.a']))
  u += 1; cs.append(mk(u, [['in_', 'in', 'SN'], ['out', 'out', 'Bits4']], ['s.out @= s.in_.v[1]']))
  u += 1; cs.append(mk(u, [['a', 'in', 'Bits8'], ['out', 'out', 'SP']], ['s.out.y @= s.a']))
  lut = ['s.lut = [ Bits8( 1 ), Bits8( 2 ), Bits8( 3 ) ]']
  u += 1; cs.append(mk(u, [['in_', 'in', 'Bits8'], ['out', 'out', 'Bits16']], ['s.out @= zext( s.in_, 16 ) + s.lut[ 0+1 ]'], lut, 'N6'))
  u += 1; cs.append(mk(u, [['in_', 'in', 'Bits8'], ['out', 'out', 'Bits16']], ['s.out @= zext( s.in_, 16 ) + s.lut[ 1 ]'], lut, 'lutctl'))
  u += 1; cs.append(mk(u, [['in_', 'in', 'Bits8'], ['out', 'out', 'Bits8']], ['s.out @= s.in_ + s.lut[ 0+1 ]'], lut, 'lutctl'))
  il = ['s.lut = [ 1, 6, 3 ]']
  u += 1; c = mk(u, [['sel', 'in', 'Bits2'], ['out', 'out', 'Bits1']], ['s.out @= s.lut[ s.sel ]'], il, 'intlut'); c['sweep'] = 'sel'; cs.append(c)
  u += 1; cs.append(mk(u, [['en', 'in', 'Bits1'], ['out', 'out', 'Bits1']],
                       ['s.out @= 0', 'for i in range( 3 ):', '  s.out @= s.out | ( s.lut[ i ] & s.en )'], il, 'intlut'))
  u += 1; cs.append(mk(u, [['in_', 'in', 'Bits2'], ['out', 'out', 'Bits2']], ['s.out @= s.in_ + s.lut[ 0+1 ]'], il, 'intlut'))
  u += 1; c = mk(u, [['sel', 'in', 'Bits2'], ['out', 'out', 'Bits3']], ['s.out @= s.lut[ s.sel ]'], ['s.lut = [ 5, 6, 4 ]'], 'intlut'); c['sweep'] = 'sel'; cs.append(c)
  return cs

# ------------------------------------------------------------------ oracle

def explicit_nodes(R, rtlir):
  """(source text, static width) of every explicitly sized expression node of the real tree"""
  out, seen = [], set()
  def go(n):
    if id(n) in seen: return
    seen.add(id(n))
    t = getattr(n, 'Type', None)
    a = getattr(n, 'ast', None)
    if isinstance(t, R.rt.Signal) and getattr(n, '_is_explicit', False) and isinstance(a, ast.expr):
      try: out.append((ast.unparse(a), int(t.get_dtype().get_length())))
      except Exception: pass
    for f, v in vars(n).items():
      if f in ('ast', 'component'): continue
      if isinstance(v, R.bir.BaseBehavioralRTLIR): go(v)
      elif isinstance(v, list):
        for x in v:
          if isinstance(x, R.bir.BaseBehavioralRTLIR): go(x)
  go(rtlir)
  return out
