"""C16 — waveform dumps replay the simulation exactly.

proof:          lean/PymtlVerif/Props/C16.lean (model: Model/VCD.lean)
correspondence: VcdGenerationPass / PrintTextWavePass on generated RTL designs (real module files under
                ck.workdir, simulated with DefaultPassGroup(vcdwave=..., textwave=True)) vs Model/VCD.lean
direct oracle:  the .vcd file parsed by an independent reader (c16_vcdparse.py), replayed hold-until-changed in
                Python and compared with the values sampled from the simulator at every clock edge, for every
                signal of every component; clock lines; textwave_dict entries.

Sampling point. sim_tick = [update blocks] + [dump_vcd, dump_wav, <hooks>] + [ff blocks, flip, ...] + [update blocks]
(PrepareSimPass.create_sim_tick / collect_ff_funcs), sim_reset calls the same ff list three times. The values
"at the clock edge of cycle t" are what the signals hold when the ff list starts. They are sampled by a reader
function placed in that list through the VerilogTBGenPass.vtbgen_hooks metadata (runs right after the dump
functions, before the ff blocks — nothing writes signals in between), and, for every cycle driven through
sim_tick, a second time through the public API (after sim_eval_combinational(), before sim_tick()) when the design is pure RTL
and the inputs are not poked again after the evaluation; the two
must agree (otherwise the run stops with an infrastructure error).
"""
import gc, importlib.util, os, random, re, sys

from ..common import leanio
from ..common.leanio import InfraError
from . import c16_gen as G
from . import c16_vcdparse as VP

PID = 'C16'
DRIVERS = ['vcd']
MODULE = ['PymtlVerif.Props.C16', 'PymtlVerif.Props.C16Gen']
THEOREMS = ['PV.C16.' + t for t in [
  'replay_dump', 'replay_dump_zero_init', 'replay_signal', 'shared_symbol',
  'clock_edges', 'clock_once_per_cycle',
  'vcd_str_parses', 'vcd_str_injective', 'vcd_str_length', 'symbol_injective', 'textwave_record',
  'quirk_needs_equal_defaults']]
# generated-from-source = model (Props/C16Gen.lean; Gen/VcdSymGen.lean is regenerated from /repo by pregen below)
GEN_THEOREMS = ['PV.C16Gen.' + t for t in [
  'gen_symbol_eq', 'gen_symbol_injective', 'symbol_injective', 'symbol_chars_printable', 'symbol_nonempty', 'symbol_text']]
THEOREMS = THEOREMS + GEN_THEOREMS
THEOREM_MODULE = {t: 'PymtlVerif.Props.C16Gen' for t in GEN_THEOREMS}

def pregen(ck):
  """translator-based tie: regenerate lean/PymtlVerif/Gen/VcdSymGen.lean from `_gen_vcd_symbol` of the current
  VcdGenerationPass.py (written only if its content changed); Props/C16Gen.lean then re-proves generated = model"""
  path = os.path.join(leanio.VERIF, 'tools', 'py2lean_vcdsym.py')
  spec = importlib.util.spec_from_file_location('py2lean_vcdsym', path)
  mod = importlib.util.module_from_spec(spec); spec.loader.exec_module(mod)
  return mod.pregen()

TRUSTED = [
  'identifier codes: tools/py2lean_vcdsym.py translates the Python AST of `_gen_vcd_symbol` (generator -> step function over Python-int '
  'semantics of Gen/PyInt.lean, strings as character-code lists of Gen/PyStr.lean) into Gen/VcdSymGen.lean before every build; '
  'gen_symbol_eq proves, for every n, that the n-th code it yields is Model/VCD.symCodes n (= the text of VCD.symbol n). Trusted there: the '
  'translator (subset checked, anything else refuses), PyInt/PyStr as the meaning of // % divmod, s[i], +, chr/range/join; the first 20000 '
  'codes of the real generator (its code object, taken out of make_vcd_func) are also compared with the model on every run',
  'Model/VCD.lean follows VcdGenerationPass.make_vcd_func/dump_vcd_inner: net table, symbol generator, header values, '
  'last_values indexed by position in net_details, clock lines; the reader (stateAt/replay) is the model\'s own definition of '
  '"reading a VCD file" (cycle t = time 100t, value holds until changed) and is compared with the Python reader of this check on every file',
  'the net table (widths, order, clock net, signal->net) handed to the model is read back from the file\'s own header; that signals of one '
  'DSL value net share a symbol is compared with top.get_all_value_nets() separately',
  'sampling hook placed in the tick through VerilogTBGenPass.vtbgen_hooks, cross-checked against sim_eval_combinational()+read',
  'packing of bitstruct values (first field most significant) is re-implemented in the check; c16_vcdparse.py implements the VCD grammar subset used',
]
ASSUMPTIONS = [
  'RTL designs; about 30% carry one method port or update_once block, which makes sim_tick skip the update blocks before the edge '
  '(the dump then sees inputs poked between ticks before the design has reacted); the samples are always taken where the dump is taken',
  'every default value is zero (Bits and bitstructs cannot carry another default), which makes the last_values indexing slip of '
  'dump_vcd_inner harmless (theorem hypothesis QuirkSafe; counterexample quirk_needs_equal_defaults)',
  'the replayed value of a signal in cycle t is read at time 100*t; header lines (before #0) are the file\'s initial values',
]
RULE = ('random component trees (depth 0-2; ports, port lists, interfaces, wires chained into multi-member nets, constants, slices, '
        'bitstruct fields (incl. 61/64/122-bit ones), registers, wrapping counters, wide complement-toggling registers, widths 1..183, '
        'class reuse, child lists, >94 nets) x input sequences with sticky / revisited / random / boundary-biased steps (equal modulo 2^61-1, '
        'equal low 32/64 bits, top bit only, complement, 0 <-> all ones, 1 <-> 1<<61, neighbours of 2^64; one field at a time for bitstructs) '
        'x sim_reset/manual reset/no reset; non-trivial = at least one data net changes after cycle 0 and one never changes; '
        'distinct = distinct design seed')

# ------------------------------------------------------------------ values

def pack(v, td):
  """packed integer of a simulator value (Bits or bitstruct instance), first field most significant"""
  if td[0] == 'b': return int(v)
  acc = 0
  for f, ft in G.STRUCTS[td[1]]:
    acc = (acc << G.nbits(ft)) | pack(getattr(v, f), ft)
  return acc

def unpack(mod, td, x):
  """simulator value of type td from a packed integer"""
  if td[0] == 'b':
    from pymtl3.datatypes import mk_bits
    return mk_bits(td[1])(x)
  fields = G.STRUCTS[td[1]]
  vals, sh = [], G.nbits(td)
  for f, ft in fields:
    w = G.nbits(ft); sh -= w
    vals.append(unpack(mod, ft, (x >> sh) & ((1 << w) - 1)))
  return getattr(mod, td[1])(*vals)

M61 = (1 << 61) - 1      # CPython's hash modulus for ints

def near_bits(rng, n, v):
  """a value of n bits 'close' to v in the ways a cheap change test (hash, int32/int64 truncation, sign bit,
  string prefix) could confuse with v: equal modulo 2^61-1, equal low 32/64 bits, differing in the top bit only,
  complement, all-zeros/all-ones, neighbours of 2^64"""
  top = (1 << n) - 1
  k = rng.randrange(12)
  if k == 0: w = v ^ top                                   # complement (0 <-> all ones)
  elif k == 1: w = v + M61 * rng.randint(1, 3)             # same value modulo 2^61-1
  elif k == 2: w = v - M61 * rng.randint(1, 3)
  elif k == 3: w = v ^ (1 << (n - 1))                      # top bit only
  elif k == 4: w = v ^ (1 << 32) if n > 32 else v ^ 1      # same low 32 bits
  elif k == 5: w = v ^ (1 << 64) if n > 64 else v ^ (1 << (n // 2))
  elif k == 6: w = {0: top, top: 0}.get(v, rng.choice([0, top]))
  elif k == 7: w = {1: 1 << 61, 1 << 61: 1}.get(v, rng.choice([1, 1 << 61])) if n > 61 else v + 1
  elif k == 8: w = rng.choice([M61, 2 * M61, (1 << 64) - 1, (1 << 64) - 2, 1 << 64, 1 << 63, (1 << 63) - 1, (1 << 32) - 1, 1 << 32, 1 << 31])
  elif k == 9: w = (v % M61) if v > M61 else v + M61       # the canonical representative / one step up
  elif k == 10: w = v ^ (rng.getrandbits(n) << 64 if n > 64 else rng.getrandbits(n) << 32 if n > 32 else 1)   # high part only
  else: w = v + rng.choice([1, -1])
  if not (0 <= w <= top): w = w % (top + 1) if k not in (1, 2, 9) else (v % M61 if v > M61 else v)
  return w

def near(rng, td, x):
  """boundary-biased successor of the packed value x of type td; for a bitstruct exactly one (leaf) field moves"""
  if td[0] == 'b': return near_bits(rng, td[1], x)
  fields = G.STRUCTS[td[1]]
  pick = rng.randrange(len(fields))
  out, sh = 0, G.nbits(td)
  for i, (f, ft) in enumerate(fields):
    w = G.nbits(ft); sh -= w
    fv = (x >> sh) & ((1 << w) - 1)
    if i == pick: fv = near(rng, ft, fv)
    out = (out << w) | fv
  return out

TOK = re.compile(r'([A-Za-z_][A-Za-z_0-9]*)|\[(\d+)\]')

def resolve(obj, expr):
  """follow `a.b[0].c` from obj"""
  for m in TOK.finditer(expr):
    obj = getattr(obj, m.group(1)) if m.group(1) else obj[int(m.group(2))]
  return obj

def mangle(e):
  return e.replace('[', '(').replace(']', ')')

# ------------------------------------------------------------------ running a design

class Run:
  pass

def load_module(ck, src, uid):
  name = f'c16_design_{os.getpid()}_{uid}'
  path = os.path.join(ck.workdir, name + '.py')
  with open(path, 'w') as f: f.write(src)
  spec = importlib.util.spec_from_file_location(name, path)
  mod = importlib.util.module_from_spec(spec)
  sys.modules[name] = mod
  spec.loader.exec_module(mod)
  return mod, name

def close_vcd(top):
  """the pass never closes its file; do it here so that long runs do not exhaust descriptors"""
  from pymtl3.passes.tracing.VcdGenerationPass import VcdGenerationPass
  try: fn = top.get_metadata(VcdGenerationPass.vcd_func)
  except Exception: return
  seen, todo = set(), [fn]
  while todo:
    f = todo.pop()
    for cell in (getattr(f, '__closure__', None) or ()):
      try: o = cell.cell_contents
      except ValueError: continue
      if id(o) in seen: continue
      seen.add(id(o))
      if callable(o) and hasattr(o, '__closure__'): todo.append(o)
      elif hasattr(o, 'close') and hasattr(o, 'name') and str(getattr(o, 'name', '')).endswith('.vcd'):
        o.close()

def simulate(ck, case):
  """build the design of `case`, simulate it, return a Run with samples and the file text"""
  from pymtl3.passes.PassGroups import DefaultPassGroup
  from pymtl3.passes.backends.verilog import VerilogTBGenPass
  from pymtl3.passes.tracing.PrintTextWavePass import PrintTextWavePass

  drng = random.Random(case['dseed'])
  ol = case.get('openloop')
  if ol:
    src, spec, feeds = G.generate_openloop(drng, case['dseed'], case['depth'], case.get('methods', 2) == 2)
  else:
    src, spec, reps = G.generate(drng, case['dseed'], case['depth'], case.get('big', False), case.get('nonpure'), case.get('nrep', 0))
  mod, modname = load_module(ck, src, case['dseed'])
  r = Run(); r.src = src; r.spec = spec
  try:
    sigs = G.all_signals(spec)
    r.sigs = sigs
    top = getattr(mod, spec.name)()
    top.elaborate()
    if not ol:
      # post-elaboration replacement of child components (list elements, plain attributes) by classes with the same ports
      for path, cls, with_obj in reps:
        o = top
        for e in path: o = resolve(o, e)
        if with_obj: top.replace_component_with_obj(o, getattr(mod, cls)())
        else: top.replace_component(o, getattr(mod, cls))
      r.nrep = len(reps)
    # readers: (component object path, signal expr) -> value
    def comp_of(path):
      o = top
      for e in path: o = resolve(o, e)
      return o
    def read_all():
      return [pack(resolve(comp_of(path), e), td) for path, e, td in sigs]
    hook_samples = []
    vcd_base = os.path.join(ck.workdir, f'wave_{os.getpid()}_{case["dseed"]}')
    api_samples = {}      # cycle index -> sample taken through the public API
    inports = feeds if ol else [(e, td) for e, td in spec.inports]
    cur = {e: 0 for e, _ in inports}
    pools = {e: [0, (1 << G.nbits(td)) - 1, drng.getrandbits(G.nbits(td))] for e, td in inports}
    def next_values():
      for e, td in inports:
        q = drng.random()
        if q < 0.35: v = cur[e]
        elif q < 0.55: v = drng.choice(pools[e])
        elif q < 0.80: v = near(drng, td, cur[e])
        else:
          v = drng.getrandbits(G.nbits(td)); pools[e].append(v)
        cur[e] = v
      return [unpack(mod, td, cur[e]) for e, td in inports]
    r.pure = not case.get('nonpure') and not ol
    if ol:
      # open-loop flow: AutoTickSimPass / GenDAGPass + OpenLoopCLPass build their own per-cycle function list
      # [update blocks, ff blocks, dump_vcd, dump_wav, flip]; the samples are taken by the design's spy update_ff block
      from pymtl3.passes.PassGroups import AutoTickSimPass
      from pymtl3.passes.autotick.OpenLoopCLPass import OpenLoopCLPass
      from pymtl3.passes.sim.GenDAGPass import GenDAGPass
      from pymtl3.passes.sim.WrapGreenletPass import WrapGreenletPass
      from pymtl3.passes.tracing.VcdGenerationPass import VcdGenerationPass
      mod.C16_SPY[0] = lambda: hook_samples.append(read_all())
      top.set_metadata(VcdGenerationPass.vcd_file_name, vcd_base)
      top.set_metadata(PrintTextWavePass.enable, True)
      # (AutoTickSimPass itself = these three passes + a second top.lock_in_simulation(), which raises KeyError on
      #  the present tree as soon as a value net has a signal residence; so the passes are applied one by one)
      if ol == 'autotick':
        top.apply(AutoTickSimPass(print_line_trace=False))
      else:
        top.apply(GenDAGPass()); top.apply(WrapGreenletPass()); top.apply(OpenLoopCLPass(print_line_trace=False))
      r.top = top
      r.after_apply = read_all()
      if case['reset'] == 'sim_reset': top.sim_reset()
      vals = None
      for i in range(case['ncycles']):
        if case.get('midreset') == i: top.sim_reset()
        vals = next_values()
        top.push(vals)
        if case.get('methods', 2) == 2: top.peek()
      if vals is not None: top.push(vals)      # the next call closes the last cycle
    else:
      top.set_metadata(VerilogTBGenPass.vtbgen_hooks, [lambda: hook_samples.append(read_all())])
      top.apply(DefaultPassGroup(vcdwave=vcd_base, textwave=True))
      r.top = top
      r.after_apply = read_all()
      def set_inputs():
        for (e, td), v in zip(inports, next_values()):
          sig = resolve(top, e)
          sig @= v
      # method port / update_once: sim_tick does not re-run the update blocks before the edge, and
      # sim_eval_combinational() is not available (it raises; on the present tree a NameError from its own message)
      def tick():
        set_inputs()
        if r.pure:
          top.sim_eval_combinational()
          if case.get('poke') and drng.random() < 0.3:
            set_inputs()            # poke again after the evaluation, no re-evaluation by the test bench: hook sample only
          else:
            api_samples[len(hook_samples)] = read_all()
        top.sim_tick()
      mode = case['reset']
      if mode == 'sim_reset':
        top.sim_reset()
      elif mode == 'manual':
        from pymtl3.datatypes import b1
        top.reset @= b1(1)
        for _ in range(2): tick()
        top.reset @= b1(0)
      for i in range(case['ncycles']):
        if case.get('midreset') == i: top.sim_reset()
        tick()
    r.samples = hook_samples
    r.api_samples = api_samples
    r.textwave = {k: list(v) for k, v in top.get_metadata(PrintTextWavePass.textwave_dict).items()}
    close_vcd(top)
    with open(vcd_base + '.vcd') as f: r.text = f.read()
    os.remove(vcd_base + '.vcd')
    # DSL value nets, trimmed to top-level signals (what lock_in_simulation merges into one object)
    from pymtl3.dsl import Const
    groups, const_driven = [], set()
    for writer, net in top.get_all_value_nets():
      g = sorted(repr(x) for x in net if not isinstance(x, Const) and x.is_top_level_signal())
      if g: groups.append(g)
      if isinstance(writer, Const): const_driven.update(g)
    r.dsl_groups = groups
    r.const_driven = const_driven
    return r
  finally:
    sys.modules.pop(modname, None)

# ------------------------------------------------------------------ oracle and comparisons

def py_replay(events, ncycles):
  """hold-until-changed replay: per cycle t, symbol -> value token after every line stamped <= 100 t"""
  cur, out, k = {}, [], 0
  for t in range(ncycles):
    while k < len(events) and (events[k][0] is None or events[k][0] <= 100 * t):
      cur[events[k][1]] = events[k][2]; k += 1
    out.append(dict(cur))
  return out

def sym_codes(s): return [ord(ch) for ch in s]

def ev_sexp(ev):
  t, s, v = ev
  return ('c', v, sym_codes(s))

def events_sexp(events):
  out, now = [], None
  for ev in events:
    if ev[0] != now:
      now = ev[0]; out.append(('t', now))
    out.append(ev_sexp(ev))
  return out

def canonical(events):
  """drop lines that restate the value the symbol already has; keep (time, symbol, token)"""
  cur, out = {}, []
  for t, s, v in events:
    if cur.get(s) == v: continue
    cur[s] = v; out.append((t, s, v))
  return out

def body_events(tokens, decls):
  """parse a blank-separated value-change section (model output) into events"""
  hdr = '$scope module m $end ' + ' '.join(f'$var reg {w} {sym} n{i} $end' for i, (w, sym) in enumerate(decls)) + ' $upscope $end '
  return VP.parse(hdr + '$enddefinitions $end ' + ' '.join(tokens))['events']

def check_design(ck, case, r, lines_out):
  """direct oracle on the file; returns the model requests (evaluated later in one batch) and their expectations"""
  viol = lambda kind, detail: ck.violation(kind, {'kind': kind}, case, detail)
  sigs, samples = r.sigs, r.samples
  N = len(samples)
  # sampling point cross-check
  for t, s in r.api_samples.items():
    if t >= N or samples[t] != s:
      raise InfraError(f'C16: sampling point not validated (case {case}, cycle {t})')
  try:
    vcd = VP.parse(r.text)
  except VP.VcdError as e:
    viol('unreadable-vcd', {'error': str(e), 'line_number': e.lineno, 'line': e.line, 'time': e.time,
                            'cycle': None if e.time is None else e.time // 100,
                            'oracle': 'strict independent VCD reader: the dump must be well-formed VCD'})
    return None
  decls, events = vcd['decls'], vcd['events']
  if vcd['dup_scopes']:
    viol('duplicate-scope', {'scopes': ['.'.join(x) for x in vcd['dup_scopes'][:5]]})
  dmap = {}
  for sc, name, w, sym in decls:
    if (sc, name) in dmap: viol('duplicate-declaration', {'scope': sc, 'name': name})
    dmap[(sc, name)] = (w, sym)
  # every signal of every component is declared, with its width
  sig_decl = []
  for path, e, td in sigs:
    key = (('top',) + tuple(mangle(p) for p in path), mangle(e))
    d = dmap.get(key)
    if d is None:
      viol('missing-signal', {'signal': key}); return None
    if d[0] != G.nbits(td):
      viol('wrong-width', {'signal': key, 'declared': d[0], 'width': G.nbits(td)}); return None
    sig_decl.append(d)
  extra = set(dmap) - {(('top',) + tuple(mangle(p) for p in path), mangle(e)) for path, e, td in sigs}
  clk_sym = dmap[(('top',), 'clk')][1]
  is_clock = [d[1] == clk_sym and e == 'clk' for (path, e, td), d in zip(sigs, sig_decl)]
  # header: every symbol has an initial value before time 0
  header = [ev for ev in events if ev[0] is None]
  hsyms = [s for _, s, _ in header]
  all_syms = {d[1] for d in dmap.values()}
  if set(hsyms) != all_syms or len(set(hsyms)) != len(hsyms):
    viol('header-values', {'declared': sorted(all_syms), 'header': hsyms})
  # the header values are the values the signals hold once the simulator is built, except on nets driven by a
  # constant (lock_in_simulation installs the constant object at once; the file catches up in the #0 block)
  hval = {s_: VP.value_of(v) for _, s_, v in header}
  for i, ((path, e, td), d) in enumerate(zip(sigs, sig_decl)):
    if hval.get(d[1]) != r.after_apply[i]:
      full = 's' + ''.join('.' + p for p in path) + '.' + e
      if full in r.const_driven: ck.hist('header_value', 'differs on a constant-driven net (expected)')
      else:
        ck.disagreement('header value == value held after apply', case, hval.get(d[1]), {'signal': full, 'held': r.after_apply[i]})
        break
  # ---- the property: replay == samples
  rep = py_replay(events, N)
  bad = None
  for t in range(N):
    for i, (d, ck_) in enumerate(zip(sig_decl, is_clock)):
      if ck_: continue
      tok = rep[t].get(d[1])
      v = None if tok is None else VP.value_of(tok)
      if v != samples[t][i]:
        bad = (t, i, tok, samples[t][i]); break
    if bad: break
  if bad:
    t, i, tok, want = bad
    viol('replay-mismatch', {'cycle': t, 'signal': list(sigs[i][:2]), 'file_says': tok, 'simulator_held': want,
                             'symbol': sig_decl[i][1], 'oracle': 'python hold-until-changed replay of the parsed file'})
  # ---- open-loop designs: a snapshot taken at one instant shows nxt == count + 1
  if case.get('openloop') and (('top',), 'count') in dmap:
    (cw, csym), (_, nsym) = dmap[(('top',), 'count')], dmap[(('top',), 'nxt')]
    for t in range(N):
      a, b = rep[t].get(csym), rep[t].get(nsym)
      if a is None or b is None or VP.value_of(b) != (VP.value_of(a) + 1) % (1 << cw):
        viol('inconsistent-snapshot', {'cycle': t, 'count': a, 'nxt': b, 'oracle': 'nxt is combinationally count+1'})
        break
  # ---- the clock
  clk_lines = [(t, v) for t, s, v in events if s == clk_sym and t is not None]
  want_clk = [(0, '1')] + [x for c in range(N) for x in ((100 * c + 50, '0'), (100 * c + 100, '1'))]
  if clk_lines != want_clk:
    viol('clock-lines', {'got': clk_lines[:12], 'want': want_clk[:12], 'ncycles': N})
  # ---- text wave
  tw = r.textwave
  want_tw, tw_index = {}, {}
  for i, (path, e, td) in enumerate(sigs):
    full = 's' + ''.join('.' + p for p in path) + '.' + e
    if e in ('clk', 'reset') and full != 's.reset': continue
    w = G.nbits(td)
    want_tw[full] = ['0b' + format(samples[t][i], f'0{w}b') for t in range(N)]
    tw_index[full] = i
  if set(tw) != set(want_tw):
    viol('textwave-keys', {'missing': sorted(set(want_tw) - set(tw))[:5], 'extra': sorted(set(tw) - set(want_tw))[:5]})
  else:
    for k in want_tw:
      if tw[k] != want_tw[k]:
        t = next((j for j in range(min(len(tw[k]), N)) if tw[k][j] != want_tw[k][j]), min(len(tw[k]), N))
        viol('textwave-mismatch', {'signal': k, 'cycle': t, 'record': tw[k][t:t + 3], 'simulator_held': want_tw[k][t:t + 3],
                                   'lengths': [len(tw[k]), N]})
        break

  # ---- model side: net table as the file's header presents it
  net_syms = hsyms
  if len(set(net_syms)) != len(net_syms) or clk_sym not in net_syms:
    return None
  net_idx = {s: j for j, s in enumerate(net_syms)}
  widths = [None] * len(net_syms)
  reps = [None] * len(net_syms)
  for i, d in enumerate(sig_decl):
    j = net_idx.get(d[1])
    if j is None: return None
    if widths[j] is None: widths[j], reps[j] = d[0], i
  if any(w is None for w in widths): return None
  clk = net_idx[clk_sym]
  data = [j for j in range(len(net_syms)) if j != clk]
  trace = [[samples[t][reps[j]] for j in data] for t in range(N)]
  sig_net = [net_idx[d[1]] for d in sig_decl]
  # the model's reader is run on at most 60 declarations per design (it rescans the file for every cycle)
  step = max(1, -(-len(sig_decl) // 60))
  rsel = list(range(0, len(sig_decl), step))
  reqs = [
    leanio.line('vcd', 'dump', widths, clk, [0] * len(widths), trace),
    leanio.line('vcd', 'replay', [(sig_decl[i][0], sym_codes(sig_decl[i][1])) for i in rsel], events_sexp(events), N),
    leanio.line('vcd', 'decls', widths, clk, sig_net),
    leanio.line('vcd', 'edges', sym_codes(clk_sym), events_sexp(events)),
  ]
  # text-wave records of a few signals through the model (widest, a one-bit one, and the first few)
  keys = sorted(want_tw, key=lambda k: (-len(want_tw[k][0]) if want_tw[k] else 0, k))[:2] + sorted(want_tw)[:4] if N else []
  tw_keys = []
  for k in keys:
    if k in tw_keys or k not in tw: continue
    i = tw_index[k]
    tw_keys.append(k)
    reqs.append(leanio.line('vcd', 'wav', G.nbits(sigs[i][2]), [samples[t][i] for t in range(N)]))
  # statistics
  changing = sum(1 for col in zip(*trace) if len(set(col[1:])) > 1) if N > 1 and trace and trace[0] else 0
  constant = sum(1 for col in zip(*trace) if len(set(col)) == 1) if trace and trace[0] else 0
  revisit = 0
  for col in (zip(*trace) if trace and trace[0] else []):
    seen, prev = set(), None
    for v in col:
      if v != prev and v in seen: revisit += 1; break
      seen.add(v); prev = v
  shared = len(sig_decl) - len(set(d[1] for d in sig_decl))
  ctx = {'vcd': vcd, 'sig_decl': sig_decl, 'is_clock': is_clock, 'samples': samples, 'N': N, 'clk_sym': clk_sym,
         'want_clk': want_clk, 'rep': rep, 'tw_keys': tw_keys, 'rsel': rsel, 'extra': extra, 'widths': widths, 'net_syms': net_syms,
         'stats': (changing, constant, revisit, shared)}
  lines_out.append((case, r, reqs, ctx))
  return ctx

def compare_model(ck, case, r, replies, ctx):
  vcd, sig_decl, N = ctx['vcd'], ctx['sig_decl'], ctx['N']
  dump_line, replay_line, decls_line, edges_line = replies[:4]
  for k, line in zip(ctx['tw_keys'], replies[4:]):
    mrec = leanio.parse_sexp(line)[0]
    if mrec != r.textwave[k]:
      ck.disagreement('Model/VCD.wavRecord == textwave_dict', case, {'signal': k, 'model': mrec[:4]}, r.textwave[k][:4])
  # (1) the model's dump of the sampled trace == the file's value-change section, token for token
  mtoks = dump_line.split()
  if mtoks != vcd['body']:
    k = next((i for i, (a, b) in enumerate(zip(mtoks, vcd['body'])) if a != b), min(len(mtoks), len(vcd['body'])))
    ck.disagreement('Model/VCD.dump == file (exact lines)', case, mtoks[max(0, k - 4):k + 6], vcd['body'][max(0, k - 4):k + 6])
  # (2) canonical event streams (restatements removed)
  try: mev = body_events(mtoks, sorted(set(map(tuple, sig_decl))))
  except VP.VcdError as e: raise InfraError(f'model dump not parseable: {e}')
  cm, cf = canonical(mev), canonical(vcd['events'])
  if cm != cf:
    k = next((i for i, (a, b) in enumerate(zip(cm, cf)) if a != b), min(len(cm), len(cf)))
    ck.disagreement('Model/VCD.dump == file (canonical events)', case, cm[max(0, k - 2):k + 3], cf[max(0, k - 2):k + 3])
  # (3) the model's reader on the file == samples (and == the python reader)
  rows = leanio.parse_sexp(replay_line)[0]
  if len(rows) != N: raise InfraError('replay reply shape')
  for t in range(N):
    row = rows[t]
    for k, i in enumerate(ctx['rsel']):
      d = sig_decl[i]
      tok = ctx['rep'][t].get(d[1]); pv = None if tok is None else VP.value_of(tok)
      mv = None if row[k] == 'x' else int(row[k])
      # the model reader is strict about the digit count; the python reader is not
      if mv != pv:
        ck.disagreement('Model/VCD.replay == python reader', case, {'cycle': t, 'signal': i, 'model': row[k]}, {'python': pv, 'token': tok})
        return
      if not ctx['is_clock'][i] and mv != ctx['samples'][t][i]:
        ck.disagreement('Model/VCD.replay(file) == samples', case, {'cycle': t, 'signal': i, 'model': row[k]}, ctx['samples'][t][i])
        return
  # (4) declarations: width and symbol of every signal
  md = leanio.parse_sexp(decls_line)[0]
  got = [(int(w), ''.join(chr(int(c)) for c in codes)) for w, codes in md]
  if got != [tuple(d) for d in sig_decl]:
    k = next(i for i, (a, b) in enumerate(zip(got, sig_decl)) if a != tuple(b))
    ck.disagreement('Model/VCD.decls == $var lines', case, got[k], sig_decl[k])
  # (5) clock lines through the model's edgesOf
  me = [(int(t), v) for t, v in leanio.parse_sexp(edges_line)[0]]
  if me != ctx['want_clk']:
    ck.disagreement('Model/VCD.edgesOf(clock)', case, me[:10], ctx['want_clk'][:10])
  # (6) symbol sharing == DSL value nets (signals the simulator merged into one object)
  sym_of = {}
  for (path, e, td), d in zip(r.sigs, sig_decl):
    sym_of['s' + ''.join('.' + p for p in path) + '.' + e] = d[1]
  part_file = {}
  for k, s in sym_of.items(): part_file.setdefault(s, []).append(k)
  file_groups = sorted(sorted(v) for v in part_file.values())
  in_group = set(x for g in r.dsl_groups for x in g)
  dsl_groups = sorted([sorted(g) for g in r.dsl_groups] + [[k] for k in sym_of if k not in in_group])
  if file_groups != dsl_groups:
    a = [g for g in file_groups if g not in dsl_groups][:3]; b = [g for g in dsl_groups if g not in file_groups][:3]
    ck.disagreement('symbol sharing == DSL value nets', case, b, a)
  if ctx['extra']:
    ck.disagreement('declared signals == generated signals', case, [], sorted(ctx['extra'])[:5])

# ------------------------------------------------------------------ cases

def gen_case(rng, idx, tier):
  depth = rng.choices([0, 1, 2], [2, 5, 3])[0]
  big = (idx % 40 == 7)
  ncyc = rng.randint(1, 12) if rng.random() < 0.3 else rng.randint(10, 40 if tier == 'quick' else 80)
  if rng.random() < 0.03: ncyc = 0
  case = {'dseed': rng.getrandbits(48), 'depth': depth, 'ncycles': ncyc,
          'reset': rng.choices(['sim_reset', 'manual', 'none'], [5, 2, 3])[0]}
  if big: case['big'] = True
  q = rng.random()
  if idx % 7 == 3:
    case['openloop'] = 'passes'; case['methods'] = rng.choice([1, 2, 2])
    case['reset'] = rng.choice(['sim_reset', 'sim_reset', 'none']); case.pop('big', None)
  elif idx % 4 == 1 and depth > 0:
    case['nrep'] = rng.randint(1, 3)
  elif q < 0.3: case['nonpure'] = rng.choice(['method', 'update_once'])
  elif q < 0.45: case['poke'] = True
  if ncyc > 4 and rng.random() < 0.1: case['midreset'] = rng.randint(1, ncyc - 1)
  return case

def run_case(ck, case, pending):
  try:
    r = simulate(ck, case)
  except InfraError: raise
  except Exception as e:
    # is it the generated design, or the waveform passes?
    import traceback
    tb = traceback.format_exc()
    if 'VcdGenerationPass' in tb or 'PrintTextWavePass' in tb:
      ck.violation('wave-pass-crash', {'kind': 'wave-pass-crash'}, case, {'error': repr(e), 'traceback': tb[-1500:]})
      ck.count(case, True)
      return
    ck.hist('generator', 'rejected:' + type(e).__name__)
    run_case.rejected += 1
    run_case.last_reject = tb
    return
  ctx = check_design(ck, case, r, pending)
  N = len(r.samples)
  st = ctx['stats'] if ctx else (0, 0, 0, 0)
  ck.count(case, st[0] > 0 and st[1] > 0)
  ck.hist('depth', case['depth']); ck.hist('reset', case['reset'])
  ck.hist('components_replaced_after_elaborate', getattr(r, 'nrep', 0))
  ck.hist('tick', 'open loop (method driven, ' + case['openloop'] + ')' if case.get('openloop') else 'not pure RTL (dump before any update block)' if not r.pure else 'pure RTL, inputs poked again after eval' if case.get('poke') else 'pure RTL')
  ck.hist('cycles', '0' if N == 0 else '1-9' if N < 10 else '10-29' if N < 30 else '30+')
  ck.hist('signals', min(300, (len(r.sigs) // 20) * 20))
  if ctx:
    ck.hist('nets', '>94' if len(ctx['widths']) > 94 else (len(ctx['widths']) // 10) * 10)
    ck.hist('nets_changing_after_cycle0', min(st[0], 20)); ck.hist('nets_revisiting_old_value', min(st[2], 20))
    ck.hist('signals_sharing_a_symbol', min((st[3] // 5) * 5, 100))
  feats = set()
  def rec(s):
    feats.update(s.features)
    for _, c in s.children: rec(c)
  rec(r.spec)
  for f in feats: ck.hist('feature', f)
  r.top = None
run_case.rejected = 0
run_case.last_reject = ''

def flush(ck, pending):
  if not pending: return
  lines = [l for _, _, reqs, _ in pending for l in reqs]
  replies = ck.drv('vcd').batch(lines)
  k = 0
  for case, r, reqs, ctx in pending:
    compare_model(ck, case, r, replies[k:k + len(reqs)], ctx)
    k += len(reqs)
  pending.clear()

def check_symbols(ck, n=20000):
  """the first n identifier codes of the real generator (the code object nested in make_vcd_func) vs Model/VCD.symCodes;
  direct oracle: pairwise distinct, non-empty, printable non-blank characters only"""
  import builtins, types
  from pymtl3.passes.tracing.VcdGenerationPass import VcdGenerationPass
  codes = [c for c in VcdGenerationPass.make_vcd_func.__code__.co_consts
           if isinstance(c, types.CodeType) and c.co_name == '_gen_vcd_symbol']
  if len(codes) != 1 or codes[0].co_freevars:
    raise InfraError('C16: _gen_vcd_symbol is not a closure-free nested function of make_vcd_func any more')
  gen = types.FunctionType(codes[0], {'__builtins__': builtins})()
  real = [next(gen) for _ in range(n)]
  case = {'symbols': n}
  ck.count(case, True)
  seen = {}
  for i, c in enumerate(real):
    if not isinstance(c, str) or not c or any(not (33 <= ord(ch) <= 126) for ch in c):
      ck.violation('symbol-not-a-token', {'kind': 'symbol-not-a-token'}, case, {'net': i, 'code': repr(c)}); break
    if c in seen:
      ck.violation('symbol-collision', {'kind': 'symbol-collision'}, case,
                   {'nets': [seen[c], i], 'code': c, 'oracle': 'two nets with one identifier code cannot be told apart by any VCD reader'})
      break
    seen[c] = i
  rep = leanio.parse_sexp(ck.drv('vcd').batch([leanio.line('vcd', 'symbols', 0, n)])[0])[0]
  model = [''.join(chr(int(x)) for x in codes_) for codes_ in rep]
  if model != real:
    k = next((i for i, (a, b) in enumerate(zip(model, real)) if a != b), min(len(model), len(real)))
    ck.disagreement('Model/VCD.symCodes == _gen_vcd_symbol', {'symbols': n, 'first_difference_at_net': k}, model[k:k + 3], real[k:k + 3])
  ck.extra_cov['identifier_codes_compared'] = n

def run(ck):
  rng = ck.rng
  check_symbols(ck)
  total = 340 if ck.tier == 'quick' else 12000
  budget = 45 if ck.tier == 'quick' else 480
  pending = []
  done = 0
  for idx in range(total):
    run_case(ck, gen_case(rng, idx, ck.tier), pending)
    done += 1
    if len(pending) >= 25:
      flush(ck, pending); gc.collect()
    if len(ck.violations) > 20: break
    if ck.elapsed() > budget: break
  flush(ck, pending)
  ck.extra_cov['designs_run'] = done
  ck.extra_cov['generator_rejects'] = run_case.rejected
  if run_case.rejected > max(3, done // 20):
    raise InfraError(f'C16: {run_case.rejected} of {done} generated designs were rejected by pymtl3; last:\n{run_case.last_reject[-1500:]}')

def replay(ck, data):
  case = data['case']
  pending = []
  r = simulate(ck, case)
  n0 = len(ck.violations)
  ctx = check_design(ck, case, r, pending)
  print(f'case={case}\nsignals={len(r.sigs)} cycles={len(r.samples)}')
  for v in ck.violations[n0:]:
    print('oracle:', v.kind, v.detail)
  if pending:
    flush(ck, pending)
    for b in ck.breaks: print('model vs impl:', b['correspondence'], 'model=', b['model'], 'impl=', b['impl'])
  if data.get('detail', {}).get('show_source'): print(r.src)
  return 1 if len(ck.violations) > n0 else 0
