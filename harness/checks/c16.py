"""C16 — waveform dumps replay the simulation exactly.

proof:          lean/PymtlVerif/Props/C16.lean (model: Model/VCD.lean)
correspondence: VcdGenerationPass / PrintTextWavePass on generated RTL designs (real module files under
                ck.workdir, simulated with DefaultPassGroup(vcdwave=..., textwave=True)) vs Model/VCD.lean
direct oracle:  the .vcd file parsed by an independent reader (c16_vcdparse.py), replayed hold-until-changed in
                Python and compared with the values sampled from the simulator at every clock edge, for every
                signal of every component; clock lines; textwave_dict entries.

Three streams of designs: (1) random component trees, one simulator at a time; (2) hierarchical designs with value nets
that contain no whole signal (bit-reversal / byte-swap wrappers, wires assembled from slices and constants, struct wires
assembled field by field), each built several times in this process because the order of get_all_value_nets() (is such a
net enumerated before the clock net?) follows object ids; (3) groups of 2-4 simulators (instances of one class and of
different classes) that are alive together and advanced in interleaved orders (one never ticked, one created after another
already ran): every simulator's VCD, text-wave record and print_textwave() output must show its OWN sampled values.
The net table of make_vcd_func (kept nets, clock index, symbol of every `$var`) is compared with Model/VCD.netTable on
every design: input = get_all_value_nets() re-read in the harness + the `$var` order of the file; real values = the `$var`
lines, the header value lines and the local variables clock_symbol / net_details kept alive in the closure of the dump function.

Sampling point. sim_tick = [update blocks] + [dump_vcd, dump_wav, <hooks>] + [ff blocks, flip, ...] + [update blocks]
(PrepareSimPass.create_sim_tick / collect_ff_funcs), sim_reset calls the same ff list three times. The values
"at the clock edge of cycle t" are what the signals hold when the ff list starts. They are sampled by a reader
function placed in that list through the VerilogTBGenPass.vtbgen_hooks metadata (runs right after the dump
functions, before the ff blocks — nothing writes signals in between), and, for every cycle driven through
sim_tick, a second time through the public API (after sim_eval_combinational(), before sim_tick()) when the design is pure RTL
and the inputs are not poked again after the evaluation; the two
must agree (otherwise the run stops with an infrastructure error).
"""
import gc, importlib.util, os, random, re, sys

from ..common import leanio
from ..common.leanio import InfraError
from . import c16_gen as G
from . import c16_vcdparse as VP

PID = 'C16'
DRIVERS = ['vcd']
MODULE = ['PymtlVerif.Props.C16', 'PymtlVerif.Props.C16Gen', 'PymtlVerif.Props.C16n']
THEOREMS = ['PV.C16.' + t for t in [
  'replay_dump', 'replay_dump_zero_init', 'replay_signal', 'shared_symbol',
  'clock_edges', 'clock_once_per_cycle',
  'vcd_str_parses', 'vcd_str_injective', 'vcd_str_length', 'symbol_injective', 'textwave_record',
  'quirk_needs_equal_defaults']]
# generated-from-source = model (Props/C16Gen.lean; Gen/VcdSymGen.lean is regenerated from /repo by pregen below)
GEN_THEOREMS = ['PV.C16Gen.' + t for t in [
  'gen_symbol_eq', 'gen_symbol_injective', 'symbol_injective', 'symbol_chars_printable', 'symbol_nonempty', 'symbol_text']]
# the net table of make_vcd_func (trimming loop over get_all_value_nets(), clock index, recurse_models): Props/C16n.lean
NET_THEOREMS = ['PV.C16n.' + t for t in [
  'kept_nets', 'clock_index', 'clock_index_skips_dropped', 'clock_unique', 'no_clock_net', 'dropped_net_irrelevant',
  'table', 'every_signal_one_symbol', 'symbol_of_own_net', 'table_nets_disjoint', 'same_symbol_iff_same_net',
  'symbol_text_iff_same_net', 'dropped_nets_no_symbol', 'table_replay_dump', 'table_replay_signal']]
THEOREMS = THEOREMS + GEN_THEOREMS + NET_THEOREMS
THEOREM_MODULE = {t: 'PymtlVerif.Props.C16Gen' for t in GEN_THEOREMS}
THEOREM_MODULE.update({t: 'PymtlVerif.Props.C16n' for t in NET_THEOREMS})

def pregen(ck):
  """translator-based tie: regenerate lean/PymtlVerif/Gen/VcdSymGen.lean from `_gen_vcd_symbol` of the current
  VcdGenerationPass.py (written only if its content changed); Props/C16Gen.lean then re-proves generated = model"""
  path = os.path.join(leanio.VERIF, 'tools', 'py2lean_vcdsym.py')
  spec = importlib.util.spec_from_file_location('py2lean_vcdsym', path)
  mod = importlib.util.module_from_spec(spec); spec.loader.exec_module(mod)
  return mod.pregen()

TRUSTED = [
  'identifier codes: tools/py2lean_vcdsym.py translates the Python AST of `_gen_vcd_symbol` (generator -> step function over Python-int '
  'semantics of Gen/PyInt.lean, strings as character-code lists of Gen/PyStr.lean) into Gen/VcdSymGen.lean before every build; '
  'gen_symbol_eq proves, for every n, that the n-th code it yields is Model/VCD.symCodes n (= the text of VCD.symbol n). Trusted there: the '
  'translator (subset checked, anything else refuses), PyInt/PyStr as the meaning of // % divmod, s[i], +, chr/range/join; the first 20000 '
  'codes of the real generator (its code object, taken out of make_vcd_func) are also compared with the model on every run',
  'Model/VCD.lean follows VcdGenerationPass.make_vcd_func/dump_vcd_inner: net table, symbol generator, header values, '
  'last_values indexed by position in net_details, clock lines; the reader (stateAt/replay) is the model\'s own definition of '
  '"reading a VCD file" (cycle t = time 100t, value holds until changed) and is compared with the Python reader of this check on every file',
  'the net table (widths, order, clock net, signal->net) handed to the dump/replay model is read back from the file\'s own header; that signals of one '
  'DSL value net share a symbol is compared with top.get_all_value_nets() separately',
  'net table (Props/C16n.lean): Model/VCD.trimLoop / declareAll / netTable are hand-transcribed from make_vcd_func (trimming loop, recurse_models) and '
  'compared on every design with the real pass: model input = top.get_all_value_nets() re-read by the harness after the run (the cached list the pass '
  'walked; members tagged Const / whole signal / s.clk / slice-bit-field) and the order of the `$var` lines; compared = symbol of every `$var` line, '
  'number and order of header value lines, clock_symbol and net_details (local variables of make_vcd_func that survive in the closure of dump_vcd_inner). '
  'Trusted: the tagging (isinstance Const, is_top_level_signal, repr == "s.clk"), that iterating a net set twice gives the same order, widths of all '
  'members of one net being equal',
  'print_textwave(): only the header row (one tick mark per cycle) and the rows of 1-bit signals are decoded; multi-bit rows are not checked',
  'sampling hook placed in the tick through VerilogTBGenPass.vtbgen_hooks, cross-checked against sim_eval_combinational()+read',
  'packing of bitstruct values (first field most significant) is re-implemented in the check; c16_vcdparse.py implements the VCD grammar subset used',
]
ASSUMPTIONS = [
  'RTL designs; about 30% carry one method port or update_once block, which makes sim_tick skip the update blocks before the edge '
  '(the dump then sees inputs poked between ticks before the design has reacted); the samples are always taken where the dump is taken',
  'every default value is zero (Bits and bitstructs cannot carry another default), which makes the last_values indexing slip of '
  'dump_vcd_inner harmless (theorem hypothesis QuirkSafe; counterexample quirk_needs_equal_defaults)',
  'the replayed value of a signal in cycle t is read at time 100*t; header lines (before #0) are the file\'s initial values',
]
RULE = ('random component trees (depth 0-2; ports, port lists, interfaces, wires chained into multi-member nets, constants, slices, '
        'bitstruct fields (incl. 61/64/122-bit ones), registers, wrapping counters, wide complement-toggling registers, widths 1..183, '
        'class reuse, child lists, >94 nets) x input sequences with sticky / revisited / random / boundary-biased steps (equal modulo 2^61-1, '
        'equal low 32/64 bits, top bit only, complement, 0 <-> all ones, 1 <-> 1<<61, neighbours of 2^64; one field at a time for bitstructs) '
        'x sim_reset/manual reset/no reset; non-trivial = at least one data net changes after cycle 0 and one never changes; '
        'distinct = distinct design seed. Plus, every 14th design: a hierarchical design with 2-4 groups of value nets without a whole signal '
        '(bit reversal, byte swap, slice-to-slice, constant-tied slices, field-to-field, constant fields) built 2 (thorough: 2-4) times in one process '
        '(evidence: how often a dropped net was enumerated before the clock net); every 28th: 2-4 simulators alive together (same class / different '
        'classes / mixed; random interleaving, late start, build all then run the oldest first; 40% with a never-ticked member), VCD + text wave + '
        'print_textwave() of each checked against its own samples')

# ------------------------------------------------------------------ values

def pack(v, td):
  """packed integer of a simulator value (Bits or bitstruct instance), first field most significant"""
  if td[0] == 'b': return int(v)
  acc = 0
  for f, ft in G.STRUCTS[td[1]]:
    acc = (acc << G.nbits(ft)) | pack(getattr(v, f), ft)
  return acc

def unpack(mod, td, x):
  """simulator value of type td from a packed integer"""
  if td[0] == 'b':
    from pymtl3.datatypes import mk_bits
    return mk_bits(td[1])(x)
  fields = G.STRUCTS[td[1]]
  vals, sh = [], G.nbits(td)
  for f, ft in fields:
    w = G.nbits(ft); sh -= w
    vals.append(unpack(mod, ft, (x >> sh) & ((1 << w) - 1)))
  return getattr(mod, td[1])(*vals)

M61 = (1 << 61) - 1      # CPython's hash modulus for ints

def near_bits(rng, n, v):
  """a value of n bits 'close' to v in the ways a cheap change test (hash, int32/int64 truncation, sign bit,
  string prefix) could confuse with v: equal modulo 2^61-1, equal low 32/64 bits, differing in the top bit only,
  complement, all-zeros/all-ones, neighbours of 2^64"""
  top = (1 << n) - 1
  k = rng.randrange(12)
  if k == 0: w = v ^ top                                   # complement (0 <-> all ones)
  elif k == 1: w = v + M61 * rng.randint(1, 3)             # same value modulo 2^61-1
  elif k == 2: w = v - M61 * rng.randint(1, 3)
  elif k == 3: w = v ^ (1 << (n - 1))                      # top bit only
  elif k == 4: w = v ^ (1 << 32) if n > 32 else v ^ 1      # same low 32 bits
  elif k == 5: w = v ^ (1 << 64) if n > 64 else v ^ (1 << (n // 2))
  elif k == 6: w = {0: top, top: 0}.get(v, rng.choice([0, top]))
  elif k == 7: w = {1: 1 << 61, 1 << 61: 1}.get(v, rng.choice([1, 1 << 61])) if n > 61 else v + 1
  elif k == 8: w = rng.choice([M61, 2 * M61, (1 << 64) - 1, (1 << 64) - 2, 1 << 64, 1 << 63, (1 << 63) - 1, (1 << 32) - 1, 1 << 32, 1 << 31])
  elif k == 9: w = (v % M61) if v > M61 else v + M61       # the canonical representative / one step up
  elif k == 10: w = v ^ (rng.getrandbits(n) << 64 if n > 64 else rng.getrandbits(n) << 32 if n > 32 else 1)   # high part only
  else: w = v + rng.choice([1, -1])
  if not (0 <= w <= top): w = w % (top + 1) if k not in (1, 2, 9) else (v % M61 if v > M61 else v)
  return w

def near(rng, td, x):
  """boundary-biased successor of the packed value x of type td; for a bitstruct exactly one (leaf) field moves"""
  if td[0] == 'b': return near_bits(rng, td[1], x)
  fields = G.STRUCTS[td[1]]
  pick = rng.randrange(len(fields))
  out, sh = 0, G.nbits(td)
  for i, (f, ft) in enumerate(fields):
    w = G.nbits(ft); sh -= w
    fv = (x >> sh) & ((1 << w) - 1)
    if i == pick: fv = near(rng, ft, fv)
    out = (out << w) | fv
  return out

TOK = re.compile(r'([A-Za-z_][A-Za-z_0-9]*)|\[(\d+)\]')

def resolve(obj, expr):
  """follow `a.b[0].c` from obj"""
  for m in TOK.finditer(expr):
    obj = getattr(obj, m.group(1)) if m.group(1) else obj[int(m.group(2))]
  return obj

def mangle(e):
  return e.replace('[', '(').replace(']', ')')

# ------------------------------------------------------------------ running a design

class Run:
  pass

def load_module(ck, src, uid):
  name = f'c16_design_{os.getpid()}_{uid}'
  path = os.path.join(ck.workdir, name + '.py')
  with open(path, 'w') as f: f.write(src)
  spec = importlib.util.spec_from_file_location(name, path)
  mod = importlib.util.module_from_spec(spec)
  sys.modules[name] = mod
  spec.loader.exec_module(mod)
  return mod, name

def close_vcd(top):
  """the pass never closes its file; do it here so that long runs do not exhaust descriptors"""
  from pymtl3.passes.tracing.VcdGenerationPass import VcdGenerationPass
  try: fn = top.get_metadata(VcdGenerationPass.vcd_func)
  except Exception: return
  seen, todo = set(), [fn]
  while todo:
    f = todo.pop()
    for cell in (getattr(f, '__closure__', None) or ()):
      try: o = cell.cell_contents
      except ValueError: continue
      if id(o) in seen: continue
      seen.add(id(o))
      if callable(o) and hasattr(o, '__closure__'): todo.append(o)
      elif hasattr(o, 'close') and hasattr(o, 'name') and str(getattr(o, 'name', '')).endswith('.vcd'):
        o.close()

def vcd_locals(top):
  """local variables of make_vcd_func that survive in the closure of the dump function it returns
  (dump_vcd -> dump_vcd_inner: clock_symbol, net_details, last_values, ...), by name; {} if there is no such closure"""
  from pymtl3.passes.tracing.VcdGenerationPass import VcdGenerationPass
  try: fn = top.get_metadata(VcdGenerationPass.vcd_func)
  except Exception: return {}
  out, seen, todo = {}, set(), [fn]
  while todo:
    f = todo.pop()
    code, cells = getattr(f, '__code__', None), getattr(f, '__closure__', None) or ()
    if code is None: continue
    for name, cell in zip(code.co_freevars, cells):
      try: o = cell.cell_contents
      except ValueError: continue
      if id(o) in seen: continue
      seen.add(id(o))
      if callable(o) and hasattr(o, '__closure__'): todo.append(o)
      else: out.setdefault(name, o)
  res = {}
  if isinstance(out.get('clock_symbol'), str): res['clock_symbol'] = out['clock_symbol']
  nd = out.get('net_details')
  if isinstance(nd, list):
    try: res['net_details'] = [(repr(sig), str(sym)) for sig, sym in nd]
    except Exception: pass
  return res

def tagged_nets(top):
  """top.get_all_value_nets() as the trimming loop of make_vcd_func sees it (the list the pass walked: it is cached on
  the top; a net is a set that is not modified afterwards, so iterating it again gives the same member order):
  per net, per member ('k',) constant / ('w', repr) whole signal / ('s', repr of its whole signal) slice, bit or field"""
  from pymtl3.dsl import Const
  nets = []
  for writer, net in top.get_all_value_nets():
    row = []
    for x in net:
      if isinstance(x, Const): row.append(('k',))
      elif x.is_top_level_signal(): row.append(('w', repr(x)))
      else: row.append(('s', repr(x.get_top_level_signal())))
    nets.append(row)
  return nets

def simulate(ck, case):
  """build the design of `case`, simulate it, return a Run with samples and the file text"""
  g = simulate_steps(ck, case)
  try:
    while True: next(g)
  except StopIteration as e:
    return e.value

def simulate_steps(ck, case, shared=None):
  """`simulate` as a generator, so that several simulators can be alive and advanced in turn: yields 'built' after the
  passes were applied, 'tick' after every sim_tick / sim_reset driven from here, 'ticked' when this simulator has
  run all its cycles; the next step collects the records (text-wave dict, print_textwave() output, the .vcd file)
  and returns the Run. `shared` (dseed -> module) lets two simulators be instances of the very same class."""
  from pymtl3.passes.PassGroups import DefaultPassGroup
  from pymtl3.passes.backends.verilog import VerilogTBGenPass
  from pymtl3.passes.tracing.PrintTextWavePass import PrintTextWavePass

  drng = random.Random(case['dseed'])
  ol = case.get('openloop')
  if ol:
    src, spec, feeds = G.generate_openloop(drng, case['dseed'], case['depth'], case.get('methods', 2) == 2)
  else:
    src, spec, reps = G.generate(drng, case['dseed'], case['depth'], case.get('big', False), case.get('nonpure'), case.get('nrep', 0),
                                 case.get('slicenets', False))
  tag = f"{case['dseed']}" + (f"_i{case['inst']}" if 'inst' in case else '')
  if shared is not None and case['dseed'] in shared:
    mod, modname = shared[case['dseed']]
  else:
    mod, modname = load_module(ck, src, tag)
    if shared is not None: shared[case['dseed']] = (mod, modname)
  if 'iseed' in case: drng = random.Random(case['iseed'])     # another input sequence for another instance of one design
  r = Run(); r.src = src; r.spec = spec
  try:
    sigs = G.all_signals(spec)
    r.sigs = sigs
    top = getattr(mod, spec.name)()
    top.elaborate()
    if not ol:
      # post-elaboration replacement of child components (list elements, plain attributes) by classes with the same ports
      for path, cls, with_obj in reps:
        o = top
        for e in path: o = resolve(o, e)
        if with_obj: top.replace_component_with_obj(o, getattr(mod, cls)())
        else: top.replace_component(o, getattr(mod, cls))
      r.nrep = len(reps)
    # readers: (component object path, signal expr) -> value
    def comp_of(path):
      o = top
      for e in path: o = resolve(o, e)
      return o
    def read_all():
      return [pack(resolve(comp_of(path), e), td) for path, e, td in sigs]
    hook_samples = []
    vcd_base = os.path.join(ck.workdir, f'wave_{os.getpid()}_{tag}')
    api_samples = {}      # cycle index -> sample taken through the public API
    inports = feeds if ol else [(e, td) for e, td in spec.inports]
    cur = {e: 0 for e, _ in inports}
    pools = {e: [0, (1 << G.nbits(td)) - 1, drng.getrandbits(G.nbits(td))] for e, td in inports}
    def next_values():
      for e, td in inports:
        q = drng.random()
        if q < 0.35: v = cur[e]
        elif q < 0.55: v = drng.choice(pools[e])
        elif q < 0.80: v = near(drng, td, cur[e])
        else:
          v = drng.getrandbits(G.nbits(td)); pools[e].append(v)
        cur[e] = v
      return [unpack(mod, td, cur[e]) for e, td in inports]
    r.pure = not case.get('nonpure') and not ol
    if ol:
      # open-loop flow: AutoTickSimPass / GenDAGPass + OpenLoopCLPass build their own per-cycle function list
      # [update blocks, ff blocks, dump_vcd, dump_wav, flip]; the samples are taken by the design's spy update_ff block
      from pymtl3.passes.PassGroups import AutoTickSimPass
      from pymtl3.passes.autotick.OpenLoopCLPass import OpenLoopCLPass
      from pymtl3.passes.sim.GenDAGPass import GenDAGPass
      from pymtl3.passes.sim.WrapGreenletPass import WrapGreenletPass
      from pymtl3.passes.tracing.VcdGenerationPass import VcdGenerationPass
      mod.C16_SPY[0] = lambda: hook_samples.append(read_all())
      top.set_metadata(VcdGenerationPass.vcd_file_name, vcd_base)
      top.set_metadata(PrintTextWavePass.enable, True)
      # (AutoTickSimPass itself = these three passes + a second top.lock_in_simulation(), which raises KeyError on
      #  the present tree as soon as a value net has a signal residence; so the passes are applied one by one)
      if ol == 'autotick':
        top.apply(AutoTickSimPass(print_line_trace=False))
      else:
        top.apply(GenDAGPass()); top.apply(WrapGreenletPass()); top.apply(OpenLoopCLPass(print_line_trace=False))
      r.top = top
      r.after_apply = read_all()
      if case['reset'] == 'sim_reset': top.sim_reset()
      vals = None
      for i in range(case['ncycles']):
        if case.get('midreset') == i: top.sim_reset()
        vals = next_values()
        top.push(vals)
        if case.get('methods', 2) == 2: top.peek()
      if vals is not None: top.push(vals)      # the next call closes the last cycle
    else:
      top.set_metadata(VerilogTBGenPass.vtbgen_hooks, [lambda: hook_samples.append(read_all())])
      top.apply(DefaultPassGroup(vcdwave=vcd_base, textwave=True))
      r.top = top
      r.after_apply = read_all()
      def set_inputs():
        for (e, td), v in zip(inports, next_values()):
          sig = resolve(top, e)
          sig @= v
      # method port / update_once: sim_tick does not re-run the update blocks before the edge, and
      # sim_eval_combinational() is not available (it raises; on the present tree a NameError from its own message)
      def tick():
        set_inputs()
        if r.pure:
          top.sim_eval_combinational()
          if case.get('poke') and drng.random() < 0.3:
            set_inputs()            # poke again after the evaluation, no re-evaluation by the test bench: hook sample only
          else:
            api_samples[len(hook_samples)] = read_all()
        top.sim_tick()
      yield 'built'
      mode = case['reset']
      if mode == 'sim_reset':
        top.sim_reset(); yield 'tick'
      elif mode == 'manual':
        from pymtl3.datatypes import b1
        top.reset @= b1(1)
        for _ in range(2):
          tick(); yield 'tick'
        top.reset @= b1(0)
      for i in range(case['ncycles']):
        if case.get('midreset') == i: top.sim_reset()
        tick(); yield 'tick'
    yield 'ticked'
    r.samples = hook_samples
    r.api_samples = api_samples
    r.textwave = {k: list(v) for k, v in top.get_metadata(PrintTextWavePass.textwave_dict).items()}
    r.printed = None
    if case.get('printwave') and hook_samples and not ol:
      # print_textwave() of this simulator (it cannot print an empty record: it indexes the first entry)
      import contextlib, io, traceback
      buf = io.StringIO()
      try:
        with contextlib.redirect_stdout(buf): top.print_textwave()
        r.printed = buf.getvalue()
      except Exception as e:
        r.printed = e; r.printed_tb = traceback.format_exc()
    r.vcd_locals = vcd_locals(top)
    r.nets_tagged = tagged_nets(top)
    close_vcd(top)
    with open(vcd_base + '.vcd') as f: r.text = f.read()
    os.remove(vcd_base + '.vcd')
    # DSL value nets, trimmed to top-level signals (what lock_in_simulation merges into one object)
    from pymtl3.dsl import Const
    groups, const_driven = [], set()
    for writer, net in top.get_all_value_nets():
      g = sorted(repr(x) for x in net if not isinstance(x, Const) and x.is_top_level_signal())
      if g: groups.append(g)
      if isinstance(writer, Const): const_driven.update(g)
    r.dsl_groups = groups
    r.const_driven = const_driven
    return r
  finally:
    sys.modules.pop(modname, None)

# ------------------------------------------------------------------ oracle and comparisons

def py_replay(events, ncycles):
  """hold-until-changed replay: per cycle t, symbol -> value token after every line stamped <= 100 t"""
  cur, out, k = {}, [], 0
  for t in range(ncycles):
    while k < len(events) and (events[k][0] is None or events[k][0] <= 100 * t):
      cur[events[k][1]] = events[k][2]; k += 1
    out.append(dict(cur))
  return out

def sym_codes(s): return [ord(ch) for ch in s]

def ev_sexp(ev):
  t, s, v = ev
  return ('c', v, sym_codes(s))

def events_sexp(events):
  out, now = [], None
  for ev in events:
    if ev[0] != now:
      now = ev[0]; out.append(('t', now))
    out.append(ev_sexp(ev))
  return out

def canonical(events):
  """drop lines that restate the value the symbol already has; keep (time, symbol, token)"""
  cur, out = {}, []
  for t, s, v in events:
    if cur.get(s) == v: continue
    cur[s] = v; out.append((t, s, v))
  return out

def body_events(tokens, decls):
  """parse a blank-separated value-change section (model output) into events"""
  hdr = '$scope module m $end ' + ' '.join(f'$var reg {w} {sym} n{i} $end' for i, (w, sym) in enumerate(decls)) + ' $upscope $end '
  return VP.parse(hdr + '$enddefinitions $end ' + ' '.join(tokens))['events']

def check_design(ck, case, r, lines_out):
  """direct oracle on the file; returns the model requests (evaluated later in one batch) and their expectations"""
  viol = lambda kind, detail: ck.violation(kind, {'kind': kind}, case, detail)
  sigs, samples = r.sigs, r.samples
  N = len(samples)
  # sampling point cross-check
  for t, s in r.api_samples.items():
    if t >= N or samples[t] != s:
      raise InfraError(f'C16: sampling point not validated (case {case}, cycle {t})')
  try:
    vcd = VP.parse(r.text)
  except VP.VcdError as e:
    viol('unreadable-vcd', {'error': str(e), 'line_number': e.lineno, 'line': e.line, 'time': e.time,
                            'cycle': None if e.time is None else e.time // 100,
                            'oracle': 'strict independent VCD reader: the dump must be well-formed VCD'})
    return None
  decls, events = vcd['decls'], vcd['events']
  if vcd['dup_scopes']:
    viol('duplicate-scope', {'scopes': ['.'.join(x) for x in vcd['dup_scopes'][:5]]})
  dmap = {}
  for sc, name, w, sym in decls:
    if (sc, name) in dmap: viol('duplicate-declaration', {'scope': sc, 'name': name})
    dmap[(sc, name)] = (w, sym)
  # every signal of every component is declared, with its width
  sig_decl = []
  for path, e, td in sigs:
    key = (('top',) + tuple(mangle(p) for p in path), mangle(e))
    d = dmap.get(key)
    if d is None:
      viol('missing-signal', {'signal': key}); return None
    if d[0] != G.nbits(td):
      viol('wrong-width', {'signal': key, 'declared': d[0], 'width': G.nbits(td)}); return None
    sig_decl.append(d)
  extra = set(dmap) - {(('top',) + tuple(mangle(p) for p in path), mangle(e)) for path, e, td in sigs}
  clk_sym = dmap[(('top',), 'clk')][1]
  is_clock = [d[1] == clk_sym and e == 'clk' for (path, e, td), d in zip(sigs, sig_decl)]
  # header: every symbol has an initial value before time 0
  header = [ev for ev in events if ev[0] is None]
  hsyms = [s for _, s, _ in header]
  all_syms = {d[1] for d in dmap.values()}
  if set(hsyms) != all_syms or len(set(hsyms)) != len(hsyms):
    viol('header-values', {'declared': sorted(all_syms), 'header': hsyms})
  # the header values are the values the signals hold once the simulator is built, except on nets driven by a
  # constant (lock_in_simulation installs the constant object at once; the file catches up in the #0 block)
  hval = {s_: VP.value_of(v) for _, s_, v in header}
  for i, ((path, e, td), d) in enumerate(zip(sigs, sig_decl)):
    if hval.get(d[1]) != r.after_apply[i]:
      full = 's' + ''.join('.' + p for p in path) + '.' + e
      if full in r.const_driven: ck.hist('header_value', 'differs on a constant-driven net (expected)')
      else:
        ck.disagreement('header value == value held after apply', case, hval.get(d[1]), {'signal': full, 'held': r.after_apply[i]})
        break
  # ---- the property: replay == samples
  rep = py_replay(events, N)
  bad = None
  for t in range(N):
    for i, (d, ck_) in enumerate(zip(sig_decl, is_clock)):
      if ck_: continue
      tok = rep[t].get(d[1])
      v = None if tok is None else VP.value_of(tok)
      if v != samples[t][i]:
        bad = (t, i, tok, samples[t][i]); break
    if bad: break
  if bad:
    t, i, tok, want = bad
    viol('replay-mismatch', {'cycle': t, 'signal': list(sigs[i][:2]), 'file_says': tok, 'simulator_held': want,
                             'symbol': sig_decl[i][1], 'oracle': 'python hold-until-changed replay of the parsed file'})
  # ---- open-loop designs: a snapshot taken at one instant shows nxt == count + 1
  if case.get('openloop') and (('top',), 'count') in dmap:
    (cw, csym), (_, nsym) = dmap[(('top',), 'count')], dmap[(('top',), 'nxt')]
    for t in range(N):
      a, b = rep[t].get(csym), rep[t].get(nsym)
      if a is None or b is None or VP.value_of(b) != (VP.value_of(a) + 1) % (1 << cw):
        viol('inconsistent-snapshot', {'cycle': t, 'count': a, 'nxt': b, 'oracle': 'nxt is combinationally count+1'})
        break
  # ---- the clock
  clk_lines = [(t, v) for t, s, v in events if s == clk_sym and t is not None]
  want_clk = [(0, '1')] + [x for c in range(N) for x in ((100 * c + 50, '0'), (100 * c + 100, '1'))]
  if clk_lines != want_clk:
    viol('clock-lines', {'got': clk_lines[:12], 'want': want_clk[:12], 'ncycles': N})
  # ---- text wave
  tw = r.textwave
  want_tw, tw_index = {}, {}
  for i, (path, e, td) in enumerate(sigs):
    full = 's' + ''.join('.' + p for p in path) + '.' + e
    if e in ('clk', 'reset') and full != 's.reset': continue
    w = G.nbits(td)
    want_tw[full] = ['0b' + format(samples[t][i], f'0{w}b') for t in range(N)]
    tw_index[full] = i
  if set(tw) != set(want_tw):
    viol('textwave-keys', {'missing': sorted(set(want_tw) - set(tw))[:5], 'extra': sorted(set(tw) - set(want_tw))[:5]})
  else:
    for k in want_tw:
      if tw[k] != want_tw[k]:
        t = next((j for j in range(min(len(tw[k]), N)) if tw[k][j] != want_tw[k][j]), min(len(tw[k]), N))
        viol('textwave-mismatch', {'signal': k, 'cycle': t, 'record': tw[k][t:t + 3], 'simulator_held': want_tw[k][t:t + 3],
                                   'lengths': [len(tw[k]), N]})
        break

  # ---- print_textwave() prints this simulator's own record
  if getattr(r, 'printed', None) is not None and set(tw) == set(want_tw):
    check_printed(r, sigs, samples, want_tw, viol)
  nettab = nettab_input(ck, r, vcd, sigs)

  # ---- model side: net table as the file's header presents it
  net_syms = hsyms
  if len(set(net_syms)) != len(net_syms) or clk_sym not in net_syms:
    return None
  net_idx = {s: j for j, s in enumerate(net_syms)}
  widths = [None] * len(net_syms)
  reps = [None] * len(net_syms)
  for i, d in enumerate(sig_decl):
    j = net_idx.get(d[1])
    if j is None: return None
    if widths[j] is None: widths[j], reps[j] = d[0], i
  if any(w is None for w in widths): return None
  clk = net_idx[clk_sym]
  data = [j for j in range(len(net_syms)) if j != clk]
  trace = [[samples[t][reps[j]] for j in data] for t in range(N)]
  sig_net = [net_idx[d[1]] for d in sig_decl]
  # the model's reader is run on at most 60 declarations per design (it rescans the file for every cycle)
  step = max(1, -(-len(sig_decl) // 60))
  rsel = list(range(0, len(sig_decl), step))
  reqs = [
    leanio.line('vcd', 'dump', widths, clk, [0] * len(widths), trace),
    leanio.line('vcd', 'replay', [(sig_decl[i][0], sym_codes(sig_decl[i][1])) for i in rsel], events_sexp(events), N),
    leanio.line('vcd', 'decls', widths, clk, sig_net),
    leanio.line('vcd', 'edges', sym_codes(clk_sym), events_sexp(events)),
    leanio.line('vcd', 'nettab', nettab['nets'], nettab['decl']) if nettab else leanio.line('vcd', 'nettab', [], []),
  ]
  # text-wave records of a few signals through the model (widest, a one-bit one, and the first few)
  keys = sorted(want_tw, key=lambda k: (-len(want_tw[k][0]) if want_tw[k] else 0, k))[:2] + sorted(want_tw)[:4] if N else []
  tw_keys = []
  for k in keys:
    if k in tw_keys or k not in tw: continue
    i = tw_index[k]
    tw_keys.append(k)
    reqs.append(leanio.line('vcd', 'wav', G.nbits(sigs[i][2]), [samples[t][i] for t in range(N)]))
  # statistics
  changing = sum(1 for col in zip(*trace) if len(set(col[1:])) > 1) if N > 1 and trace and trace[0] else 0
  constant = sum(1 for col in zip(*trace) if len(set(col)) == 1) if trace and trace[0] else 0
  revisit = 0
  for col in (zip(*trace) if trace and trace[0] else []):
    seen, prev = set(), None
    for v in col:
      if v != prev and v in seen: revisit += 1; break
      seen.add(v); prev = v
  shared = len(sig_decl) - len(set(d[1] for d in sig_decl))
  ctx = {'vcd': vcd, 'sig_decl': sig_decl, 'is_clock': is_clock, 'samples': samples, 'N': N, 'clk_sym': clk_sym,
         'want_clk': want_clk, 'rep': rep, 'tw_keys': tw_keys, 'rsel': rsel, 'extra': extra, 'widths': widths, 'net_syms': net_syms,
         'nettab': nettab, 'hsyms': hsyms, 'events': events,
         'stats': (changing, constant, revisit, shared)}
  lines_out.append((case, r, reqs, ctx))
  return ctx

CHARS_PER_CYCLE = 6      # PrintTextWavePass default (no chars_per_cycle metadata is set here)

def check_printed(r, sigs, samples, want_tw, viol):
  """direct oracle on the text print_textwave() wrote to stdout: the header row has one tick mark per cycle this
  simulator ran, and the row of every 1-bit signal shows, cycle by cycle, the level this simulator held
  (a cycle is CHARS_PER_CYCLE characters: an edge or level character, then the level repeated)"""
  N = len(samples)
  if isinstance(r.printed, Exception):
    viol('printwave-crash', {'error': repr(r.printed), 'traceback': r.printed_tb[-1200:], 'cycles_this_simulator_ran': N,
                             'oracle': 'print_textwave() of a simulator that ran at least one cycle prints its record'})
    return
  lines = r.printed.split('\n')
  ticks = lines[1].count('|') if len(lines) > 1 else 0
  if ticks != N:
    viol('printwave-cycles', {'printed_cycles': ticks, 'cycles_this_simulator_ran': N, 'header_row': lines[1][:80] if len(lines) > 1 else None,
                              'oracle': 'print_textwave() shows one column per cycle of its own simulator'})
    return
  maxlen = max([5] + [len(k) - 2 for k in want_tw])
  rows = {}
  for l in lines[2:]:
    name = l[:maxlen].strip()
    if name and len(l) > maxlen and l[maxlen] == ' ': rows.setdefault(name, l[maxlen + 1:])
  HIGH, LOW = '\u203e', '_'
  for i, (path, e, td) in enumerate(sigs):
    full = 's' + ''.join('.' + p_ for p_ in path) + '.' + e
    if full not in want_tw or G.nbits(td) != 1: continue
    row = rows.get(full[2:])
    if row is None:
      viol('printwave-row-missing', {'signal': full, 'rows_printed': sorted(rows)[:8]}); return
    shown = [{HIGH: 1, LOW: 0}.get(row[t * CHARS_PER_CYCLE + 1]) if len(row) > t * CHARS_PER_CYCLE + 1 else None for t in range(N)]
    held = [samples[t][i] for t in range(N)]
    if shown != held:
      t = next(j for j in range(N) if shown[j] != held[j])
      viol('printwave-mismatch', {'signal': full, 'cycle': t, 'printed_levels': shown[t:t + 6], 'simulator_held': held[t:t + 6],
                                  'oracle': 'levels decoded from the printed row of a 1-bit signal'})
      return

def nettab_input(ck, r, vcd, sigs):
  """input of Model/VCD.netTable for this run: the value nets of the design in the enumeration order of
  top.get_all_value_nets() (re-read in the harness: r.nets_tagged), members tagged and numbered by the position of
  their whole signal among the `$var` lines of the file (= the order recurse_models declared them in).
  Also the statistics on nets the pass drops. None if the file declares something the generator did not."""
  key2full = {(('top',) + tuple(mangle(p) for p in path), mangle(e)): 's' + ''.join('.' + p for p in path) + '.' + e
              for path, e, td in sigs}
  decl_names = [key2full.get((sc, name)) for sc, name, w, sym in vcd['decls']]
  nets = getattr(r, 'nets_tagged', None)
  if nets is None or any(n is None for n in decl_names) or len(set(decl_names)) != len(decl_names): return None
  ids = {n: i for i, n in enumerate(decl_names)}
  enc, dropped, before, clk_pos = [], 0, None, None
  for row in nets:
    out = []
    for m in row:
      if m[0] == 'k': out.append('k')
      elif m[1] not in ids: return None
      elif m[0] == 'w': out.append('c' if m[1] == 's.clk' else ('w', ids[m[1]]))
      else: out.append(('s', ids[m[1]]))
    if ('w', 's.clk') in row: clk_pos, before = len(enc), dropped
    if not any(m[0] == 'w' for m in row): dropped += 1
    enc.append(out)
  decl = ['c' if n == 's.clk' else ('w', i) for i, n in enumerate(decl_names)]
  return {'nets': enc, 'decl': decl, 'names': decl_names, 'dropped': dropped, 'dropped_before_clock': before, 'clock_pos': clk_pos,
          'decl_syms': [sym for sc, name, w, sym in vcd['decls']]}

_MODEL_SYMS = []
def model_sym(ck, n):
  """text of Model/VCD.symbol n (through the driver; cached)"""
  if n >= len(_MODEL_SYMS):
    cnt = max(512, 2 * (n + 1))
    rep = leanio.parse_sexp(ck.drv('vcd').batch([leanio.line('vcd', 'symbols', 0, cnt)])[0])[0]
    _MODEL_SYMS[:] = [''.join(chr(int(x)) for x in codes_) for codes_ in rep]
  return _MODEL_SYMS[n]

def compare_nettab(ck, case, r, ctx, line):
  """Model/VCD.netTable on the enumerated value nets vs what make_vcd_func computed: `$var` symbols (signal_net_mapping /
  net_symbol_mapping), number and order of nets (header value lines), vcd_clock_net_idx and trimmed_value_nets[i][0]
  (clock_symbol and net_details, local variables kept alive by the closure of the dump function)"""
  nt = ctx['nettab']
  rep = leanio.parse_sexp(line)
  if rep[:1] != ['ok'] or len(rep) != 4:
    ck.disagreement('Model/VCD.netTable does not raise', case, line[:200], 'the pass wrote a header'); return
  names = nt['names']
  mname = lambda m: 's.clk' if m == 'c' else names[int(m[1:])]
  m_nets = [[mname(m) for m in net] for net in rep[1]]
  m_clk = None if rep[2] == 'none' else int(rep[2])
  m_vars = [(mname(m), int(n)) for m, n in rep[3]]
  sym = lambda n: model_sym(ck, n)
  got_vars = list(zip(names, nt['decl_syms']))
  want_vars = [(x, sym(n)) for x, n in m_vars]
  if got_vars != want_vars:
    k = next((i for i, (a, b) in enumerate(zip(want_vars, got_vars)) if a != b), min(len(want_vars), len(got_vars)))
    ck.disagreement('Model/VCD.netTable: symbol of every $var line', case, want_vars[k:k + 3], got_vars[k:k + 3])
  want_h = [sym(i) for i in range(len(m_nets))]
  if ctx['hsyms'] != want_h:
    ck.disagreement('Model/VCD.netTable: nets (header value lines, one per kept or appended net)', case,
                    {'nets': len(want_h), 'symbols': want_h[:6]}, {'nets': len(ctx['hsyms']), 'symbols': ctx['hsyms'][:6]})
  loc = getattr(r, 'vcd_locals', {}) or {}
  if 'clock_symbol' in loc: real_clk, how = loc['clock_symbol'], 'clock_symbol (closure of dump_vcd_inner)'
  else:
    first = [s_ for t_, s_, v_ in ctx['events'] if t_ == 0 and v_ == '1']
    real_clk, how = (first[-1] if first else None), 'the symbol set to 1 at #0'
    ck.hist('nettab', 'clock_symbol not in the closure: taken from the #0 block')
  if m_clk is None or real_clk != sym(m_clk):
    ck.disagreement('Model/VCD.netTable: vcd_clock_net_idx', case,
                    {'index': m_clk, 'symbol': None if m_clk is None else sym(m_clk), 'net': None if m_clk is None else m_nets[m_clk][:4]},
                    {how: real_clk, 'value_nets_dropped_before_the_clock_net': nt['dropped_before_clock']})
  if 'net_details' in loc:
    want_nd = [(net[0], sym(i)) for i, net in enumerate(m_nets) if i != m_clk]
    if loc['net_details'] != want_nd:
      k = next((i for i, (a, b) in enumerate(zip(want_nd, loc['net_details'])) if a != b), min(len(want_nd), len(loc['net_details'])))
      ck.disagreement('Model/VCD.netTable: net_details (first member and symbol of every non-clock net)', case,
                      want_nd[k:k + 3], loc['net_details'][k:k + 3])
  else: ck.hist('nettab', 'net_details not in the closure')
  ck.hist('nettab', 'compared')

def compare_model(ck, case, r, replies, ctx):
  vcd, sig_decl, N = ctx['vcd'], ctx['sig_decl'], ctx['N']
  dump_line, replay_line, decls_line, edges_line, nettab_line = replies[:5]
  if ctx['nettab']: compare_nettab(ck, case, r, ctx, nettab_line)
  for k, line in zip(ctx['tw_keys'], replies[5:]):
    mrec = leanio.parse_sexp(line)[0]
    if mrec != r.textwave[k]:
      ck.disagreement('Model/VCD.wavRecord == textwave_dict', case, {'signal': k, 'model': mrec[:4]}, r.textwave[k][:4])
  # (1) the model's dump of the sampled trace == the file's value-change section, token for token
  mtoks = dump_line.split()
  if mtoks != vcd['body']:
    k = next((i for i, (a, b) in enumerate(zip(mtoks, vcd['body'])) if a != b), min(len(mtoks), len(vcd['body'])))
    ck.disagreement('Model/VCD.dump == file (exact lines)', case, mtoks[max(0, k - 4):k + 6], vcd['body'][max(0, k - 4):k + 6])
  # (2) canonical event streams (restatements removed)
  try: mev = body_events(mtoks, sorted(set(map(tuple, sig_decl))))
  except VP.VcdError as e: raise InfraError(f'model dump not parseable: {e}')
  cm, cf = canonical(mev), canonical(vcd['events'])
  if cm != cf:
    k = next((i for i, (a, b) in enumerate(zip(cm, cf)) if a != b), min(len(cm), len(cf)))
    ck.disagreement('Model/VCD.dump == file (canonical events)', case, cm[max(0, k - 2):k + 3], cf[max(0, k - 2):k + 3])
  # (3) the model's reader on the file == samples (and == the python reader)
  rows = leanio.parse_sexp(replay_line)[0]
  if len(rows) != N: raise InfraError('replay reply shape')
  for t in range(N):
    row = rows[t]
    for k, i in enumerate(ctx['rsel']):
      d = sig_decl[i]
      tok = ctx['rep'][t].get(d[1]); pv = None if tok is None else VP.value_of(tok)
      mv = None if row[k] == 'x' else int(row[k])
      # the model reader is strict about the digit count; the python reader is not
      if mv != pv:
        ck.disagreement('Model/VCD.replay == python reader', case, {'cycle': t, 'signal': i, 'model': row[k]}, {'python': pv, 'token': tok})
        return
      if not ctx['is_clock'][i] and mv != ctx['samples'][t][i]:
        ck.disagreement('Model/VCD.replay(file) == samples', case, {'cycle': t, 'signal': i, 'model': row[k]}, ctx['samples'][t][i])
        return
  # (4) declarations: width and symbol of every signal
  md = leanio.parse_sexp(decls_line)[0]
  got = [(int(w), ''.join(chr(int(c)) for c in codes)) for w, codes in md]
  if got != [tuple(d) for d in sig_decl]:
    k = next(i for i, (a, b) in enumerate(zip(got, sig_decl)) if a != tuple(b))
    ck.disagreement('Model/VCD.decls == $var lines', case, got[k], sig_decl[k])
  # (5) clock lines through the model's edgesOf
  me = [(int(t), v) for t, v in leanio.parse_sexp(edges_line)[0]]
  if me != ctx['want_clk']:
    ck.disagreement('Model/VCD.edgesOf(clock)', case, me[:10], ctx['want_clk'][:10])
  # (6) symbol sharing == DSL value nets (signals the simulator merged into one object)
  sym_of = {}
  for (path, e, td), d in zip(r.sigs, sig_decl):
    sym_of['s' + ''.join('.' + p for p in path) + '.' + e] = d[1]
  part_file = {}
  for k, s in sym_of.items(): part_file.setdefault(s, []).append(k)
  file_groups = sorted(sorted(v) for v in part_file.values())
  in_group = set(x for g in r.dsl_groups for x in g)
  dsl_groups = sorted([sorted(g) for g in r.dsl_groups] + [[k] for k in sym_of if k not in in_group])
  if file_groups != dsl_groups:
    a = [g for g in file_groups if g not in dsl_groups][:3]; b = [g for g in dsl_groups if g not in file_groups][:3]
    ck.disagreement('symbol sharing == DSL value nets', case, b, a)
  if ctx['extra']:
    ck.disagreement('declared signals == generated signals', case, [], sorted(ctx['extra'])[:5])

# ------------------------------------------------------------------ cases

def gen_case(rng, idx, tier):
  depth = rng.choices([0, 1, 2], [2, 5, 3])[0]
  big = (idx % 40 == 7)
  ncyc = rng.randint(1, 12) if rng.random() < 0.3 else rng.randint(10, 40 if tier == 'quick' else 80)
  if rng.random() < 0.03: ncyc = 0
  case = {'dseed': rng.getrandbits(48), 'depth': depth, 'ncycles': ncyc,
          'reset': rng.choices(['sim_reset', 'manual', 'none'], [5, 2, 3])[0]}
  if big: case['big'] = True
  q = rng.random()
  if idx % 7 == 3:
    case['openloop'] = 'passes'; case['methods'] = rng.choice([1, 2, 2])
    case['reset'] = rng.choice(['sim_reset', 'sim_reset', 'none']); case.pop('big', None)
  elif idx % 4 == 1 and depth > 0:
    case['nrep'] = rng.randint(1, 3)
  elif q < 0.3: case['nonpure'] = rng.choice(['method', 'update_once'])
  elif q < 0.45: case['poke'] = True
  if ncyc > 4 and rng.random() < 0.1: case['midreset'] = rng.randint(1, ncyc - 1)
  return case

def run_case(ck, case, pending):
  try:
    r = simulate(ck, case)
  except InfraError: raise
  except Exception as e:
    # is it the generated design, or the waveform passes?
    import traceback
    tb = traceback.format_exc()
    if 'VcdGenerationPass' in tb or 'PrintTextWavePass' in tb:
      ck.violation('wave-pass-crash', {'kind': 'wave-pass-crash'}, case, {'error': repr(e), 'traceback': tb[-1500:]})
      ck.count(case, True)
      return
    ck.hist('generator', 'rejected:' + type(e).__name__)
    run_case.rejected += 1
    run_case.last_reject = tb
    return
  account(ck, case, r, check_design(ck, case, r, pending))

def account(ck, case, r, ctx):
  """evidence for one simulated and checked design"""
  N = len(r.samples)
  st = ctx['stats'] if ctx else (0, 0, 0, 0)
  ck.count(case, st[0] > 0 and st[1] > 0)
  nt = ctx.get('nettab') if ctx else None
  if nt:
    ck.hist('value_nets_without_a_whole_signal (dropped by the pass)', min(nt['dropped'], 40) // 4 * 4 if nt['dropped'] > 3 else nt['dropped'])
    b = nt['dropped_before_clock']
    ck.hist('dropped_nets_enumerated_before_the_clock_net', 'clock not in a value net' if b is None else b if b < 4 else '4+')
    if nt['dropped']:
      STATS['with_dropped'] += 1
      if b: STATS['dropped_before_clock'] += 1
      if case.get('slicenets'):
        STATS['orders'].setdefault(case['dseed'], set()).add(bool(b))
  ck.hist('depth', case['depth']); ck.hist('reset', case['reset'])
  ck.hist('components_replaced_after_elaborate', getattr(r, 'nrep', 0))
  ck.hist('tick', 'open loop (method driven, ' + case['openloop'] + ')' if case.get('openloop') else 'not pure RTL (dump before any update block)' if not r.pure else 'pure RTL, inputs poked again after eval' if case.get('poke') else 'pure RTL')
  ck.hist('cycles', '0' if N == 0 else '1-9' if N < 10 else '10-29' if N < 30 else '30+')
  ck.hist('signals', min(300, (len(r.sigs) // 20) * 20))
  if ctx:
    ck.hist('nets', '>94' if len(ctx['widths']) > 94 else (len(ctx['widths']) // 10) * 10)
    ck.hist('nets_changing_after_cycle0', min(st[0], 20)); ck.hist('nets_revisiting_old_value', min(st[2], 20))
    ck.hist('signals_sharing_a_symbol', min((st[3] // 5) * 5, 100))
  feats = set()
  def rec(s):
    feats.update(s.features)
    for _, c in s.children: rec(c)
  rec(r.spec)
  for f in feats: ck.hist('feature', f)
  r.top = None
run_case.rejected = 0
run_case.last_reject = ''
STATS = {'with_dropped': 0, 'dropped_before_clock': 0, 'orders': {}, 'groups': 0, 'group_members': 0}

# ------------------------------------------------------------------ designs with value nets that are dropped entirely

def gen_slicenet_case(rng, tier):
  """a hierarchical design with several value nets made only of bits / slices / struct fields / constants; it is built
  `ninst` times in this process (the enumeration order of the nets, hence whether such a net comes before the clock
  net, follows object ids and changes from instance to instance)"""
  return {'dseed': rng.getrandbits(48), 'depth': rng.choice([1, 1, 2]), 'ncycles': rng.randint(3, 14),
          'reset': rng.choices(['sim_reset', 'manual', 'none'], [4, 2, 3])[0], 'slicenets': True,
          'ninst': 2 if tier == 'quick' else rng.randint(2, 4)}

def run_slicenet_case(ck, case, pending):
  for k in range(case['ninst']):
    run_case(ck, dict(case, inst=k), pending)

# ------------------------------------------------------------------ several waveform simulators alive in one process

def gen_group(rng, tier):
  """2-4 simulators (instances of one class, of different classes, or both), each with VCD + text-wave passes, advanced in
  an interleaved order: `schedule` lists member numbers, the first mention of a member builds it (elaborate + passes),
  every further mention runs one of its reset / tick steps"""
  n = rng.choice([2, 2, 3, 4])
  kind = rng.choice(['same class', 'different classes', 'mixed'])
  seeds = [rng.getrandbits(48)]
  members = []
  for k in range(n):
    if k and (kind == 'different classes' or (kind == 'mixed' and rng.random() < 0.5)): seeds.append(rng.getrandbits(48))
    ds = seeds[-1] if kind != 'mixed' else rng.choice(seeds)
    members.append({'dseed': ds, 'ncycles': rng.randint(1, 10), 'reset': rng.choices(['sim_reset', 'manual', 'none'], [4, 2, 4])[0],
                    'inst': k, 'iseed': rng.getrandbits(32), 'printwave': True})
  depth_of, sl_of = {}, {}
  for m in members:
    m['depth'] = depth_of.setdefault(m['dseed'], rng.choice([0, 0, 1]))
    if sl_of.setdefault(m['dseed'], m['depth'] > 0 and rng.random() < 0.3): m['slicenets'] = True
  if rng.random() < 0.4:
    m = rng.choice(members); m['ncycles'] = 0; m['reset'] = 'none'          # a simulator that is built and never ticked
  steps = [1 + {'sim_reset': 1, 'manual': 2, 'none': 0}[m['reset']] + m['ncycles'] for m in members]
  mode = rng.choice(['random', 'late start', 'build all, then run the oldest first', 'random'])
  if mode == 'random':
    sched = [k for k in range(n) for _ in range(steps[k])]; rng.shuffle(sched)
  elif mode == 'late start':
    half = 1 + (steps[0] - 1) // 2
    rest = [0] * (steps[0] - half) + [k for k in range(1, n) for _ in range(steps[k])]; rng.shuffle(rest)
    sched = [0] * half + rest
  else:
    sched = list(range(n)) + [k for k in range(n) for _ in range(steps[k] - 1)]
  return {'multi': members, 'schedule': sched, 'kind': kind, 'mode': mode}

def run_group(ck, gcase, pending):
  import traceback
  members, sched = gcase['multi'], gcase['schedule']
  grp = {'multi': members, 'schedule': sched}
  mcases = [dict(m, group=grp, member=k) for k, m in enumerate(members)]
  shared, gens, state, errors, runs = {}, {}, {}, {}, {}
  def advance(k):
    if state.get(k) in ('ticked', 'dead'): return
    if k not in gens: gens[k] = simulate_steps(ck, mcases[k], shared)
    try: state[k] = next(gens[k])
    except InfraError: raise
    except Exception as e:
      state[k] = 'dead'; errors[k] = (e, traceback.format_exc())
  try:
    for k in sched: advance(k)
    for k in range(len(members)):
      while state.get(k) not in ('ticked', 'dead'): advance(k)
    for k in range(len(members)):
      if state[k] != 'ticked': continue
      try: next(gens[k]); raise InfraError('C16: simulate_steps did not finish')
      except StopIteration as e: runs[k] = e.value
      except InfraError: raise
      except Exception as e:
        state[k] = 'dead'; errors[k] = (e, traceback.format_exc())
  finally:
    for g in gens.values(): g.close()
  STATS['groups'] += 1
  for k, (e, tb) in errors.items():
    # the design (same source, same inputs) simulated as the only simulator: does it run?
    solo = {x: v for x, v in members[k].items()}
    solo['inst'] = f'{k}solo'
    try: simulate(ck, solo); alone_ok = True
    except InfraError: raise
    except Exception: alone_ok = False
    if alone_ok or 'VcdGenerationPass' in tb or 'PrintTextWavePass' in tb:
      ck.violation('crash-with-another-simulator-alive', {'kind': 'crash-with-another-simulator-alive'}, mcases[k],
                   {'error': repr(e), 'traceback': tb[-1500:], 'simulators_alive': len(members),
                    'alone': 'the same design with the same inputs simulates and dumps without error when it is the only simulator' if alone_ok
                             else 'fails alone as well'})
      ck.count(mcases[k], True)
    else:
      ck.hist('generator', 'rejected:' + type(e).__name__)
      run_case.rejected += 1; run_case.last_reject = tb
  for k, r in runs.items():
    account(ck, mcases[k], r, check_design(ck, mcases[k], r, pending))
    STATS['group_members'] += 1
    ck.hist('several simulators: cycles run by a member', '0 (never ticked)' if not r.samples else '1-5' if len(r.samples) < 6 else '6+')
    r.top = None
  ck.hist('several simulators: alive together', len(members))
  ck.hist('several simulators: classes', gcase.get('kind', '?'))
  ck.hist('several simulators: order', gcase.get('mode', '?'))

def flush(ck, pending):
  if not pending: return
  lines = [l for _, _, reqs, _ in pending for l in reqs]
  replies = ck.drv('vcd').batch(lines)
  k = 0
  for case, r, reqs, ctx in pending:
    compare_model(ck, case, r, replies[k:k + len(reqs)], ctx)
    k += len(reqs)
  pending.clear()

def check_symbols(ck, n=20000):
  """the first n identifier codes of the real generator (the code object nested in make_vcd_func) vs Model/VCD.symCodes;
  direct oracle: pairwise distinct, non-empty, printable non-blank characters only"""
  import builtins, types
  from pymtl3.passes.tracing.VcdGenerationPass import VcdGenerationPass
  codes = [c for c in VcdGenerationPass.make_vcd_func.__code__.co_consts
           if isinstance(c, types.CodeType) and c.co_name == '_gen_vcd_symbol']
  if len(codes) != 1 or codes[0].co_freevars:
    raise InfraError('C16: _gen_vcd_symbol is not a closure-free nested function of make_vcd_func any more')
  gen = types.FunctionType(codes[0], {'__builtins__': builtins})()
  real = [next(gen) for _ in range(n)]
  case = {'symbols': n}
  ck.count(case, True)
  seen = {}
  for i, c in enumerate(real):
    if not isinstance(c, str) or not c or any(not (33 <= ord(ch) <= 126) for ch in c):
      ck.violation('symbol-not-a-token', {'kind': 'symbol-not-a-token'}, case, {'net': i, 'code': repr(c)}); break
    if c in seen:
      ck.violation('symbol-collision', {'kind': 'symbol-collision'}, case,
                   {'nets': [seen[c], i], 'code': c, 'oracle': 'two nets with one identifier code cannot be told apart by any VCD reader'})
      break
    seen[c] = i
  rep = leanio.parse_sexp(ck.drv('vcd').batch([leanio.line('vcd', 'symbols', 0, n)])[0])[0]
  model = [''.join(chr(int(x)) for x in codes_) for codes_ in rep]
  if model != real:
    k = next((i for i, (a, b) in enumerate(zip(model, real)) if a != b), min(len(model), len(real)))
    ck.disagreement('Model/VCD.symCodes == _gen_vcd_symbol', {'symbols': n, 'first_difference_at_net': k}, model[k:k + 3], real[k:k + 3])
  ck.extra_cov['identifier_codes_compared'] = n

def run(ck):
  rng = ck.rng
  check_symbols(ck)
  total = 340 if ck.tier == 'quick' else 12000
  budget = 45 if ck.tier == 'quick' else 480
  pending = []
  done = 0
  for idx in range(total):
    run_case(ck, gen_case(rng, idx, ck.tier), pending)
    done += 1
    if idx % 14 == 5:
      c = gen_slicenet_case(rng, ck.tier)
      run_slicenet_case(ck, c, pending); done += c['ninst']
    if idx % 28 == 9:
      g = gen_group(rng, ck.tier)
      run_group(ck, g, pending); done += len(g['multi'])
    if len(pending) >= 25:
      flush(ck, pending); gc.collect()
    if len(ck.violations) > 20: break
    if ck.elapsed() > budget: break
  flush(ck, pending)
  ck.extra_cov['designs_run'] = done
  both = sum(1 for v in STATS['orders'].values() if len(v) == 2)
  ck.extra_cov['dropped_nets'] = {
    'designs_with_a_value_net_dropped_entirely': STATS['with_dropped'],
    'of_these_a_dropped_net_was_enumerated_before_the_clock_net': STATS['dropped_before_clock'],
    'slice_net_designs_built_several_times': len(STATS['orders']),
    'of_these_both_orders_occurred (a dropped net before the clock net in one instance, none in another)': both}
  ck.extra_cov['several_simulators'] = {'groups': STATS['groups'], 'simulators_checked': STATS['group_members']}
  ck.extra_cov['generator_rejects'] = run_case.rejected
  if run_case.rejected > max(3, done // 20):
    raise InfraError(f'C16: {run_case.rejected} of {done} generated designs were rejected by pymtl3; last:\n{run_case.last_reject[-1500:]}')

def replay(ck, data):
  case = data['case']
  pending = []
  n0 = len(ck.violations)
  if 'group' in case or 'slicenets' in case:
    # several simulators in one process / a design whose outcome depends on the enumeration order of its nets
    # (rebuilt up to 8 times): run through the same path as the check
    if 'group' in case:
      print(f"group of {len(case['group']['multi'])} simulators, schedule {case['group']['schedule']}; reported member {case.get('member')}")
      run_group(ck, case['group'], pending)
    else:
      for k in range(8):
        run_case(ck, dict(case, inst=f'r{k}'), pending)
        if len(ck.violations) > n0: break
      print(f'design {case["dseed"]} built {k + 1} time(s)')
    print(f'case={case}')
    for v in ck.violations[n0:]:
      print('oracle:', v.kind, v.detail)
    flush(ck, pending)
    for b in ck.breaks: print('model vs impl:', b['correspondence'], 'model=', b['model'], 'impl=', b['impl'])
    return 1 if len(ck.violations) > n0 else 0
  r = simulate(ck, case)
  ctx = check_design(ck, case, r, pending)
  print(f'case={case}\nsignals={len(r.sigs)} cycles={len(r.samples)}')
  for v in ck.violations[n0:]:
    print('oracle:', v.kind, v.detail)
  if pending:
    flush(ck, pending)
    for b in ck.breaks: print('model vs impl:', b['correspondence'], 'model=', b['model'], 'impl=', b['impl'])
  if data.get('detail', {}).get('show_source'): print(r.src)
  return 1 if len(ck.violations) > n0 else 0
