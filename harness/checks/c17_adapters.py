"""C17, second stream -- the library queues reached THROUGH the stdlib level adapters, and message ownership.

The first stream (c17.py) drives every queue class directly: RTL queues through their ports, CL queues by method calls
with a fresh message object per call.  Real designs reach a queue through the adapters pymtl3 inserts when interfaces
of different levels are connected (`pymtl3/stdlib/ifcs/send_recv_ifcs.py`, `get_give_ifcs.py`,
`pymtl3/stdlib/stream/queue_adapters.py`, `stream/fl.py`), and an RTL producer updates ONE signal object in place every
cycle.  Here every design is a closed pipeline

    producer --link--> queue_1 --link--> ... --link--> queue_k --link--> consumer            (k = 1..3)

whose links are made with `connect` (so the adapters are the auto-inserted ones) or with the explicitly instantiated
stdlib adapter where no `connect` rule exists.  Everything is observed after `sim_tick()` (pure RTL pipelines: between
`sim_eval_combinational()` and `sim_tick()`, see `Pipeline.build`).

direct oracle (`Ledger`): every *place* of the pipeline (a queue, or an adapter with a storage slot) is a FIFO ledger
between the handshakes seen at its two boundaries -- what leaves is the oldest message that entered and has not left
(by VALUE: none lost, duplicated, invented, reordered), occupancy <= capacity, no same-cycle pass-through unless the
place is a bypass place, the count port (RTL queues) equals the occupancy; after the drain phase every place is empty.
ownership oracle (`own_check`): at the end of every cycle the Python objects held in CL places (`queue` deques, adapter
`entry` slots) are pairwise distinct objects (deeply: no shared field object either), none is a live signal object of
the design, none is an object the producer still owns and rewrites (when the first link is a copying adapter), none
is an object already handed to the consumer; producers rewrite their message object in place every cycle and the final
consumer scribbles over every delivered object, so any sharing also shows up as a wrong VALUE later on.

model: two of the topologies are compared cycle by cycle with Model/QAdapter.lean (driver `qadapter`):
  r2c  RTL producer -> RecvRTL2SendCL -> {Pipe,Normal,Bypass}QueueCL(n) -> CL consumer        (heap cells: identity pattern too)
  c2r  CL producer  -> RecvCL2SendRTL -> queues.py / enrdy RTL queue -> RTL consumer

recorded, not judged (evidence: coverage.adapter_probes): GetRTL2GiveCL / GiveIfcRTL.connect(parent CalleeIfcCL) / RecvRTL2GiveFL
cannot be put on a path as shipped; RecvFL2SendRTL and RecvCL2GiveFL kept the caller's object on the pinned tree (repaired in
/repo: they copy like RecvCL2SendRTL, and producers in front of them now reuse one object); a NormalQueueCL fed through RecvFL2SendCL may deliver in the cycle of the enqueue when
the FL block is scheduled before up_pulse; a PipeQueueCL behind RecvRTL2SendCL takes the ready flag of a normal queue when
the adapter's ready block is scheduled before the consumer.
"""
from pymtl3 import *
from pymtl3.dsl.Connectable import MethodPort, Signal
from pymtl3.datatypes.bitstructs import is_bitstruct_inst
from pymtl3.stdlib.ifcs import GetIfcFL, GetIfcRTL, RecvIfcRTL, SendIfcFL, SendIfcRTL
from pymtl3.stdlib.ifcs import get_give_ifcs as GG
from pymtl3.stdlib.ifcs import send_recv_ifcs as SR
from pymtl3.stdlib.stream import fl as SFL
from pymtl3.stdlib.stream import ifcs as SI
from pymtl3.stdlib.stream import queue_adapters as SQA

from ..common import leanio
from ..common.leanio import InfraError
from . import c17_util as U

DRIVERS = ['qadapter']
MODULE = 'PymtlVerif.Props.C17a'
THEOREMS = ['PV.C17a.' + t for t in [
  'r2c_refines', 'r2c_trace', 'r2c_fifo', 'r2c_owned', 'r2c_mutation_frame', 'r2c_delivered_not_inside',
  'aliased_all_live', 'aliased_delivers_current', 'aliased_loses_messages',
  'c2r_is_bypass1', 'c2r_compose_refines', 'c2r_inner_legal', 'c2r_fifo', 'c2r_class_refines', 'chain_fifo',
]]
TRUSTED = [
  'Model/QAdapter.lean follows RecvRTL2SendCL / RecvCL2SendRTL of send_recv_ifcs.py by hand (block order from their add_constraints; '
  'a message object = a heap cell id, clone_deepcopy = a new cell); whether the adapter samples enq.rdy() before or after the consumer '
  'block is NOT fixed by the queue constraints (M(deq) < M(enq) does not order enq.rdy) and is read from the real schedule',
  'mixed chains, the FL adapters (RecvFL2SendCL, RecvFL2SendRTL, RecvCL2GiveFL) and the stream adapters (queue_adapters.py, stream/fl.py) '
  'are checked against the direct oracle only; PV.C17a.chain_fifo is the ledger-level composition law their per-place ledgers instantiate',
  'harness glue inside the pipelines: producer/consumer components, the CL mover block between two callee interfaces, the Give->Send shim '
  '(GetRTL2GiveCL cannot be elaborated as shipped)',
]
RULE = ('adapter pipelines: producer {RTL en/rdy, RTL val/rdy, CL caller, FL caller} x 1..3 queues drawn from {cl_queues, queues.py, enrdy_queues, '
        'stream/queues, valrdy_queues} x capacities {1,2,3,4} x consumer {RTL en/rdy, RTL val/rdy, CL caller, CL callee, FL caller} x message type '
        '{Bits16, 2-field bitstruct} x random want/stall patterns on both sides (phases fill/drain/steady) of ~45 cycles + drain; links by connect() '
        '(auto-inserted adapters) or the explicit stdlib adapter; non-trivial = at least two messages went end to end and some place held >= 2 '
        'messages or an adapter slot was occupied across a cycle; distinct = distinct (pipeline, intents)')

# ======================================================================= harness components

class C17aPRtl( Component ):
  """RTL producer on an en/rdy send interface: rewrites its message signal IN PLACE every cycle (handshake or not)"""
  def construct( s, T ):
    s.send = SendIfcRTL( T )
    s.want = False
    s.val  = T()
    @update
    def up_prtl():
      s.send.msg @= s.val
      s.send.en  @= s.send.rdy & s.want

class C17aPVr( Component ):
  """RTL producer on a val/rdy (stream) send interface"""
  def construct( s, T ):
    s.send = SI.SendIfcRTL( T )
    s.want = False
    s.val  = T()
    @update
    def up_pvr():
      s.send.msg @= s.val
      s.send.val @= s.want

class C17aPCl( Component ):
  """CL producer: calls its caller interface with `obj` when it wants to and the callee is ready"""
  def construct( s ):
    s.send = CallerIfcCL()
    s.want = False
    s.obj  = None
    s.fired = None
    s.rdy   = None
    @update_once
    def up_pcl():
      s.rdy = bool( s.send.rdy() )
      if s.want and s.rdy:
        s.send( s.obj )
        s.fired = s.obj

class C17aPFl( Component ):
  """FL producer: one blocking call per wanted message"""
  def construct( s ):
    s.send = SendIfcFL()
    s.want = False
    s.obj  = None
    s.busy = False
    s.fired = None
    @update_once
    def up_pfl():
      if s.want and not s.busy:
        s.busy = True
        m = s.obj
        s.send( m )
        s.fired = m
        s.busy = False

class C17aCRtl( Component ):
  """RTL consumer on an en/rdy recv interface: ready when it wants"""
  def construct( s, T ):
    s.recv = RecvIfcRTL( T )
    s.want = False
    @update
    def up_crtl():
      s.recv.rdy @= s.want

class C17aCVr( Component ):
  """RTL consumer on a val/rdy recv interface"""
  def construct( s, T ):
    s.recv = SI.RecvIfcRTL( T )
    s.want = False
    @update
    def up_cvr():
      s.recv.rdy @= s.want

class C17aCGet( Component ):
  """CL consumer that pulls: calls a callee `deq`/`give` through its caller interface"""
  def construct( s ):
    s.get  = CallerIfcCL()
    s.want = False
    s.got  = None
    s.rdy  = None
    @update_once
    def up_cget():
      s.rdy = bool( s.get.rdy() )
      if s.want and s.rdy:
        s.got = s.get()

class C17aCSink( Component ):
  """CL consumer that is called: a callee `recv` that is ready when it wants"""
  def construct( s ):
    s.want = False
    s.got  = None

  @non_blocking( lambda s: s.want )
  def recv( s, msg ):
    s.got = msg

class C17aCFl( Component ):
  """FL consumer: one blocking get per wanted message"""
  def construct( s ):
    s.get  = GetIfcFL()
    s.want = False
    s.busy = False
    s.got  = None
    @update_once
    def up_cfl():
      if s.want and not s.busy:
        s.busy = True
        m = s.get()
        s.got = m
        s.busy = False

class C17aMover( Component ):
  """CL glue between two callee interfaces: moves one message per cycle when both sides are ready"""
  def construct( s ):
    s.get = CallerIfcCL()
    s.put = CallerIfcCL()
    s.moved = None
    @update_once
    def up_mover():
      if s.get.rdy() and s.put.rdy():
        m = s.get()
        s.put( m )
        s.moved = m

class C17aG2S( Component ):
  """RTL glue: a give interface (callee with ret) seen as a send interface (caller with msg); pure wires"""
  def construct( s, T ):
    s.get  = GetIfcRTL( T )
    s.send = SendIfcRTL( T )
    @update
    def up_g2s():
      s.get.en   @= s.get.rdy & s.send.rdy
      s.send.en  @= s.get.rdy & s.send.rdy
      s.send.msg @= s.get.ret

# ======================================================================= places and boundaries

class Place:
  def __init__(self, name, cap, passthrough, holds=None, count=None, is_adapter=False):
    self.name, self.cap, self.passthrough = name, cap, passthrough
    self.holds = holds or (lambda: [])
    self.count = count
    self.is_adapter = is_adapter
    self.fifo = []              # (value, cycle it entered)
    self.max_occ = 0
    self.held_across = False

class Probe:
  """a boundary: after a tick, `fire()` returns None or (value object) of the handshake seen in that cycle"""
  def __init__(self, kind, obj, field=None):
    self.kind, self.obj, self.field = kind, obj, field
  def fire(self):
    k, o = self.kind, self.obj
    if k == 'enrdy':
      return getattr(o, self.field) if int(o.en) else None
    if k == 'valrdy':
      return o.msg if (int(o.val) and int(o.rdy)) else None
    return getattr(o, self.field)            # 'attr': an object or None, reset by the harness before every tick
  def clear(self):
    if self.kind == 'attr': setattr(self.obj, self.field, None)

OUT_OF = {'cl': 'cldeq', 'A': 'give', 'C': 'send', 'B': 'ssend', 'D': 'ssend', 'p:rtl': 'send', 'p:vr': 'ssend', 'p:cl': 'clcaller', 'p:fl': 'flsend'}
IN_OF = {'cl': 'clenq', 'A': 'recv', 'C': 'recv', 'B': 'srecv', 'D': 'srecv', 'c:rtl': 'recv', 'c:vr': 'srecv', 'c:sink': 'clenq', 'c:get': 'get', 'c:fl': 'flget'}
LINK_OK = {
  'send': {'recv', 'clenq'}, 'give': {'recv', 'clenq'},
  'cldeq': {'clenq', 'recv', 'srecv', 'flget', 'get'}, 'clcaller': {'clenq', 'recv', 'srecv'},
  'ssend': {'srecv', 'flget', 'clenq', 'recv', 'get'}, 'flsend': {'clenq', 'recv', 'srecv'},
}

def spec_ok(spec):
  """can the pipeline be wired with what the library offers (the table mirrors Pipeline.link)"""
  outs = [OUT_OF['p:' + spec['prod']]] + [OUT_OF[st[0]] for st in spec['stages']]
  ins = [IN_OF[st[0]] for st in spec['stages']] + [IN_OF['c:' + spec['cons']]]
  return all(i in LINK_OK[o] for o, i in zip(outs, ins))

def stage_cls(st):
  fam, kind, n = st
  if fam == 'cl': return 'cl' + kind.capitalize()
  if fam == 'A': return 'q' + kind.capitalize()
  if fam == 'B': return 's' + kind.capitalize()
  if fam == 'C': return 'erBypass2' if (kind == 'bypass' and n == 2) else 'er' + kind.capitalize() + '1'
  if fam == 'D': return 'vrNormalN' if n >= 2 else 'vr' + kind.capitalize() + '1'
  raise KeyError(fam)

class Pipeline:
  """builds the design of one case and runs it"""

  def __init__(self, spec):
    self.spec = spec
    self.T, self.width, self.enc, self.dec = U.MSG_TYPES[spec['mt']]
    self.seq = []                # alternating Probe, Place, Probe, ..., Probe
    self.adapters = []
    self.uid = 0
    self.copying_first = False
    self.build()

  # ------------------------------------------------------------------ construction
  def add(self, top, name, comp):
    self.uid += 1
    nm = f'{name}_{self.uid}'
    setattr(top, nm, comp)
    return comp

  def auto(self, top, prefix):
    """the adapter `connect` has just inserted"""
    k = getattr(top, prefix + '_count') - 1
    return getattr(top, f'{prefix}_{k}')

  def slot_place(self, name, a, passthrough):
    self.adapters.append(name)
    return Place(name, 1, passthrough, holds=(lambda a=a: [a.entry] if a.entry is not None else []), is_adapter=True)

  def link(self, top, out, inn):
    """connect out-handle to in-handle; appends [Probe (Place Probe)*] for the boundary between them to self.seq"""
    ot, o = out
    it, i = inn
    T = self.T
    if ot in ('send', 'give') and it == 'recv':
      connect(o, i)                                           # give: GiveIfcRTL.connect inserts the And gate
      if ot == 'give': self.adapters.append('And(give->recv)')
      self.seq.append(Probe('enrdy', i, 'msg')); return
    if ot == 'send' and it == 'clenq':
      connect(o, i); self.adapters.append('RecvRTL2SendCL')
      self.seq.append(Probe('enrdy', o, 'msg')); return
    if ot == 'give' and it in ('clenq', 'srecv'):
      sh = self.add(top, 'g2s', C17aG2S(T))
      connect(o, sh.get)
      self.link(top, ('send', sh.send), inn); return
    if ot == 'send' and it == 'srecv':
      raise ValueError('en/rdy -> val/rdy needs a protocol converter the library does not have')
    if ot == 'cldeq':
      mv = self.add(top, 'mover', C17aMover())
      connect(mv.get, o)
      self.link(top, ('clcaller', (mv, 'moved', mv.put)), inn); return
    if ot == 'clcaller':
      comp, field, caller = o
      self.seq.append(Probe('attr', comp, field))
      if it == 'clenq':
        connect(caller, i); return
      if it == 'recv':
        connect(caller, i)
        a = self.auto(top, 'RecvCL2SendRTL')
        self.seq += [self.slot_place('RecvCL2SendRTL', a, True), Probe('enrdy', i, 'msg')]; return
      if it == 'srecv':
        a = self.add(top, 'sqa', SQA.SendQueueAdapter(T))
        connect(caller, a.enq); connect(a.send, i)
        self.seq += [self.slot_place('stream.SendQueueAdapter', a, True), Probe('valrdy', i)]; return
      if it == 'flget':
        connect(i, caller)
        a = self.auto(top, 'RecvCL2GiveFL')
        self.seq.append(self.slot_place('RecvCL2GiveFL', a, False)); return       # the consumer's own probe follows
    if ot == 'ssend':
      if it == 'srecv':
        connect(o, i); self.seq.append(Probe('valrdy', i)); return
      if it == 'flget':
        a = self.add(top, 'frqa', SFL.RecvQueueAdapter(T))
        connect(o, a.recv); connect(i, a.deq)
        self.seq += [Probe('valrdy', a.recv), self.slot_place('stream.fl.RecvQueueAdapter', a, False)]; return
      a = self.add(top, 'rqa', SQA.RecvQueueAdapter(T))
      connect(o, a.recv)
      self.seq += [Probe('valrdy', a.recv), self.slot_place('stream.RecvQueueAdapter', a, False)]
      self.link(top, ('cldeq', a.deq), inn); return
    if ot == 'flsend':
      comp = o
      self.seq.append(Probe('attr', comp, 'fired'))
      if it == 'clenq':
        connect(comp.send, i); self.adapters.append('RecvFL2SendCL'); return
      if it == 'recv':
        a = self.add(top, 'fl2rtl', SR.RecvFL2SendRTL(T))
        connect(comp.send, a.recv); connect(a.send, i)
        self.seq += [self.slot_place('RecvFL2SendRTL', a, True), Probe('enrdy', i, 'msg')]; return
      if it == 'srecv':
        a = self.add(top, 'fsqa', SFL.SendQueueAdapter(T))
        connect(comp.send, a.enq); connect(a.send, i)
        self.seq += [self.slot_place('stream.fl.SendQueueAdapter', a, True), Probe('valrdy', i)]; return
    raise ValueError(f'no link {ot} -> {it}')

  def build(self):
    spec, T = self.spec, self.T
    pl = self

    class C17aTop( Component ):
      def construct( s ):
        pk = spec['prod']
        if pk == 'rtl':   s.prod = C17aPRtl(T); out = ('send', s.prod.send)
        elif pk == 'vr':  s.prod = C17aPVr(T);  out = ('ssend', s.prod.send)
        elif pk == 'cl':  s.prod = C17aPCl();   out = ('clcaller', (s.prod, 'fired', s.prod.send))
        elif pk == 'fl':  s.prod = C17aPFl();   out = ('flsend', s.prod)
        else: raise KeyError(pk)
        s.stages = []
        first = True
        for st in spec['stages']:
          fam, kind, n = st
          cls = stage_cls(st)
          q = U.CLASSES[cls][2](T, n) if fam != 'cl' else getattr(U.Q_E, kind.capitalize() + 'QueueCL')(n)
          setattr(s, f'q{len(s.stages)}', q)
          s.stages.append(q)
          cap = U.capacity(cls, n)
          byp = kind == 'bypass'
          name = U.REAL_NAME[cls]
          if fam == 'cl':
            inn, nxt = ('clenq', q.enq), ('cldeq', q.deq)
            place = Place(name, cap, byp, holds=(lambda q=q: list(q.queue)))
          elif fam in 'AC':
            inn = ('recv', q.enq)
            nxt = ('give', q.deq) if fam == 'A' else ('send', q.deq)
            place = Place(name, cap, byp, count=((lambda q=q: int(q.count)) if fam == 'A' else None))
          else:
            inn = ('srecv', q.recv if fam == 'B' else q.enq)
            nxt = ('ssend', q.send if fam == 'B' else q.deq)
            place = Place(name, cap, byp, count=((lambda q=q: int(q.count)) if fam == 'B' else None))
          k0 = len(pl.seq)
          pl.link(s, out, inn)
          if first:
            first = False
            pl.copying_first = any(isinstance(x, Place) and x.name in ('RecvCL2SendRTL', 'RecvFL2SendRTL', 'RecvCL2GiveFL', 'stream.SendQueueAdapter', 'stream.fl.SendQueueAdapter')
                                   for x in pl.seq[k0:]) or (pk in ('rtl', 'vr'))
          pl.seq.append(place)
          out = nxt
        ck_ = spec['cons']
        if ck_ == 'rtl':     s.cons = C17aCRtl(T); pl.link(s, out, ('recv', s.cons.recv))
        elif ck_ == 'vr':    s.cons = C17aCVr(T);  pl.link(s, out, ('srecv', s.cons.recv))
        elif ck_ == 'sink':  s.cons = C17aCSink(); pl.link(s, out, ('clenq', s.cons.recv))
        elif ck_ == 'get':
          s.cons = C17aCGet()
          if out[0] == 'cldeq':
            connect(s.cons.get, out[1])
          elif out[0] == 'ssend':
            a = pl.add(s, 'rqa', SQA.RecvQueueAdapter(T))
            connect(out[1], a.recv); connect(s.cons.get, a.deq)
            pl.seq += [Probe('valrdy', a.recv), pl.slot_place('stream.RecvQueueAdapter', a, False)]
          else: raise ValueError('a pulling CL consumer needs a callee to call')
          pl.seq.append(Probe('attr', s.cons, 'got'))
        elif ck_ == 'fl':
          s.cons = C17aCFl()
          pl.link(s, out, ('flget', s.cons.get))
          pl.seq.append(Probe('attr', s.cons, 'got'))
        else: raise KeyError(ck_)

    self.top = top = C17aTop()
    top.elaborate()
    slots = signal_slots(top)
    top.apply(DefaultPassGroup())
    top.sim_reset()
    # a design without method ports and update_once blocks is "pure RTL" for PrepareSimPass: its sim_tick evaluates the
    # blocks again AFTER the flip, so the cycle's values must be read between sim_eval_combinational() and sim_tick();
    # in every other design sim_tick = flip, then the blocks once, and the values are read after it
    self.pure = not top.get_all_object_filter(lambda x: isinstance(x, MethodPort)) and not top.get_all_update_once()
    self.places = [x for x in self.seq if isinstance(x, Place)]
    self.probes = [x for x in self.seq if isinstance(x, Probe)]
    assert len(self.probes) == len(self.places) + 1, [type(x).__name__ for x in self.seq]
    self.live = live_ids(slots)
    self.sched = [f.__name__ for f in top._sched.update_schedule]
    # NormalQueueCL orders up_pulse before the callers of enq.rdy / deq.rdy; a block that reaches enq.rdy() through the blocking
    # method of RecvFL2SendCL is not such a caller for the scheduler (the adapter declares M(recv) == M(send) only), so it may be
    # scheduled before up_pulse: the message it enqueues is then visible to the same cycle's deq_rdy flag.  Nothing is lost or
    # reordered; the occurrence is counted (reported as an observation), not judged.
    self.lenient_hits = 0
    if spec['prod'] == 'fl' and spec['stages'][0][:2] == ['cl', 'normal']:
      pulse = top.q0._dsl.name_upblk['up_pulse']              # this queue's own block (another NormalQueueCL has one of the same name)
      if self.sched.index('up_pfl') < top._sched.update_schedule.index(pulse):
        self.places[0].passthrough = 'lenient'

  # ------------------------------------------------------------------ one run
  def run(self, intents):
    """intents: per cycle (want_p, value, want_c).  Returns (problems, stats)."""
    top, dec, enc = self.top, self.dec, self.enc
    prod, cons = top.prod, top.cons
    reuse = self.copying_first and self.spec['prod'] in ('cl', 'fl')
    pobj = enc(0)
    delivered_objs, bad = [], []
    ndel = nacc = 0
    mask = (1 << self.width) - 1
    for p in self.probes: p.clear()
    for t, (wp, v, wc) in enumerate(intents):
      prod.want = bool(wp); cons.want = bool(wc)
      if self.spec['prod'] in ('rtl', 'vr'):
        prod.val = enc(v)                       # the block does `msg @= val`: the signal object itself is rewritten in place
      elif reuse:
        if not getattr(prod, 'busy', False):
          pobj @= enc(v)                        # the producer keeps ONE message object and rewrites it in place
          prod.obj = pobj
      elif not getattr(prod, 'busy', False):
        prod.obj = enc(v)
      for p in self.probes: p.clear()
      if hasattr(cons, 'got'): cons.got = None
      if self.pure:
        top.sim_eval_combinational()
        fired = [p.fire() for p in self.probes]
        vals = [None if f is None else dec(f) for f in fired]
        counts = [pc.count() if pc.count is not None else None for pc in self.places]
        top.sim_tick()
      else:
        top.sim_tick()
        fired = [p.fire() for p in self.probes]
        vals = [None if f is None else dec(f) for f in fired]
        counts = [pc.count() if pc.count is not None else None for pc in self.places]
      # ---- FIFO ledgers, downstream first is not needed: all events of the cycle are known
      for j, pc in enumerate(self.places):
        vin, vout = vals[j], vals[j + 1]
        occ0 = len(pc.fifo)
        if pc.count is not None:
          c = counts[j]
          if c != occ0: bad.append((t, 'count', 'count', pc.name, f'count port {c}, ledger holds {occ0}'))
        if vin is not None: pc.fifo.append((vin, t))
        if vout is not None:
          if not pc.fifo:
            bad.append((t, 'fifo', 'invented', pc.name, f'message {vout:#x} delivered with nothing accepted and undelivered'))
          else:
            hv, ht = pc.fifo[0]
            if hv != vout:
              law = 'duplicated-or-reordered' if any(vout == x for x, _ in pc.fifo) else 'wrong-value'
              bad.append((t, 'fifo', 'order', pc.name,
                          f'message delivered {vout:#x}, oldest undelivered accepted message is {hv:#x} ({law}; inside: {[hex(x) for x, _ in pc.fifo]})'))
              # resynchronise on the value if it is inside, so that one fault is reported once
              k = next((k for k, (x, _) in enumerate(pc.fifo) if x == vout), 0)
              pc.fifo.pop(k)
            else:
              if ht == t and pc.passthrough == 'lenient': self.lenient_hits += 1
              elif ht == t and not pc.passthrough:
                bad.append((t, 'fifo', 'same-cycle', pc.name, f'message {vout:#x} delivered in the cycle it was accepted by a non-bypass place'))
              pc.fifo.pop(0)
        occ = len(pc.fifo)
        if occ > pc.cap: bad.append((t, 'count', 'overflow', pc.name, f'{occ} messages inside a place of capacity {pc.cap}'))
        pc.max_occ = max(pc.max_occ, occ)
        if pc.is_adapter and occ0 and occ: pc.held_across = True
      if vals[0] is not None: nacc += 1
      # ---- ownership
      last = fired[-1]
      sink_obj = getattr(cons, 'got', None) if self.spec['cons'] in ('sink', 'get', 'fl') else None
      if sink_obj is not None:
        if deep_ids(sink_obj, set()) & self.live:
          bad.append((t, 'ownership', 'delivered-live-signal', self.places[-1].name, 'the object handed to the consumer is a live signal object of the design'))
        delivered_objs.append(sink_obj)
      bad += own_check(t, self.places, self.live, pobj if reuse else None, delivered_objs)
      if last is not None:
        ndel += 1
        if sink_obj is not None:
          sink_obj @= enc((~dec(sink_obj)) & mask)          # the consumer owns what it was given: scribble over it
      if len(bad) > 12: break
    left = [(pc.name, [hex(x) for x, _ in pc.fifo]) for pc in self.places if pc.fifo]
    return bad, dict(acc=nacc, dele=ndel, left=left, max_occ=max(pc.max_occ for pc in self.places),
                     held=any(pc.held_across for pc in self.places))

# ----------------------------------------------------------------------- ownership

def deep_ids(o, out):
  out.add(id(o))
  if is_bitstruct_inst(o):
    for f in type(o).__bitstruct_fields__:
      deep_ids(getattr(o, f), out)
  elif isinstance(o, list):
    for x in o: deep_ids(x, out)
  return out

def signal_slots(top):
  """(container, key) of every Signal of the elaborated design (before the simulation passes replace them by values)"""
  slots, seen, todo = [], set(), [top]
  while todo:
    o = todo.pop()
    if id(o) in seen: continue
    seen.add(id(o))
    items = list(enumerate(o)) if isinstance(o, list) else [(k, x) for k, x in o.__dict__.items() if not k.startswith('_')]
    for k, x in items:
      if isinstance(x, Signal): slots.append((o, k))
      elif isinstance(x, (list, Component, Interface)): todo.append(x)
  return slots

def live_ids(slots):
  """ids of every signal value object of the design (after lock_in_simulation a signal attribute IS its value object,
  rewritten in place by @= / <<= / the flip), deeply"""
  ids = set()
  for o, k in slots:
    deep_ids(o[k] if isinstance(o, list) else getattr(o, k), ids)
  return ids

def own_check(t, places, live, prod_obj, delivered_objs):
  bad = []
  owner = {}
  pid = deep_ids(prod_obj, set()) if prod_obj is not None else set()
  did = set()
  for o in delivered_objs: deep_ids(o, did)
  for pc in places:
    for k, o in enumerate(pc.holds()):
      ids = deep_ids(o, set())
      if ids & live:
        bad.append((t, 'ownership', 'holds-live-signal', pc.name, f'slot {k} of {pc.name} is (or shares a field object with) a live signal object of the design'))
      if ids & pid:
        bad.append((t, 'ownership', 'holds-producer-object', pc.name, f'slot {k} of {pc.name} is the object the producer keeps rewriting'))
      if ids & did:
        bad.append((t, 'ownership', 'holds-delivered-object', pc.name, f'slot {k} of {pc.name} is an object already handed to the consumer'))
      for i in ids:
        if i in owner and owner[i] != (pc.name, k):
          bad.append((t, 'ownership', 'slots-share-object', pc.name, f'slot {k} of {pc.name} and slot {owner[i][1]} of {owner[i][0]} are the same object'))
          break
      for i in ids: owner.setdefault(i, (pc.name, k))
  return bad

# ======================================================================= the two modelled topologies

class C17aR2CTop( Component ):
  """RTL producer -> (auto RecvRTL2SendCL) -> CL queue -> CL consumer"""
  def construct( s, QType, n, T ):
    s.prod = C17aPRtl( T )
    s.q    = QType( n )
    s.cons = C17aCGet()
    connect( s.prod.send, s.q.enq )
    connect( s.cons.get,  s.q.deq )

class C17aC2RTop( Component ):
  """CL producer -> (auto RecvCL2SendRTL) -> RTL queue with an en/rdy enqueue side -> RTL consumer"""
  def construct( s, mk, T ):
    s.prod = C17aPCl()
    s.q    = mk()
    s.cons = C17aCRtl( T )
    connect( s.prod.send, s.q.enq )
    connect( s.q.deq, s.cons.recv )

def run_r2c(case):
  """case: kind, n, mt, intents [(rst, want_p, value, want_c)].  Returns (model inputs, observations, early, problems, stats)."""
  T, width, enc, dec = U.MSG_TYPES[case['mt']]
  kind, n = case['kind'], case['n']
  top = C17aR2CTop(getattr(U.Q_E, kind.capitalize() + 'QueueCL'), n, T)
  top.elaborate()
  slots = signal_slots(top)
  top.apply(DefaultPassGroup()); top.sim_reset()
  live = live_ids(slots)
  sched = [f.__name__ for f in top._sched.update_schedule]
  early = sched.index('up_recv_rtl_rdy') < sched.index('up_cget')
  place = Place(U.REAL_NAME['cl' + kind.capitalize()], n, kind == 'bypass', holds=lambda: list(top.q.queue))
  names, obs, ins, bad, delivered = {}, [], [], [], []
  mask = (1 << width) - 1
  nacc = ndel = 0
  for t, (rst, wp, v, wc) in enumerate(case['intents']):
    top.reset @= rst
    top.prod.want = bool(wp); top.prod.val = enc(v); top.cons.want = bool(wc); top.cons.got = None; top.cons.rdy = None
    cnt = len(top.q.queue)
    top.sim_tick()
    en = int(top.prod.send.en); got = top.cons.got
    vin = dec(top.prod.send.msg) if en else None
    vout = dec(got) if got is not None else None
    # direct oracle: FIFO ledger by value + ownership
    if vin is not None: place.fifo.append((vin, t)); nacc += 1
    if vout is not None:
      ndel += 1
      if not place.fifo: bad.append((t, 'fifo', 'invented', place.name, f'message {vout:#x} delivered with nothing accepted and undelivered'))
      else:
        hv, ht = place.fifo[0]
        if hv != vout:
          bad.append((t, 'fifo', 'order', place.name, f'message delivered {vout:#x}, oldest undelivered accepted message is {hv:#x} (inside: {[hex(x) for x, _ in place.fifo]})'))
          k = next((k for k, (x, _) in enumerate(place.fifo) if x == vout), 0); place.fifo.pop(k)
        else:
          if ht == t and not place.passthrough: bad.append((t, 'fifo', 'same-cycle', place.name, f'message {vout:#x} delivered in the cycle it was accepted'))
          place.fifo.pop(0)
    if len(place.fifo) > n: bad.append((t, 'count', 'overflow', place.name, f'{len(place.fifo)} messages inside a queue of capacity {n}'))
    if got is not None:
      if deep_ids(got, set()) & live: bad.append((t, 'ownership', 'delivered-live-signal', place.name, 'the object handed to the consumer is a live signal object of the design'))
      delivered.append(got)
    bad += own_check(t, [place], live, None, delivered)
    # the observation in the model's vocabulary; peek value = value of the oldest object as the consumer block saw it
    cells = []
    for o in top.q.queue:
      if id(o) in live: cells.append(0)
      else: cells.append(names.setdefault(id(o), len(names) + 1))
    obs.append((int(top.prod.send.rdy), int(bool(top.cons.rdy)), vout if got is not None else ('?' if top.cons.rdy else None), cnt, cells))
    ins.append([int(rst), int(wp), int(v), int(wc)])
    if got is not None: got @= enc((~dec(got)) & mask)   # the consumer owns what it was given: scribble over it (kept alive in `delivered`)
  return ins, obs, early, bad, dict(acc=nacc, dele=ndel, left=[hex(x) for x, _ in place.fifo], sched=sched)

C2R_CLASSES = ['qNormal', 'qPipe', 'qBypass', 'erNormal1', 'erPipe1', 'erBypass1', 'erBypass2']

def run_c2r(case):
  """case: cls, n, mt, intents [(want_p, value, want_c)].  Returns (model inputs, observations, problems, stats)."""
  T, width, enc, dec = U.MSG_TYPES[case['mt']]
  cls, n = case['cls'], case['n']
  fam = U.CLASSES[cls][0]
  top = C17aC2RTop(lambda: U.CLASSES[cls][2](T, n), T)
  top.elaborate()
  slots = signal_slots(top)
  top.apply(DefaultPassGroup()); top.sim_reset()
  live = live_ids(slots)
  ad = top.RecvCL2SendRTL_0
  q = top.q
  cap = U.capacity(cls, n)
  slot = Place('RecvCL2SendRTL', 1, True, holds=lambda: [ad.entry] if ad.entry is not None else [], is_adapter=True)
  place = Place(U.REAL_NAME[cls], cap, U.CLASSES[cls][1] == 'bypass')
  obs, ins, bad = [], [], []
  pobj = enc(0)
  nacc = ndel = 0
  def ledger(pc, t, vin, vout):
    if vin is not None: pc.fifo.append((vin, t))
    if vout is not None:
      if not pc.fifo: bad.append((t, 'fifo', 'invented', pc.name, f'message {vout:#x} delivered with nothing accepted and undelivered'))
      else:
        hv, ht = pc.fifo[0]
        if hv != vout:
          bad.append((t, 'fifo', 'order', pc.name, f'message delivered {vout:#x}, oldest undelivered accepted message is {hv:#x} (inside: {[hex(x) for x, _ in pc.fifo]})'))
          k = next((k for k, (x, _) in enumerate(pc.fifo) if x == vout), 0); pc.fifo.pop(k)
        else:
          if ht == t and not pc.passthrough: bad.append((t, 'fifo', 'same-cycle', pc.name, f'message {vout:#x} delivered in the cycle it was accepted'))
          pc.fifo.pop(0)
    if len(pc.fifo) > pc.cap: bad.append((t, 'count', 'overflow', pc.name, f'{len(pc.fifo)} messages inside a place of capacity {pc.cap}'))
  for t, (wp, v, wc) in enumerate(case['intents']):
    pobj @= enc(v)                                 # the CL producer keeps one object and rewrites it in place
    top.prod.want = bool(wp); top.prod.obj = pobj; top.prod.fired = None; top.prod.rdy = None
    top.cons.want = bool(wc)
    top.sim_tick()
    fired = top.prod.fired is not None
    sen = int(q.enq.en)
    if fam == 'A':
      den, drdy = int(q.deq.en), int(q.deq.rdy)
      ret = dec(q.deq.ret) if drdy else None
      cnt = int(q.count)
      deq_in = den
    else:
      den = drdy = int(q.deq.en)
      ret = dec(q.deq.msg) if den else None
      cnt = (int(q.q1.full.out) + int(q.q2.full.out)) if cls == 'erBypass2' else int(q.full.out)
      deq_in = int(wc)
    ledger(slot, t, v if fired else None, dec(q.enq.msg) if sen else None)
    ledger(place, t, dec(q.enq.msg) if sen else None, ret if den else None)
    nacc += fired; ndel += den
    bad += own_check(t, [slot], live, pobj, [])
    obs.append((int(bool(top.prod.rdy)), sen, int(q.enq.rdy), drdy, ret, cnt))
    ins.append([0, int(wp), int(v), deq_in])
  return ins, obs, bad, dict(acc=nacc, dele=ndel, left=[hex(x) for x, _ in slot.fifo + place.fifo])

def fmt_r2c(o):
  er, dr, ret, cnt, cells = o
  return f"{er} {dr} {'-' if ret is None else ret} {cnt} {','.join(map(str, cells)) if cells else '-'}"

def fmt_c2r(o):
  ar, ae, er, dr, ret, cnt = o
  return f"{ar} {ae} {er} {dr} {'-' if ret is None else ret} {cnt}"

def canon_r2c_reply(rep):
  """object ids of the model renamed by first appearance in the end-of-cycle snapshots (0 = the live signal object stays 0):
  an object that is enqueued and dequeued within one cycle (bypass) never shows in a snapshot on either side"""
  names, out = {}, []
  for cyc in rep:
    f = cyc.split(' ')
    if f[4] != '-':
      f[4] = ','.join('0' if c == '0' else str(names.setdefault(c, len(names) + 1)) for c in f[4].split(','))
    out.append(' '.join(f))
  return out

def same_r2c(impl, model):
  """cycle-wise equality; when the consumer did not dequeue the real run has not read the front value ('?')"""
  if len(impl) != len(model): return min(len(impl), len(model))
  for t, (a, b) in enumerate(zip(impl, model)):
    fa, fb = a.split(' '), b.split(' ')
    if fa[2] == '?': fa[2] = fb[2] = '?'
    if fa != fb: return t
  return None

# ======================================================================= generation

STAGE_CHOICES = [('cl', 'pipe'), ('cl', 'normal'), ('cl', 'bypass'), ('A', 'normal'), ('A', 'pipe'), ('A', 'bypass'),
                 ('C', 'normal'), ('C', 'pipe'), ('C', 'bypass'), ('B', 'normal'), ('B', 'pipe'), ('B', 'bypass'),
                 ('D', 'normal'), ('D', 'pipe'), ('D', 'bypass')]

def gen_spec(rng):
  """a random wirable pipeline; CL queues and adapter-rich shapes are drawn more often than pure RTL chains"""
  while True:
    k = rng.choice([1, 1, 2, 2, 3])
    stages = []
    for _ in range(k):
      fam, kind = rng.choice(STAGE_CHOICES + STAGE_CHOICES[:3] * 2)
      stages.append([fam, kind, rng.choice([1, 2, 2, 3, 4])])
    spec = {'prod': rng.choice(['rtl', 'rtl', 'cl', 'fl', 'vr']), 'stages': stages,
            'cons': rng.choice(['rtl', 'sink', 'get', 'fl', 'vr']), 'mt': rng.choice(['b16', 'pkt'])}
    if not spec_ok(spec): continue
    if all(st[0] != 'cl' for st in stages) and spec['prod'] in ('rtl', 'vr') and spec['cons'] in ('rtl', 'vr') and rng.random() < 0.8:
      continue                                  # pure RTL chains have no adapter on the path
    return spec

def gen_wants(rng, ncyc, period):
  out, pe, pd = [], 0.5, 0.5
  for t in range(ncyc):
    if t % period == 0:
      ph = rng.choice(['fill', 'drain', 'steady', 'steady', 'rand'])
      pe, pd = {'fill': (0.95, 0.1), 'drain': (0.15, 0.9), 'steady': (0.85, 0.85), 'rand': (rng.random(), rng.random())}[ph]
    out.append((int(rng.random() < pe), int(rng.random() < pd)))
  return out

def values(rng, width, n):
  """a different value every cycle (unique within the run), so that loss / duplication / reordering is visible by value"""
  base, step = rng.randrange(1 << width), rng.choice([1, 3, 5, 7])
  return [(base + step * t) % (1 << width) for t in range(n)]

DIRECTED = [
  # the shape of the repaired defect: an RTL producer that counts, a CL queue, a consumer that stalls first
  {'prod': 'rtl', 'stages': [['cl', k, 3]], 'cons': 'get', 'mt': mt} for k in ('pipe', 'normal', 'bypass') for mt in ('b16', 'pkt')
] + [
  {'prod': 'cl', 'stages': [['A', 'normal', 2]], 'cons': 'sink', 'mt': 'pkt'},
  {'prod': 'rtl', 'stages': [['cl', 'normal', 2], ['A', 'pipe', 2], ['cl', 'bypass', 2]], 'cons': 'sink', 'mt': 'b16'},
  {'prod': 'vr', 'stages': [['B', 'normal', 2], ['cl', 'pipe', 2]], 'cons': 'rtl', 'mt': 'pkt'},
  {'prod': 'fl', 'stages': [['cl', 'pipe', 2], ['C', 'bypass', 2]], 'cons': 'rtl', 'mt': 'b16'},
  {'prod': 'fl', 'stages': [['A', 'bypass', 2], ['cl', 'normal', 2]], 'cons': 'fl', 'mt': 'pkt'},
]
assert all(spec_ok(s) for s in DIRECTED)

def directed_intents(width):
  vs = [(0x10 + t) % (1 << width) for t in range(40)]
  return [(1, vs[t], int(t >= 8)) for t in range(16)] + [(0, vs[16 + t], 1) for t in range(16)]

# ======================================================================= the stream

VIOL_CAP = {}

def report(ck, kind, law, place, case, detail):
  sig = {'cls': place, 'law': law, 'stream': 'adapters'}
  key = (kind, place, law)
  VIOL_CAP[key] = VIOL_CAP.get(key, 0) + 1
  if VIOL_CAP[key] > 3: return
  ck.violation(kind, sig, case, detail)

def judge_bad(ck, case, bad, extra):
  seen = set()
  for t, kind, law, place, msg in bad:
    if (kind, law, place) in seen: continue
    seen.add((kind, law, place))
    report(ck, kind, law, place, case, dict(extra, cycle=t, what=msg,
           oracle='FIFO ledger by value of every place between the handshakes seen at its two boundaries + object ownership of the CL places'))

def run_pipeline_case(ck, case, obs):
  import random
  random.seed(case['gseed'])                       # (the scheduler's tie-breaks follow set iteration order of function objects and cannot be
                                                   #  pinned; what depends on them is read from the schedule actually produced)
  spec = case['spec']
  pl = Pipeline(spec)
  bad, st = pl.run(case['intents'])
  if pl.lenient_hits: obs['fl_normal_same_cycle'] = obs.get('fl_normal_same_cycle', 0) + 1
  if st['left'] and len(bad) <= 12:
    bad.append((len(case['intents']) - 1, 'fifo', 'lost', st['left'][0][0],
                f"after the drain phase messages are still inside: {st['left']} (accepted {st['acc']}, delivered {st['dele']})"))
  return pl, bad, st

def run_stream(ck):
  import random, time
  rng = ck.rng
  VIOL_CAP.clear()
  quick = ck.tier == 'quick'
  obs = {}
  t_start = time.time()
  # ---------------------------------------------------------------- (1) the two modelled topologies
  reps = 3 if quick else 30
  lines, meta = [], []
  for kind in ('pipe', 'normal', 'bypass'):
    for n in (1, 2, 3, 4):
      for mt in ('b16', 'pkt'):
        for r in range(reps):
          width = U.MSG_TYPES[mt][1]
          ncyc = 40
          vs = values(rng, width, ncyc + n + 2)
          wants = gen_wants(rng, ncyc, max(2, n + 2))
          rsts = set()
          if rng.random() < 0.5:
            t0 = rng.randrange(2, ncyc - 3); rsts = set(range(t0, t0 + rng.randint(1, 3)))
          ints = [[int(t in rsts), wp, vs[t], wc] for t, (wp, wc) in enumerate(wants)] + [[0, 0, vs[ncyc + j], 1] for j in range(n + 1)]
          case = {'stream': 'r2c', 'kind': kind, 'n': n, 'mt': mt, 'intents': ints, 'gseed': rng.randrange(1 << 30)}
          random.seed(case['gseed'])
          ins, o, early, bad, st = run_r2c(case)
          if st['left']: bad.append((len(ints) - 1, 'fifo', 'lost', U.REAL_NAME['cl' + kind.capitalize()], f"accepted messages never delivered although the consumer kept asking: {st['left']}"))
          ck.count(case, st['acc'] > 1 and st['dele'] > 1)
          ck.hist('adapter stream', 'r2c'); ck.hist('adapter', 'RecvRTL2SendCL')
          if kind == 'pipe': ck.hist('pipe queue behind RecvRTL2SendCL: enq.rdy sampled', 'before the consumer block' if early else 'after the consumer block')
          lines.append(leanio.line('qadapter', 'r2c', False, early, kind, n, ins))
          meta.append((case, ins, o, bad, early))
  rep = ck.drv('qadapter').batch(lines)
  for (case, ins, o, bad, early), r in zip(meta, rep):
    impl = [fmt_r2c(x) for x in o]
    model = canon_r2c_reply([] if r == '.' else r.split('|'))
    judge_bad(ck, case, bad, {'inputs (rst,want_p,value,want_c)': ins, 'impl (recvRdy deqRdy value count objects)': impl, 'model': model})
    t = same_r2c(impl, model)
    if t is not None:
      ck.disagreement('Model/QAdapter.r2cStep≈RTL producer→RecvRTL2SendCL→' + U.REAL_NAME['cl' + case['kind'].capitalize()],
                      dict(case, first_diff_cycle=t, early=early), model[:t + 1], impl[:t + 1])
  lines, meta = [], []
  for cls in C2R_CLASSES:
    for n in U.capacities(cls, (1, 2, 3, 4)):
      for mt in ('b16', 'pkt'):
        for r in range(reps):
          width = U.MSG_TYPES[mt][1]
          cap = U.capacity(cls, n)
          ncyc = 40
          vs = values(rng, width, ncyc + cap + 3)
          wants = gen_wants(rng, ncyc, max(2, cap + 2))
          ints = [[wp, vs[t], wc] for t, (wp, wc) in enumerate(wants)] + [[0, vs[ncyc + j], 1] for j in range(cap + 2)]
          case = {'stream': 'c2r', 'cls': cls, 'n': n, 'mt': mt, 'intents': ints, 'gseed': rng.randrange(1 << 30)}
          random.seed(case['gseed'])
          ins, o, bad, st = run_c2r(case)
          if st['left'] and cls != 'erBypass2': bad.append((len(ints) - 1, 'fifo', 'lost', U.REAL_NAME[cls], f"accepted messages never delivered although the consumer kept asking: {st['left']}"))
          ck.count(case, st['acc'] > 1 and st['dele'] > 1)
          ck.hist('adapter stream', 'c2r'); ck.hist('adapter', 'RecvCL2SendRTL')
          lines.append(leanio.line('qadapter', 'c2r', cls, n, ins))
          meta.append((case, ins, o, bad))
  rep = ck.drv('qadapter').batch(lines)
  for (case, ins, o, bad), r in zip(meta, rep):
    impl = [fmt_c2r(x) for x in o]
    model = [] if r == '.' else r.split('|')
    judge_bad(ck, case, bad, {'inputs (rst,want_p,value,deq)': ins, 'impl (recvRdy sendEn enqRdy deqRdy ret count)': impl, 'model': model})
    if impl != model:
      t = next((k for k in range(min(len(impl), len(model))) if impl[k] != model[k]), min(len(impl), len(model)))
      ck.disagreement('Model/QAdapter.composeCls≈CL producer→RecvCL2SendRTL→' + U.REAL_NAME[case['cls']],
                      dict(case, first_diff_cycle=t), model[:t + 1], impl[:t + 1])
  # ---------------------------------------------------------------- (2) pipelines (direct oracle only)
  cases = []
  for spec in DIRECTED:
    width = U.MSG_TYPES[spec['mt']][1]
    cases.append({'stream': 'pipeline', 'spec': spec, 'intents': [list(x) for x in directed_intents(width)], 'gseed': 1, 'origin': 'directed'})
  npipe = 520 if quick else 6000
  for _ in range(npipe):
    spec = gen_spec(rng)
    width = U.MSG_TYPES[spec['mt']][1]
    caps = sum(U.capacity(stage_cls(st), st[2]) for st in spec['stages'])
    ncyc = 45
    drain = caps + 3 * len(spec['stages']) + 8
    vs = values(rng, width, ncyc + drain)
    wants = gen_wants(rng, ncyc, rng.choice([4, 6, 9]))
    ints = [[wp, vs[t], wc] for t, (wp, wc) in enumerate(wants)] + [[0, vs[ncyc + j], 1] for j in range(drain)]
    cases.append({'stream': 'pipeline', 'spec': spec, 'intents': ints, 'gseed': rng.randrange(1 << 30)})
  for case in cases:
    pl, bad, st = run_pipeline_case(ck, case, obs)
    spec = case['spec']
    ck.count(case, st['dele'] >= 2 and (st['max_occ'] >= 2 or st['held']))
    ck.hist('adapter stream', 'pipeline')
    ck.hist('pipeline length', len(spec['stages']))
    ck.hist('pipeline producer', spec['prod']); ck.hist('pipeline consumer', spec['cons'])
    for a in pl.adapters: ck.hist('adapter', a)
    for stg in spec['stages']: ck.hist('class', U.REAL_NAME[stage_cls(stg)] + ' (behind adapters)')
    judge_bad(ck, case, bad, {'places': [p.name for p in pl.places], 'adapters': pl.adapters, 'schedule': pl.sched})
    if len(ck.violations) > 40: break
  # ---------------------------------------------------------------- (3) adapters that cannot be put on a path; recorded, not judged
  pr = probes()
  pr['RecvFL2SendCL in front of NormalQueueCL: pipelines in which the FL producer block was scheduled before up_pulse and a message was delivered in the cycle it was accepted'] = obs.get('fl_normal_same_cycle', 0)
  ck.extra_cov['adapter_probes'] = pr
  ck.extra_cov['adapter_stream_wall_s'] = round(time.time() - t_start, 1)

# ======================================================================= probes

def probes():
  """The adapters of get_give_ifcs.py that cannot be driven at all, probed on every run so that a repair shows up."""
  import traceback
  out = {}
  def first(e): return f"{type(e).__name__}: {(str(e).strip().splitlines() or [''])[-1][:160]}"
  # GetRTL2GiveCL reads s.get.msg; GetIfcRTL has `ret`
  try:
    class C17aProbe1( Component ):
      def construct( s ):
        s.a = GG.GetRTL2GiveCL( Bits8 )
    t = C17aProbe1(); t.elaborate()
    out['GetRTL2GiveCL( Bits8 ) elaborates'] = True
  except Exception as e:
    out['GetRTL2GiveCL( Bits8 ) elaborates'] = first(e)
  # GiveIfcRTL.connect( parent CalleeIfcCL ) passes s.MsgType (None for a give interface) to GetRTL2GiveCL
  try:
    class C17aProbe2( Component ):
      def construct( s ):
        s.deq = CalleeIfcCL()
        s.q = U.Q_A.NormalQueueRTL( Bits8, 2 )
        connect( s.q.deq, s.deq )
    class C17aProbe2Top( Component ):
      def construct( s ):
        s.w = C17aProbe2()
    t = C17aProbe2Top(); t.elaborate()
    out['connect( queue.deq (GiveIfcRTL), parent CalleeIfcCL ) elaborates'] = True
  except Exception as e:
    out['connect( queue.deq (GiveIfcRTL), parent CalleeIfcCL ) elaborates'] = first(e)
  # RecvRTL2GiveFL: recv.rdy = (entry is not None) -- never ready
  try:
    class C17aProbe3( Component ):
      def construct( s ):
        s.p = C17aPRtl( Bits8 ); s.a = GG.RecvRTL2GiveFL( Bits8 ); s.c = C17aCFl()
        connect( s.p.send, s.a.recv ); connect( s.c.get, s.a.give )
    t = C17aProbe3(); t.elaborate(); t.apply(DefaultPassGroup()); t.sim_reset()
    n = 0
    for cyc in range(6):
      t.p.want = True; t.p.val = Bits8(cyc); t.c.want = True
      t.sim_tick(); n += int(t.p.send.en)
    out['RecvRTL2GiveFL: messages accepted in 6 cycles with producer and consumer both willing'] = n
  except Exception as e:
    out['RecvRTL2GiveFL: messages accepted in 6 cycles with producer and consumer both willing'] = first(e)
  # RecvFL2SendRTL / RecvCL2GiveFL keep the caller's object
  try:
    T, w, enc, dec = U.MSG_TYPES['pkt']
    class C17aProbe4( Component ):
      def construct( s ):
        s.p = C17aPFl(); s.a = SR.RecvFL2SendRTL( T ); s.c = C17aCRtl( T )
        connect( s.p.send, s.a.recv ); connect( s.a.send, s.c.recv )
    t = C17aProbe4(); t.elaborate(); t.apply(DefaultPassGroup()); t.sim_reset()
    obj = enc(0x100); t.p.want = True; t.p.obj = obj; t.c.want = False
    t.sim_tick()
    out['RecvFL2SendRTL.entry is the object the FL caller passed (no copy)'] = t.a.entry is obj
    class C17aProbe5( Component ):
      def construct( s ):
        s.p = C17aPCl(); s.c = C17aCFl()
        connect( s.c.get, s.p.send )
    t = C17aProbe5(); t.elaborate(); t.apply(DefaultPassGroup()); t.sim_reset()
    obj = enc(0x200); t.p.want = True; t.p.obj = obj; t.c.want = False
    t.sim_tick()
    out['RecvCL2GiveFL.entry is the object the CL caller passed (no copy)'] = t.RecvCL2GiveFL_0.entry is obj
  except Exception as e:
    out['RecvFL2SendRTL / RecvCL2GiveFL probe'] = first(e)
  return out

# ======================================================================= replay

def replay(ck, case):
  import random
  random.seed(case['gseed'])
  if case['stream'] == 'r2c':
    ins, o, early, bad, st = run_r2c(case)
    r = ck.drv('qadapter').batch([leanio.line('qadapter', 'r2c', False, early, case['kind'], case['n'], ins)])[0]
    model = canon_r2c_reply([] if r == '.' else r.split('|'))
    ra = ck.drv('qadapter').batch([leanio.line('qadapter', 'r2c', True, early, case['kind'], case['n'], ins)])[0]
    old = canon_r2c_reply([] if ra == '.' else ra.split('|'))
    impl = [fmt_r2c(x) for x in o]
    print(f"RTL producer -> RecvRTL2SendCL -> {U.REAL_NAME['cl' + case['kind'].capitalize()]}(n={case['n']}) -> CL consumer, msg={case['mt']}, enq.rdy sampled {'before' if early else 'after'} the consumer block")
    print('cycle: inputs(rst,want_p,value,want_c) | impl (recvRdy deqRdy value count objects[0=live signal]) | model | model of the adapter before repair 7f778b6')
    for t, (i, a, b, c) in enumerate(zip(ins, impl, model, old)):
      print(f'{t:3d}: {i} | {a} | {b} | {c}' + ('   <-- differ' if same_r2c([a], [b]) is not None else ''))
  elif case['stream'] == 'c2r':
    ins, o, bad, st = run_c2r(case)
    r = ck.drv('qadapter').batch([leanio.line('qadapter', 'c2r', case['cls'], case['n'], ins)])[0]
    model = [] if r == '.' else r.split('|')
    impl = [fmt_c2r(x) for x in o]
    print(f"CL producer -> RecvCL2SendRTL -> {U.REAL_NAME[case['cls']]}(n={case['n']}) -> RTL consumer, msg={case['mt']}")
    print('cycle: inputs(rst,want_p,value,deq) | impl (recvRdy sendEn enqRdy deqRdy ret count) | model')
    for t, (i, a, b) in enumerate(zip(ins, impl, model)):
      print(f'{t:3d}: {i} | {a} | {b}' + ('   <-- differ' if a != b else ''))
    if st['left'] and case['cls'] != 'erBypass2': bad.append((len(ins) - 1, 'fifo', 'lost', U.REAL_NAME[case['cls']], f"never delivered: {st['left']}"))
  else:
    pl, bad, st = run_pipeline_case(ck, case, {})
    print('pipeline:', case['spec'])
    print('places  :', [f'{p.name}(cap {p.cap})' for p in pl.places], ' adapters:', pl.adapters)
    print('schedule:', pl.sched)
    print(f"accepted {st['acc']}, delivered {st['dele']}, left inside {st['left']}")
  for t, kind, law, place, msg in bad: print(f'oracle: cycle {t}: {kind}/{law} at {place}: {msg}')
  return 1 if bad else 0
