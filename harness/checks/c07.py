"""C07 — flip-flop updates are atomic at the clock edge.

proof:          lean/PymtlVerif/Props/C07.lean (ff_perm, tick_ff_perm, ff_reads_pre_edge, hold, last_wins, edge, next_eq_cur)
correspondence: register-heavy random designs (registers reading each other, reset/hold/override assignment shapes, registers
                forwarded through nets and slices) x 5 pass groups x permutations of top._sched.schedule_ff, with probe
                functions between the ff blocks and before the flip; every signal after every tick vs Model/Rtl.lean
direct oracle:  (1) all permutations give identical traces, (2) no signal changes between the ff blocks (before the flip),
                (3) post-tick values equal F(pre-edge state) computed independently (rtlgen.RefSim)
"""
import itertools

from ..common import leanio, rtlgen
from ..common.leanio import InfraError
from . import c07_flip, c01_mamba, c09_place

PID = 'C07'
DRIVERS = ['rtl', 'flip']
MODULE = ['PymtlVerif.Props.C07', 'PymtlVerif.Props.C07f']
THEOREMS = ['PV.C07.' + t for t in ['denoteFF_wf', 'ff_perm', 'ff_reads_pre_edge', 'hold', 'last_wins', 'edge', 'next_eq_cur', 'tick_ff_perm']] + c07_flip.THEOREMS
THEOREM_MODULE = {t: 'PymtlVerif.Props.C07f' for t in c07_flip.THEOREMS}
# the packing of update_ff blocks into meta blocks by Mamba2020 (Model/Mamba.lean, Props/C01m.lean: packFF_flatten, ...)
DRIVERS = DRIVERS + c01_mamba.DRIVERS
MODULE = MODULE + [c01_mamba.MODULE]
THEOREMS = THEOREMS + c01_mamba.THEOREMS_FF
THEOREM_MODULE.update({t: c01_mamba.MODULE for t in c01_mamba.THEOREMS_FF})
# the placement rules of `<<=` (Model/Place.lean, Props/C09p.lean: an accepted `<<=` assigns whole signals, every register it can assign at
# run time is marked as a flip-flop) and the accepted shapes simulated as registers (c09_place.py)
DRIVERS = DRIVERS + c09_place.DRIVERS
MODULE = MODULE + [c09_place.MODULE]
THEOREMS = THEOREMS + c09_place.THEOREMS_FF
THEOREM_MODULE.update({t: c09_place.MODULE for t in c09_place.THEOREMS_FF})
TRUSTED = [
  'Model/Rtl.lean ff part: <<= evaluates on current values and writes the shadow; flip installs the shadow of written registers; '
  'update_ff blocks assign whole top-level signals only (the DSL rejects slices/fields on the LHS of <<=)',
] + c07_flip.TRUSTED + c01_mamba.TRUSTED + c09_place.TRUSTED
ASSUMPTIONS = [
  'struct-typed registers are bit ranges of one signal in the model (their leaves flip together by construction); generated registers are Bits-typed',
  'update_ff blocks reading non-signal Python state are outside the hypothesis',
]
RULE = ('random designs with 1-5 registers whose next-state expressions read other registers; a case = (design, pass group or forced ff permutation); '
        'non-trivial = >= 2 ff blocks or a register read by another ff block; distinct by (source, flow, permutation); plus the update_ff part of the '
        'operator-placement stream (every target shape / index form / binding form on the left of <<=, in the block or in a helper, two pass groups each)')

def run_with_probes(cls, d, perm, cycles):
  """simple flow with schedule_ff = [p, ff1, p, ff2, p, ...]: the probes must all see the same values"""
  from pymtl3.passes.sim.GenDAGPass import GenDAGPass
  from pymtl3.passes.sim.WrapGreenletPass import WrapGreenletPass
  from pymtl3.passes.sim.SimpleSchedulePass import SimpleSchedulePass
  from pymtl3.passes.sim.PrepareSimPass import PrepareSimPass
  rs = rtlgen.RealSim.__new__(rtlgen.RealSim)
  rtlgen.quiet_dump_dag()
  rs.d = d; rs.top = top = cls(); rs.flow = 'probe'
  top.elaborate()
  GenDAGPass()(top); WrapGreenletPass()(top); SimpleSchedulePass()(top)
  rs.index_blocks()
  seen = []
  def probe(): seen.append(rs.read_all())
  sched = [probe]
  for i in perm: sched += [rs.id2blk[i], probe]
  top._sched.schedule_ff = sched
  PrepareSimPass(print_line_trace=False)(top)
  trace, leaks = [], []
  for k, ins in enumerate(cycles):
    rs.set_inputs(ins)
    top.sim_eval_combinational()
    a = rs.read_all()
    del seen[:]
    top.sim_tick()
    if any(s != seen[0] for s in seen):
      leaks.append({'cycle': k, 'probes': seen[:]})
    trace.append((a, rs.read_all()))
  return trace, leaks

def run(ck):
  rng = ck.rng
  n = 200 if ck.tier == 'quick' else 4000
  maxperm = 6 if ck.tier == 'quick' else 120
  lines, meta = [], []
  flip_tops = []
  for _ in range(n):
    if rng.random() < 0.2:
      # many registers, one (mostly branchy) update_ff block each: exercises the meta-block packing of Mamba2020
      d = rtlgen.generate(rng, max_blocks=4, max_regs=14, min_regs=8, with_children=(rng.random() < 0.3), many_wires=True)
    else:
      d = rtlgen.generate(rng, max_blocks=6, max_regs=5, min_regs=1, with_children=(rng.random() < 0.5))
    src = d.source()
    ck.extra_cov.setdefault('sample_design_source', src)
    cls = rtlgen.load_class(ck.workdir, d)
    cycles = rtlgen.gen_inputs(rng, d, rng.randint(6, 10))
    ref = rtlgen.RefSim(d)
    ref_trace = [ref.cycle(c) for c in cycles]
    ff_ids = d.ff_ids()
    runs = []
    crashed = False
    for flow in ['default', 'simple', 'heutopo', 'mamba', 'unroll']:
      try:
        rs = rtlgen.RealSim(cls, d, flow)
        if flow == 'default': flip_lines_add(ck, rs.top, src, flip_tops)
        tr, _ = rtlgen.run_real(rs, cycles, rerun=False)
      except leanio.MachineryError: raise
      except Exception as e:
        # the generated designs are legal (acyclic, single writer): the simulator has to build and run them
        ck.violation('simulation-raised', {'flow': flow, 'exc': type(e).__name__},
                     {'source': src, 'flow': flow, 'inputs': cycles, 'signals': [s_.path for s_ in d.sigs]},
                     {'error': f'{type(e).__name__}: {e}'[:400], 'oracle': 'a legal design simulates: every register holds F(pre-edge state) after each tick'})
        crashed = True; break
      runs.append((flow, [e[1] for e in rs.schedule_entries()], rs.ff_entries(), tr))
    if crashed: continue
    # the same inputs driven with sim_tick() alone (poke inputs, tick, read — no explicit combinational evaluation first):
    # the edge must still see F(pre-edge state, inputs of THIS cycle), whatever the pass group's tick is assembled from
    reset_sig = next((s_ for s_ in d.sigs if s_.comp == '' and s_.name == 'reset'), None)
    for nflow, flow in enumerate(rng.sample(['default', 'simple', 'heutopo', 'mamba', 'unroll'], 2)):
      try:
        rs = rtlgen.RealSim(cls, d, flow)
        got = []
        want = [list(b_) for (_a, b_) in ref_trace]
        if nflow == 0 and reset_sig is not None:
          # start with sim_reset(): three edges with reset asserted, each of which must see the combinational logic settled on
          # the state the previous edge left (registers without a reset clause show it), then reset released
          ins0 = [(g, v) for (g, v) in cycles[0] if g != reset_sig.idx]
          ref2 = rtlgen.RefSim(d)
          for _r in range(3): ref2.cycle(ins0 + [(reset_sig.idx, 1)])
          for g, v in ins0 + [(reset_sig.idx, 0)]: ref2.vals[g] = v
          ref2.eval_comb()
          want = [list(ref2.vals)] + [list(ref2.cycle(c)[1]) for c in cycles]
          rs.set_inputs(ins0); rs.top.sim_reset(); got.append(rs.read_all())
        for kc, ins in enumerate(cycles):
          if nflow == 1:
            # evaluate with OTHER inputs first, then poke the inputs of this cycle and tick without evaluating again (a test
            # bench that looks at the outputs and then decides its inputs): the edge must see the inputs on the ports
            rs.set_inputs(cycles[(kc + 1) % len(cycles)]); rs.top.sim_eval_combinational()
          rs.set_inputs(ins); rs.top.sim_tick(); got.append(rs.read_all())
      except leanio.MachineryError: raise
      except Exception as e:
        ck.violation('simulation-raised', {'flow': flow, 'exc': type(e).__name__, 'drive': 'tick-only'},
                     {'source': src, 'flow': flow, 'inputs': cycles, 'signals': [s_.path for s_ in d.sigs]},
                     {'error': f'{type(e).__name__}: {e}'[:400]})
        continue
      ck.count({'src_hash': hash(src) & 0xffffffff, 'flow': flow, 'drive': 'tick-only'}, nontrivial=bool(ff_ids))
      ck.hist('tick_only_flow', flow)
      if [list(g) for g in got] != want:
        k = next(i for i, (x, y) in enumerate(zip(got, want)) if list(x) != list(y))
        ck.violation('tick-only-not-F-of-pre-edge-state', {'flow': flow},
                     {'source': src, 'flow': flow, 'tick_only_inputs': cycles, 'signals': [s_.path for s_ in d.sigs]},
                     {'cycle': k, 'impl': list(got[k]), 'ref': want[k], 'signals': [s_.path for s_ in d.sigs],
                      'oracle': '(sim_reset() first for the first flow, step 0 = the state it leaves;) poke inputs, sim_tick(), read: the state after the tick is F(pre-edge state, current inputs) with the combinational logic settled'})
    comb_order = runs[1][1]
    perms = list(itertools.permutations(ff_ids)) if len(ff_ids) <= 4 else [tuple(rng.sample(ff_ids, len(ff_ids))) for _ in range(24)]
    if len(ff_ids) > 6: perms = perms[:3]
    rng.shuffle(perms)
    for perm in perms[:maxperm]:
      tr, leaks = run_with_probes(cls, d, list(perm), cycles)
      if leaks:
        ck.violation('visible-before-edge', {'what': 'a signal changed between ff blocks, before the flip'},
                     {'source': src, 'ff_order': list(perm), 'inputs': cycles, 'signals': [s_.path for s_ in d.sigs]}, {'leaks': leaks[:1], 'signals': [s.path for s in d.sigs]})
      runs.append(('probe', comb_order, list(perm), tr))
    regs_cross = any(True for b in d.blocks if b['kind'] == 'ff' for (_, e) in b['asgs']
                     for r in rtlgen.expr_reads(e, []) if r[0] in d.regs)
    base = runs[0]
    for r in runs:
      ck.count({'src_hash': hash(src) & 0xffffffff, 'flow': r[0], 'ff': list(r[2])}, nontrivial=(len(ff_ids) >= 2 or regs_cross))
      ck.hist('flow', r[0]); ck.hist('ff_blocks', len(ff_ids)); ck.hist('regs', len(d.regs))
      if r[3] != base[3]:
        k = next(i for i, (x, y) in enumerate(zip(r[3], base[3])) if x != y)
        ck.violation('ff-order-changes-result', {'flows': [base[0], r[0]]},
                     {'source': src, 'ff_a': base[2], 'ff_b': r[2], 'inputs': cycles, 'signals': [s_.path for s_ in d.sigs]},
                     {'cycle': k, 'a': base[3][k], 'b': r[3][k], 'signals': [s.path for s in d.sigs],
                      'oracle': 'every order of the update_ff blocks must give the same state'})
    if base[3] != [(a, b) for a, b in ref_trace]:
      k = next(i for i, (x, y) in enumerate(zip(base[3], ref_trace)) if tuple(x) != tuple(y))
      ck.violation('not-F-of-pre-edge-state', {'flow': base[0]}, {'source': src, 'inputs': cycles, 'signals': [s_.path for s_ in d.sigs]},
                   {'cycle': k, 'impl': base[3][k], 'ref': ref_trace[k], 'signals': [s.path for s in d.sigs],
                    'oracle': 'state after the tick = next-state functions evaluated on pre-edge values only (last assignment wins, unassigned holds)'})
    for r in runs:
      stray = sorted(set(r[1]) & set(ff_ids))
      lost = sorted(set(ff_ids) - set(r[2]))
      if stray or lost or len(set(r[2])) != len(r[2]):
        # direct oracle on the real schedule: an update_ff block belongs to the ff section exactly once and never to the
        # combinational schedule (there it would be evaluated again on post-edge values)
        ck.violation('ff-block-misplaced-in-schedule', {'flow': r[0], 'in_comb': bool(stray)},
                     {'source': src, 'flow': r[0], 'inputs': cycles, 'signals': [s_.path for s_ in d.sigs]},
                     {'ff_blocks_in_comb_schedule': stray, 'ff_blocks_missing_from_ff_schedule': lost, 'ff_schedule': list(r[2]),
                      'oracle': 'every update_ff block runs exactly once per tick, before the flip, and never in the combinational schedule'})
        continue
      lines.append(rtlgen.model_sim_line(d, [('b', i) for i in r[1]], r[2], cycles))
      meta.append((d, src, r, cycles))
  replies = ck.drv('rtl').batch(lines)
  for (d, src, r, cycles), rep in zip(meta, replies):
    got = rtlgen.parse_sim_reply(rep)
    if got != r[3]:
      k = next((i for i, (x, y) in enumerate(zip(got, r[3])) if tuple(x) != tuple(y)), -1) if not isinstance(got, tuple) else -1
      ck.disagreement('Model/Rtl tick≈sim_tick', {'source': src, 'flow': r[0], 'ff': list(r[2]), 'inputs': cycles, 'signals': [s_.path for s_ in d.sigs]},
                      got[k] if k >= 0 else rep, r[3][k] if k >= 0 else 'ran')
  ck.extra_cov['designs'] = n
  # the grouping loop of schedule_posedge_flip (Props/C07f.lean): the C07 designs above and component trees
  c07_flip.run(ck, flip_tops)
  c01_mamba.run(ck, part='ff')
  # every target shape / index form / binding form on the left of `<<=`, in the block or in a helper: what elaborates is a register
  c09_place.run(ck, 'C07')

def flip_lines_add(ck, top, src, acc):
  # the generated double_buffer source lives in linecache under one fixed name: parse it right after scheduling
  lines, meta = [], []
  c07_flip.check_top(ck, top, src, 'rtlgen/default', lines, meta)
  acc.append((lines, meta))

def replay(ck, data):
  print(data.get('kind'), data.get('signature')); print(str(data.get('detail'))[:1500])
  if (data.get('case') or {}).get('pass') in ('Mamba2020', 'HeuTopoUnrollSim'): return c01_mamba.replay(ck, data)
  r = c07_flip.replay(ck, data)
  if r is not None: return r
  r = c09_place.replay(ck, data)
  if r is not None: return r
  return rtlgen.replay_source(ck, data.get('case') or {})
