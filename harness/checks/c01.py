"""C01 — simulation results do not depend on the schedule chosen.

proof:          lean/PymtlVerif/Props/C01.lean (abstract: Proofs/Sched.lean; bridge: Proofs/Rtl.lean)
correspondence: random acyclic RTL designs x {Default(Dynamic), Simple, HeuTopoUnroll, Mamba2020, Unroll} pass groups
                x forced random linear extensions of the real constraint graph x ff-block permutations x input
                sequences; every signal after every sim_eval_combinational() and sim_tick() vs Model/Rtl.lean
                + library stream (c01_lib.py): real pymtl3/stdlib and examples components, their model form REGENERATED
                from the live objects / block sources on every run (common/pymtl2rtl.py), same comparison
direct oracle:  (1) all legal schedules give identical values, (2) re-running any comb block changes nothing,
                (3) values equal an independent Python evaluation of the dataflow equations (rtlgen.RefSim)
"""
import os

from ..common import leanio, rtlgen
from ..common.leanio import InfraError
from . import c01_lib, c01_mamba

PID = 'C01'
DRIVERS = ['rtl']
MODULE = 'PymtlVerif.Props.C01'
THEOREMS = ['PV.C01.' + t for t in [
  'abstract_fixed_point', 'abstract_unique', 'abstract_schedule_independent', 'wf_denote', 'any_order',
  'rerun_noop', 'dataflow_unique', 'tick_indep']] + ['PV.Rtl.denote_wf', 'PV.Rtl.topoB_sound', 'PV.Rtl.singleWriterB_sound']
TRUSTED = [
  'Model/Rtl.lean: signals as bit vectors, blocks as assignment lists, nets as blocks, if/else presented as mux by the harness (rtlgen.py)',
  'driver glue ofTab/commit (table <-> bit-level state) in Driver/Rtl.lean is outside the theorems',
  'scheduling passes: SimpleSchedulePass (Kahn, Props/C02), Mamba2020Pass and HeuristicTopoPass (Model/Mamba.lean, Props/C01m) are modelled as algorithms; DynamicSchedulePass / UnrollSim schedules are checked (topoB) and executed',
  'library stream: harness/common/pymtl2rtl.py (symbolic execution of update-block ASTs with PythonBits semantics into Model/Rtl.lean '
  'assignments; large shared sub-expressions bound to virtual wires with their own virtual comb blocks) is trusted glue; it is cross-checked '
  'on every run by an independent Python evaluation of the translated dataflow (c01_lib.LibRefSim) against the real simulation; library designs '
  'whose translated comb blocks fail wfBlocks (a target keeps its value on some path, so the block reads what it writes) are simulated and compared '
  'but lie outside the hypotheses of the theorems (counted in library_summary.wfBlocks_fails)',
]
ASSUMPTIONS = [
  'designs within the generated language: Bits signals, constant slices, one level of sub-components, nets, update/update_ff blocks; '
  'blocks never read a bit they write and assign every target on every path (hypothesis wfBlocks of the theorems)',
]
RULE = ('random single-writer acyclic designs (2-10 comb blocks incl. nets, 0-3 registers, 0-2 children) from one PRNG; each is run under 5 pass '
        'groups + forced random linear extensions and ff permutations for 6-10 cycles of boundary-biased inputs; a case = (design, schedule); '
        'non-trivial = the design has >= 2 legal comb orders or >= 1 register; distinct = distinct (design source, order); '
        'library stream: the fixed list c01_lib.designs(tier) of stdlib/examples components (arbiters, crossbars, encoders, muxes, registers, '
        'register files, en/rdy and val/rdy queues over Bits and bitstruct messages, ex02 checksum, ex03 processor pieces and the whole ProcRTL), '
        'each translated from its live objects, run under the DefaultPassGroup schedule and forced random linear extensions, inputs from a PRNG '
        'derived from the same seed after the generated stream; a case = (design, schedule, input sequence)')

FLOWS = ['default', 'simple', 'heutopo', 'mamba', 'unroll']

# ---- begin: scheduler model (Model/Mamba.lean, Props/C01m.lean, harness/checks/c01_mamba.py)
DRIVERS = DRIVERS + c01_mamba.DRIVERS
MODULE = [MODULE, c01_mamba.MODULE]
THEOREMS = THEOREMS + c01_mamba.THEOREMS
THEOREM_MODULE = dict(c01_mamba.THEOREM_MODULE)
TRUSTED = TRUSTED + c01_mamba.TRUSTED
RULE = RULE + '; ' + c01_mamba.RULE
# ---- end: scheduler model
def one_design(ck, d, n_ext, ncycles):
  """returns list of model request lines and a closure to compare"""
  rng = ck.rng
  try:
    cls = rtlgen.load_class(ck.workdir, d)
  except Exception as e:
    raise InfraError(f'generated module does not import: {e}')
  cycles = rtlgen.gen_inputs(rng, d, ncycles)
  ref = rtlgen.RefSim(d)
  ref_trace = [ref.cycle(c) for c in cycles]
  runs = []        # (label, entries, ff_order, trace, fails)
  edges = None
  for flow in FLOWS:
    try:
      rs = rtlgen.RealSim(cls, d, flow)
    except Exception as e:
      ck.hist('elaboration', type(e).__name__)
      return None, f'{flow}: {type(e).__name__}: {e}'
    if edges is None:
      edges = rtlgen.real_edges(rs)
    entries = rs.schedule_entries()
    if any(e[0] != 'b' for e in entries):
      return None, f'{flow}: unexpected schedule entry {entries}'
    stray = sorted(set(e[1] for e in entries) & set(d.ff_ids()))
    if stray:
      ck.violation('ff-block-in-comb-schedule', {'flow': flow},
                   {'source': d.source(), 'flow': flow, 'signals': [s_.path for s_ in d.sigs]},
                   {'ff_blocks_in_comb_schedule': stray,
                    'oracle': 'the combinational schedule holds update blocks only; an update_ff block there is evaluated again after the edge'})
      return None, f'{flow}: update_ff block in the combinational schedule'
    tr, fails = rtlgen.run_real(rs, cycles)
    runs.append((flow, [e[1] for e in entries], rs.ff_entries(), tr, fails))
  comb_ids, ff_ids = d.comb_ids(), d.ff_ids()
  exts = rtlgen.linear_extensions(rng, comb_ids, edges, n_ext)
  for i, order in enumerate(exts):
    fo = list(ff_ids); rng.shuffle(fo)
    flow = 'simple' if i % 2 == 0 else 'simple-unroll'
    rs = rtlgen.RealSim(cls, d, flow, comb_order=order, ff_order=fo)
    tr, fails = rtlgen.run_real(rs, cycles)
    runs.append((f'forced-{flow}', order, fo, tr, fails))
  return (cycles, ref_trace, runs, edges), None

def process(ck, designs, n_ext, ncycles):
  lines, meta = [], []
  for d in designs:
    res, err = one_design(ck, d, n_ext, ncycles)
    if res is None:
      ck.hist('rejected', err.split(':')[1].strip() if ':' in err else err)
      ck.rejected.append({'source': d.source(), 'error': err})
      continue
    cycles, ref_trace, runs, edges = res
    lines.append(leanio.line('rtl', 'check', d.sexp()))
    meta.append(('check', d, None, res))
    for run in runs:
      label, order, fo, tr, fails = run
      lines.append(leanio.line('rtl', 'topo', d.sexp(), list(order)))
      meta.append(('topo', d, run, res))
      lines.append(rtlgen.model_sim_line(d, [('b', i) for i in order], fo, cycles))
      meta.append(('sim', d, run, res))
  replies = ck.drv('rtl').batch(lines)
  for (kind, d, run, res), rep in zip(meta, replies):
    cycles, ref_trace, runs, edges = res
    src = d.source()
    ck.extra_cov.setdefault('sample_design_source', src)
    if kind == 'check':
      parts = rep.split()
      if parts[1] != '1' or parts[2] != '1':
        raise InfraError(f'generator produced a design outside the theorem hypotheses: {rep}\n{src}')
      # all real runs must agree among themselves and with the dataflow reference (direct oracle)
      base = runs[0]
      for r in runs:
        if r[4]:
          ck.violation('rerun-changes-state', {'flow': r[0]}, {'source': src, 'order': r[1], 'ff_order': r[2], 'inputs': cycles, 'signals': [s_.path for s_ in d.sigs]},
                       {'fails': r[4][:2], 'oracle': 're-running a comb block after evaluation must change no signal'})
        if r[3] != base[3]:
          k = next(i for i, (x, y) in enumerate(zip(r[3], base[3])) if x != y)
          ck.violation('schedules-differ', {'flows': [base[0], r[0]]},
                       {'source': src, 'order_a': base[1], 'order_b': r[1], 'ff_a': base[2], 'ff_b': r[2], 'inputs': cycles, 'signals': [s_.path for s_ in d.sigs]},
                       {'cycle': k, 'a': base[3][k], 'b': r[3][k], 'signals': [s.path for s in d.sigs],
                        'oracle': 'two legal schedules of the same design must give identical values'})
        elif r[3] != [(a, b) for a, b in ref_trace] and r is base:
          k = next(i for i, (x, y) in enumerate(zip(r[3], ref_trace)) if tuple(x) != tuple(y))
          ck.violation('differs-from-dataflow-reference', {'flow': r[0]},
                       {'source': src, 'order': r[1], 'ff_order': r[2], 'inputs': cycles, 'signals': [s_.path for s_ in d.sigs]},
                       {'cycle': k, 'impl': r[3][k], 'ref': ref_trace[k], 'signals': [s.path for s in d.sigs],
                        'oracle': 'values must equal the dataflow equations evaluated independently (rtlgen.RefSim)'})
      continue
    label, order, fo, tr, fails = run
    case = {'design': d.uid, 'src_hash': hash(src) & 0xffffffff, 'flow': label, 'order': list(order), 'ff': list(fo)}
    if kind == 'topo':
      if rep != 'topo 1 1':
        # the real schedule is not a legal order of the model's dependency relation
        ck.disagreement('schedule-not-topological-in-model', {'source': src, 'flow': label, 'order': list(order)}, rep, 'scheduled')
      continue
    ck.count(case, nontrivial=(len(order) >= 2 or len(fo) >= 1))
    ck.hist('flow', label); ck.hist('comb_blocks', len(order)); ck.hist('ff_blocks', len(fo))
    ck.hist('components', len(d.comps))
    got = rtlgen.parse_sim_reply(rep)
    if got != tr:
      if isinstance(got, tuple):
        ck.disagreement('Model/Rtl≈simulation', {'source': src, 'flow': label, 'order': list(order), 'inputs': cycles, 'signals': [s_.path for s_ in d.sigs]}, rep, 'ran')
      else:
        k = next(i for i, (x, y) in enumerate(zip(got, tr)) if tuple(x) != tuple(y))
        ck.disagreement('Model/Rtl≈simulation', {'source': src, 'flow': label, 'order': list(order), 'ff': list(fo), 'inputs': cycles, 'signals': [s_.path for s_ in d.sigs]},
                        {'cycle': k, 'model': got[k]}, {'cycle': k, 'impl': tr[k], 'signals': [s.path for s in d.sigs]})

def reset_stream(ck):
  """sim_reset() under both values of the reset_active_high option of every pass group: the five pass groups must leave
  the design in the same state, and that state must be the dataflow reference driven with reset asserted for three cycles
  and then released (the polarity is part of what the pass group is asked to simulate)."""
  rng = ck.rng
  n = 30 if ck.tier == 'quick' else 400
  made = 0
  for _ in range(n * 4):
    if made >= n: break
    d = rtlgen.generate(rng, max_blocks=6, max_regs=4, min_regs=1, with_children=(rng.random() < 0.5))
    if not any(b['kind'] == 'ff' for b in d.blocks): continue
    src = d.source()
    try: cls = rtlgen.load_class(ck.workdir, d)
    except Exception: continue
    made += 1
    reset = next(s_ for s_ in d.sigs if s_.comp == '' and s_.name == 'reset')
    ins = [(g, v) for (g, v) in rtlgen.gen_inputs(rng, d, 1)[0] if g != reset.idx]
    post = rtlgen.gen_inputs(rng, d, 3)
    post2 = rtlgen.gen_inputs(rng, d, 4)        # driven with sim_tick() alone: poke inputs, tick, read (no explicit evaluation)
    for rah in (True, False):
      act, inact = (1, 0) if rah else (0, 1)
      ref = rtlgen.RefSim(d)
      for _k in range(3): ref.cycle(ins + [(reset.idx, act)])
      for g, v in ins + [(reset.idx, inact)]: ref.vals[g] = v
      ref.eval_comb()
      want = [list(ref.vals)]
      for cyc in post:
        cyc = [(g, v) for (g, v) in cyc if g != reset.idx] + [(reset.idx, inact)]
        a, b = ref.cycle(cyc); want.append(b)
      for cyc in post2:
        cyc = [(g, v) for (g, v) in cyc if g != reset.idx] + [(reset.idx, inact)]
        a, b = ref.cycle(cyc); want.append(b)
      for flow in ['default', 'simple', 'heutopo', 'mamba', 'unroll']:
        ck.count({'reset': hash(src) & 0xffffffff, 'flow': flow, 'rah': rah}, True); ck.hist('reset_flow', f'{flow}/{"high" if rah else "low"}')
        try:
          rs = rtlgen.RealSim(cls, d, flow, rah=rah)
          rs.set_inputs(ins)
          rs.top.sim_reset()
          got = [rs.read_all()]
          for cyc in post:
            rs.set_inputs([(g, v) for (g, v) in cyc if g != reset.idx])
            rs.top.sim_eval_combinational(); rs.top.sim_tick(); got.append(rs.read_all())
          for cyc in post2:
            # a pure RTL design: sim_tick() itself evaluates the combinational logic on the new inputs before the edge
            rs.set_inputs([(g, v) for (g, v) in cyc if g != reset.idx])
            rs.top.sim_tick(); got.append(rs.read_all())
        except Exception as e:
          if len(ck.rejected) < 50: ck.rejected.append({'source': src, 'error': f'reset stream: {type(e).__name__}: {e}'})
          break
        if got != want:
          k = next(i for i, (x, y) in enumerate(zip(got, want)) if x != y)
          ck.violation('reset-polarity-or-sequence-differs', {'flow': flow, 'reset_active_high': rah},
                       {'source': src, 'flow': flow, 'reset_active_high': rah, 'inputs': [ins] + post, 'tick_only_inputs': post2, 'signals': [s_.path for s_ in d.sigs]},
                       {'step': k, 'impl': got[k], 'ref': want[k], 'signals': [s_.path for s_ in d.sigs],
                        'oracle': 'after sim_reset() (reset asserted with the requested polarity for three cycles, then released) every pass group must be in the state of the dataflow reference'})
  ck.extra_cov['reset_designs'] = made
  closed_stream(ck, max(6, n // 3))

def closed_stream(ck, n):
  """free-running designs: the top has no input port besides clk / reset.  The test bench pokes `reset` by hand in the middle of
  the run and drives with sim_tick() alone (also as the very first call, without sim_reset): every pass group must still give
  F(state, reset) of the dataflow reference at every edge."""
  rng = ck.rng
  made = 0
  for _ in range(n * 4):
    if made >= n: break
    d = rtlgen.generate(rng, max_blocks=6, max_regs=4, min_regs=1, with_children=(rng.random() < 0.5), closed=True)
    if not any(b['kind'] == 'ff' for b in d.blocks): continue
    src = d.source()
    try: cls = rtlgen.load_class(ck.workdir, d)
    except Exception: continue
    made += 1
    cycles = rtlgen.gen_inputs(rng, d, rng.randint(6, 10))          # only (reset, 0/1)
    if rng.random() < 0.5: cycles[0] = [(g, 0) for (g, _v) in cycles[0]]
    ref = rtlgen.RefSim(d)
    want = [list(ref.cycle(c)[1]) for c in cycles]
    for flow in ['default', 'simple', 'heutopo', 'mamba', 'unroll']:
      ck.count({'closed': hash(src) & 0xffffffff, 'flow': flow}, True); ck.hist('closed_flow', flow)
      try:
        rs = rtlgen.RealSim(cls, d, flow)
        got = []
        for c in cycles:
          rs.set_inputs(c); rs.top.sim_tick(); got.append(list(rs.read_all()))
      except Exception as e:
        if len(ck.rejected) < 50: ck.rejected.append({'source': src, 'error': f'closed stream: {type(e).__name__}: {e}'})
        break
      if got != want:
        k = next(i for i, (x, y) in enumerate(zip(got, want)) if x != y)
        ck.violation('closed-design-tick-differs', {'flow': flow},
                     {'source': src, 'flow': flow, 'tick_only_inputs': cycles, 'signals': [s_.path for s_ in d.sigs]},
                     {'step': k, 'impl': got[k], 'ref': want[k], 'signals': [s_.path for s_ in d.sigs],
                      'oracle': 'a design without input ports, driven with sim_tick() alone while the test bench pokes reset: the state after every tick is F(pre-edge state, reset) of the dataflow reference, under every pass group'})
  ck.extra_cov['closed_designs'] = made

def run(ck):
  ck.rejected = []
  n = 200 if ck.tier == 'quick' else 3000
  n_ext = 3 if ck.tier == 'quick' else 8
  done = 0
  while done < n:
    k = min(20, n - done)
    designs = [(rtlgen.generate_slices(ck.rng) if ck.rng.random() < 0.2 else rtlgen.generate(ck.rng, max_blocks=8, wide=(ck.rng.random() < 0.15))) for _ in range(k)]
    process(ck, designs, n_ext, ck.rng.randint(6, 10))
    done += k
    if len(ck.violations) > 10: break
  ck.extra_cov['designs'] = done
  ck.extra_cov['designs_rejected_by_elaboration'] = len(ck.rejected)
  ck.extra_cov['rejected_examples'] = [r['error'] for r in ck.rejected[:3]]
  if len(ck.rejected) > done // 4:
    raise InfraError(f'too many generated designs rejected: {len(ck.rejected)}/{done}: {ck.rejected[0]}')
  # real library designs, model form regenerated from /repo by common/pymtl2rtl.py (after the generated stream: its PRNG draws are unchanged)
  c01_lib.run_library(ck)
  c01_mamba.run(ck)
  reset_stream(ck)

def replay(ck, data):
  if (data.get('case') or {}).get('pass') in ('Mamba2020', 'HeuTopoUnrollSim'): return c01_mamba.replay(ck, data)
  if (data.get('case') or {}).get('design') is not None and not (data.get('case') or {}).get('source'): return c01_lib.replay(ck, data)
  print(data.get('kind'), data.get('signature')); print(str(data.get('detail'))[:1500])
  return rtlgen.replay_source(ck, data.get('case') or {})
