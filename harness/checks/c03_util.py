"""Shared machinery of the C03 / C12 checks: load a generated component, simulate it with PyMTL,
translate it with the Verilog / Yosys backend, parse the emitted text, build the requests for the Lean
`sv` driver and compare.

Nothing here knows how the translator spells things: the emitted text goes through `c03_svparse` (IEEE
grammar) and is executed by the Lean semantics; PyMTL values are mapped to SystemVerilog variables only
through the port map computed by the Lean model (`Model/Flat.lean: portLeaves`).
"""
import importlib.util, itertools, os, re, sys

from ..common import leanio
from ..common.leanio import InfraError
from . import c03_svparse as sp

_uid = itertools.count()

# ---------------------------------------------------------------------------------------------
# loading and running the real thing
# ---------------------------------------------------------------------------------------------
def load_module(workdir, src, tag='d'):
  modname = f'pvsv_{os.getpid()}_{tag}_{next(_uid)}'
  path = os.path.join(workdir, modname + '.py')
  with open(path, 'w') as f: f.write(src)
  spec = importlib.util.spec_from_file_location(modname, path)
  mod = importlib.util.module_from_spec(spec)
  sys.modules[modname] = mod
  spec.loader.exec_module(mod)
  return mod

def backend_pass(be):
  if be == 'verilog':
    from pymtl3.passes.backends.verilog import VerilogTranslationPass
    return VerilogTranslationPass
  from pymtl3.passes.backends.yosys import YosysTranslationPass
  return YosysTranslationPass

def translate(top, be, workdir):
  """apply the translation pass to an elaborated component; the file is written under workdir.
  Returns the emitted text."""
  P = backend_pass(be)
  top.set_metadata(P.enable, True)
  cwd = os.getcwd()
  os.chdir(workdir)
  try:
    top.apply(P())
    fn = top.get_metadata(P.translated_filename)
    fn = fn if os.path.isabs(fn) else os.path.join(workdir, fn)
    with open(fn) as f: txt = f.read()
    os.remove(fn)
  finally:
    os.chdir(cwd)
  return txt

# ---------------------------------------------------------------------------------------------
# ports of the PyMTL top level
# ---------------------------------------------------------------------------------------------
def path_tokens(port):
  """repr 's.ifc[1].msg' -> [('fld','ifc'),('idx',1),('fld','msg')]"""
  r = repr(port)
  assert r.startswith('s.'), r
  toks = []
  for m in re.finditer(r'\.([A-Za-z_][A-Za-z_0-9]*)|\[(\d+)\]', r[1:]):
    if m.group(1) is not None: toks.append(('fld', m.group(1)))
    else: toks.append(('idx', int(m.group(2))))
  return toks

def dtype_tree(T):
  """pymtl data type (Bits class / bitstruct class / list) -> type tree of c03_svparse"""
  from pymtl3.datatypes import Bits, is_bitstruct_class
  if isinstance(T, list):
    return ('arr', len(T), dtype_tree(T[0]))
  if isinstance(T, type) and issubclass(T, Bits):
    return ('vec', T.nbits)
  if is_bitstruct_class(T):
    return ('struct', T.__name__, [(f, dtype_tree(t)) for f, t in T.__bitstruct_fields__.items()])
  raise InfraError(f'unsupported data type {T}')

def ty_width(ty):
  if ty[0] == 'vec': return ty[1]
  if ty[0] == 'arr': return ty[1] * ty_width(ty[2])
  return sum(ty_width(t) for _, t in ty[2])

class PortInfo:
  def __init__(self, obj, direction):
    self.obj, self.dir = obj, direction
    self.toks = path_tokens(obj)
    self.T = obj._dsl.Type
    self.ty = dtype_tree(self.T)
    self.width = ty_width(self.ty)
    self.dims = None
  @property
  def key(self): return ''.join(f'.{t[1]}' if t[0] == 'fld' else f'[{t[1]}]' for t in self.toks)

def top_ports(top):
  from pymtl3.dsl import InPort, OutPort
  mine = [x for x in top.get_all_object_filter(lambda x: isinstance(x, (InPort, OutPort))) if x.get_host_component() is top and x.is_top_level_signal()]
  ins = sorted([x for x in mine if isinstance(x, InPort)], key=repr)       # includes the ports of interfaces
  outs = sorted([x for x in mine if isinstance(x, OutPort)], key=repr)
  ports = [PortInfo(p, 'in') for p in ins] + [PortInfo(p, 'out') for p in outs]
  # sizes of the list dimensions: max index + 1 over the ports sharing the same skeleton prefix
  sizes = {}
  for p in ports:
    pre = []
    for t in p.toks:
      if t[0] == 'idx':
        k = tuple(pre)
        sizes[k] = max(sizes.get(k, 0), t[1] + 1)
        pre.append(('idx', '*'))
      else: pre.append(t)
  for p in ports:
    pre, dims = [], []
    for t in p.toks:
      if t[0] == 'idx':
        dims.append(sizes[tuple(pre)]); pre.append(('idx', '*'))
      else: pre.append(t)
    p.dims = dims
  return ports

def fetch(top, toks):
  obj = top
  for k, v in toks:
    obj = getattr(obj, v) if k == 'fld' else obj[v]
  return obj

def port_value(top, p):
  """packed value of a port as PyMTL sees it (after the simulation passes the attribute is the value)"""
  v = fetch(top, p.toks)
  from pymtl3.datatypes import Bits
  if isinstance(v, Bits): return int(v)
  try: return int(v.to_bits())
  except AttributeError: return int(v)

def set_port(top, p, value):
  from pymtl3.datatypes import Bits, mk_bits
  T = p.T
  host = fetch(top, p.toks[:-1])
  new = T(value) if isinstance(T, type) and issubclass(T, Bits) else T.from_bits(mk_bits(p.width)(value))
  k, v = p.toks[-1]
  if k == 'fld':
    sig = getattr(host, v)
    sig @= new
  else:
    sig = host[v]
    sig @= new

def toks_sexp(toks):
  return tuple((k, v) for k, v in toks)

# ---------------------------------------------------------------------------------------------
# PyMTL simulation
# ---------------------------------------------------------------------------------------------
def simulate_pymtl(top, ports, cycles):
  """cycles: list of {port key: packed value}. Returns [(after_comb, after_tick)] with dicts key -> value
  for the output ports."""
  from pymtl3.passes.PassGroups import DefaultPassGroup
  top.apply(DefaultPassGroup())
  byk = {p.key: p for p in ports}
  outs = [p for p in ports if p.dir == 'out']
  trace = []
  for cyc in cycles:
    for k, v in cyc.items(): set_port(top, byk[k], v)
    top.sim_eval_combinational()
    a = {p.key: port_value(top, p) for p in outs}
    top.sim_tick()
    b = {p.key: port_value(top, p) for p in outs}
    trace.append((a, b))
  return trace

def gen_cycles(rng, ports, n):
  ins = [p for p in ports if p.dir == 'in' and p.key != '.clk']
  cycles = []
  for k in range(n):
    cyc = {}
    for p in ins:
      if p.key == '.reset':
        cyc[p.key] = 1 if (k == 0 and rng.random() < 0.5) or rng.random() < 0.12 else 0
      else:
        top = (1 << p.width) - 1
        v = rng.choice([0, 1, top, top - 1, 1 << (p.width - 1), rng.getrandbits(p.width), rng.getrandbits(p.width),
                        rng.getrandbits(p.width)]) & top
        cyc[p.key] = v
    cycles.append(cyc)
  return cycles

# ---------------------------------------------------------------------------------------------
# Lean side
# ---------------------------------------------------------------------------------------------
def portmap_line(be, p):
  return leanio.line('sv', 'portmap', 1 if be == 'yosys' else 0, toks_sexp(p.toks), tuple(p.dims), sp.ty_sexp(p.ty))

def parse_portmap(rep):
  """'ok (name elem msb lsb) ...' -> list"""
  assert rep.startswith('ok'), rep
  return [(t[0], int(t[1]), int(t[2]), int(t[3])) for t in leanio.parse_sexp(rep[2:])]

def slice_of(v, msb, lsb):
  return (v >> lsb) & ((1 << (msb + 1 - lsb)) - 1)

class Mapped:
  """how the ports of the PyMTL top level appear in the emitted module (from Model/Flat.lean)"""
  def __init__(self, be, ports, replies):
    self.be = be
    self.ports = ports
    self.leaves = {p.key: parse_portmap(r) for p, r in zip(ports, replies)}

  def expected_decls(self):
    """svName -> (direction, width, number of unpacked elements) the emitted module must declare"""
    out = {}
    for p in self.ports:
      n = 1
      for d in p.dims: n *= d
      for (name, elem, msb, lsb) in self.leaves[p.key]:
        out[name] = ('input' if p.dir == 'in' else 'output', msb + 1 - lsb if self.be == 'yosys' else p.width, n if self.be != 'yosys' else 1)
    return out

  def drive(self, cyc):
    """PyMTL input values of one cycle -> [(svName, elem, value)]"""
    out = []
    for p in self.ports:
      if p.dir != 'in' or p.key not in cyc: continue
      v = cyc[p.key]
      for (name, elem, msb, lsb) in self.leaves[p.key]:
        out.append((name, elem, slice_of(v, msb, lsb)))
    return out

  def observed(self):
    names = []
    for p in self.ports:
      if p.dir != 'out': continue
      for (name, elem, msb, lsb) in self.leaves[p.key]:
        if name not in names: names.append(name)
    return names

  def expect(self, pyvals):
    """PyMTL output values {key: packed} -> {(svName, elem): value} predicted for the emitted module"""
    out = {}
    for p in self.ports:
      if p.dir != 'out': continue
      v = pyvals[p.key]
      for (name, elem, msb, lsb) in self.leaves[p.key]:
        out[(name, elem)] = slice_of(v, msb, lsb)
    return out

def sim_line(design, topname, mapped, cycles):
  cyc = [mapped.drive(c) for c in cycles]
  return leanio.line('sv', 'sim', design, topname, cyc, mapped.observed())

class SimReply:
  def __init__(self, rep, obs):
    if not rep.startswith('ok '): raise InfraError(f'unexpected sv sim reply {rep[:200]}')
    t = leanio.parse_sexp(rep[3:])
    d = {x[0]: x[1:] for x in t[:4]}
    self.errors = d['errors']
    self.multi = [tuple(x) for x in d['multi']]
    self.undriven = d['undriven']
    self.castdiff = d['castB'] != ['same']
    tr = t[4]
    self.status = tr[0]                      # trace | unstable | fuel
    body = tr[1:] if self.status == 'trace' else tr[2:]
    self.stop_cycle = None if self.status == 'trace' else int(tr[1])
    self.trace = []
    for c in body:
      a = {(n, e): int(v) for n, vals in zip(obs, c[0]) for e, v in enumerate(vals)}
      b = {(n, e): int(v) for n, vals in zip(obs, c[1]) for e, v in enumerate(vals)}
      self.trace.append((a, b))

def check_module_ports(parsed_top, mapped):
  """the emitted top module declares exactly the ports the model predicts (names, directions, widths)"""
  exp = mapped.expected_decls()
  got = {}
  for d, x, ty, dims in parsed_top['ports']:
    n = 1
    for k in dims: n *= k
    got[x] = (d, ty_width(ty), n)
  return sorted((k, exp.get(k), got.get(k)) for k in set(exp) | set(got) if exp.get(k) != got.get(k))

# ---------------------------------------------------------------------------------------------
# the pipeline shared by c03.py (backend 'verilog') and c12.py (backend 'yosys')
# ---------------------------------------------------------------------------------------------
class Job:
  def __init__(self, be, design, cyc_seed, ncycles):
    self.be, self.d = be, design
    self.cyc_seed, self.ncycles = cyc_seed, ncycles
    self.case = None
    self.stage = 'new'          # gen-error | elab-error | sim-raised | rejected | syntax | ok
    self.info = ''
    self.ports = self.cycles = self.pytrace = self.text = self.parsed = self.mapped = None
    self.top2 = None
    self.ptop = None
    self.blk_jobs = []

def prepare(job, workdir, rng_cls):
  """python side of one design: load, simulate with PyMTL, translate, parse"""
  from . import c03_rtlir as R
  d = job.d
  try:
    # d['aux']: further generated modules the design imports (class hierarchies that span modules); the source refers to them
    # through the placeholders {AUX0}, {AUX1}, ...
    src, job.auxnames = d['src'], []
    for k, a in enumerate(d.get('aux', ())):
      am = load_module(workdir, a, 'aux')
      job.auxnames.append(am.__name__)
      src = src.replace('{AUX%d}' % k, am.__name__)
    mod = load_module(workdir, src)
    job.modname = mod.__name__
    Top = getattr(mod, d.get('top', 'Top'))
  except Exception as e:
    job.stage, job.info = 'gen-error', f'{type(e).__name__}: {e}'[:300]; return
  try:
    if d.get('history'):
      # 'history': constructor arguments of several instances of the same class, ALL elaborated in this process (each as its
      # own top, in the given order) before instance number d['pick'] is translated; the emitted text of that instance is
      # compared with the simulation of a further instance built with the same arguments
      # (the instance that is simulated is elaborated FIRST, so that the last elaboration before the translation is the
      # last one of the history, not an instance with the arguments of the translated one)
      top = Top(*d['history'][d['pick']]); top.elaborate()
      tops = [Top(*a) for a in d['history']]
      for t in tops: t.elaborate()
      top2 = tops[d['pick']]
    else:
      top = Top(); top.elaborate()
      top2 = Top(); top2.elaborate()
  except Exception as e:
    job.stage, job.info = 'elab-error', f'{type(e).__name__}: {str(e)[:300]}'; return
  job.ports = top_ports(top)
  if 'cycles' in d: job.cycles = d['cycles']
  else: job.cycles = gen_cycles(rng_cls(job.cyc_seed), job.ports, job.ncycles)
  job.case = {'label': d['label'], 'backend': job.be, 'src': d['src'], 'cycles': job.cycles}
  if d.get('aux'): job.case['aux'] = d['aux']
  if d.get('history'): job.case['history'], job.case['pick'] = d['history'], d['pick']
  try:
    job.pytrace = simulate_pymtl(top, job.ports, job.cycles)
  except Exception as e:
    job.stage, job.info = 'sim-raised', f'{type(e).__name__}: {str(e)[:200]}'
  try:
    job.text = translate(top2, job.be, workdir)
    job.top2 = top2
  except Exception as e:
    if job.stage != 'sim-raised': job.stage = 'rejected'
    job.info = str(job.info) + f' | translation: {type(e).__name__}: {str(e)[:300]}'
    return
  try:
    job.parsed = sp.parse(job.text)
  except sp.SVSyntaxError as e:
    job.stage = 'syntax'
    ln = e.line
    lines = job.text.split('\n')
    job.info = {'error': str(e), 'line': ln, 'text': lines[ln - 1].strip() if ln and ln <= len(lines) else ''}
    return
  if job.stage == 'new': job.stage = 'ok'

def top_module(job):
  """the parsed module of the top-level component, by the name the pass publishes"""
  P = backend_pass(job.be)
  name = job.top2.get_metadata(P.translated_top_module)
  for m in job.parsed.modules:
    if m['name'] == name: return m
  return None

def module_of(job, comp):
  tr = job.top2.get_metadata(backend_pass(job.be).translator)
  name = tr.structural.component_unique_name[comp]
  for m in job.parsed.modules:
    if m['name'] == name: return m
  return None

def find_block(pm, name):
  for it in pm['items']:
    if it[0] in ('comb', 'ff') and it[1] == name: return it
  return None

def random_stores(rng, pm, n):
  """stores for the per-block tie: every declared variable gets boundary-biased random element values"""
  decls = [(x, ty, dims) for _, x, ty, dims in pm['ports']] + list(pm['decls'])
  out = []
  for k in range(n):
    sets = []
    for x, ty, dims in decls:
      w = ty_width(ty)
      cnt = 1
      for dd in dims: cnt *= dd
      for e in range(cnt):
        top = (1 << w) - 1
        if k == 0: v = 0
        elif k == 1: v = top
        else: v = rng.choice([0, 1, top, top - 1, 1 << (w - 1), rng.getrandbits(w), rng.getrandbits(w), rng.getrandbits(w)]) & top
        if x in ('clk',): v = 0
        sets.append((x, e, v))
    out.append(sets)
  return out

def blk_lines(job, rng, nstores):
  """request lines of the semantic tie, one per (module, block), deduplicated"""
  from . import c03_rtlir as R
  seen = set()
  lines, meta = [], []
  for comp, bname, is_ff, upblk in R.component_blocks(job.top2):
    pm = module_of(job, comp)
    if pm is None: meta.append(('no-module', repr(comp), bname)); continue
    key = (pm['name'], bname)
    if key in seen: continue
    seen.add(key)
    it = find_block(pm, bname)
    if it is None: meta.append(('no-block', pm['name'], bname)); continue
    try:
      rs = R.block_sexp(upblk, job.be, comp)
    except R.Unmodelled as e:
      meta.append(('unmodelled', pm['name'], bname, str(e))); continue
    body = it[2] if it[0] == 'comb' else it[3]
    decls_only = dict(pm, items=[])          # the tie needs the declarations of the module, not its other processes
    line = leanio.line('sv', 'blk', job.be, sp.module_sexp(decls_only), rs, sp.stmt_sexp(body), random_stores(rng, pm, nstores))
    lines.append(line); meta.append(('line', pm['name'], bname, node_kinds(rs, {})))
  return lines, meta

def node_kinds(t, acc):
  """how often each RStmt / RExpr constructor occurs in a converted block (for the evidence)"""
  if isinstance(t, tuple) and t and isinstance(t[0], str):
    k = t[0]
    if k in ('bin', 'cmp', 'reduce'): k = f'{k}:{t[1]}'
    if k == 'assign': k = 'assign:' + ('blocking' if t[1] else 'nonblocking')
    if k == 'for': k = 'for:' + ('neg' if t[6] else 'pos')
    acc[k] = acc.get(k, 0) + 1
    for x in t[1:]: node_kinds(x, acc)
  return acc

def compare_traces(job, r):
  """first mismatches between the PyMTL trace and the Lean simulation of the parsed text"""
  bad = []
  for k, ((pa, pb), (sa, sb)) in enumerate(zip(job.pytrace, r.trace)):
    for ph, pv, sv in (('after-comb', pa, sa), ('after-tick', pb, sb)):
      ex = job.mapped.expect(pv)
      for key, v in ex.items():
        if sv.get(key) != v:
          bad.append({'cycle': k, 'phase': ph, 'port': key[0], 'elem': key[1], 'pymtl': v, 'sv': sv.get(key), 'inputs': job.cycles[k]})
  return bad

SIGNED_LOOPVAR = 'yosys-signed-loopvar'       # = c03_gen.YSL; known finding C12-yosys-signed-loopvar

class Verdicts:
  """turns the raw results of one job into ck.violation / ck.disagreement calls"""
  def __init__(self, ck, pid):
    self.ck, self.pid = ck, pid

  def signature(self, job, kind, extra=None, outside=False):
    d = job.d
    sig = {'finding': d.get('finding', 'none')}
    if d.get('finding') and (outside or kind not in d.get('expect', ())):
      sig = {'finding': ('outside-the-scope-of-' if outside else 'unexpected-in-') + d['finding'], 'kind': kind}
    if d.get('variant'): sig['variant'] = d['variant']
    if extra: sig.update(extra)
    return sig

  def report(self, job, kind, detail, extra=None, outside=False):
    self.ck.violation(kind, self.signature(job, kind, extra, outside), job.case, detail)

# ---------------------------------------------------------------------------------------------
# independent restatement for loops: the SV for-header, read with 32-bit unsigned arithmetic, must
# enumerate exactly list(range(...)) of the PyMTL source
# ---------------------------------------------------------------------------------------------
def _hdr_eval(e, v, val):
  k = e[0]
  if k == 'paren': return _hdr_eval(e[1], v, val)
  if k == 'lit': return e[2] % (1 << e[1])
  if k == 'num': return e[1]
  if k == 'id': return val if e[1] == v else None
  if k == 'cast':
    x = _hdr_eval(e[2], v, val)
    return None if x is None else x % (1 << e[1])
  if k == 'bin':
    a, b = _hdr_eval(e[2], v, val), _hdr_eval(e[3], v, val)
    if a is None or b is None: return None
    M = (1 << 32) - 1
    op = e[1]
    if op == 'add': return (a + b) & M
    if op == 'sub': return (a - b) & M
    if op == 'lt': return int(a < b)
    if op == 'gt': return int(a > b)
    if op == 'le': return int(a <= b)
    if op == 'ge': return int(a >= b)
    if op == 'ne': return int(a != b)
  return None

def sv_loop_values(forstmt, limit):
  """values the loop variable takes in the body, at most `limit` of them; None if the header is not understood"""
  _, decl, v, init, cond, step, body = forstmt
  x = _hdr_eval(init, v, None)
  out = []
  while x is not None and len(out) < limit:
    c = _hdr_eval(cond, v, x)
    if c is None: return None
    if not c: return out
    out.append(x)
    x = _hdr_eval(step, v, x)
  return out if x is not None else None

def collect_fors(stmt, out):
  k = stmt[0]
  if k == 'block':
    for s in stmt[1]: collect_fors(s, out)
  elif k == 'if':
    collect_fors(stmt[2], out)
    if stmt[3] is not None: collect_fors(stmt[3], out)
  elif k == 'for':
    out.append(stmt); collect_fors(stmt[6], out)
  return out

def collect_rtlir_fors(body, out):
  from pymtl3.passes.rtlir import BehavioralRTLIR as bir
  for n in body:
    if isinstance(n, bir.For):
      out.append(n); collect_rtlir_fors(n.body, out)
    elif isinstance(n, bir.If):
      collect_rtlir_fors(n.body, out); collect_rtlir_fors(n.orelse, out)
  return out

def loop_header_mismatches(job):
  """[(module, block, python range, sv values)] where the emitted header does not enumerate range()"""
  from . import c03_rtlir as R
  bad, seen = [], set()
  for comp, bname, is_ff, upblk in R.component_blocks(job.top2):
    pm = module_of(job, comp)
    if pm is None or (pm['name'], bname) in seen: continue
    seen.add((pm['name'], bname))
    it = find_block(pm, bname)
    if it is None: continue
    pf = collect_fors(it[2] if it[0] == 'comb' else it[3], [])
    rf = collect_rtlir_fors(upblk.body, [])
    if len(pf) != len(rf): bad.append((pm['name'], bname, 'number of loops differs', [len(rf), len(pf)])); continue
    for p, r in zip(pf, rf):
      try: want = list(range(int(r.start._value), int(r.end._value), int(r.step._value)))
      except AttributeError: continue
      got = sv_loop_values(p, len(want) + 3)
      if got != want: bad.append((pm['name'], bname, want, got))
  return bad

# ---------------------------------------------------------------------------------------------
# one batch through the whole pipeline
# ---------------------------------------------------------------------------------------------
def run_batch(ck, be, designs, stats, ncycles, nstores, tie=True, keep=False):
  """designs: list of dicts from c03_gen (src, label, finding?, variant?, expect?, cycles?).
  Emits ck.count / ck.hist / ck.violation / ck.disagreement."""
  import random
  rng = ck.rng
  V = Verdicts(ck, ck.pid)
  drv = ck.drv('sv')
  jobs = []
  for d in designs:
    job = Job(be, d, rng.getrandbits(48), ncycles)
    prepare(job, ck.workdir, random.Random)
    jobs.append(job)
    stats['stage:' + job.stage] = stats.get('stage:' + job.stage, 0) + 1
    if job.stage not in ('ok', 'syntax'):
      stats.setdefault('not-compared', []).append(f"{d['label']}: {job.stage}: {str(job.info)[:400]}")
  live = [j for j in jobs if j.parsed is not None]
  # ---- port maps (Model/Flat.lean)
  lines, owner = [], []
  for j in live:
    for p in j.ports:
      lines.append(portmap_line(be, p)); owner.append(j)
  reps = drv.batch(lines)
  k = 0
  for j in live:
    n = len(j.ports)
    j.mapped = Mapped(be, j.ports, reps[k:k + n]); k += n
    j.ptop = top_module(j)
  # ---- simulation of the parsed text + per-block tie
  lines, owner = [], []
  for j in live:
    if j.ptop is None: continue
    lines.append(sim_line(sp.design_sexp(j.parsed), j.ptop['name'], j.mapped, j.cycles)); owner.append((j, 'sim', None))
    if tie:
      bl, meta = blk_lines(j, rng, nstores)
      j.blk_meta = meta
      names = [m for m in meta if m[0] == 'line']
      for l, m in zip(bl, names):
        lines.append(l); owner.append((j, 'blk', m))
  reps = drv.batch(lines) if lines else []
  for j in live: j.sim = None; j.blk = []
  for (j, kind, m), rep in zip(owner, reps):
    if kind == 'sim': j.sim = SimReply(rep, j.mapped.observed())
    else: j.blk.append((m, rep))
  # ---- diagnosis of output mismatches of the Yosys backend (known finding `yosys-signed-loopvar`): a design whose outputs differ is
  #      executed once more with its `integer` LOOP-INDEX variables (read off the text: signed variables assigned by a `for` header)
  #      taken as unsigned vectors; the mismatches that disappear are those caused by the signed evaluation of operators whose
  #      operands are all loop variables.  Every other mismatch is reported as before.
  for j in live: j.sim_u = None
  if be == 'yosys':
    again = []
    for j in live:
      if j.ptop is None or j.sim is None or j.sim.status != 'trace' or j.pytrace is None: continue
      uv = {m['name']: sorted(set(m.get('signed', ())) & sp.loop_index_variables(m)) for m in j.parsed.modules}
      if not any(uv.values()) or not compare_traces(j, j.sim): continue
      again.append((j, sim_line(sp.design_sexp(j.parsed, uv), j.ptop['name'], j.mapped, j.cycles)))
    if again:
      for (j, _), rep in zip(again, drv.batch([l for _, l in again])): j.sim_u = SimReply(rep, j.mapped.observed())
      stats['resimulated_with_unsigned_loop_variables'] = stats.get('resimulated_with_unsigned_loop_variables', 0) + len(again)
  # ---- which update blocks lie inside the hypothesis `signSafe` of the Yosys expression / statement theorems
  if be == 'yosys' and tie:
    sl = []
    for j in live:
      if j.top2 is None: continue
      from . import c03_rtlir as R
      seen = set()
      for comp, bname, is_ff, upblk in R.component_blocks(j.top2):
        pm = module_of(j, comp)
        if pm is None or (pm['name'], bname) in seen: continue
        seen.add((pm['name'], bname))
        try: sl.append(leanio.line('sv', 'safe', be, R.block_sexp(upblk, be, comp)))
        except R.Unmodelled: pass
    for rep in (drv.batch(sl) if sl else []): ck.hist('yosys-block-signSafe', rep)
  # ---- verdicts
  for j in jobs:
    d = j.d
    if j.case is None:
      ck.hist('stage', j.stage); continue
    ck.hist('stage', j.stage)
    ck.hist('label', d['label'].split(':')[0])
    for f in d.get('features', []): ck.hist('feature', f)
    nontrivial = j.stage == 'ok' and j.sim is not None and bool(j.cycles)
    ck.count({'label': d['label'], 'backend': be, 'src_hash': hash_text(d['src']), 'cycles': j.cycles}, nontrivial)
    if d.get('must_reject') and j.stage in ('ok', 'syntax', 'rejected'):
      # a design the translator has to refuse (with a message containing d['must_reject']): translating it is a violation
      if j.stage == 'rejected' and d['must_reject'] in str(j.info):
        stats['rejected-as-required'] = stats.get('rejected-as-required', 0) + 1
      else:
        V.report(j, 'accepted-untranslatable', {'what': 'a design the translator has to reject was ' + ('translated' if j.stage != 'rejected' else 'rejected for another reason'),
                                                'required message': d['must_reject'], 'stage': j.stage, 'info': str(j.info)[:300],
                                                'text': [l.strip() for l in (j.text or '').split('\n') if ' = ' in l][:6]})
      if j.stage == 'rejected': continue
    if d.get('must_translate') and j.stage == 'rejected':
      # a legal design (its PyMTL simulation runs) that the translator refuses
      V.report(j, 'rejected-translatable', {'what': 'a design that PyMTL simulates is refused by the translator', 'info': str(j.info)[:400]})
      if d.get('finding'): stats['finding-reproduced:' + d['finding']] = stats.get('finding-reproduced:' + d['finding'], 0) + 1
      continue
    if j.stage == 'syntax':
      V.report(j, 'syntax-invalid', {'what': 'the emitted text is not accepted by the IEEE 1800-2017 grammar of the emitted subset',
                                     'parser': j.info, 'oracle': 'c03_svparse (written from IEEE 1800-2017 Annex A)'})
      continue
    if j.parsed is None: continue
    if j.ptop is None:
      V.report(j, 'port-map', {'what': 'no module named as translated_top_module in the emitted text'}); continue
    r = j.sim
    found = False
    if r.errors:
      found = True
      V.report(j, 'syntax-invalid', {'what': 'the emitted text uses names / selects that do not resolve against its own declarations',
                                     'errors': r.errors[:10]})
    diff = check_module_ports(j.ptop, j.mapped)
    if diff:
      found = True
      V.report(j, 'port-map', {'what': 'ports of the emitted top module differ from the flat port map (name, (direction, width, elements))',
                               'expected_vs_emitted': [list(map(str, x)) for x in diff[:10]]})
    if be == 'yosys' and not d.get('finding'):
      fs = flat_slice_mismatches(j)
      if fs:
        stats['flat_slice_mismatch'] = stats.get('flat_slice_mismatch', 0) + 1
        ck.disagreement('Flat.flatPorts≈YosysStructuralTranslatorL2.vec_conn_gen', {'label': d['label'], 'backend': be, 'src': d['src']},
                        'Model/Flat.lean: ' + str(fs[0]['model']), 'emitted: ' + str(fs[0]['emitted']) + ' for leaf ' + fs[0]['leaf'])
      else: stats['flat_slices_checked'] = stats.get('flat_slices_checked', 0) + sum(1 for p in j.ports if p.ty[0] == 'struct')
    # a labelled design may name the signals its finding is about ('scope': name prefixes of the emitted text); a
    # multi-driven / undriven / mismatching variable outside that scope is not part of the known finding
    scope = tuple(d.get('scope', ())) if d.get('finding') else ()
    inside = lambda name: not scope or any(str(name).lstrip('.').startswith(p) for p in scope)
    multi_out = [x for x in r.multi if not inside(x[0])]
    undr_out = [x for x in r.undriven if not inside(x)]
    if multi_out:
      found = True
      V.report(j, 'multi-driver', {'what': 'a variable bit is written by two processes', 'conflicts': [list(x) for x in multi_out[:10]]}, outside=True)
    if undr_out:
      found = True
      V.report(j, 'undriven', {'what': 'a variable that is read (or is an output) has bits no process drives', 'variables': undr_out[:10]}, outside=True)
    if len(multi_out) < len(r.multi):
      found = True
      V.report(j, 'multi-driver', {'what': 'a variable bit is written by two processes', 'conflicts': [list(x) for x in r.multi if inside(x[0])][:10]})
    if len(undr_out) < len(r.undriven):
      found = True
      V.report(j, 'undriven', {'what': 'a variable that is read (or is an output) has bits no process drives', 'variables': [x for x in r.undriven if inside(x)][:10]})
    if r.status == 'fuel' or (j.top2 is not None and loop_header_mismatches(j)):
      found = True
      lm = loop_header_mismatches(j)
      V.report(j, 'loop-overrun', {'what': 'an emitted for loop does not enumerate range() of the PyMTL source (32-bit unsigned loop variable)',
                                   'loops (module, block, python values, first SV values)': [list(map(str, x)) for x in lm[:5]],
                                   'lean_sim': r.status})
    elif r.status == 'unstable':
      found = True
      V.report(j, 'comb-unstable', {'what': 'the combinational processes of the emitted text do not settle', 'cycle': r.stop_cycle})
    if r.castdiff:
      found = True
      V.report(j, 'cast-reading-dependent', {'what': "the two admissible readings of the size cast N'(e) give different outputs on this design"})
    if j.pytrace is not None and r.status == 'trace':
      bad = compare_traces(j, r)
      if bad and j.sim_u is not None and j.sim_u.status == 'trace':
        mk = lambda b: (b['cycle'], b['phase'], b['port'], b['elem'])
        still = {mk(b) for b in compare_traces(j, j.sim_u)}
        signed_only = [b for b in bad if mk(b) not in still]
        bad = [b for b in bad if mk(b) in still]
        if signed_only:
          found = True
          stats['finding-reproduced:' + SIGNED_LOOPVAR] = stats.get('finding-reproduced:' + SIGNED_LOOPVAR, 0) + 1
          ck.violation('output-mismatch', {'finding': SIGNED_LOOPVAR}, j.case,
                       {'what': 'output port differs between the PyMTL simulation and the emitted text under IEEE 1800 two-state semantics; the difference '
                                'disappears when the `integer` loop variables are read as unsigned: an operator whose operands are all loop variables '
                                "(N'(__loopvar__..) keeps the sign, 6.24.1) is evaluated signed (11.8.1)",
                        'first': signed_only[:3], 'n_mismatches': len(signed_only),
                        'signed loop variables': {m['name']: sorted(set(m.get('signed', ())) & sp.loop_index_variables(m)) for m in j.parsed.modules if m.get('signed')}})
        if bad and d.get('finding') == SIGNED_LOOPVAR:
          # what remains in a design of the labelled stream is not the known finding
          found = True
          V.report(j, 'output-mismatch', {'what': 'output port differs between the PyMTL simulation and the emitted text also when the loop variables are read as unsigned',
                                          'first': bad[:3], 'n_mismatches': len(bad)}, outside=True)
          bad = []
      bad_out = [b for b in bad if not inside(b['port'])]
      for part, outside in ((bad_out, True), ([b for b in bad if inside(b['port'])], False)):
        if part:
          found = True
          V.report(j, 'output-mismatch', {'what': 'output port differs between the PyMTL simulation and the emitted text under IEEE 1800 two-state semantics',
                                          'first': part[:3], 'n_mismatches': len(part)}, outside=outside)
    # semantic tie with the model of the translator
    for m, rep in j.blk:
      stats['blocks_tied'] = stats.get('blocks_tied', 0) + 1
      for kk, nn in m[3].items(): ck.hist('rtlir-node', kk, nn)
      if rep != 'same':
        stats['blocks_differ'] = stats.get('blocks_differ', 0) + 1
        if (not found and not d.get('finding')) or d.get('finding') == SIGNED_LOOPVAR:
          ck.disagreement('VTr.trStmt≈' + ('VBehavioralTranslator' if be == 'verilog' else 'YosysBehavioralTranslator'),
                          {'label': d['label'], 'backend': be, 'src': d['src'], 'module': m[1], 'block': m[2]}, 'tr(model of RTLIR): ' + rep[:300], 'parsed real text')
    for m in getattr(j, 'blk_meta', []):
      if m[0] != 'line':
        key = 'tie:' + m[0] + (':' + m[3] if m[0] == 'unmodelled' else '')
        stats[key] = stats.get(key, 0) + 1
    if d.get('finding') and not found:
      stats['finding-not-reproduced:' + d['finding']] = stats.get('finding-not-reproduced:' + d['finding'], 0) + 1
  if not keep:
    # release the elaborated components and the generated modules (thousands of designs per run)
    for j in jobs:
      for mn in [getattr(j, 'modname', None)] + list(getattr(j, 'auxnames', ())):
        if not mn: continue
        sys.modules.pop(mn, None)
        try: os.remove(os.path.join(ck.workdir, mn + '.py'))
        except OSError: pass
      j.top2 = j.parsed = j.ptop = j.mapped = j.pytrace = j.ports = None
    import gc; gc.collect()
  return jobs

def hash_text(s):
  import hashlib
  return hashlib.sha256(s.encode()).hexdigest()[:16]

# ---------------------------------------------------------------------------------------------
# Yosys backend: the slices the emitted top module connects its flattened struct ports with
# ---------------------------------------------------------------------------------------------
def _chain_text(e):
  k = e[0]
  if k == 'id': return e[1]
  if k == 'idx' and e[2][0] in ('num', 'lit'): return f'{_chain_text(e[1])}[{e[2][-1]}]'
  return None

def emitted_leaf_slices(ptop):
  """{leaf port name: set of (packed form, msb, lsb)} read off the `assign` items of the emitted top module"""
  out = {}
  for it in ptop['items']:
    if it[0] != 'assign': continue
    for leaf, rng in ((it[1], it[2]), (it[2], it[1])):
      if leaf[0] == 'id' and rng[0] == 'rng' and rng[2][0] in ('num', 'lit') and rng[3][0] in ('num', 'lit'):
        base = _chain_text(rng[1])
        if base is not None: out.setdefault(leaf[1], set()).add((base, rng[2][-1], rng[3][-1]))
  return out

def flat_slice_mismatches(job):
  """ports of struct type: the slice of the packed form each leaf is connected to vs Model/Flat.lean"""
  got = emitted_leaf_slices(job.ptop)
  bad = []
  for p in job.ports:
    if p.ty[0] != 'struct': continue
    base = '__'.join(t[1] for t in p.toks if t[0] == 'fld') + ''.join(f'[{t[1]}]' for t in p.toks if t[0] == 'idx')
    for (name, elem, msb, lsb) in job.mapped.leaves[p.key]:
      if (base, msb, lsb) not in got.get(name, set()):
        bad.append({'port': p.key, 'leaf': name, 'model': [base, msb, lsb], 'emitted': sorted(map(list, got.get(name, set())))})
  return bad
