"""Shared machinery of the C03 / C12 checks: load a generated component, simulate it with PyMTL,
translate it with the Verilog / Yosys backend, parse the emitted text, build the requests for the Lean
`sv` driver and compare.

Nothing here knows how the translator spells things: the emitted text goes through `c03_svparse` (IEEE
grammar) and is executed by the Lean semantics; PyMTL values are mapped to SystemVerilog variables only
through the port map computed by the Lean model (`Model/Flat.lean: portLeaves`).
"""
import importlib.util, itertools, os, re, sys

from ..common import leanio
from ..common.leanio import InfraError
from . import c03_svparse as sp

_uid = itertools.count()

# ---------------------------------------------------------------------------------------------
# loading and running the real thing
# ---------------------------------------------------------------------------------------------
def load_module(workdir, src, tag='d'):
  modname = f'pvsv_{os.getpid()}_{tag}_{next(_uid)}'
  path = os.path.join(workdir, modname + '.py')
  with open(path, 'w') as f: f.write(src)
  spec = importlib.util.spec_from_file_location(modname, path)
  mod = importlib.util.module_from_spec(spec)
  sys.modules[modname] = mod
  spec.loader.exec_module(mod)
  return mod

def backend_pass(be):
  if be == 'verilog':
    from pymtl3.passes.backends.verilog import VerilogTranslationPass
    return VerilogTranslationPass
  from pymtl3.passes.backends.yosys import YosysTranslationPass
  return YosysTranslationPass

def translate(top, be, workdir):
  """apply the translation pass to an elaborated component; the file is written under workdir.
  Returns the emitted text."""
  P = backend_pass(be)
  top.set_metadata(P.enable, True)
  cwd = os.getcwd()
  os.chdir(workdir)
  try:
    top.apply(P())
    fn = top.get_metadata(P.translated_filename)
    fn = fn if os.path.isabs(fn) else os.path.join(workdir, fn)
    with open(fn) as f: txt = f.read()
    os.remove(fn)
  finally:
    os.chdir(cwd)
  return txt

# ---------------------------------------------------------------------------------------------
# ports of the PyMTL top level
# ---------------------------------------------------------------------------------------------
def path_tokens(port):
  """repr 's.ifc[1].msg' -> [('fld','ifc'),('idx',1),('fld','msg')]"""
  r = repr(port)
  assert r.startswith('s.'), r
  toks = []
  for m in re.finditer(r'\.([A-Za-z_][A-Za-z_0-9]*)|\[(\d+)\]', r[1:]):
    if m.group(1) is not None: toks.append(('fld', m.group(1)))
    else: toks.append(('idx', int(m.group(2))))
  return toks

def dtype_tree(T):
  """pymtl data type (Bits class / bitstruct class / list) -> type tree of c03_svparse"""
  from pymtl3.datatypes import Bits, is_bitstruct_class
  if isinstance(T, list):
    return ('arr', len(T), dtype_tree(T[0]))
  if isinstance(T, type) and issubclass(T, Bits):
    return ('vec', T.nbits)
  if is_bitstruct_class(T):
    return ('struct', T.__name__, [(f, dtype_tree(t)) for f, t in T.__bitstruct_fields__.items()])
  raise InfraError(f'unsupported data type {T}')

def ty_width(ty):
  if ty[0] == 'vec': return ty[1]
  if ty[0] == 'arr': return ty[1] * ty_width(ty[2])
  return sum(ty_width(t) for _, t in ty[2])

class PortInfo:
  def __init__(self, obj, direction):
    self.obj, self.dir = obj, direction
    self.toks = path_tokens(obj)
    self.T = obj._dsl.Type
    self.ty = dtype_tree(self.T)
    self.width = ty_width(self.ty)
    self.dims = None
  @property
  def key(self): return ''.join(f'.{t[1]}' if t[0] == 'fld' else f'[{t[1]}]' for t in self.toks)

def top_ports(top):
  from pymtl3.dsl import InPort, OutPort
  mine = [x for x in top.get_all_object_filter(lambda x: isinstance(x, (InPort, OutPort))) if x.get_host_component() is top and x.is_top_level_signal()]
  ins = sorted([x for x in mine if isinstance(x, InPort)], key=repr)       # includes the ports of interfaces
  outs = sorted([x for x in mine if isinstance(x, OutPort)], key=repr)
  ports = [PortInfo(p, 'in') for p in ins] + [PortInfo(p, 'out') for p in outs]
  # sizes of the list dimensions: max index + 1 over the ports sharing the same skeleton prefix
  sizes = {}
  for p in ports:
    pre = []
    for t in p.toks:
      if t[0] == 'idx':
        k = tuple(pre)
        sizes[k] = max(sizes.get(k, 0), t[1] + 1)
        pre.append(('idx', '*'))
      else: pre.append(t)
  for p in ports:
    pre, dims = [], []
    for t in p.toks:
      if t[0] == 'idx':
        dims.append(sizes[tuple(pre)]); pre.append(('idx', '*'))
      else: pre.append(t)
    p.dims = dims
  return ports

def fetch(top, toks):
  obj = top
  for k, v in toks:
    obj = getattr(obj, v) if k == 'fld' else obj[v]
  return obj

def port_value(top, p):
  """packed value of a port as PyMTL sees it (after the simulation passes the attribute is the value)"""
  v = fetch(top, p.toks)
  from pymtl3.datatypes import Bits
  if isinstance(v, Bits): return int(v)
  try: return int(v.to_bits())
  except AttributeError: return int(v)

def set_port(top, p, value):
  from pymtl3.datatypes import Bits, mk_bits
  T = p.T
  host = fetch(top, p.toks[:-1])
  new = T(value) if isinstance(T, type) and issubclass(T, Bits) else T.from_bits(mk_bits(p.width)(value))
  k, v = p.toks[-1]
  if k == 'fld':
    sig = getattr(host, v)
    sig @= new
  else:
    sig = host[v]
    sig @= new

def toks_sexp(toks):
  return tuple((k, v) for k, v in toks)

# ---------------------------------------------------------------------------------------------
# PyMTL simulation
# ---------------------------------------------------------------------------------------------
def simulate_pymtl(top, ports, cycles):
  """cycles: list of {port key: packed value}. Returns [(after_comb, after_tick)] with dicts key -> value
  for the output ports."""
  from pymtl3.passes.PassGroups import DefaultPassGroup
  top.apply(DefaultPassGroup())
  byk = {p.key: p for p in ports}
  outs = [p for p in ports if p.dir == 'out']
  trace = []
  for cyc in cycles:
    for k, v in cyc.items(): set_port(top, byk[k], v)
    top.sim_eval_combinational()
    a = {p.key: port_value(top, p) for p in outs}
    top.sim_tick()
    b = {p.key: port_value(top, p) for p in outs}
    trace.append((a, b))
  return trace

def gen_cycles(rng, ports, n):
  ins = [p for p in ports if p.dir == 'in' and p.key != '.clk']
  cycles = []
  for k in range(n):
    cyc = {}
    for p in ins:
      if p.key == '.reset':
        cyc[p.key] = 1 if (k == 0 and rng.random() < 0.5) or rng.random() < 0.12 else 0
      else:
        top = (1 << p.width) - 1
        v = rng.choice([0, 1, top, top - 1, 1 << (p.width - 1), rng.getrandbits(p.width), rng.getrandbits(p.width),
                        rng.getrandbits(p.width)]) & top
        cyc[p.key] = v
    cycles.append(cyc)
  return cycles

# ---------------------------------------------------------------------------------------------
# Lean side
# ---------------------------------------------------------------------------------------------
def portmap_line(be, p):
  return leanio.line('sv', 'portmap', 1 if be == 'yosys' else 0, toks_sexp(p.toks), tuple(p.dims), sp.ty_sexp(p.ty))

def parse_portmap(rep):
  """'ok (name elem msb lsb) ...' -> list"""
  assert rep.startswith('ok'), rep
  return [(t[0], int(t[1]), int(t[2]), int(t[3])) for t in leanio.parse_sexp(rep[2:])]

def slice_of(v, msb, lsb):
  return (v >> lsb) & ((1 << (msb + 1 - lsb)) - 1)

class Mapped:
  """how the ports of the PyMTL top level appear in the emitted module (from Model/Flat.lean)"""
  def __init__(self, be, ports, replies):
    self.be = be
    self.ports = ports
    self.leaves = {p.key: parse_portmap(r) for p, r in zip(ports, replies)}

  def expected_decls(self):
    """svName -> (direction, width, number of unpacked elements) the emitted module must declare"""
    out = {}
    for p in self.ports:
      n = 1
      for d in p.dims: n *= d
      for (name, elem, msb, lsb) in self.leaves[p.key]:
        out[name] = ('input' if p.dir == 'in' else 'output', msb + 1 - lsb if self.be == 'yosys' else p.width, n if self.be != 'yosys' else 1)
    return out

  def drive(self, cyc):
    """PyMTL input values of one cycle -> [(svName, elem, value)]"""
    out = []
    for p in self.ports:
      if p.dir != 'in' or p.key not in cyc: continue
      v = cyc[p.key]
      for (name, elem, msb, lsb) in self.leaves[p.key]:
        out.append((name, elem, slice_of(v, msb, lsb)))
    return out

  def observed(self):
    names = []
    for p in self.ports:
      if p.dir != 'out': continue
      for (name, elem, msb, lsb) in self.leaves[p.key]:
        if name not in names: names.append(name)
    return names

  def expect(self, pyvals):
    """PyMTL output values {key: packed} -> {(svName, elem): value} predicted for the emitted module"""
    out = {}
    for p in self.ports:
      if p.dir != 'out': continue
      v = pyvals[p.key]
      for (name, elem, msb, lsb) in self.leaves[p.key]:
        out[(name, elem)] = slice_of(v, msb, lsb)
    return out

def sim_line(design, topname, mapped, cycles):
  cyc = [mapped.drive(c) for c in cycles]
  return leanio.line('sv', 'sim', design, topname, cyc, mapped.observed())

class SimReply:
  def __init__(self, rep, obs):
    if not rep.startswith('ok '): raise InfraError(f'unexpected sv sim reply {rep[:200]}')
    t = leanio.parse_sexp(rep[3:])
    d = {x[0]: x[1:] for x in t[:4]}
    self.errors = d['errors']
    self.multi = [tuple(x) for x in d['multi']]
    self.undriven = d['undriven']
    self.castdiff = d['castB'] != ['same']
    tr = t[4]
    self.status = tr[0]                      # trace | unstable | fuel
    body = tr[1:] if self.status == 'trace' else tr[2:]
    self.stop_cycle = None if self.status == 'trace' else int(tr[1])
    self.trace = []
    for c in body:
      a = {(n, e): int(v) for n, vals in zip(obs, c[0]) for e, v in enumerate(vals)}
      b = {(n, e): int(v) for n, vals in zip(obs, c[1]) for e, v in enumerate(vals)}
      self.trace.append((a, b))

def check_module_ports(parsed_top, mapped):
  """the emitted top module declares exactly the ports the model predicts (names, directions, widths)"""
  exp = mapped.expected_decls()
  got = {}
  for d, x, ty, dims in parsed_top['ports']:
    n = 1
    for k in dims: n *= k
    got[x] = (d, ty_width(ty), n)
  return sorted((k, exp.get(k), got.get(k)) for k in set(exp) | set(got) if exp.get(k) != got.get(k))
