"""C01, library stream — the RTL model regenerated from REAL pymtl3 components on every run.

For each design of `designs()` (components of pymtl3/stdlib and examples, instantiated as the library defines them):
  elaborate -> `pymtl2rtl.Translator` (signals, nets and update blocks read from the live objects / their source, nothing
  rendered twice) -> schedule of the real passes (DefaultPassGroup, plus forced random linear extensions of the real
  constraint graph through GenDAG + SimpleSchedule + PrepareSim) mapped onto model block ids -> driver `rtl check`
  (wfBlocks), `rtl topo` / `rtl entries` (the real order is legal in the model) and `rtl sim`; N cycles of boundary-biased
  random inputs on the real simulator; EVERY signal after every sim_eval_combinational() and sim_tick() is compared
      real  vs  independent Python evaluation of the translated dataflow (LibRefSim)   -> ck.violation on a difference
      real  vs  Lean (`Model/Rtl.lean` executed by the driver)                         -> ck.disagreement
      real under schedule A vs real under schedule B                                   -> ck.violation (the C01 property)
Designs the translator refuses (`Untranslatable`) are listed with the reason and are not failures.
"""
import random, re, time

from ..common import leanio, rtlgen, pymtl2rtl
from ..common.leanio import InfraError

# ---------------------------------------------------------------------------------------------------------------------
# the designs
# ---------------------------------------------------------------------------------------------------------------------
_types = {}
def msg_types():
  if not _types:
    from pymtl3 import bitstruct, Bits1, Bits3, Bits4, Bits8, Bits16
    @bitstruct
    class LibPoint:
      x: Bits4
      y: Bits8
    @bitstruct
    class LibMsg:
      opaque: Bits3
      pt: LibPoint
      last: Bits1
      data: Bits16
    @bitstruct
    class LibVec:
      tag: Bits3
      lanes: [Bits4, Bits4, Bits4]
    _types.update(LibPoint=LibPoint, LibMsg=LibMsg, LibVec=LibVec)
  return _types

def inst_word(rng):
  """a TinyRV0 instruction word from the repo's own assembler (few registers: hazards and bypasses), sometimes junk"""
  if rng.random() < 0.12: return rng.getrandbits(32)
  from examples.ex03_proc.tinyrv0_encoding import assemble_inst
  r = lambda: rng.choice([0, 1, 1, 2, 2, 3, 5, 31])
  name = rng.choice(['add', 'and', 'sll', 'srl', 'addi', 'addi', 'lw', 'sw', 'bne', 'csrr', 'csrw', 'nop'])
  imm = rng.choice([0, 1, -1, 4, 8, -4, 2047, -2048, rng.randint(-2048, 2047)])
  if name in ('add', 'and', 'sll', 'srl'): text = f'{name} x{r()}, x{r()}, x{r()}'
  elif name == 'addi': text = f'addi x{r()}, x{r()}, {imm}'
  elif name == 'lw': text = f'lw x{r()}, {imm}(x{r()})'
  elif name == 'sw': text = f'sw x{r()}, {imm}(x{r()})'
  elif name == 'bne': text = f'bne x{r()}, x{r()}, {2 * rng.randint(-8, 8)}'
  elif name == 'csrr': text = f'csrr x{r()}, {rng.choice([0xfc0, 0xfc1, 0xf14]):#x}'
  elif name == 'csrw': text = f'csrw {rng.choice([0x7c0, 0x7c1, 0x7e0]):#x}, x{r()}'
  else: text = 'nop'
  try: return int(assemble_inst({}, 0x200, text)) & 0xffffffff
  except Exception: return rng.getrandbits(32)

def designs(tier):
  """[(name, factory, opts)]; opts: cons = [(path regex, modulus)] input constraints (indices into lists whose length is not a
  power of two: the real code raises IndexError beyond), cycles, reset = cycles of initial reset, gen = [(path regex, value
  generator)]; the thorough tier adds sizes"""
  import os, sys, pymtl3
  repo = os.path.dirname(os.path.dirname(os.path.abspath(pymtl3.__file__)))      # the `examples` package lives next to pymtl3
  if repo not in sys.path: sys.path.insert(0, repo)
  from pymtl3 import Bits1, Bits4, Bits8, Bits16, Bits32, mk_bits
  from pymtl3.stdlib.basic_rtl import arbiters, arithmetics as ar, crossbars, encoders, register_files as rf, registers as rg
  from pymtl3.stdlib.queues import queues as q1
  from pymtl3.stdlib.stream import queues as q2
  T = msg_types()
  Msg, Pt, Vec = T['LibMsg'], T['LibPoint'], T['LibVec']
  th = tier != 'quick'
  D = []
  def add(name, f, cons=(), cycles=None, thorough_only=False, reset=None, gen=()):
    if thorough_only and not th: return
    D.append((name, f, {'cons': list(cons), 'cycles': cycles, 'reset': reset, 'gen': list(gen)}))
  # --- basic_rtl
  for n in ([2, 3, 4, 8] if not th else [2, 3, 4, 5, 8, 16]):       # (nreqs = 1 does not elaborate: slice [1:1])
    add(f'RoundRobinArbiter({n})', lambda n=n: arbiters.RoundRobinArbiter(n))
  for n in ([2, 4] if not th else [2, 4, 6, 8]):
    add(f'RoundRobinArbiterEn({n})', lambda n=n: arbiters.RoundRobinArbiterEn(n))
  add('Crossbar(2,Bits8)', lambda: crossbars.Crossbar(2, Bits8))
  add('Crossbar(4,LibMsg)', lambda: crossbars.Crossbar(4, Msg))
  add('Crossbar(3,Bits16)', lambda: crossbars.Crossbar(3, Bits16), [(r'sel\[\d+\]$', 3)])
  add('Crossbar(8,Bits4)', lambda: crossbars.Crossbar(8, Bits4), thorough_only=True)
  add('Encoder(8,3)', lambda: encoders.Encoder(8, 3))
  add('Encoder(5,4)', lambda: encoders.Encoder(5, 4))
  add('Encoder(32,5)', lambda: encoders.Encoder(32, 5), thorough_only=True)
  add('Mux(Bits8,1)', lambda: ar.Mux(Bits8, 1), [(r'sel$', 1)])
  add('Mux(Bits8,4)', lambda: ar.Mux(Bits8, 4))
  add('Mux(LibMsg,3)', lambda: ar.Mux(Msg, 3), [(r'sel$', 3)])
  add('Mux(LibVec,2)', lambda: ar.Mux(Vec, 2))
  add('Demux(Bits8,4)', lambda: ar.Demux(Bits8, 4))
  add('Demux(LibPoint,3)', lambda: ar.Demux(Pt, 3), [(r'sel$', 3)])
  add('RightLogicalShifter(Bits8)', lambda: ar.RightLogicalShifter(Bits8))
  add('LeftLogicalShifter(Bits16)', lambda: ar.LeftLogicalShifter(Bits16))
  add('Incrementer(Bits8,3)', lambda: ar.Incrementer(Bits8, 3))
  add('Adder(Bits16)', lambda: ar.Adder(Bits16))
  add('And(Bits8)', lambda: ar.And(Bits8))
  add('Subtractor(Bits8)', lambda: ar.Subtractor(Bits8))
  add('ZeroComparator(Bits4)', lambda: ar.ZeroComparator(Bits4))
  add('LTComparator(Bits8)', lambda: ar.LTComparator(Bits8))
  add('LEComparator(Bits8)', lambda: ar.LEComparator(Bits8))
  add('EqComparator(Bits4)', lambda: ar.EqComparator(Bits4))
  add('Reg(Bits8)', lambda: rg.Reg(Bits8))
  add('RegEn(LibMsg)', lambda: rg.RegEn(Msg))
  add('RegRst(Bits8,5)', lambda: rg.RegRst(Bits8, 5))
  add('RegEnRst(Bits16,0xabc)', lambda: rg.RegEnRst(Bits16, 0xabc))
  add('RegisterFile(Bits8,4,2,1)', lambda: rf.RegisterFile(Bits8, 4, 2, 1))
  add('RegisterFile(Bits16,8,1,2,const_zero)', lambda: rf.RegisterFile(Bits16, 8, 1, 2, True))
  add('RegisterFile(LibPoint,3,1,1)', lambda: rf.RegisterFile(Pt, 3, 1, 1), [(r'[rw]addr\[\d+\]$', 3)])
  add('RegisterFile(Bits32,32,2,1,const_zero)', lambda: rf.RegisterFile(Bits32, 32, 2, 1, True), thorough_only=True)
  add('RegisterFileRst(Bits8,4,1,1,rv=7)', lambda: rf.RegisterFileRst(Bits8, 4, 1, 1, False, 7))
  add('RegisterFileRst(Bits8,4,2,2,const_zero)', lambda: rf.RegisterFileRst(Bits8, 4, 2, 2, True, 1))
  # --- queues (en/rdy interfaces)
  for cls in ('NormalQueueRTL', 'PipeQueueRTL', 'BypassQueueRTL'):
    for (ty, tn), n in [((Bits8, 'Bits8'), 1), ((Bits8, 'Bits8'), 2), ((Msg, 'LibMsg'), 3)] + ([((Bits16, 'Bits16'), 4), ((Pt, 'LibPoint'), 1), ((Bits32, 'Bits32'), 5)] if th else []):
      add(f'queues.{cls}({tn},{n})', lambda cls=cls, ty=ty, n=n: getattr(q1, cls)(ty, n))
  # --- stream queues (val/rdy interfaces)
  for cls in ('NormalQueueRTL', 'PipeQueueRTL', 'BypassQueueRTL'):
    for (ty, tn), n in [((Bits8, 'Bits8'), 1), ((Msg, 'LibMsg'), 2), ((Bits16, 'Bits16'), 4)] + ([((Bits8, 'Bits8'), 3), ((Vec, 'LibVec'), 2), ((Bits32, 'Bits32'), 8)] if th else []):
      add(f'stream.{cls}({tn},{n})', lambda cls=cls, ty=ty, n=n: getattr(q2, cls)(ty, n))
  # --- examples
  def cksum():
    from examples.ex02_cksum.ChecksumRTL import ChecksumRTL
    return ChecksumRTL()
  def step():
    from examples.ex02_cksum.ChecksumRTL import StepUnit
    return StepUnit()
  add('ex02.StepUnit', step)
  add('ex02.ChecksumRTL', cksum, cycles=(12 if not th else 40))      # (128-bit nets: the driver evaluates per target bit, quadratic in the width)
  def proc_piece(name):
    def f():
      import importlib
      if name in ('AluRTL', 'ImmGenRTL'): return getattr(importlib.import_module('examples.ex03_proc.MiscRTL'), name)()
      if name == 'DropUnitRTL': return importlib.import_module('examples.ex03_proc.MiscRTL').DropUnitRTL(Bits32)
      if name == 'ProcDpath': return importlib.import_module('examples.ex03_proc.ProcDpathRTL').ProcDpath()
      if name == 'ProcCtrl': return importlib.import_module('examples.ex03_proc.ProcCtrlRTL').ProcCtrl()
      if name == 'ProcRTL': return importlib.import_module('examples.ex03_proc.ProcRTL').ProcRTL()
      raise KeyError(name)
    return f
  add('ex03.AluRTL', proc_piece('AluRTL'))
  add('ex03.ImmGenRTL', proc_piece('ImmGenRTL'))
  add('ex03.DropUnitRTL', proc_piece('DropUnitRTL'))
  inst = lambda rng, w: (rng.getrandbits(w - 32) << 32 | inst_word(rng)) if w > 32 else inst_word(rng)
  add('ex03.ProcDpath', proc_piece('ProcDpath'), [(r'op2_sel_D$', 3), (r'wb_result_sel_M$', 3)], cycles=(20 if not th else 60), reset=1,
      gen=[(r'imemresp_data$', inst)])
  add('ex03.ProcCtrl', proc_piece('ProcCtrl'), cycles=(30 if not th else 80), reset=2, gen=[(r'inst_D$', inst)])
  add('ex03.ProcRTL', proc_piece('ProcRTL'), cycles=(24 if not th else 120), reset=2, gen=[(r'imem\.resp\.msg$', inst)])
  # --- more of the library: en/rdy one- and two-entry queues, ROMs (constant nets), the checksum accelerator, processor + accelerator
  from pymtl3.stdlib.queues import enrdy_queues as eq
  from pymtl3.stdlib.mem import ROMRTL as rom
  add('enrdy_queues.PipeQueue1RTL(Bits8)', lambda: eq.PipeQueue1RTL(Bits8))
  add('enrdy_queues.BypassQueue1RTL(LibMsg)', lambda: eq.BypassQueue1RTL(Msg))
  add('enrdy_queues.BypassQueue2RTL(Bits16)', lambda: eq.BypassQueue2RTL(Bits16))
  add('enrdy_queues.NormalQueue1RTL(Bits8)', lambda: eq.NormalQueue1RTL(Bits8))
  add('CombinationalROMRTL(Bits8,4,2 ports)', lambda: rom.CombinationalROMRTL(Bits8, 4, [1, 2, 3, 200], 2))
  add('SequentialROMRTL(Bits8,5)', lambda: rom.SequentialROMRTL(Bits8, 5, [1, 2, 3, 200, 7], 1), [(r'raddr\[\d+\]$', 5)])
  def xcel():
    from examples.ex04_xcel.ChecksumXcelRTL import ChecksumXcelRTL
    return ChecksumXcelRTL()
  def procxcel():
    from examples.ex04_xcel.ChecksumXcelRTL import ChecksumXcelRTL
    from examples.ex04_xcel.ProcXcel import ProcXcel
    from examples.ex03_proc.ProcRTL import ProcRTL
    return ProcXcel(ProcRTL, ChecksumXcelRTL)
  def xreq(rng, w):
    # register numbers 0..5 (reg_file has 6 entries, a READ of 6 / 7 is an IndexError of the real block); 4 = go
    from pymtl3.stdlib.ifcs import mk_xcel_req_msg
    m = mk_xcel_req_msg(5, 32)(rng.getrandbits(1), rng.choice([0, 1, 2, 3, 4, 4, 5]) + 8 * rng.choice([0, 0, 0, 1, 3]), rng.choice([0, 1, 0xffffffff, rng.getrandbits(32)]))
    return int(m.to_bits())
  add('ex04.ChecksumXcelRTL', xcel, cycles=(30 if not th else 100), reset=1, gen=[(r'xcel\.req\.msg$', xreq)])
  add('ex04.ProcXcel(ProcRTL,ChecksumXcelRTL)', procxcel, cycles=100, reset=2, gen=[(r'imem\.resp\.msg$', inst)], thorough_only=True)
  # components that keep Python state next to their signals: the translator must refuse them
  def src():
    from pymtl3.stdlib.stream.SourceRTL import SourceRTL
    return SourceRTL(Bits8, [Bits8(1), Bits8(2)])
  def sink():
    from pymtl3.stdlib.stream.SinkRTL import SinkRTL
    return SinkRTL(Bits8, [Bits8(1)])
  def delay():
    from pymtl3.stdlib.stream.magic_memory import InelasticDelayPipe
    return InelasticDelayPipe(Bits8, 2)
  add('stream.SourceRTL', src); add('stream.SinkRTL', sink); add('stream.InelasticDelayPipe', delay)
  # --- hand-written components covering the rest of the translator's Python subset (c01_lib_extra.py)
  from . import c01_lib_extra as X
  add('extra.XTemps', X.XTemps)
  add('extra.XHold', X.XHold)
  add('extra.XIndex', X.XIndex)
  add('extra.XInts', X.XInts)
  add('extra.XRegs', X.XRegs, [(r'wi$', 5)])
  add('extra.XExtraTop', X.XExtraTop)
  return D

# ---------------------------------------------------------------------------------------------------------------------
# adaptor: the translated design with the attribute names rtlgen.RealSim / parse_scc / run_real expect
# ---------------------------------------------------------------------------------------------------------------------
class TDesign:
  def __init__(self, name, tr):
    self.uid, self.tr = name, tr
    self.sigs = [rtlgen.Sig(s['idx'], '', s['path'], s['width'], s['kind']) for s in tr.signals if not s['virtual']]
    self.n_real = len(self.sigs)
    self._sexp = tr.sexp()
  def sexp(self): return self._sexp
  def comb_ids(self): return self.tr.comb_ids()
  def ff_ids(self): return self.tr.ff_ids()

def _val(o, w):
  v = o.to_bits() if hasattr(o, 'to_bits') else o
  return int(v) & ((1 << w) - 1)

class LibSim(rtlgen.RealSim):
  """a real, scheduled instance of a library design; blocks mapped to the translator's ids"""
  def index_blocks(self):
    top, tr = self.top, self.d.tr
    self.blk2id, self.unknown = {}, []
    ups = {b['key']: b['id'] for b in tr.blocks if b['kind'] in ('comb', 'ff')}
    for blk in top.get_all_update_blocks():
      k = (repr(top.get_update_block_host_component(blk)), blk.__name__)
      if k not in ups: raise InfraError(f'{self.d.uid}: update block {k} of the simulated instance is unknown to the translation')
      self.blk2id[blk] = ups[k]
    nets = {b['key']: b['id'] for b in tr.blocks if b['kind'] == 'net'}
    for blk in top._dag.genblks:
      k = frozenset(repr(x) for x in top._dag.genblk_writes[blk])
      if k not in nets: raise InfraError(f'{self.d.uid}: net block {blk.__name__} of the simulated instance is unknown to the translation')
      self.blk2id[blk] = nets[k]
    if len(self.blk2id) != len(ups) + len(nets):
      raise InfraError(f'{self.d.uid}: {len(ups) + len(nets)} translated blocks, {len(self.blk2id)} real ones')
    self.id2blk = {i: b for b, i in self.blk2id.items()}
    self._objs = None

  def _resolve(self):
    return [rtlgen.resolve_path(self.top, s.path) for s in self.d.sigs]

  def read_all(self):
    if self._objs is None: self._objs = self._resolve()      # value objects are updated in place by @= / <<=
    return [_val(o, s.width) for o, s in zip(self._objs, self.d.sigs)]

  def objects_stable(self):
    return self._objs is None or all(a is b for a, b in zip(self._objs, self._resolve()))

  def set_inputs(self, ins):
    from pymtl3.datatypes import Bits
    for g, v in ins:
      cur = rtlgen.resolve_path(self.top, self.d.sigs[g].path)
      if not isinstance(cur, Bits): v = type(cur).from_bits(Bits(self.d.sigs[g].width, v))
      cur @= v

# ---------------------------------------------------------------------------------------------------------------------
# independent evaluation of the translated dataflow
# ---------------------------------------------------------------------------------------------------------------------
class LibRefSim:
  """Python evaluation of the translated design: comb blocks in a topological order of their own bit-level footprints
  (Kahn, ties by id; independent of any pymtl3 scheduler), swept to a fixed point when the footprints are cyclic"""
  def __init__(self, tr):
    self.tr = tr
    self.vals = [0] * len(tr.signals)
    fp = tr.footprints()
    blocks = {}
    for b in tr.blocks:
      for x in [b] + b['virt']: blocks[x['id']] = x
    comb = [i for i, (k, _, _) in fp.items() if k == 'comb']
    self.ff = [blocks[i] for i, (k, _, _) in fp.items() if k == 'ff']
    # writers per signal -> edges
    wr = {}
    for i in comb:
      for t in fp[i][2]: wr.setdefault(t[0], []).append((t, i))
    succ = {i: set() for i in comb}
    indeg = {i: 0 for i in comb}
    for j in comb:
      for r in fp[j][1]:
        for (t, i) in wr.get(r[0], ()):
          if i != j and pymtl2rtl.overlap(t, r) and j not in succ[i]:
            succ[i].add(j); indeg[j] += 1
    ready = sorted(i for i in comb if indeg[i] == 0)
    order = []
    while ready:
      i = ready.pop(0)
      order.append(i)
      new = []
      for j in succ[i]:
        indeg[j] -= 1
        if indeg[j] == 0: new.append(j)
      ready = sorted(ready + new)
    self.cyclic = len(order) != len(comb)
    if self.cyclic: order += [i for i in sorted(comb) if i not in set(order)]
    self.comb = [blocks[i] for i in order]
    self.self_read = any(pymtl2rtl.overlap(r, t) for i in comb for r in fp[i][1] for t in fp[i][2])

  def eval_comb(self):
    ev, asg, vals = rtlgen.ref_eval, rtlgen.ref_assign, self.vals
    for sweep in range(100):
      before = list(vals) if self.cyclic else None
      for b in self.comb:
        for t, e in b['asgs']: asg(vals, t, ev(e, vals))
      if not self.cyclic or before == vals: return
    raise InfraError('LibRefSim: no fixed point after 100 sweeps')

  def cycle(self, ins):
    vals = self.vals
    for g, v in ins: vals[g] = v
    self.eval_comb()
    a = list(vals)
    # update_ff blocks read the settled values and write the shadow copy; a register (field) not assigned keeps its value
    nxt = list(vals)
    for b in self.ff:
      for t, e in b['asgs']: rtlgen.ref_assign(nxt, t, rtlgen.ref_eval(e, vals))
    for b in self.ff:
      for t, e in b['asgs']: vals[t[0]] = nxt[t[0]]
    self.eval_comb()
    return a, list(vals)

# ---------------------------------------------------------------------------------------------------------------------
def gen_inputs(rng, td, opts, ncycles):
  ins = [s for s, row in zip(td.sigs, td.tr.signals) if row['top_port'] and row['kind'] == 'in' and row['path'] != 'clk']
  mods, gens = {}, {}
  for s in ins:
    for pat, m in opts['cons']:
      if re.search(pat, s.path): mods[s.idx] = m
    for pat, f in opts['gen']:
      if re.search(pat, s.path): gens[s.idx] = f
  cycles = []
  hold_reset = opts['reset'] if opts['reset'] is not None else rng.choice([0, 0, 1, 2])
  for k in range(ncycles):
    cyc = []
    for s in ins:
      top = (1 << s.width) - 1
      if s.path == 'reset':
        v = 1 if (k < hold_reset or rng.random() < 0.06) else 0
      elif s.idx in gens:
        v = gens[s.idx](rng, s.width) & top
      elif s.width == 1:
        v = rng.getrandbits(1) if rng.random() < 0.5 else (1 if rng.random() < 0.7 else 0)
      else:
        v = rng.choice([0, 1, top, top - 1, 1 << (s.width - 1), rng.getrandbits(s.width), rng.getrandbits(s.width), rng.getrandbits(s.width)]) & top
      if s.idx in mods: v %= mods[s.idx]
      cyc.append((s.idx, v))
    cycles.append(cyc)
  return cycles

def model_entries(rs, tr):
  """the real schedule as model entries: virtual blocks inserted in front of their block, SCC groups kept"""
  byid = {b['id']: b for b in tr.blocks}
  out, flat = [], True
  for e in rtlgen.model_entries(rs):
    if e[0] == 'b':
      out += [('b', i) for i in tr.expand_order([e[1]])[:len(byid[e[1]]['virt']) + 1]]
    else:
      flat = False
      ids = []
      for i in e[1]: ids += [v['id'] for v in byid[i]['virt']] + [i]
      out.append(('scc', ids, e[2]))
  out += [('b', i) for i in tr.ff_virtual_ids()]
  return out, flat

def sexp_entries(entries):
  return [list(e) if e[0] == 'b' else ['scc', list(e[1]), [list(w) for w in e[2]]] for e in entries]

def first_diff(x, y):
  for k, (p, q) in enumerate(zip(x, y)):
    for ph, (u, v) in enumerate(zip(p, q)):
      if list(u) != list(v):
        return k, ('after sim_eval_combinational', 'after sim_tick')[ph], [i for i, (m, n) in enumerate(zip(u, v)) if m != n]
  return None

def failing_cycle(factory, td, cycles):
  try:
    rs = LibSim(factory, td, 'default')
    for k, ins in enumerate(cycles):
      try:
        rs.set_inputs(ins); rs.top.sim_eval_combinational(); rs.top.sim_tick()
      except Exception:
        return k
  except Exception:
    return None
  return None

def one_design(ck, rng, name, factory, opts, ncycles, n_ext, flows, rec, _cycles=None, _retry=None):
  t0 = time.time()
  for k in ('rerun_fails', 'flows_refused_by_scheduler'): rec.pop(k, None)
  # 1. translate a fresh elaborated instance
  try:
    top = factory()
    top.elaborate()
  except Exception as e:
    rec.update(status='not-elaborated', reason=f'{type(e).__name__}: {e}'[:300]); return None
  try:
    tr = pymtl2rtl.Translator(top).run()
  except pymtl2rtl.Untranslatable as e:
    rec.update(status='untranslatable', reason=str(e)[:400]); return None
  td = TDesign(name, tr)
  rec.update(status='translated', signals=td.n_real, virtual_signals=len(tr.signals) - td.n_real,
             blocks={k: sum(1 for b in tr.blocks if b['kind'] == k) for k in ('comb', 'ff', 'net')}, virtual_blocks=len(tr.virtuals),
             self_read=tr.notes['self_read'], holds=tr.notes['holds'], index_guards=len(tr.notes['index_guards']),
             translate_s=round(time.time() - t0, 3), model_hash=h(leanio.line('x', td.sexp())))
  # determinism of the translation: a second instance gives the same text
  # (cheap designs only; the big ones are covered by the comparison itself)
  if td.n_real <= 60:
    top2 = factory(); top2.elaborate()
    if leanio.line('x', pymtl2rtl.Translator(top2).run().sexp()) != leanio.line('x', td.sexp()):
      raise InfraError(f'{name}: two translations of the same design differ')
  cycles = _cycles if _cycles is not None else gen_inputs(rng, td, opts, ncycles)
  ref = LibRefSim(tr)
  try:
    ref_trace = [ref.cycle(c) for c in cycles]
  except InfraError as e:
    rec.update(status='reference-diverges', reason=str(e)); ref_trace = None
  # 2. real runs
  runs = []
  # oracle (2) of C01 on small designs inside the theorem hypotheses: re-running any comb block after evaluation changes nothing
  rerun = td.n_real <= 60 and not tr.notes['holds']
  try:
    edges = None
    for flow in flows:
      try:
        rs = LibSim(factory, td, flow)
      except Exception as e:
        # block-level cycles (an SCC) are scheduled by DefaultPassGroup / Mamba2020 only; the static schedulers refuse them
        if flow != 'default' and type(e).__name__ == 'UpblkCyclicError':
          rec.setdefault('flows_refused_by_scheduler', {})[flow] = 'UpblkCyclicError'; continue
        raise
      entries, flat = model_entries(rs, tr)
      in_comb = set()
      for e in entries: in_comb.update([e[1]] if e[0] == 'b' else e[1])
      stray = sorted(in_comb & set(td.ff_ids()))
      if stray:
        # direct oracle on the real schedule: an update_ff block in the combinational schedule is evaluated again after the edge
        ck.violation('ff-block-in-comb-schedule', {'flow': flow, 'design': name}, {'library_design': name, 'flow': flow},
                     {'ff_blocks_in_comb_schedule': stray, 'oracle': 'the combinational schedule holds update blocks only'})
        continue
      tr_real, fails = rtlgen.run_real(rs, cycles, rerun=rerun)
      if fails: rec.setdefault('rerun_fails', []).append((flow, fails[0]['cycle'], fails[0]['block']))
      if not rs.objects_stable(): raise InfraError(f'{name}: signal value objects were replaced during simulation')
      runs.append((flow, entries, flat, rs.ff_entries(), tr_real))
      if edges is None: edges = rtlgen.real_edges(rs)
    comb_ids, ff_ids = td.comb_ids(), td.ff_ids()
    for i, order in enumerate(rtlgen.linear_extensions(rng, comb_ids, edges, n_ext if td.n_real <= 150 else max(1, n_ext // 2))):
      fo = list(ff_ids); rng.shuffle(fo)
      rs2 = LibSim(factory, td, 'simple', comb_order=order, ff_order=fo)
      tr2, _ = rtlgen.run_real(rs2, cycles, rerun=False)
      runs.append((f'forced-simple-{i}', [('b', x) for x in tr.expand_order(order)], True, fo, tr2))
  except InfraError: raise
  except Exception as e:
    ck.hist('library_real_exception', type(e).__name__)
    # an input sequence the real blocks do not survive (e.g. a variable index beyond a list whose length is not a power of
    # two: IndexError): keep the prefix before the failing cycle and try once more
    k = failing_cycle(factory, td, cycles) if _retry is None else None
    if k is not None and k >= 3:
      return one_design(ck, rng, name, factory, opts, k, n_ext, flows, rec, _cycles=cycles[:k], _retry={'at_cycle': k, 'exception': f'{type(e).__name__}: {e}'[:200]})
    rec.update(status='real-simulation-raised', reason=f'{type(e).__name__}: {e}'[:300])
    return None
  rec['schedules'] = [r[0] for r in runs]
  if _retry is not None: rec['inputs_truncated'] = _retry
  rec['scc_in_default_schedule'] = not runs[0][2]
  return td, cycles, ref_trace, runs, ref

def run_library(ck):
  t_start = time.time()
  rng = random.Random(ck.rng.getrandbits(64))
  rtlgen.quiet_dump_dag()
  quick = ck.tier == 'quick'
  n_ext = 2 if quick else 4
  recs, lines, meta = [], [], []
  for (name, factory, opts) in designs(ck.tier):
    rec = {'design': name}
    recs.append(rec)
    ncycles = opts['cycles'] or (rng.randint(24, 32) if quick else rng.randint(60, 100))
    # DefaultPassGroup always; the other pass groups of C01: one picked at random (quick) / all (thorough)
    flows = ['default'] + ([rng.choice(['simple', 'heutopo', 'mamba', 'unroll'])] if quick else ['simple', 'heutopo', 'mamba', 'unroll'])
    res = one_design(ck, rng, name, factory, opts, ncycles, n_ext, flows, rec)
    if res is None:
      ck.hist('library_design', rec['status']); continue
    td, cycles, ref_trace, runs, ref = res
    d = td.sexp()
    lines.append(leanio.line('rtl', 'check', d)); meta.append(('check', rec, td, None, res))
    for run in runs:
      label, entries, flat, fo, trace = run
      if flat: lines.append(leanio.line('rtl', 'topo', d, [e[1] for e in entries]))
      else: lines.append(leanio.line('rtl', 'entries', d, sexp_entries(entries)))
      meta.append(('topo', rec, td, run, res))
      lines.append(leanio.line('rtl', 'sim', d, sexp_entries(entries), list(fo), [[list(p) for p in c] for c in cycles]))
      meta.append(('sim', rec, td, run, res))
  t_real = time.time() - t_start
  replies = ck.drv('rtl').batch(lines) if lines else []
  for (kind, rec, td, run, res), rep in zip(meta, replies):
    _, cycles, ref_trace, runs, ref = res
    name, n = td.uid, td.n_real
    paths = [s.path for s in td.sigs]
    if kind == 'check':
      parts = rep.split()
      rec['noSelf'], rec['singleWriter'] = parts[1] == '1', parts[2] == '1'
      rec['wfBlocks'] = rec['noSelf'] and rec['singleWriter']
      ck.hist('library_wfBlocks', rec['wfBlocks'])
      if not rec['singleWriter']:
        ck.disagreement('pymtl2rtl/Model≈library simulation', {'design': name, 'what': 'translated design has two writers of one bit'}, rep, 'elaborated by pymtl3')
      if rec['noSelf'] != (not ref.self_read):
        ck.disagreement('pymtl2rtl/Model≈library simulation', {'design': name, 'what': 'noSelf'}, rep, {'python_footprints_self_read': ref.self_read})
      for (flow, k, blkname) in rec.get('rerun_fails', []):
        ck.violation('rerun-changes-state', {'flow': flow, 'design': name}, {'design': name, 'inputs': cycles, 'signals': paths},
                     {'cycle': k, 'block': blkname, 'oracle': 're-running a comb block after evaluation must change no signal'})
      # the C01 property on the real library design: all legal schedules give the same values
      base = runs[0]
      for r in runs[1:]:
        if r[4] != base[4]:
          k, ph, sg = first_diff(r[4], base[4])
          ck.violation('schedules-differ', {'flows': [base[0], r[0]], 'design': name},
                       {'design': name, 'inputs': cycles, 'signals': paths, 'order_a': base[1], 'order_b': r[1]},
                       {'cycle': k, 'phase': ph, 'signals': [paths[i] for i in sg], 'a': base[4][k], 'b': r[4][k],
                        'oracle': 'two legal schedules of the same library design must give identical values'})
      if ref_trace is not None:
        rt = [(a[:n], b[:n]) for a, b in ref_trace]
        if rt != [(list(a), list(b)) for a, b in base[4]]:
          k, ph, sg = first_diff(rt, base[4])
          rec['reference_differs'] = True
          ck.violation('library-differs-from-translated-dataflow', {'design': name},
                       {'design': name, 'inputs': cycles, 'signals': paths},
                       {'cycle': k, 'phase': ph, 'signals': [paths[i] for i in sg], 'impl': [base[4][k][0 if ph.endswith('combinational') else 1][i] for i in sg],
                        'ref': [rt[k][0 if ph.endswith('combinational') else 1][i] for i in sg],
                        'oracle': 'the real simulation must equal an independent Python evaluation of the dataflow translated from the same source (pymtl2rtl + LibRefSim)'})
      continue
    label, entries, flat, fo, trace = run
    if kind == 'topo':
      parts = rep.split()
      ok = (rep == 'topo 1 1') if flat else (parts[1] == '1' and parts[3] == '1' and parts[4] == '1')
      rec.setdefault('schedule_legal_in_model', {})[label] = ok
      if not ok and rec.get('noSelf'):
        ck.disagreement('library schedule not topological in the translated model', {'design': name, 'flow': label, 'entries': sexp_entries(entries)}, rep, 'scheduled')
      continue
    nblk = sum(1 if e[0] == 'b' else len(e[1]) for e in entries)
    ck.count({'library': name, 'flow': label, 'order': h(entries), 'ff': list(fo), 'inputs': h(cycles)}, nontrivial=True)
    ck.hist('library_flow', label.rsplit('-', 1)[0] if label.startswith('forced') else label)
    rec['evaluations'] = rec.get('evaluations', 0) + 1
    rec['cycles'] = len(cycles)
    got = rtlgen.parse_sim_reply(rep)
    if isinstance(got, tuple):
      ck.disagreement('pymtl2rtl/Model≈library simulation', {'design': name, 'flow': label, 'inputs': cycles}, rep, 'ran')
      rec['lean_differs'] = True
      continue
    got = [(a[:n], b[:n]) for a, b in got]
    if got != [(list(a), list(b)) for a, b in trace]:
      k, ph, sg = first_diff(got, trace)
      rec['lean_differs'] = True
      if not rec.get('reference_differs'):
        ck.disagreement('pymtl2rtl/Model≈library simulation', {'design': name, 'flow': label, 'inputs': cycles, 'signals': paths, 'entries': sexp_entries(entries), 'ff': list(fo)},
                        {'cycle': k, 'phase': ph, 'signals': [paths[i] for i in sg], 'model': [got[k][0 if ph.endswith('combinational') else 1][i] for i in sg]},
                        {'cycle': k, 'impl': [trace[k][0 if ph.endswith('combinational') else 1][i] for i in sg]})
  for rec in recs:
    if rec['status'] == 'translated':
      rec['status'] = 'simulated' if rec.get('evaluations') else 'translated-not-simulated'
      ck.hist('library_design', 'agrees' if not (rec.get('lean_differs') or rec.get('reference_differs')) else 'differs')
  ck.extra_cov['library_designs'] = recs
  ck.extra_cov['library_summary'] = {
    'designs': len(recs), 'simulated': sum(1 for r in recs if r['status'] == 'simulated'),
    'untranslatable': sum(1 for r in recs if r['status'] == 'untranslatable'),
    'wfBlocks_holds': sum(1 for r in recs if r.get('wfBlocks')), 'wfBlocks_fails': sum(1 for r in recs if r.get('wfBlocks') is False),
    'evaluations': sum(r.get('evaluations', 0) for r in recs),
    'real_and_translate_s': round(t_real, 1), 'wall_s': round(time.time() - t_start, 1)}

def h(x):
  import hashlib, json
  return hashlib.sha256(json.dumps(x, sort_keys=True, default=str).encode()).hexdigest()[:10]

def replay(ck, data):
  """re-run a recorded library case: translate the named design again, simulate the recorded inputs on the real
  simulator (DefaultPassGroup), in LibRefSim and in the driver; print the first difference; 1 if any, else 0"""
  case = data.get('case') or {}
  name, cycles = case.get('design'), case.get('inputs')
  hit = [d for t in ('quick', 'thorough') for d in designs(t) if d[0] == name]
  if not hit or cycles is None:
    print(f'cannot replay: design {name!r} / inputs not recorded'); return 1
  _, factory, opts = hit[0]
  cycles = [[tuple(p) for p in c] for c in cycles]
  rtlgen.quiet_dump_dag()
  top = factory(); top.elaborate()
  tr = pymtl2rtl.Translator(top).run()
  td = TDesign(name, tr)
  rs = LibSim(factory, td, 'default')
  entries, flat = model_entries(rs, tr)
  real, _ = rtlgen.run_real(rs, cycles, rerun=False)
  ref = LibRefSim(tr)
  rt = [ref.cycle(c) for c in cycles]
  rt = [(a[:td.n_real], b[:td.n_real]) for a, b in rt]
  rep = ck.drv('rtl').batch([leanio.line('rtl', 'sim', td.sexp(), sexp_entries(entries), rs.ff_entries(), [[list(p) for p in c] for c in cycles])])[0]
  got = rtlgen.parse_sim_reply(rep)
  paths = [s.path for s in td.sigs]
  bad = 0
  for label, other in (('translated dataflow (LibRefSim)', rt), ('Lean model', got if isinstance(got, tuple) else [(a[:td.n_real], b[:td.n_real]) for a, b in got])):
    if isinstance(other, tuple): print(label, other); bad = 1; continue
    d = first_diff(other, real)
    if d is None: print(f'{name}: real simulation == {label} on {len(cycles)} cycles'); continue
    k, ph, sg = d
    bad = 1
    print(f'{name}: real simulation != {label} at cycle {k} {ph}:')
    for i in sg[:20]: print(f'   {paths[i]}: real {real[k][0 if ph.endswith("combinational") else 1][i]:#x}  other {other[k][0 if ph.endswith("combinational") else 1][i]:#x}')
  return bad
