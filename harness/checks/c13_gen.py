"""Design generator of the C13 check.

Every design is one Python module file (real classes, so inspect.getsource works) with a `make_top()` function.
The generated hierarchy mixes own parametrised templates (ports, port arrays, interfaces, interface arrays, structs,
constants / free variables, many update blocks with shuffled names, lambda connections, update_ff) with stdlib
components (queues, arbiters, crossbar, register file, registers, mux), 2-3 levels deep, with several instances of one
class under equal and under different parameters.  Instance / block / port names are drawn from a shuffled pool so that
creation order differs from every sorted order.

`ALIAS_STREAMS` are the labelled aliasing probes: small two-instance designs built to make two different components
meet (or not meet) on one module name.
"""
import os

WORDS = ['zeta', 'alpha', 'mid', 'b10', 'b2', 'omega', 'k9', 'k10', 'Beta', 'aa', 'a9', 'x1', 'x01', 'q', 'Q', 'm_2', 'm2',
         'delta', 'eps', 'u', 'w', 'n7', 'n70', 'yy', 'Yx', 'c_c', 'cc', 'r0', 'r00', 't', 'pq', 'lam', 'gam', 'h', 'i_n', 'o']

HELPERS = '''
def _expose( s, child, prefix ):
  """give every port of `child` (clk/reset aside) a port of the parent and connect the two"""
  def mirror( obj, name ):
    if isinstance( obj, InPort ):
      p = InPort( obj._dsl.Type ); return p
    if isinstance( obj, OutPort ):
      p = OutPort( obj._dsl.Type ); return p
    return None
  def walk( obj, name ):
    if isinstance( obj, (InPort, OutPort) ):
      p = mirror( obj, name )
      setattr( s, name, p )
      connect( p, obj )
    elif isinstance( obj, list ) and obj and all( isinstance( x, (InPort, OutPort) ) for x in obj ):
      ps = [ mirror( x, name ) for x in obj ]
      setattr( s, name, ps )
      for p, x in zip( ps, obj ): connect( p, x )
    elif isinstance( obj, list ) and obj and all( isinstance( x, Interface ) for x in obj ):
      for i, x in enumerate( obj ):
        for k, v in list( x.__dict__.items() ):
          if not k.startswith('_'): walk( v, f'{name}_j{i}_{k}' )
    elif isinstance( obj, Interface ):
      for k, v in list( obj.__dict__.items() ):
        if not k.startswith('_'): walk( v, f'{name}_{k}' )
  for k, v in list( child.__dict__.items() ):
    if k.startswith('_') or k in ('clk', 'reset'): continue
    walk( v, f'{prefix}_{k}' )
'''

class Gen:
  def __init__(self, rng, uid):
    self.rng, self.u = rng, uid
    self.lines = []
    self.features = set()
    self.structs = []          # (class name, [(field, typename)])
    self._names = {}

  def names(self, scope, n):
    """n distinct identifiers in creation order != sorted order"""
    pool = WORDS[:]
    self.rng.shuffle(pool)
    return pool[:n]

  def emit(self, text):
    self.lines.append(text)

  # ---------------------------------------------------------------- data types
  def gen_structs(self):
    u, rng = self.u, self.rng
    n = rng.choice([1, 2, 2, 3])
    for i in range(n):
      nf = rng.choice([1, 2, 3, 5]) if i else rng.choice([2, 3])
      fields = [('a', 'Bits4')]
      for j in range(nf - 1):
        fname = rng.choice(['b', 'cnt', 'payload', 'f%d' % j, 'tag_%d' % j, 'x', 'opaque']) + ('' if j == 0 else str(j))
        kinds = ['Bits%d' % rng.choice([1, 3, 8, 16, 32])]
        if i > 0 and rng.random() < 0.4: kinds.append(self.structs[0][0])
        fields.append((fname, rng.choice(kinds)))
      # a long struct: >= 64 characters of full name -> hashed struct name
      if i == n - 1 and rng.random() < 0.4:
        fields += [('very_long_field_name_%d' % j, 'Bits%d' % (j + 2)) for j in range(4)]
        self.features.add('long-struct')
      name = f'St{i}_{u}'
      self.structs.append((name, fields))
      self.emit('@bitstruct\nclass %s:\n%s\n' % (name, '\n'.join(f'  {f}: {t}' for f, t in fields)))

  def type_expr(self, allow_struct=True):
    rng = self.rng
    if allow_struct and self.structs and rng.random() < 0.3:
      self.features.add('struct-param')
      return rng.choice(self.structs)[0]
    return 'Bits%d' % rng.choice([4, 8, 8, 16, 32])

  # ---------------------------------------------------------------- templates
  def gen_templates(self):
    u, rng = self.u, self.rng
    self.emit(f'''
class InVR_{u}( Interface ):
  def construct( s, Type ):
    s.val = InPort(); s.msg = InPort( Type ); s.rdy = OutPort()

class OutVR_{u}( Interface ):
  def construct( s, Type ):
    s.rdy = InPort(); s.msg = OutPort( Type ); s.val = OutPort()

class Add_{u}( Component ):
  def construct( s, Type, k=1 ):
    s.out = OutPort( Type ); s.in_ = InPort( Type )
    @update
    def up_add():
      s.out @= s.in_ + k

class Pass_{u}( Component ):
  def construct( s, Type ):
    s.out = OutPort( Type ); s.in_ = InPort( Type )
    s.out //= s.in_

class RegEnR_{u}( Component ):
  def construct( s, nbits, rst=0 ):
    T = mk_bits( nbits )
    s.out = OutPort( T ); s.en = InPort(); s.in_ = InPort( T )
    s.r = Wire( T )
    @update_ff
    def ff_r():
      if s.reset: s.r <<= rst
      elif s.en:  s.r <<= s.in_
    s.out //= s.r

class MuxN_{u}( Component ):
  def construct( s, Type, n ):
    s.sel = InPort( mk_bits( max( 1, clog2( n ) ) ) )
    s.out = OutPort( Type )
    s.in_ = [ InPort( Type ) for _ in range( n ) ]
    @update
    def up_mux():
      s.out @= s.in_[ s.sel ]

class IfcStage_{u}( Component ):
  def construct( s, Type ):
    s.send = OutVR_{u}( Type ); s.recv = InVR_{u}( Type )
    s.bufr = Wire( Type ); s.full = Wire()
    s.send.msg //= s.bufr
    s.send.val //= lambda: s.full & ~s.reset
    s.recv.rdy //= lambda: ~s.full | s.send.rdy
    @update_ff
    def ff_buf():
      if s.reset: s.full <<= 0
      elif s.recv.val & s.recv.rdy:
        s.full <<= 1
        s.bufr <<= s.recv.msg
      elif s.send.rdy: s.full <<= 0

class IfcArr_{u}( Component ):
  def construct( s, Type, n ):
    s.send = [ OutVR_{u}( Type ) for _ in range( n ) ]
    s.recv = [ InVR_{u}( Type ) for _ in range( n ) ]
    for i in range( n ):
      s.send[i].msg //= s.recv[i].msg
      s.send[i].val //= s.recv[i].val
      s.recv[i].rdy //= s.send[i].rdy

class ConstUser_{u}( Component ):
  def construct( s, nbits, k ):
    T = mk_bits( nbits )
    s.sel = InPort( Bits2 ); s.in_ = InPort( T ); s.out = OutPort( T ); s.out2 = OutPort( T )
    s.K = T( k )
    s.K2 = T( (k + 3) % 4 )
    c = 2*k + 1
    @update
    def up_const():
      s.out @= s.in_ + s.K + c
    @update
    def up_tbl():
      s.out2 @= 0
      for i in range( 4 ):
        if s.sel == i:
          s.out2 @= s.in_ + s.K2 + i
''')
    # struct unit: field-wise update of field `a`, which every generated struct has
    self.emit(f'''
class StructUnit_{u}( Component ):
  def construct( s, SType ):
    s.out = OutPort( SType ); s.in_ = InPort( SType ); s.a_inc = OutPort( Bits4 )
    @update
    def up_struct():
      s.out @= s.in_
      s.a_inc @= s.in_.a + 1
''')
    # many blocks with shuffled names; the sequential ones drive registers
    nb = rng.choice([4, 6, 9])
    bnames = self.names('blk', nb)
    body = [f'class ManyBlk_{u}( Component ):', '  def construct( s, Type ):', '    s.in_ = InPort( Type )']
    for i, b in enumerate(bnames):
      body.append(f'    s.o_{b} = OutPort( Type )')
      if i % 3 == 2:
        body += [f'    s.r_{b} = Wire( Type )', '    @update_ff', f'    def {b}():', f'      s.r_{b} <<= s.in_ + {i}',
                 f'    s.o_{b} //= s.r_{b}']
      elif i % 3 == 1:
        body += [f'    s.o_{b} //= lambda: s.in_ ^ {i}']
      else:
        body += ['    @update', f'    def {b}():', f'      s.o_{b} @= s.in_ + {i}']
    self.emit('\n'.join(body) + '\n')
    self.nblk = nb
    # a mid-level component: an array of adders with DIFFERENT parameters, a register, a stdlib mux
    self.emit(f'''
class Mid_{u}( Component ):
  def construct( s, Type, n, kmod ):
    s.out = OutPort( Type ); s.in_ = InPort( Type ); s.en = InPort(); s.sel = InPort( mk_bits( max( 1, clog2( n ) ) ) )
    s.adds = [ Add_{u}( Type, i % kmod ) for i in range( n ) ]
    s.mux = Mux( Type, n )
    s.reg_ = RegEnRst( Type, 0 )
    s.adds[0].in_ //= s.in_
    for i in range( 1, n ):
      s.adds[i].in_ //= s.adds[i-1].out
    for i in range( n ):
      s.mux.in_[i] //= s.adds[i].out
    s.mux.sel //= s.sel
    s.reg_.in_ //= s.mux.out
    s.reg_.en //= s.en
    s.out //= s.reg_.out

class Deep_{u}( Component ):
  def construct( s, Type, n ):
    s.in_ = InPort( Type ); s.out = OutPort( Type ); s.en = InPort(); s.sel = InPort( mk_bits( max( 1, clog2( n ) ) ) )
    s.m_b = Mid_{u}( Type, n, 2 )
    s.m_a = Mid_{u}( Type, n, 2 )
    s.st = IfcStage_{u}( Type )
    s.m_b.in_ //= s.in_
    s.m_a.in_ //= s.m_b.out
    s.m_a.en //= s.en; s.m_b.en //= s.en
    s.m_a.sel //= s.sel; s.m_b.sel //= s.sel
    s.st.recv.msg //= s.m_a.out
    s.st.recv.val //= s.en
    s.st.send.rdy //= s.en
    s.out //= s.st.send.msg
''')

  # ---------------------------------------------------------------- the top
  def inst_expr(self):
    """(constructor expression, feature label)"""
    u, rng = self.u, self.rng
    T = self.type_expr
    bits = lambda: rng.choice([4, 8, 16, 32])
    menu = [
      (lambda: f'Add_{u}( {T(False)}, {rng.choice([0, 1, 1, 2, 3])} )', 'add'),
      (lambda: f'Add_{u}( {T(False)} )', 'add-default'),
      (lambda: f'Pass_{u}( {T()} )', 'pass'),
      (lambda: f'RegEnR_{u}( {bits()}, {rng.choice([0, 1, 5])} )', 'regen'),
      (lambda: f'RegEnR_{u}( rst={rng.choice([0, 1])}, nbits={bits()} )', 'regen-kw'),
      (lambda: f'MuxN_{u}( {T()}, {rng.choice([2, 3, 4])} )', 'muxn'),
      (lambda: f'IfcStage_{u}( {T()} )', 'ifcstage'),
      (lambda: f'IfcArr_{u}( {T(False)}, {rng.choice([1, 2, 3])} )', 'ifcarr'),
      (lambda: f'ConstUser_{u}( {bits()}, {rng.choice([1, 2, 3])} )', 'const'),
      (lambda: f'StructUnit_{u}( {rng.choice(self.structs)[0]} )', 'struct'),
      (lambda: f'ManyBlk_{u}( {T(False)} )', 'manyblk'),
      (lambda: f'Mid_{u}( {T(False)}, {rng.choice([2, 3, 4, 12])}, {rng.choice([1, 2, 3, 12])} )', 'mid'),
      (lambda: f'Deep_{u}( {T(False)}, {rng.choice([2, 4])} )', 'deep'),
      (lambda: f'{rng.choice(["NormalQueueRTL", "PipeQueueRTL", "BypassQueueRTL"])}( {T()}, {rng.choice([1, 2, 4])} )', 'queue'),
      (lambda: f'{rng.choice(["RoundRobinArbiter", "RoundRobinArbiterEn"])}( {rng.choice([2, 3, 4])} )', 'arbiter'),
      (lambda: f'Crossbar( {rng.choice([2, 3])}, {T(False)} )', 'crossbar'),
      (lambda: f'RegisterFile( {T(False)}, {rng.choice([2, 4, 8])}, {rng.choice([1, 2])}, {rng.choice([1, 2])}, {rng.choice(["True", "False"])} )', 'regfile'),
      (lambda: f'RegEnRst( {T(False)}, {rng.choice([0, 1])} )', 'regenrst'),
      (lambda: f'Mux( {T()}, {rng.choice([2, 4])} )', 'stdmux'),
    ]
    f, lab = rng.choice(menu)
    return f(), lab

  def gen_top(self, n_inst):
    u, rng = self.u, self.rng
    inames = self.names('inst', n_inst)
    body = [f'class Top_{u}( Component ):', '  def construct( s ):']
    for nm in inames:
      if rng.random() < 0.2:
        # an array of instances of one class with different parameters; with > 10 elements the walk order
        # (sorted by repr: s.x[10] before s.x[2]) differs from the index order
        k = rng.choice([2, 3, 3, 11, 13])
        if k > 10:
          ks = list(range(k)); rng.shuffle(ks)
          body.append(f'    s.{nm} = [ Add_{u}( Bits8, k ) for k in {ks} ]')
          body.append(f'    for i in range( {k} ): _expose( s, s.{nm}[i], "{nm}_e%d" % i )')
          self.features.add('inst-array-wide')
          continue
        exprs = [f'Add_{u}( Bits8, {rng.choice([0, 1, 2])} )' for _ in range(k)]
        body.append(f'    s.{nm} = [ {", ".join(exprs)} ]')
        body.append(f'    for i in range( {k} ): _expose( s, s.{nm}[i], "{nm}_e%d" % i )')
        self.features.add('inst-array')
      else:
        e, lab = self.inst_expr()
        self.features.add(lab)
        body.append(f'    s.{nm} = {e}')
        body.append(f'    _expose( s, s.{nm}, "{nm}" )')
    self.emit('\n'.join(body) + '\n')
    self.emit(f'def make_top():\n  return Top_{u}()\n')

  def source(self):
    hdr = ('from pymtl3 import *\n'
           'from pymtl3.stdlib.basic_rtl import Mux, RegEnRst, RoundRobinArbiter, RoundRobinArbiterEn, Crossbar, RegisterFile\n'
           'from pymtl3.stdlib.queues import NormalQueueRTL, PipeQueueRTL, BypassQueueRTL\n')
    return hdr + HELPERS + '\n' + '\n'.join(self.lines)

def gen_design(rng, uid, n_inst=None):
  g = Gen(rng, uid)
  g.gen_structs()
  g.gen_templates()
  g.gen_top(n_inst or rng.choice([3, 4, 5, 6, 8]))
  return {'uid': uid, 'kind': 'generated', 'module': f'c13_d{uid}', 'source': g.source(), 'features': sorted(g.features)}

# ---------------------------------------------------------------------- stdlib / example designs

BUILTIN = [
  ('cksum', 'from examples.ex02_cksum.ChecksumRTL import ChecksumRTL\ndef make_top():\n  return ChecksumRTL()\n'),
  ('proc', 'from examples.ex03_proc.ProcRTL import ProcRTL\ndef make_top():\n  return ProcRTL()\n'),
  ('cksum_xcel', 'from examples.ex04_xcel.ChecksumXcelRTL import ChecksumXcelRTL\ndef make_top():\n  return ChecksumXcelRTL()\n'),
  ('nq32x4', 'from pymtl3 import *\nfrom pymtl3.stdlib.queues import NormalQueueRTL\ndef make_top():\n  return NormalQueueRTL( Bits32, 4 )\n'),
  ('bq16x2s', 'from pymtl3 import *\nfrom pymtl3.stdlib.stream.queues import BypassQueueRTL\ndef make_top():\n  return BypassQueueRTL( Bits16, 2 )\n'),
  ('pq8x1s', 'from pymtl3 import *\nfrom pymtl3.stdlib.stream.queues import PipeQueueRTL\ndef make_top():\n  return PipeQueueRTL( Bits8, 1 )\n'),
  ('xbar4', 'from pymtl3 import *\nfrom pymtl3.stdlib.basic_rtl import Crossbar\ndef make_top():\n  return Crossbar( 4, Bits16 )\n'),
  ('rf', 'from pymtl3 import *\nfrom pymtl3.stdlib.basic_rtl import RegisterFile\ndef make_top():\n  return RegisterFile( Bits32, 8, 2, 2, True )\n'),
  ('arb5', 'from pymtl3 import *\nfrom pymtl3.stdlib.basic_rtl import RoundRobinArbiterEn\ndef make_top():\n  return RoundRobinArbiterEn( 5 )\n'),
]

def builtin_designs():
  return [{'uid': name, 'kind': 'builtin', 'module': f'c13_b_{name}', 'source': src, 'features': ['builtin']}
          for name, src in BUILTIN]

# ---------------------------------------------------------------------- labelled aliasing probes

def _two(u, decls, a_expr, b_expr, T='Bits8'):
  return (f'from pymtl3 import *\n{decls}\n'
          f'class Top_{u}( Component ):\n  def construct( s ):\n'
          f'    s.in_ = InPort( {T} ); s.o1 = OutPort( {T} ); s.o2 = OutPort( {T} )\n'
          f'    s.a = {a_expr}; s.b = {b_expr}\n'
          f'    s.a.in_ //= s.in_; s.b.in_ //= s.in_\n    s.a.out //= s.o1; s.b.out //= s.o2\n'
          f'def make_top():\n  return Top_{u}()\n')

def _inner(name, body, params='', pre=''):
  return (f'class {name}( Component ):\n  def construct( s{params} ):\n'
          f'    s.in_ = InPort( Bits8 ); s.out = OutPort( Bits8 )\n{pre}'
          f'    @update\n    def up():\n      s.out @= {body}\n')

def alias_probe(rng, uid, stream):
  """returns a design dict with 'stream' and 'expect' ('alias' | 'clean' | 'illegal' | 'nondet')"""
  u = uid
  k1, k2 = rng.sample(range(1, 9), 2)
  extra = []
  if stream == 'factory-same-name-different-body':
    decls = (f'def mk( k ):\n  class Inner_{u}( Component ):\n    def construct( s ):\n'
             f'      s.in_ = InPort( Bits8 ); s.out = OutPort( Bits8 )\n'
             f'      @update\n      def up():\n        s.out @= s.in_ + k\n  return Inner_{u}\n'
             f'A = mk( {k1} ); B = mk( {k2} )\n')
    src, expect = _two(u, decls, 'A()', 'B()'), 'alias'
  elif stream == 'two-modules-same-name-different-body':
    extra = [(f'c13_p{u}_m1', 'from pymtl3 import *\n' + _inner(f'Inner_{u}', f's.in_ + {k1}')),
             (f'c13_p{u}_m2', 'from pymtl3 import *\n' + _inner(f'Inner_{u}', f's.in_ ^ {k2}'))]
    decls = f'import c13_p{u}_m1 as m1, c13_p{u}_m2 as m2\n'
    src, expect = _two(u, decls, f'm1.Inner_{u}()', f'm2.Inner_{u}()'), 'alias'
  elif stream == 'stdlib-same-name-two-packages':
    # pymtl3.stdlib.queues.NormalQueueRTL (enq/deq) and pymtl3.stdlib.stream.queues.NormalQueueRTL (recv/send)
    n = rng.choice([2, 4]); w = rng.choice([8, 16])
    src = (f'from pymtl3 import *\nfrom pymtl3.stdlib.queues import NormalQueueRTL as Q1\n'
           f'from pymtl3.stdlib.stream.queues import NormalQueueRTL as Q2\n'
           f'class Top_{u}( Component ):\n  def construct( s ):\n'
           f'    s.a = Q1( Bits{w}, {n} ); s.b = Q2( Bits{w}, {n} )\n'
           f'    s.i1 = InPort( Bits{w} ); s.i2 = InPort( Bits{w} ); s.o1 = OutPort( Bits{w} ); s.o2 = OutPort( Bits{w} )\n'
           f'    s.en1 = InPort(); s.en2 = InPort(); s.v = InPort(); s.r = InPort()\n'
           f'    s.a.enq.msg //= s.i1; s.a.enq.en //= s.en1; s.a.deq.en //= s.en2; s.o1 //= s.a.deq.ret\n'
           f'    s.b.recv.msg //= s.i2; s.b.recv.val //= s.v; s.b.send.rdy //= s.r; s.o2 //= s.b.send.msg\n'
           f'def make_top():\n  return Top_{u}()\n')
    expect = 'alias'
  elif stream == 'factory-same-name-same-body':
    decls = (f'def mk( k ):\n  class Inner_{u}( Component ):\n    def construct( s ):\n'
             f'      s.in_ = InPort( Bits8 ); s.out = OutPort( Bits8 )\n'
             f'      @update\n      def up():\n        s.out @= s.in_ + {k1}\n  return Inner_{u}\n'
             f'A = mk( 1 ); B = mk( 2 )\n')
    src, expect = _two(u, decls, 'A()', 'B()'), 'clean'
  elif stream == 'param-image-type-dependent':
    pair = rng.choice([('1', '"1"'), ('Bits4( 3 )', '3'), ('None', '"None"'), ('Bits4', '"Bits4"'), ('True', '"True"'), ('7', 'Bits3( 7 )')])
    pre = (f'    k = {k1} if isinstance( p, (str, Bits) ) else {k2}\n')
    decls = _inner(f'Inner_{u}', 's.in_ + k', ', p', pre)
    src, expect = _two(u, decls, f'Inner_{u}( {pair[0]} )', f'Inner_{u}( {pair[1]} )'), 'alias'
  elif stream == 'param-image-type-independent':
    pair = rng.choice([('1', '"1"'), ('Bits4( 3 )', '3'), ('None', '"None"')])
    decls = _inner(f'Inner_{u}', f's.in_ + {k1}', ', p')
    src, expect = _two(u, decls, f'Inner_{u}( {pair[0]} )', f'Inner_{u}( {pair[1]} )'), 'clean'
  elif stream == 'type-vs-struct-named-like-it':
    # a bitstruct class called Bits4 as a parameter vs the Bits4 type: names differ because struct names carry the fields
    decls = ('@bitstruct\nclass Bits4:\n  a: Bits8\n' + 'RealBits4 = mk_bits( 4 )\n' +
             _inner(f'Inner_{u}', 's.in_ + k', ', T', f'    k = {k1} if T is Bits4 else {k2}\n'))
    src, expect = _two(u, decls, f'Inner_{u}( Bits4 )', f'Inner_{u}( RealBits4 )'), 'clean'
  elif stream == 'long-params':
    n = rng.choice([5, 7, 9])
    names = [f'parameter_number_{i}' for i in range(n)]
    va = [rng.randrange(100) for _ in range(n)]
    vb = list(va); vb[rng.randrange(n)] += 1
    decls = _inner(f'Inner_{u}', 's.in_ + k', ''.join(', ' + x for x in names), f'    k = ({"+".join(names)}) % 200\n')
    src = _two(u, decls, f'Inner_{u}( {", ".join(map(str, va))} )', f'Inner_{u}( {", ".join(map(str, vb))} )')
    expect = 'clean'
  elif stream == 'special-char-params':
    pa, pb = rng.sample(['"a b"', '"a.b"', '"x<y"', '"x>y"', '"q[0]"', '[1, 2]', '[1, 3]', '1.5', '2.5', '"a  b"', '(1, 2)', '(1, 3)'], 2)
    decls = _inner(f'Inner_{u}', 's.in_ + k', ', p', '    k = len( str( p ) ) + sum( ord( c ) for c in str( p ) ) % 50\n')
    src, expect = _two(u, decls, f'Inner_{u}( {pa} )', f'Inner_{u}( {pb} )'), 'clean'
  elif stream == 'set-valued-params':
    # a set / frozenset parameter, alone or nested in a tuple / list / dict: str() of a set follows its iteration order, which for
    # strings depends on PYTHONHASHSEED; the module name must not (fix R12 set-param-hashseed, R13 nested-set-param-hashseed)
    words = rng.sample(['add', 'sub', 'xor', 'and', 'or', 'sll', 'srl', 'mul', 'min', 'max'], rng.randint(4, 7))
    wa = repr(set(words))[1:-1]; wb = repr(set(words[:-1]))[1:-1]
    form = rng.choice(['frozenset', 'set', 'tuple', 'list', 'dict'])
    mk = {'frozenset': 'frozenset({{ {0} }})', 'set': '{{ {0} }}', 'tuple': '( frozenset({{ {0} }}), 8 )',
          'list': '[ 3, {{ {0} }} ]', 'dict': '{{ "ops": frozenset({{ {0} }}) }}'}[form]
    decls = _inner(f'Inner_{u}', 's.in_ + k', ', p', '    k = len( str( p ) ) % 50\n')
    src, expect = _two(u, decls, f'Inner_{u}( {mk.format(wa)} )', f'Inner_{u}( {mk.format(wb)} )'), 'clean'
  elif stream == 'non-identifier-params':
    pa = rng.choice(['-1', '-2', '(1,)', '1e20', '"a/b"', '"a-b"', '{}', '"x+y"', '"a:b"', '-1.0e5'])
    decls = _inner(f'Inner_{u}', f's.in_ + {k1}', ', p')
    src, expect = _two(u, decls, f'Inner_{u}( {pa} )', f'Inner_{u}( 1 )'), 'illegal'
  elif stream == 'struct-same-name-different-fields':
    fa, fb = rng.sample(['Bits4', 'Bits8', 'Bits16'], 2)
    decls = (f'def mks( T ):\n  @bitstruct\n  class Pt_{u}:\n    a: Bits8\n    b: T\n  return Pt_{u}\n'
             f'SA = mks( {fa} ); SB = mks( {fb} )\n'
             f'class Inner_{u}( Component ):\n  def construct( s, S ):\n'
             f'    s.in_ = InPort( Bits8 ); s.out = OutPort( Bits8 ); s.w = Wire( S )\n'
             f'    @update\n    def up():\n      s.w.a @= s.in_\n      s.w.b @= 1\n      s.out @= s.w.a\n')
    src, expect = _two(u, decls, f'Inner_{u}( SA )', f'Inner_{u}( SB )'), 'clean'
  elif stream == 'object-repr-param':
    decls = (f'class Cfg_{u}:\n  def __init__( s, k ): s.k = k\n' +
             _inner(f'Inner_{u}', 's.in_ + k', ', cfg', '    k = cfg.k\n'))
    src, expect = _two(u, decls, f'Inner_{u}( Cfg_{u}( {k1} ) )', f'Inner_{u}( Cfg_{u}( {k2} ) )'), 'nondet'
  elif stream == 'set-param-different-values':
    # a construct argument given through top.set_param(...): it is part of the component's parameters
    a1, a2 = rng.sample([1, 2, 3, 5, 7, 11], 2)
    nb = rng.choice([4, 8, 16])
    decls = (f'class Inc_{u}( Component ):\n  def construct( s, nbits={nb}, amt={a1} ):\n'
             f'    s.in_ = InPort( nbits ); s.out = OutPort( nbits )\n'
             f'    @update\n    def up_inc():\n      s.out @= s.in_ + amt\n')
    how = rng.choice(['b', 'both', 'kw'])
    src = (f'from pymtl3 import *\n{decls}\n'
           f'class Top_{u}( Component ):\n  def construct( s ):\n'
           f'    s.in_ = InPort( {nb} ); s.o1 = OutPort( {nb} ); s.o2 = OutPort( {nb} )\n'
           f'    s.a = Inc_{u}(' + (f' amt={a1} ' if how == 'kw' else '') + f'); s.b = Inc_{u}()\n'
           f'    s.a.in_ //= s.in_; s.b.in_ //= s.in_\n    s.a.out //= s.o1; s.b.out //= s.o2\n'
           f'def make_top():\n  top = Top_{u}()\n  top.set_param( "top.b.construct", amt={a2} )\n' +
           (f'  top.set_param( "top.a.construct", nbits={nb} )\n' if how == 'both' else '') +
           f'  return top\n')
    expect = 'clean'
  elif stream == 'bitstruct-subclass':
    # a bitstruct deriving from another bitstruct, both used in one design, the base converted first
    w1, w2 = rng.choice([4, 8]), rng.choice([8, 16])
    first, second = ('Hdr', 'Msg')
    decls = (f'@bitstruct\nclass Hdr_{u}:\n  opaque: Bits{w1}\n\n@bitstruct\nclass Msg_{u}( Hdr_{u} ):\n  addr: Bits{w2}\n  data: Bits8\n\n'
             f'class Reg_{u}( Component ):\n  def construct( s, Type ):\n    s.in_ = InPort( Type ); s.out = OutPort( Type )\n'
             f'    @update_ff\n    def up():\n      s.out <<= s.in_\n')
    src = (f'from pymtl3 import *\n{decls}\n'
           f'class Top_{u}( Component ):\n  def construct( s ):\n'
           f'    s.hdr_in = InPort( Hdr_{u} ); s.hdr_out = OutPort( Hdr_{u} ); s.msg_in = InPort( Msg_{u} ); s.msg_out = OutPort( Msg_{u} )\n'
           f'    s.hreg = Reg_{u}( Hdr_{u} ); s.mreg = Reg_{u}( Msg_{u} )\n'
           f'    s.hreg.in_ //= s.hdr_in; s.hreg.out //= s.hdr_out; s.mreg.in_ //= s.msg_in; s.mreg.out //= s.msg_out\n'
           f'def make_top():\n  return Top_{u}()\n')
    expect = 'clean'
  elif stream == 'nested-collision-under-same-named-parents':
    # two factory classes sharing __name__, each handed as a type parameter to a wrapper: the wrappers share a module
    # name (and text), the collision sits one level below them; the translator has to refuse (or keep them apart)
    decls = (f'def mk( k ):\n  class Inner_{u}( Component ):\n    def construct( s ):\n'
             f'      s.in_ = InPort( Bits8 ); s.out = OutPort( Bits8 )\n'
             f'      @update\n      def up():\n        s.out @= s.in_ + k\n  return Inner_{u}\n'
             f'A = mk( {k1} ); B = mk( {k2} )\n'
             f'class Wrap_{u}( Component ):\n  def construct( s, T ):\n    s.in_ = InPort( Bits8 ); s.out = OutPort( Bits8 )\n'
             f'    s.inner = T()\n    s.inner.in_ //= s.in_; s.inner.out //= s.out\n')
    src, expect = _two(u, decls, f'Wrap_{u}( A )', f'Wrap_{u}( B )'), 'alias'
  elif stream == 'newline-param':
    # a string parameter that still carries its line terminator
    word = rng.choice(['wide', 'fast', 'x', 'mode_a'])
    tail = rng.choice(['\\n', '\\n', '\\r\\n', '\\t'])
    decls = (f'class Lane_{u}( Component ):\n  def construct( s, kind ):\n    k = {k1} if kind == "{word}" else {k2}\n'
             f'    s.in_ = InPort( Bits8 ); s.out = OutPort( Bits8 )\n'
             f'    @update\n    def up():\n      s.out @= s.in_ + k\n')
    src, expect = _two(u, decls, f'Lane_{u}( "{word}" )', f'Lane_{u}( "{word}{tail}" )'), 'clean'
  elif stream == 'hash-equal-params':
    # parameter values that differ but have equal hash() in CPython
    pa, pb = rng.choice([('-1', '-2'), ('-2', '-1'), ('0', '2**61-1'), ('1', '2**61'), ('2**61', '1'), ('1', 'True'), ('1.0', '1'), ('True', '1.0')])
    decls = _inner(f'Inner_{u}', 's.in_ + k', ', p', '    k = ( len( str( p ) ) * 7 + int( p ) % 5 ) % 100\n')
    src, expect = _two(u, decls, f'Inner_{u}( {pa} )', f'Inner_{u}( {pb} )'), 'clean'
  elif stream in ('explicit-name-parametrized', 'explicit-name-different-parameters', 'explicit-name-one-of-two-equal-instances'):
    # explicit_module_name on a NON-top component that has construct parameters: set inside construct() or from outside,
    # one / two instances, same / different parameters, directly under the top or one level deeper
    wa = rng.choice([4, 8, 16])
    if stream == 'explicit-name-different-parameters':
      variant, wb = rng.choice(['inside', 'outside']), rng.choice([w for w in (4, 8, 16) if w != wa])
    elif stream == 'explicit-name-one-of-two-equal-instances':
      variant, wb = 'outside-one-of-two', wa
    else:
      variant, wb = rng.choice(['inside-one', 'inside-two-same', 'outside-other-params', 'nested-inside', 'nested-outside', 'outside-both-same']), wa
      if variant == 'outside-other-params': wb = rng.choice([w for w in (4, 8, 16) if w != wa])
    inside = variant.startswith('inside') or variant in ('nested-inside',)
    ename = f'RF_{wa}x_{u}'
    rf = (f'class RF_{u}( Component ):\n  def construct( s, nbits=8, k={k1} ):\n    s.in_ = InPort( nbits ); s.out = OutPort( nbits )\n'
          + (f'    s.set_metadata( VerilogTranslationPass.explicit_module_name, "{ename}" )\n' if inside else '') +
          f'    @update\n    def up():\n      s.out @= s.in_ + k\n')
    bank = (f'class Bank_{u}( Component ):\n  def construct( s, w ):\n    s.in_ = InPort( w ); s.out = OutPort( w )\n'
            f'    s.rf = RF_{u}( w ); s.rf.in_ //= s.in_; s.out //= s.rf.out\n')
    nested = variant.startswith('nested')
    one = variant in ('inside-one',)
    ea = f'Bank_{u}( {wa} )' if nested else f'RF_{u}( {wa} )'
    eb = f'Bank_{u}( {wb} )' if nested else f'RF_{u}( {wb} )'
    top = (f'class Top_{u}( Component ):\n  def construct( s ):\n'
           f'    s.i1 = InPort( {wa} ); s.o1 = OutPort( {wa} ); s.a = {ea}; s.a.in_ //= s.i1; s.o1 //= s.a.out\n' +
           ('' if one else f'    s.i2 = InPort( {wb} ); s.o2 = OutPort( {wb} ); s.b = {eb}; s.b.in_ //= s.i2; s.o2 //= s.b.out\n'))
    outside_targets = {'outside-one-of-two': ['a'], 'outside-other-params': ['a'], 'nested-outside': ['a.rf', 'b.rf'], 'outside': ['a', 'b'],
                       'outside-both-same': ['a', 'b']}.get(variant, [])
    # (also called for a sub-tree translated as a top of its own: the paths are tried relative to it)
    paths = outside_targets + sorted({t.split('.', 1)[1] for t in outside_targets if '.' in t})
    pre = ('def pre_translate( top, backend ):\n  for path in ' + repr(paths) + ':\n    obj = top\n    try:\n'
           '      for part in path.split( "." ): obj = getattr( obj, part )\n    except AttributeError:\n      continue\n'
           f'    obj.set_metadata( VerilogTranslationPass.explicit_module_name, "{ename}" )\n')
    src = (f'from pymtl3 import *\nfrom pymtl3.passes.backends.verilog import VerilogTranslationPass\n' + rf + bank + top +
           f'def make_top():\n  return Top_{u}()\n' + pre)
    return {'uid': f'p{uid}', 'kind': 'probe', 'stream': stream, 'expect': 'clean' if stream == 'explicit-name-parametrized' else 'alias',
            'module': f'c13_p{uid}', 'source': src, 'extra_modules': [], 'walk': False, 'features': ['probe:' + stream, 'explicit:' + variant]}
  elif stream in ('placeholder-parametrized', 'placeholder-parametrized-params-option'):
    # one Verilog placeholder class with construct() arguments, 2-3 instances with equal / different arguments, directly
    # under the top or inside a sub-tree, with and without the `params` option
    vname = f'VReg_{u}'
    vsrc = (f'module {vname}\n#(\n  parameter nbits = 8\n)(\n  input  logic             clk,\n  input  logic             reset,\n'
            f'  input  logic [nbits-1:0] d,\n  output logic [nbits-1:0] q\n);\n  always_ff @(posedge clk)\n    q <= d;\nendmodule\n')
    n = rng.choice([2, 2, 3])
    ws = [rng.choice([8, 16, 4]) for _ in range(n)]
    with_params = stream.endswith('params-option')
    # inferred parameters: always at least two different arguments (plus, with 3 instances, often an equal pair)
    if (not with_params or rng.random() < 0.7) and len(set(ws)) == 1: ws[-1] = rng.choice([w for w in (4, 8, 16) if w != ws[0]])
    nested = rng.random() < 0.4
    names = rng.sample(['r8', 'ra', 'rb', 'q0', 'q1', 'q10', 'Rz'], n)
    body = [f'class Top_{u}( Component ):', '  def construct( s ):']
    for nm, w in zip(names, ws):
      e = f'Wrap_{u}( {w} )' if (nested and nm != names[0]) else f'{vname}( {w} )'
      body.append(f'    s.i_{nm} = InPort( {w} ); s.o_{nm} = OutPort( {w} ); s.{nm} = {e}; s.{nm}.d //= s.i_{nm}; s.o_{nm} //= s.{nm}.q')
    src = (f'import os\nfrom pymtl3 import *\n'
           f'from pymtl3.passes.backends.verilog import VerilogPlaceholder, VerilogPlaceholderPass, VerilogTranslationPass\n'
           f'HERE = os.path.dirname( os.path.abspath( __file__ ) )\n'
           f'class {vname}( VerilogPlaceholder, Component ):\n  def construct( s, nbits ):\n'
           f'    s.d = InPort( mk_bits( nbits ) ); s.q = OutPort( mk_bits( nbits ) )\n'
           f'    s.set_metadata( VerilogPlaceholderPass.src_file, os.path.join( HERE, "{vname}.v" ) )\n'
           f'    s.set_metadata( VerilogPlaceholderPass.top_module, "{vname}" )\n'
           + (f'    s.set_metadata( VerilogPlaceholderPass.params, {{ "nbits": nbits }} )\n' if with_params else '') +
           f'class Wrap_{u}( Component ):\n  def construct( s, w ):\n    s.d = InPort( w ); s.q = OutPort( w )\n'
           f'    s.reg_ = {vname}( w ); s.reg_.d //= s.d; s.q //= s.reg_.q\n'
           + '\n'.join(body) + '\n'
           f'def make_top():\n  return Top_{u}()\n'
           f'def pre_translate( top, backend ):\n  top.apply( VerilogPlaceholderPass() )\n')
    return {'uid': f'p{uid}', 'kind': 'probe', 'stream': stream, 'expect': 'clean', 'module': f'c13_p{uid}', 'source': src,
            'extra_modules': [], 'extra_files': [(f'{vname}.v', vsrc)], 'model': False,
            'features': ['probe:' + stream, 'placeholder:' + ('params' if with_params else 'inferred') + (':nested' if nested else '')
                         + (':same' if len(set(ws)) == 1 else ':different')]}
  elif stream == 'sibling-internal-structs':
    # sibling sub-components that each use a bitstruct type of their own on an INTERNAL wire only: the order of the
    # typedefs at the head of the file is the order in which the translator reaches the siblings
    n = rng.choice([3, 4, 5])
    names = rng.sample(['AddrPkt', 'CrdPkt', 'CtlPkt', 'HdrPkt', 'DatPkt', 'OpqPkt'], n)
    inst = rng.sample(WORDS, n)
    lines = ['from pymtl3 import *']
    for i, nm in enumerate(names):
      w = rng.choice([2, 3, 5, 6])
      lines += [f'@bitstruct\nclass {nm}_{u}:\n  f{i}: Bits{w}\n  g: Bits{8 - w}\n',
                f'class Unit{i}_{u}( Component ):\n  def construct( s ):\n    s.in_ = InPort( Bits8 ); s.out = OutPort( Bits8 ); s.w = Wire( {nm}_{u} )\n'
                f'    @update\n    def up():\n      s.w.f{i} @= s.in_[0:{w}]\n      s.w.g @= s.in_[{w}:8]\n      s.out @= concat( s.w.g, s.w.f{i} )\n']
    body = [f'class Top_{u}( Component ):', '  def construct( s ):', '    s.in_ = InPort( Bits8 )']
    for i, nm in enumerate(inst):
      body += [f'    s.o_{nm} = OutPort( Bits8 ); s.{nm} = Unit{i}_{u}(); s.{nm}.in_ //= s.in_; s.o_{nm} //= s.{nm}.out']
    src = '\n'.join(lines + body) + f'\ndef make_top():\n  return Top_{u}()\n'
    expect = 'clean'
  elif stream == 'placeholder-child-explicit-name':
    # a Verilog placeholder as a sub-component that also carries explicit_module_name (SystemVerilog backend only)
    vname = f'VPassThru_{u}'
    vsrc = (f'module {vname}\n(\n  input  logic        clk,\n  input  logic        reset,\n'
            f'  input  logic [7:0]  in_,\n  output logic [7:0]  out\n);\n  assign out = in_;\nendmodule\n')
    explicit = rng.choice([True, True, False])
    src = (f'import os\nfrom pymtl3 import *\n'
           f'from pymtl3.passes.backends.verilog import VerilogPlaceholder, VerilogPlaceholderPass, VerilogTranslationPass\n'
           f'HERE = os.path.dirname( os.path.abspath( __file__ ) )\n'
           f'class {vname}( VerilogPlaceholder, Component ):\n  def construct( s ):\n'
           f'    s.in_ = InPort( Bits8 ); s.out = OutPort( Bits8 )\n'
           f'    s.set_metadata( VerilogPlaceholderPass.src_file, os.path.join( HERE, "{vname}.v" ) )\n'
           f'    s.set_metadata( VerilogPlaceholderPass.top_module, "{vname}" )\n'
           + _inner(f'Inc_{u}', f's.in_ + {k1}') +
           f'class Top_{u}( Component ):\n  def construct( s ):\n'
           f'    s.in_ = InPort( Bits8 ); s.out = OutPort( Bits8 )\n'
           f'    s.pt = {vname}(); s.inc = Inc_{u}()\n'
           f'    s.pt.in_ //= s.in_; s.inc.in_ //= s.pt.out; s.out //= s.inc.out\n'
           f'def make_top():\n  return Top_{u}()\n'
           f'def pre_translate( top, backend ):\n'
           + (f'  if hasattr( top, "pt" ): top.pt.set_metadata( VerilogTranslationPass.explicit_module_name, "MyPassThru_{u}" )\n' if explicit else '') +
           f'  top.apply( VerilogPlaceholderPass() )\n')
    return {'uid': f'p{uid}', 'kind': 'probe', 'stream': stream, 'expect': 'clean', 'module': f'c13_p{uid}', 'source': src,
            'extra_modules': [], 'extra_files': [(f'{vname}.v', vsrc)], 'backends': ['sv'], 'model': False,
            'features': ['probe:' + stream]}
  else:
    raise ValueError(stream)
  return {'uid': f'p{uid}', 'kind': 'probe', 'stream': stream, 'expect': expect, 'module': f'c13_p{uid}',
          'source': src, 'extra_modules': extra, 'features': ['probe:' + stream]}

ALIAS_STREAMS = [
  'factory-same-name-different-body', 'two-modules-same-name-different-body', 'stdlib-same-name-two-packages',
  'factory-same-name-same-body', 'param-image-type-dependent', 'param-image-type-independent',
  'type-vs-struct-named-like-it', 'long-params', 'special-char-params', 'set-valued-params', 'non-identifier-params',
  'struct-same-name-different-fields', 'object-repr-param',
  'set-param-different-values', 'bitstruct-subclass', 'nested-collision-under-same-named-parents', 'newline-param',
  'hash-equal-params', 'placeholder-child-explicit-name', 'sibling-internal-structs',
  'explicit-name-parametrized', 'explicit-name-different-parameters', 'explicit-name-one-of-two-equal-instances',
  'placeholder-parametrized', 'placeholder-parametrized-params-option',
]

# ---------------------------------------------------------------------- several enabled sub-trees, ONE pass application

def multi_subtree(rng, uid):
  """A top that is NOT translated itself with 2-4 children that carry <Pass>.enable: ordinary components, Verilog
  placeholders, components containing a placeholder, the same class twice, with / without explicit_module_name; the
  child names are drawn so that every repr order of the kinds occurs. The module offers
    make_top()                         the whole design
    prepare( top, P, PlaceholderPass ) marks the children, returns [(child name, component)]
    make_alone( name )                 that child's sub-tree as a top of its own
    prepare_alone( top, P, PlaceholderPass, name )"""
  u = uid
  n = rng.choice([2, 2, 3, 3, 4])
  kinds = [rng.choice(['vreg', 'incr', 'pipe', 'incr', 'pipe', 'vreg2']) for _ in range(n)]
  if rng.random() < 0.6 and not any(k in ('vreg', 'vreg2') for k in kinds): kinds[rng.randrange(n)] = 'vreg'
  if rng.random() < 0.3: kinds[-1] = kinds[0]                     # the same class twice
  names = rng.sample(['a_x', 'b_x', 'c_x', 'd_x', 'e_x', 'A_x', 'z', 'm0', 'm1', 'm10', 'm2'], n)
  expr = {'vreg': f'VReg_{u}()', 'vreg2': f'VBuf_{u}()', 'pipe': f'Pipe_{u}()'}
  children, ks = [], {}
  for nm, k in zip(names, kinds):
    e = expr.get(k) or f'Incr_{u}( {rng.choice([1, 2, 3])} )'
    explicit = f'Named_{nm}_{u}' if rng.random() < 0.25 else ''
    children.append((nm, k, e, explicit))
  vfile = lambda name, body: (f'module {name}(\n  input  logic          clk,\n  input  logic          reset,\n'
                              f'  output logic [32-1:0] q,\n  input  logic [32-1:0] d\n);\n{body}endmodule\n')
  files = [(f'VReg_{u}.v', vfile(f'VReg_{u}', '  always_ff @(posedge clk) begin\n    q <= d;\n  end\n')),
           (f'VBuf_{u}.v', vfile(f'VBuf_{u}', '  assign q = d;\n'))]
  def ph(name):
    return (f'class {name}( VerilogPlaceholder, Component ):\n  def construct( s ):\n'
            f'    s.d = InPort( Bits32 ); s.q = OutPort( Bits32 )\n'
            f'    s.set_metadata( VerilogPlaceholderPass.src_file, os.path.join( HERE, "{name}.v" ) )\n'
            f'    s.set_metadata( VerilogPlaceholderPass.top_module, "{name}" )\n')
  body = [f'class Top_{u}( Component ):', '  def construct( s ):', '    s.in_ = InPort( Bits32 )']
  for nm, k, e, _ in children:
    i, o = ('d', 'q') if k in ('vreg', 'vreg2') else ('in_', 'out')
    body += [f'    s.o_{nm} = OutPort( Bits32 ); s.{nm} = {e}; s.{nm}.{i} //= s.in_; s.o_{nm} //= s.{nm}.{o}']
  src = ('import os\nfrom pymtl3 import *\nfrom pymtl3.passes.backends.verilog import VerilogPlaceholder, VerilogPlaceholderPass\n'
         'HERE = os.path.dirname( os.path.abspath( __file__ ) )\n' + ph(f'VReg_{u}') + ph(f'VBuf_{u}') +
         f'class Incr_{u}( Component ):\n  def construct( s, k ):\n    s.in_ = InPort( Bits32 ); s.out = OutPort( Bits32 )\n'
         f'    @update\n    def up_incr():\n      s.out @= s.in_ + k\n'
         f'class Pipe_{u}( Component ):\n  def construct( s ):\n    s.in_ = InPort( Bits32 ); s.out = OutPort( Bits32 )\n'
         f'    s.reg_ = VReg_{u}(); s.incr = Incr_{u}( 1 )\n    s.reg_.d //= s.in_; s.incr.in_ //= s.reg_.q; s.out //= s.incr.out\n'
         + '\n'.join(body) + '\n'
         f'CHILDREN = {[(nm, e, ex) for nm, _, e, ex in children]!r}\n'
         f'def make_top():\n  return Top_{u}()\n'
         f'def prepare( top, P, PlaceholderPass ):\n  subs = []\n  for nm, _, ex in CHILDREN:\n    c = getattr( top, nm )\n'
         f'    c.set_metadata( P.enable, True )\n    if ex: c.set_metadata( P.explicit_module_name, ex )\n    subs.append( ( nm, c ) )\n'
         f'  top.apply( PlaceholderPass() )\n  return subs\n'
         f'def make_alone( name ):\n  return eval( dict( ( nm, e ) for nm, e, _ in CHILDREN )[ name ] )\n'
         f'def prepare_alone( top, P, PlaceholderPass, name ):\n  ex = dict( ( nm, x ) for nm, _, x in CHILDREN )[ name ]\n'
         f'  top.set_metadata( P.enable, True )\n  if ex: top.set_metadata( P.explicit_module_name, ex )\n'
         f'  top.apply( PlaceholderPass() )\n  return [ ( name, top ) ]\n')
  return {'uid': f'm{uid}', 'kind': 'multi', 'stream': 'multi-subtree-pass', 'module': f'c13_m{uid}', 'source': src,
          'extra_modules': [], 'extra_files': files, 'children': [(nm, k, ex) for nm, k, _, ex in children],
          'features': ['multi:' + '-'.join(k for _, k, _, _ in sorted(children))]}

def write_design(workdir, d):
  """write the module file(s) of a design under workdir/designs; returns the directory"""
  dd = os.path.join(workdir, 'designs')
  os.makedirs(dd, exist_ok=True)
  for name, src in [(d['module'], d['source'])] + list(d.get('extra_modules', [])):
    with open(os.path.join(dd, name + '.py'), 'w') as f:
      f.write(src)
  for name, text in d.get('extra_files', []):
    with open(os.path.join(dd, name), 'w') as f:
      f.write(text)
  return dd
