"""Helpers of the C17 check: the real queue classes behind one driving interface, and the direct oracle.

Every real queue is wrapped in a `Dut`: `cycle(intent)` applies one cycle's *intent*
`(rst, want_enq, msg, want_deq)` to the real component protocol-legally (an `en` input is raised only if the
matching `rdy` output is high once the inputs it depends on combinationally have been applied), reads the outputs
after `sim_eval_combinational()`, ticks, and returns `(actual_inputs, observed_outputs)` in the vocabulary of
`Model/Queue.lean` (`In` / `Out`).
"""
import importlib, sys

from pymtl3 import *

# ----------------------------------------------------------------------- message types

@bitstruct
class C17Pkt:
  tag:  Bits4
  data: Bits8

MSG_TYPES = {
  'b16': (Bits16, 16, lambda v: Bits16(v), lambda m: int(m)),
  'pkt': (C17Pkt, 12, lambda v: C17Pkt.from_bits(Bits12(v)), lambda m: int(m.to_bits())),
}

# ----------------------------------------------------------------------- real classes

from pymtl3.stdlib.queues import queues as Q_A
from pymtl3.stdlib.stream import queues as Q_B
from pymtl3.stdlib.queues import enrdy_queues as Q_C
from pymtl3.stdlib.queues import cl_queues as Q_E

VALRDY_IMPORT_ERROR = None

def _load_valrdy():
  """pymtl3/stdlib/queues/valrdy_queues.py does `from pymtl3.stdlib.ifcs import InValRdyIfc, OutValRdyIfc`, which
  do not exist there (only in pymtl3/dsl/test/Interface_test.py). To exercise the module's classes anyway the two
  3-port interfaces are supplied for the duration of the import (in this process only)."""
  global VALRDY_IMPORT_ERROR
  name = 'pymtl3.stdlib.queues.valrdy_queues'
  try:
    return importlib.import_module(name)
  except ImportError as e:
    VALRDY_IMPORT_ERROR = f'{type(e).__name__}: {e}'
    sys.modules.pop(name, None)
  import pymtl3.stdlib.ifcs as ifcs

  class InValRdyIfc( Interface ):
    def construct( s, Type ):
      s.msg = InPort( Type ); s.val = InPort(); s.rdy = OutPort()

  class OutValRdyIfc( Interface ):
    def construct( s, Type ):
      s.msg = OutPort( Type ); s.val = OutPort(); s.rdy = InPort()

  ifcs.InValRdyIfc, ifcs.OutValRdyIfc = InValRdyIfc, OutValRdyIfc
  try:
    return importlib.import_module(name)
  finally:
    del ifcs.InValRdyIfc, ifcs.OutValRdyIfc

Q_D = _load_valrdy()

class C17CLTop( Component ):
  """Harness top of a CL queue: a producer block and a consumer block call the queue's methods, so the
  order of the two within a cycle is the one the scheduler derives from the queue's method constraints."""

  def construct( s, QType, num_entries ):
    s.dut = QType( num_entries )
    s.want_enq = False
    s.enq_msg  = None
    s.want_deq = False
    s.obs      = {}
    s.order    = []

    @update_once
    def up_producer():
      s.order.append( 'enq' )
      r = s.dut.enq.rdy()
      s.obs['enq_rdy'] = bool( r )
      if r and s.want_enq:
        s.dut.enq( s.enq_msg )

    @update_once
    def up_consumer():
      s.order.append( 'deq' )
      r = s.dut.deq.rdy()
      s.obs['deq_rdy'] = bool( r )
      if r:
        s.obs['peek'] = s.dut.peek()
      if r and s.want_deq:
        s.obs['ret'] = s.dut.deq()

class C17CLTopPF( Component ):
  """Second harness top for NormalQueueCL, whose constraints leave the order of producer and consumer open:
  here the producer block is forced to run first (no peek call, which would force the opposite order); the
  queue's `up_pulse` must make the outcome the same."""

  def construct( s, QType, num_entries ):
    s.dut = QType( num_entries )
    s.want_enq = False
    s.enq_msg  = None
    s.want_deq = False
    s.obs      = {}
    s.order    = []

    @update_once
    def up_producer():
      s.order.append( 'enq' )
      r = s.dut.enq.rdy()
      s.obs['enq_rdy'] = bool( r )
      if r and s.want_enq:
        s.dut.enq( s.enq_msg )

    @update_once
    def up_consumer():
      s.order.append( 'deq' )
      r = s.dut.deq.rdy()
      s.obs['deq_rdy'] = bool( r )
      if r:
        s.obs['peek'] = s.dut.queue[-1]
      if r and s.want_deq:
        s.obs['ret'] = s.dut.deq()

    s.add_constraints( U( up_producer ) < U( up_consumer ) )

# name -> (family, kind, constructor(MsgType, n), takes_capacity)
CLASSES = {
  'qNormal':   ('A', 'normal', lambda T, n: Q_A.NormalQueueRTL(T, n), True),
  'qPipe':     ('A', 'pipe',   lambda T, n: Q_A.PipeQueueRTL(T, n), True),
  'qBypass':   ('A', 'bypass', lambda T, n: Q_A.BypassQueueRTL(T, n), True),
  'sNormal':   ('B', 'normal', lambda T, n: Q_B.NormalQueueRTL(T, n), True),
  'sPipe':     ('B', 'pipe',   lambda T, n: Q_B.PipeQueueRTL(T, n), True),
  'sBypass':   ('B', 'bypass', lambda T, n: Q_B.BypassQueueRTL(T, n), True),
  'erNormal1': ('C', 'normal', lambda T, n: Q_C.NormalQueue1RTL(T), False),
  'erPipe1':   ('C', 'pipe',   lambda T, n: Q_C.PipeQueue1RTL(T), False),
  'erBypass1': ('C', 'bypass', lambda T, n: Q_C.BypassQueue1RTL(T), False),
  'erBypass2': ('C', 'bypass', lambda T, n: Q_C.BypassQueue2RTL(T), False),
  'vrNormal1': ('D', 'normal', lambda T, n: Q_D.NormalQueue1RTL(T), False),
  'vrPipe1':   ('D', 'pipe',   lambda T, n: Q_D.PipeQueue1RTL(T), False),
  'vrBypass1': ('D', 'bypass', lambda T, n: Q_D.BypassQueue1RTL(T), False),
  'vrNormalN': ('D', 'normal', lambda T, n: Q_D.NormalQueueRTL(n, T), True),
  'clNormal':  ('E', 'normal', lambda T, n: C17CLTop(Q_E.NormalQueueCL, n), True),
  'clNormalPF':('E', 'normal', lambda T, n: C17CLTopPF(Q_E.NormalQueueCL, n), True),
  'clPipe':    ('E', 'pipe',   lambda T, n: C17CLTop(Q_E.PipeQueueCL, n), True),
  'clBypass':  ('E', 'bypass', lambda T, n: C17CLTop(Q_E.BypassQueueCL, n), True),
}

REAL_NAME = {
  'qNormal': 'queues.NormalQueueRTL', 'qPipe': 'queues.PipeQueueRTL', 'qBypass': 'queues.BypassQueueRTL',
  'sNormal': 'stream.NormalQueueRTL', 'sPipe': 'stream.PipeQueueRTL', 'sBypass': 'stream.BypassQueueRTL',
  'erNormal1': 'enrdy.NormalQueue1RTL', 'erPipe1': 'enrdy.PipeQueue1RTL', 'erBypass1': 'enrdy.BypassQueue1RTL',
  'erBypass2': 'enrdy.BypassQueue2RTL',
  'vrNormal1': 'valrdy.NormalQueue1RTL', 'vrPipe1': 'valrdy.PipeQueue1RTL', 'vrBypass1': 'valrdy.BypassQueue1RTL',
  'vrNormalN': 'valrdy.NormalQueueRTL',
  'clNormal': 'cl.NormalQueueCL', 'clNormalPF': 'cl.NormalQueueCL', 'clPipe': 'cl.PipeQueueCL', 'clBypass': 'cl.BypassQueueCL',
}

# harness class -> class name of Model/Queue.lean
LEAN_CLS = {'clNormalPF': 'clNormal'}

def capacity(cls, n):
  if cls == 'erBypass2': return 2
  return n if CLASSES[cls][3] else 1

def capacities(cls, caps=(1, 2, 3, 4, 5, 7, 8)):
  if not CLASSES[cls][3]: return [capacity(cls, 1)]
  if cls == 'vrNormalN': return [c for c in caps if c >= 2]     # NormalQueueRTL(1, T): mk_bits(clog2(1)) fails
  return list(caps)

# style flags of the families (the same table as Cls.style in Model/Queue.lean, written again here for the oracle)
#            reset  gate   push   free   enqEnRdy deqEnRdy
STYLE = {
  'A':  dict(reset=True,  gate=True,  push=False, free=False),
  'B':  dict(reset=True,  gate=False, push=False, free=False),
  'C':  dict(reset=False, gate=False, push=True,  free=False),
  'Cb': dict(reset=True,  gate=False, push=True,  free=False),
  'D':  dict(reset=False, gate=False, push=False, free=False),
  'Dn': dict(reset=True,  gate=False, push=False, free=True),
  'E':  dict(reset=False, gate=False, push=False, free=False),
}

def style_of(cls):
  fam = CLASSES[cls][0]
  if cls in ('erBypass1', 'erBypass2'): return STYLE['Cb']
  if cls == 'vrNormalN': return STYLE['Dn']
  return STYLE[fam]

# ----------------------------------------------------------------------- driving the real component

class Dut:
  def __init__(self, cls, n, mt):
    self.cls, self.n, self.mt = cls, n, mt
    self.fam, self.kind, ctor, _ = CLASSES[cls]
    self.T, self.width, self.enc, self.dec = MSG_TYPES[mt]
    self.q = q = ctor(self.T, n)
    q.elaborate()
    q.apply(DefaultPassGroup())
    q.sim_reset()
    self.retracted = None

  # -- internal control state (used only as a search key by the exhaustive enumeration)
  def ctl(self):
    q, cls = self.q, self.cls
    if self.fam in 'AB':
      if self.n == 1: return (int(q.q.full),)
      return (int(q.ctrl.head), int(q.ctrl.tail), int(q.ctrl.count))
    if cls == 'erBypass2': return (int(q.q1.full.out), int(q.q2.full.out))
    if self.fam == 'C': return (int(q.full.out),)
    if cls == 'vrNormalN': return (int(q.ctrl.enq_ptr), int(q.ctrl.deq_ptr), int(q.ctrl.full))
    if self.fam == 'D': return (int(q.full),)
    return (len(q.dut.queue),)

  def cycle(self, intent):
    rst, we, msg, wd = intent
    rst, we, wd = int(bool(rst)), int(bool(we)), int(bool(wd))
    q, fam, kind = self.q, self.fam, self.kind
    m = self.enc(msg)
    ev = q.sim_eval_combinational
    if fam == 'A':
      q.reset @= rst
      q.enq.msg @= m
      q.enq.en @= 0; q.deq.en @= 0
      ev()
      if kind == 'pipe':          # enq.rdy depends on deq.en: fix the dequeue side first
        de = wd & int(q.deq.rdy); q.deq.en @= de; ev()
        ee = we & int(q.enq.rdy); q.enq.en @= ee; ev()
      else:                       # bypass: deq.rdy depends on enq.en: fix the enqueue side first
        ee = we & int(q.enq.rdy); q.enq.en @= ee; ev()
        de = wd & int(q.deq.rdy); q.deq.en @= de; ev()
      er, dr = int(q.enq.rdy), int(q.deq.rdy)
      if (ee and not er) or (de and not dr): self.retracted = (ee, er, de, dr)
      obs = (er, dr, self.dec(q.deq.ret) if dr else None, int(q.count))
      q.sim_tick()
      return (rst, ee, msg, de), obs
    if fam == 'B':
      q.reset @= rst
      q.recv.msg @= m; q.recv.val @= we; q.send.rdy @= wd
      ev()
      sv = int(q.send.val)
      obs = (int(q.recv.rdy), sv, self.dec(q.send.msg) if sv else None, int(q.count))
      q.sim_tick()
      return (rst, we, msg, wd), obs
    if fam == 'C':
      q.reset @= rst
      q.enq.msg @= m; q.deq.rdy @= wd; q.enq.en @= 0
      ev()
      ee = we & int(q.enq.rdy); q.enq.en @= ee; ev()
      er, den = int(q.enq.rdy), int(q.deq.en)
      if ee and not er: self.retracted = (ee, er, wd, den)
      cnt = (int(q.q1.full.out) + int(q.q2.full.out)) if self.cls == 'erBypass2' else int(q.full.out)
      obs = (er, den, self.dec(q.deq.msg) if den else None, cnt)
      q.sim_tick()
      return (rst, ee, msg, wd), obs
    if fam == 'D':
      q.reset @= rst
      q.enq.msg @= m; q.enq.val @= we; q.deq.rdy @= wd
      ev()
      dv = int(q.deq.val)
      cnt = int(q.num_free_entries) if self.cls == 'vrNormalN' else int(q.full)
      obs = (int(q.enq.rdy), dv, self.dec(q.deq.msg) if dv else None, cnt)
      q.sim_tick()
      return (rst, we, msg, wd), obs
    # CL: no reset behaviour; the reset intent is not applied
    t = q
    t.want_enq, t.enq_msg, t.want_deq = bool(we), m, bool(wd)
    t.obs = {}; t.order = []
    cnt = len(t.dut.queue)
    t.sim_tick()
    o = t.obs
    ret = None
    if o['deq_rdy']:
      ret = self.dec(o['peek'])
      if 'ret' in o and self.dec(o['ret']) != ret: ret = ('peek!=deq', ret, self.dec(o['ret']))
    obs = (int(o['enq_rdy']), int(o['deq_rdy']), ret, cnt)
    self.order = tuple(t.order)
    return (0, we, msg, wd), obs

# ----------------------------------------------------------------------- the direct oracle

class Oracle:
  """The property restated on observables, independent of the Lean model: a plain FIFO ledger.
  `accepted` = messages taken by an observed enqueue handshake since the last effective reset, `ndel` of them
  have been delivered by an observed dequeue handshake. Per cycle it checks
    fifo  : the message shown/delivered is accepted[ndel] (in order; nothing lost, duplicated, invented)
    count : count output == len(accepted) - ndel (num_free_entries: capacity - that), and that is <= capacity
    enq_rdy / deq_rdy : the kind's ready law evaluated on len = len(accepted) - ndel."""

  def __init__(self, kind, cap, style):
    self.kind, self.cap, self.st = kind, cap, style
    self.acc, self.ndel = [], 0

  def contents(self):
    return tuple(self.acc[self.ndel:])

  def check(self, inp, obs):
    rst, enq, msg, deq = inp
    er, dv, ret, cnt = obs
    st, kind, cap = self.st, self.kind, self.cap
    bad = []
    ln = len(self.acc) - self.ndel
    live = not (st['gate'] and rst)
    exp_er = int(live and (ln < cap or (kind == 'pipe' and bool(deq))))
    avail = live and (ln > 0 or (kind == 'bypass' and bool(enq)))
    exp_dv = int(bool(deq) and avail) if st['push'] else int(avail)
    if er != exp_er: bad.append(('rdy-law', 'enq_rdy', f'enq ready is {er}, the law gives {exp_er} (len={ln}, cap={cap})'))
    if dv != exp_dv: bad.append(('rdy-law', 'deq_rdy', f'deq ready/valid is {dv}, the law gives {exp_dv} (len={ln}, cap={cap})'))
    exp_cnt = (cap if rst else cap - ln) if st['free'] else ln
    if cnt != exp_cnt: bad.append(('count', 'count', f'count output {cnt}, ledger says {exp_cnt}'))
    if ln > cap: bad.append(('count', 'overflow', f'{ln} messages in a queue of capacity {cap}'))
    ex = bool(enq) and bool(er)
    dx = bool(dv) if st['push'] else (bool(deq) and bool(dv))
    if ex: self.acc.append(msg)
    if dv:
      if self.ndel < len(self.acc):
        if ret != self.acc[self.ndel]:
          bad.append(('fifo', 'order', f'message shown {ret}, oldest undelivered accepted message is {self.acc[self.ndel]}'))
      else:
        bad.append(('fifo', 'invented', f'message {ret} offered with nothing accepted and undelivered'))
    if dx: self.ndel += 1
    if self.ndel > len(self.acc): self.ndel = len(self.acc)
    if st['reset'] and rst: self.acc, self.ndel = [], 0
    return bad, ex, dx
