"""A small VCD reader written from the VCD grammar (IEEE 1364 §18), independent of pymtl3.

The file is a stream of blank-separated tokens. Declaration section: `$keyword ... $end` blocks
(`$scope <kind> <name> $end`, `$var <type> <width> <id> <reference> [<range>] $end`, `$upscope $end`,
`$enddefinitions $end`, others skipped). Value-change section: `#<time>`, scalar changes `<0|1|x|z><id>`,
vector changes `b<digits> <id>` (the identifier is the next token, whatever its characters are).

parse(text) -> dict with
  decls      [(scope tuple, reference name, width, id)]
  events     [(time or None, id, value token)]   value token = '0' / '1' / 'b0101' ...; None = before the first '#'
  body       the tokens of the value-change section, as written
  timescale  str
  dup_scopes scope paths opened more than once
"""

class VcdError(Exception):
  """not well-formed VCD; .lineno/.line = offending line of the file, .time = last '#' stamp seen (None in the header)"""
  def __init__(self, msg, lineno=None, line=None, time=None):
    Exception.__init__(self, msg)
    self.lineno, self.line, self.time = lineno, line, time

SCALARS = '01xXzZ'

def parse(text):
  src_lines = text.split('\n')
  toks, tok_line = [], []
  for ln, l in enumerate(src_lines, 1):
    for tk in l.split():
      toks.append(tk); tok_line.append(ln)
  n = len(toks)
  i = 0
  scope, decls, events = [], [], []
  scopes_seen, dup_scopes = set(), []
  timescale = None

  def block(j):
    """tokens of a `$kw ... $end` block starting at j (the keyword); returns (inner tokens, next index)"""
    k = j + 1
    while k < n and toks[k] != '$end': k += 1
    if k >= n: raise VcdError(f'{toks[j]} without $end')
    return toks[j + 1:k], k + 1

  # declaration section
  while True:
    if i >= n: raise VcdError('no $enddefinitions')
    t = toks[i]
    if t == '$enddefinitions':
      inner, i = block(i)
      if inner: raise VcdError('junk in $enddefinitions')
      break
    if t == '$scope':
      inner, i = block(i)
      if len(inner) != 2: raise VcdError(f'bad $scope {inner}')
      scope.append(inner[1])
      if tuple(scope) in scopes_seen: dup_scopes.append(tuple(scope))
      scopes_seen.add(tuple(scope))
    elif t == '$upscope':
      inner, i = block(i)
      if inner or not scope: raise VcdError('bad $upscope')
      scope.pop()
    elif t == '$var':
      inner, i = block(i)
      if len(inner) not in (4, 5): raise VcdError(f'bad $var {inner}')
      try: width = int(inner[1])
      except ValueError: raise VcdError(f'bad $var width {inner}')
      if not scope: raise VcdError('$var outside of a scope')
      decls.append((tuple(scope), inner[3], width, inner[2]))
    elif t == '$timescale':
      inner, i = block(i)
      timescale = ''.join(inner)
    elif t in ('$date', '$version', '$comment'):
      _, i = block(i)
    else:
      raise VcdError(f'unexpected token {t!r} in the declaration section')
  if scope: raise VcdError('unclosed $scope')

  # value-change section: strict — a line is `#<time>`, `<0|1|x|z><id>`, `b<[01xz]+> <id>` (ids declared), or a
  # simulation keyword; anything else is an error carrying its line and the current time
  body = toks[i:]
  now = None
  ids = {d[3] for d in decls}
  def err(msg, j):
    ln = tok_line[j]
    return VcdError(f'{msg} (line {ln}: {src_lines[ln - 1]!r}, time {now})', ln, src_lines[ln - 1], now)
  while i < n:
    t = toks[i]
    c = t[0]
    if c == '#':
      if not t[1:].isdigit(): raise err(f'bad time {t!r}', i)
      tm = int(t[1:])
      if now is not None and tm < now: raise err(f'time goes backwards: {now} -> {tm}', i)
      now = tm
      i += 1
    elif c in SCALARS:
      if len(t) < 2: raise err(f'scalar change without identifier: {t!r}', i)
      if t[1:] not in ids: raise err(f'scalar change {t!r}: identifier {t[1:]!r} is not declared', i)
      events.append((now, t[1:], c))
      i += 1
    elif c in 'bB':
      if len(t) < 2 or any(ch not in SCALARS for ch in t[1:]): raise err(f'bad vector value {t!r}', i)
      if i + 1 >= n: raise err('vector change without identifier', i)
      if toks[i + 1] not in ids: raise err(f'vector change {t!r}: identifier {toks[i + 1]!r} is not declared', i)
      events.append((now, toks[i + 1], 'b' + t[1:]))
      i += 2
    elif t in ('$dumpvars', '$dumpall', '$dumpon', '$dumpoff', '$end'):
      i += 1
    elif t == '$comment':
      _, i = block(i)
    else:
      raise err(f'not a value change: {t!r}', i)
  return {'decls': decls, 'events': events, 'body': body, 'timescale': timescale, 'dup_scopes': dup_scopes}

def value_of(tok):
  """numeric value of a value token; None if it has x/z digits"""
  digits = tok[1:] if tok[0] in 'bB' else tok
  if any(ch not in '01' for ch in digits): return None
  return int(digits, 2)
