"""Translation worker of the C13 check.

As a script (`/venv/bin/python c13_worker.py job.json out.json`, run by the check in FRESH processes under different
PYTHONHASHSEED values) it translates every design of the job with both backends, twice per backend within the process
(two fresh instances), and writes the emitted texts to out.json.  The check imports the same functions for its
in-process run.  Emitted .v files go to <outdir>/<uid>/<backend>/ only.
"""
import importlib, json, os, sys, traceback

BACKENDS = ('sv', 'yosys')

def backend_pass(backend):
  if backend == 'sv':
    from pymtl3.passes.backends.verilog import VerilogTranslationPass as P
  else:
    from pymtl3.passes.backends.yosys import YosysTranslationPass as P
  return P

def setup_path(designs_dir):
  for p in (designs_dir, os.environ.get('PV_REPO', '/repo')):
    if p not in sys.path: sys.path.insert(0, p)

def translate(make_top, backend, outdir, pre_translate=None):
  """elaborate a fresh instance, translate it in `outdir`; returns (top, text). `pre_translate(top, backend)`
  (optional, defined by the design module) runs between elaboration and translation (metadata, placeholder pass)"""
  P = backend_pass(backend)
  os.makedirs(outdir, exist_ok=True)
  cwd = os.getcwd()
  os.chdir(outdir)
  try:
    top = make_top()
    top.elaborate()
    top.set_metadata(P.enable, True)
    if pre_translate is not None: pre_translate(top, backend)
    top.apply(P())
    with open(top.get_metadata(P.translated_filename)) as f:
      text = f.read()
    return top, text
  finally:
    os.chdir(cwd)

def translate_multi(mod, backend, outdir, only=None):
  """ONE application of the translation pass to a design whose top is not translated itself but has several
  translation-enabled children (only=None), or to one of these sub-trees as a top of its own (only=<child name>).
  Returns {child name: {'module': translated_top_module, 'file': basename of translated_filename, 'text': file text}}"""
  from pymtl3.passes.backends.verilog import VerilogPlaceholderPass
  P = backend_pass(backend)
  os.makedirs(outdir, exist_ok=True)
  cwd = os.getcwd()
  os.chdir(outdir)
  try:
    if only is None:
      top = mod.make_top(); top.elaborate()
      subs = mod.prepare(top, P, VerilogPlaceholderPass)
    else:
      top = mod.make_alone(only); top.elaborate()
      subs = mod.prepare_alone(top, P, VerilogPlaceholderPass, only)
    top.apply(P())
    res = {}
    for name, c in subs:
      fn = c.get_metadata(P.translated_filename)
      with open(fn) as f: text = f.read()
      res[name] = {'module': c.get_metadata(P.translated_top_module), 'file': os.path.basename(fn), 'text': text}
    return res
  finally:
    os.chdir(cwd)

def run_multi_job(job):
  """job['multi'] = [{'module', 'uid', 'only'}]: each entry is one pass application"""
  setup_path(job['designs_dir'])
  out = {}
  for d in job['multi']:
    mod = importlib.import_module(d['module'])
    for b in job['backends']:
      key = f"{d['uid']}|{d['only'] or ''}|{b}"
      try:
        out[key] = translate_multi(mod, b, os.path.join(job['outdir'], str(d['uid']), b), d['only'])
      except Exception as e:
        out[key] = {'error': f'{type(e).__name__}: {str(e)[:400]}'}
  return out

def run_job(job):
  setup_path(job['designs_dir'])
  out = {}
  for d in job['order']:
    res = {}
    try:
      mod = importlib.import_module(d['module'])
    except Exception as e:
      out[d['uid']] = {'import_error': f'{type(e).__name__}: {e}'}
      continue
    for b in d.get('backends') or job['backends']:
      texts = []
      for rep in range(job.get('reps', 2)):
        try:
          _, text = translate(mod.make_top, b, os.path.join(job['outdir'], str(d['uid']), b), getattr(mod, 'pre_translate', None))
          texts.append(text)
        except Exception as e:
          texts.append({'error': f'{type(e).__name__}: {str(e)[:300]}'})
      res[b] = texts
    out[d['uid']] = res
  return out

if __name__ == '__main__':
  job = json.load(open(sys.argv[1]))
  try:
    out = run_multi_job(job) if 'multi' in job else run_job(job)
  except Exception:
    traceback.print_exc()
    sys.exit(3)
  with open(sys.argv[2], 'w') as f:
    json.dump(out, f)
