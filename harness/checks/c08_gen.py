"""Random hierarchical designs for C08 / C09 (connections, nets, writers, structural defects).

A design is generated once as an intermediate form and rendered
  * as PyMTL source: one class per component instance and per *variant* (a permutation of the
    statements of every construct() plus side flips of the connect statements), all variants of a
    design in one real module file (inspect.getsource must work);
  * as the S-expression `Model/Nets.lean` understands (objects numbered here);
and it is evaluated by an independent bit-level oracle (`oracle`): union-find over the connection
list, driver sets per signal *bit* (real packed bit positions of the struct layout, not the path
relation the model uses), the port-direction rules restated as legal data flows.
"""
import importlib.util, itertools, os, sys

from ..common import leanio

_uid = itertools.count()

# struct types available to every generated module (first field = most significant bits)
STRUCTS = {
  'PA': [('a', ('b', 4)), ('b', ('b', 8))],
  'PB': [('x', ('b', 8)), ('p', ('s', 'PA')), ('y', ('b', 2))],
  # list-valued fields: ('l', dims, element type); elements are addressed by one path step per dimension
  'PG': [('tag', ('b', 4)), ('cell', ('l', (2, 3), ('b', 8))), ('pts', ('l', (2, 2), ('s', 'PA'))), ('row', ('l', (3,), ('b', 8)))],
}
STRUCT_SRC = '''
@bitstruct
class PA:
  a: Bits4
  b: Bits8

@bitstruct
class PB:
  x: Bits8
  p: PA
  y: Bits2

@bitstruct
class PG:
  tag: Bits4
  cell: [ [ Bits8 ] * 3 ] * 2
  pts: [ [ PA ] * 2 ] * 2
  row: [ Bits8 ] * 3
'''

def twidth(t):
  if t[0] == 'b': return t[1]
  if t[0] == 'l':
    n = 1
    for dd in t[1]: n *= dd
    return n * twidth(t[2])
  return sum(twidth(ft) for _, ft in STRUCTS[t[1]])

def tstep(t, k):
  """type of the k-th field of a struct / k-th element along the first dimension of a list field"""
  if t[0] == 's': return STRUCTS[t[1]][k][1]
  return ('l', t[1][1:], t[2]) if len(t[1]) > 1 else t[2]

def tchildren(t):
  return range(len(STRUCTS[t[1]])) if t[0] == 's' else range(t[1][0])

def tname(t):
  return f'Bits{t[1]}' if t[0] == 'b' else t[1]

def tconst_src(t, v, elem=False):
  """python source of a constant of type t with packed value v (list fields: element f of the flattened list sits at
  bits [f*w, (f+1)*w) of the field, as bitstruct.to_bits packs them; list elements must be Bits objects)"""
  if t[0] == 'b': return f'Bits{t[1]}({v})' if elem else str(v)
  if t[0] == 'l':
    w = twidth(tstep(t, 0))
    return '[' + ', '.join(tconst_src(tstep(t, k), (v >> (k * w)) & ((1 << w) - 1), True) for k in range(t[1][0])) + ']'
  parts, hi = [], twidth(t)
  for fname, ft in STRUCTS[t[1]]:
    w = twidth(ft); hi -= w
    parts.append(tconst_src(ft, (v >> hi) & ((1 << w) - 1)))
  return f'{t[1]}({", ".join(parts)})'

CTOR = {'in': 'InPort', 'out': 'OutPort', 'wire': 'Wire'}

class Design:
  def __init__(self, uid):
    self.uid = uid
    self.comps = []      # dict(idx, name, parent, children, path)   path: '' for top, 'c0', 'c0.g1'
    self.sigs = []       # dict(sid, comp, name, kind, type)
    self.consts = []     # dict(cid, type, value, at)
    self.conns = []      # dict(a, b, at, auto)    a, b objects; auto = the clk/reset hook-up of Component._construct
    self.blks = []       # dict(id, comp, ff, stmts=[(target obj, op, rhs)], reads=[obj])  rhs: ('k', value) | ('r', obj) | ('inc',)
    self.drv = {}        # (sid, bit) -> set of driver tokens      (generator bookkeeping)
    self.nodes = set()   # objects that occur in a connection
    self.marked = set()  # objects carrying a propagatable writer mark
    self.netinfo = []    # dict(writer, members, kind)  (what the generator intends)
    self.labels = []     # injected defects
    self.safe_src = set()  # objects whose value does not depend on any update block
    self.funcs = []        # @s.func helpers: dict(id, comp, stmts=[(target, op, rhs)], reads=[obj], calls=[func id]); blocks call them through b['calls']
    self.tags = []         # directed shapes present in the design (histograms)
    self.nest = {}         # slice object -> chain of relative slices it is written as in connect statements (x[4:8][0:2] for x[4:6])

  # ------------------------------------------------------------------ structure
  def add_comp(self, name, parent):
    idx = len(self.comps)
    path = name if parent in (None, 0) else self.comps[parent]['path'] + '.' + name
    if parent is None: path = ''
    c = dict(idx=idx, name=name, parent=parent, children=[], path=path)
    self.comps.append(c)
    if parent is not None: self.comps[parent]['children'].append(idx)
    clk = self.add_sig(idx, 'clk', 'in', ('b', 1))
    rst = self.add_sig(idx, 'reset', 'in', ('b', 1))
    c['clk'], c['reset'] = clk, rst
    return idx

  def add_sig(self, comp, name, kind, typ):
    sid = len(self.sigs)
    self.sigs.append(dict(sid=sid, comp=comp, name=name, kind=kind, type=typ))
    if kind == 'in' and comp == 0:
      for b in range(twidth(typ)): self.drv.setdefault((sid, b), set()).add(('ext',))
    return sid

  def hook_clk(self):
    """the connections Component._construct adds after a child's construct()"""
    for c in self.comps:
      if c['parent'] is None: continue
      p = self.comps[c['parent']]
      for nm in ('clk', 'reset'):
        a, b = self.whole(c[nm]), self.whole(p[nm])
        self.conns.append(dict(a=a, b=b, at=c['parent'], auto=True))
        self.nodes.add(a); self.nodes.add(b)
        self.marked.add(a); self.marked.add(b)
        self.safe_src.add(a); self.safe_src.add(b)
        self.drive(a, ('net', nm))

  def parent(self, c):
    return self.comps[c]['parent']

  def ancestors_or_self(self, c):
    out = []
    while c is not None:
      out.append(c); c = self.comps[c]['parent']
    return out

  # ------------------------------------------------------------------ objects
  # signal object: ('sig', sid, fields(tuple of field positions), slice or None); constant: ('const', cid)
  def whole(self, sid): return ('sig', sid, (), None)

  def otype(self, o):
    if o[0] == 'const': return self.consts[o[1]]['type']
    t = self.sigs[o[1]]['type']
    for k in o[2]: t = tstep(t, k)
    if o[3] is not None: t = ('b', o[3][1] - o[3][0])
    return t

  def okind(self, o):
    return 'const' if o[0] == 'const' else self.sigs[o[1]]['kind']

  def ohost(self, o):
    return self.consts[o[1]]['at'] if o[0] == 'const' else self.sigs[o[1]]['comp']

  def obits(self, o):
    """absolute bit positions (sid, bit) of a signal object in the packed value of its top-level signal"""
    if o[0] == 'const': return set()
    t = self.sigs[o[1]]['type']; lo = 0; hi = twidth(t)
    for k in o[2]:
      if t[0] == 'l':
        w = twidth(tstep(t, k)); lo, hi = lo + k * w, lo + (k + 1) * w; t = tstep(t, k)
        continue
      top = hi
      for i, (_, ft) in enumerate(STRUCTS[t[1]]):
        w = twidth(ft)
        if i == k:
          hi = top; lo = top - w; t = ft
          break
        top -= w
    if o[3] is not None: lo, hi = lo + o[3][0], lo + o[3][1]
    return {(o[1], b) for b in range(lo, hi)}

  def suffix(self, o, nested=False):
    t = self.sigs[o[1]]['type']; s = ''
    for k in o[2]:
      s += ('.' + STRUCTS[t[1]][k][0]) if t[0] == 's' else f'[{k}]'
      t = tstep(t, k)
    if o[3] is not None:
      if nested and o in self.nest: s += ''.join(f'[{a}:{b}]' for (a, b) in self.nest[o])
      else: s += f'[{o[3][0]}:{o[3][1]}]'
    return s

  def orepr(self, o):
    if o[0] == 'const':
      c = self.consts[o[1]]
      return const_repr(c['type'], c['value'])
    sg = self.sigs[o[1]]
    p = self.comps[sg['comp']]['path']
    return 's.' + (p + '.' if p else '') + sg['name'] + self.suffix(o)

  def oexpr(self, o, at, nested=False):
    """source text of the object as seen from component `at` (an ancestor-or-self of its host); nested: write a
    slice as the slice-of-slice chain chosen for it (only in connect statements: update blocks do not accept it)"""
    if o[0] == 'const':
      c = self.consts[o[1]]
      if c['type'][0] == 'b' and c.get('bits'): return f"Bits{c['type'][1]}({c['value']})"       # a Bits constant instead of an int
      return tconst_src(c['type'], c['value'])
    sg = self.sigs[o[1]]
    hp, ap = self.comps[sg['comp']]['path'], self.comps[at]['path']
    assert hp == ap or hp.startswith(ap + '.') or ap == '', (hp, ap)
    rel = hp[len(ap):].lstrip('.')
    return 's.' + (rel + '.' if rel else '') + sg['name'] + self.suffix(o, nested)

  def share_bit(self, a, b):
    return bool(self.obits(a) & self.obits(b))

  def free(self, o, same=None):
    """no bit of o has a driver (other than `same`)"""
    for bit in self.obits(o):
      d = self.drv.get(bit, set())
      if d - ({same} if same is not None else set()): return False
    return True

  def drive(self, o, tok):
    for bit in self.obits(o): self.drv.setdefault(bit, set()).add(tok)

  def subobjects_of_type(self, sid, typ, rng, full_slice=False):
    """all (fields) positions under signal sid from which an object of type typ can be taken; returns one random object or None"""
    cands = []
    def rec(t, fields):
      if t == typ: cands.append(('sig', sid, fields, None))
      if t[0] in ('s', 'l'):
        for k in tchildren(t): rec(tstep(t, k), fields + (k,))
      elif typ[0] == 'b' and typ[1] < t[1]:
        cands.append(('slice', fields, t[1]))
      elif typ[0] == 'b' and typ[1] == t[1] and full_slice:
        cands.append(('slice', fields, t[1]))
    rec(self.sigs[sid]['type'], ())
    if not cands: return None
    c = rng.choice(cands)
    if c[0] == 'sig': return c
    lo = rng.randint(0, c[2] - typ[1])
    return ('sig', sid, c[1], (lo, lo + typ[1]))

  def random_object(self, sid, rng):
    """a random object under signal sid (whole / field / slice)"""
    t = self.sigs[sid]['type']; fields = ()
    while True:
      if t[0] == 'l':
        k = rng.randrange(t[1][0]); fields += (k,); t = tstep(t, k)
      elif t[0] == 's':
        if rng.random() < 0.35: return ('sig', sid, fields, None)
        k = rng.randrange(len(STRUCTS[t[1]])); fields += (k,); t = STRUCTS[t[1]][k][1]
      else:
        if t[1] == 1 or rng.random() < 0.55: return ('sig', sid, fields, None)
        lo = rng.randint(0, t[1] - 1); hi = rng.randint(lo + 1, t[1])
        if (lo, hi) == (0, t[1]) and rng.random() < 0.9: return ('sig', sid, fields, None)
        return ('sig', sid, fields, (lo, hi))

  def relatives(self, o, rng):
    """objects sharing a bit with o, by structure: ancestors, descendants, overlapping slices"""
    out = []
    sid, fields, sl = o[1], o[2], o[3]
    for n in range(len(fields) + (1 if sl is not None else 0)):
      anc = ('sig', sid, fields[:n], None)
      if self.otype(anc)[0] != 'l': out.append(anc)      # a (partly indexed) list of signals is not a signal
    if sl is None:
      t = self.otype(o)
      if t[0] == 's':
        for k in range(len(STRUCTS[t[1]])):
          f2, t2 = fields + (k,), STRUCTS[t[1]][k][1]
          while t2[0] == 'l':
            j = rng.randrange(t2[1][0]); f2 += (j,); t2 = tstep(t2, j)
          out.append(('sig', sid, f2, None))
      elif t[1] > 1:
        for _ in range(3):
          lo = rng.randint(0, t[1] - 1); hi = rng.randint(lo + 1, t[1])
          if (lo, hi) != (0, t[1]): out.append(('sig', sid, fields, (lo, hi)))
    else:
      W = self.otype(('sig', sid, fields, None))[1]
      for _ in range(4):
        lo = rng.randint(0, W - 1); hi = rng.randint(lo + 1, W)
        if (lo, hi) != sl and (lo, hi) != (0, W) and max(lo, sl[0]) < min(hi, sl[1]):
          out.append(('sig', sid, fields, (lo, hi)))
    return [x for x in out if x != o]

  # ------------------------------------------------------------------ data-flow legality (generator side)
  def flow_at(self, u, v, rng=None):
    """component in which `u drives v` may legally be connected, or None"""
    hv = self.ohost(v); kv = self.okind(v)
    if u[0] == 'const':
      if kv in ('out', 'wire'): return hv
      return self.parent(hv)          # constant into an InPort: at the parent (None for the top)
    hu = self.ohost(u); ku = self.okind(u)
    if hu == hv:
      if kv in ('out', 'wire'): return hu
      if ku == 'out' and kv == 'in' and self.parent(hu) is not None: return self.parent(hu)   # loop-back at the parent
      return None
    if hv == self.parent(hu):
      return hv if (ku == 'out' and kv in ('out', 'wire')) else None
    if self.parent(hv) == hu:
      return hu if kv == 'in' else None
    if self.parent(hv) is not None and self.parent(hv) == self.parent(hu):
      return self.parent(hv) if (ku == 'out' and kv == 'in') else None
    return None

  def writable_sigs(self, comp):
    """signals a block of `comp` may write: own OutPort/Wire, InPort of a child"""
    out = [s['sid'] for s in self.sigs if s['comp'] == comp and s['kind'] in ('out', 'wire')]
    for ch in self.comps[comp]['children']:
      out += [s['sid'] for s in self.sigs if s['comp'] == ch and s['kind'] == 'in' and s['name'] not in ('clk', 'reset')]
    return out

  def readable_objs(self, comp):
    """safe sources a block of `comp` may read: value independent of every block; ports anywhere below, wires only own"""
    out = []
    for o in self.safe_src:
      if o[0] == 'const': continue
      sg = self.sigs[o[1]]
      if sg['comp'] == comp or (sg['kind'] != 'wire' and comp in self.ancestors_or_self(sg['comp'])):
        out.append(o)
    return sorted(out, key=repr)

  def new_blk(self, comp, ff):
    b = dict(id=len(self.blks), comp=comp, ff=ff, stmts=[], reads=[], calls=[])
    self.blks.append(b)
    return b

  def new_func(self, comp):
    f = dict(id=len(self.funcs), comp=comp, stmts=[], reads=[], calls=[])
    self.funcs.append(f)
    return f

  # the functions a block reaches and what it therefore reads and writes (computed here, not taken from pymtl3)
  def reach_funcs(self, roots):
    seen, todo = [], list(roots)
    while todo:
      f = todo.pop()
      if f in seen: continue
      seen.append(f); todo.extend(self.funcs[f]['calls'])
    return sorted(seen)

  def has_call_cycle(self):
    def dfs(f, path):
      if f in path: return True
      return any(dfs(g, path + [f]) for g in self.funcs[f]['calls'])
    return any(dfs(f, []) for b in self.blks for f in b.get('calls', []))

  def eff_stmts(self, b):
    out = list(b['stmts'])
    for f in self.reach_funcs(b.get('calls', [])):
      out += [(t, 'ff' if b['ff'] else 'at', rhs) for (t, op, rhs) in self.funcs[f]['stmts']]
    return out

  def eff_reads(self, b):
    out = list(b['reads']) + list(b.get('extra_reads', []))
    for f in self.reach_funcs(b.get('calls', [])): out += self.funcs[f]['reads']
    return out

  def rhs_for(self, blk, target, rng):
    t = self.otype(target)
    if blk['ff'] and t[0] == 'b' and rng.random() < 0.5:
      return ('inc',)
    if rng.random() < 0.35:
      cands = [o for o in self.readable_objs(blk['comp']) if self.otype(o) == t and o[1] != target[1]]
      if cands:
        r = rng.choice(cands)
        return ('r', r)
    return ('k', rng.randrange(1 << twidth(t)))

  def add_write(self, blk, target, rng, op=None, rhs=None):
    if op is None: op = 'ff' if blk['ff'] else 'at'
    if rhs is None: rhs = self.rhs_for(blk, target, rng)
    blk['stmts'].append((target, op, rhs))
    if rhs[0] == 'r': blk['reads'].append(rhs[1])
    if rhs[0] == 'inc': blk['reads'].append(target)
    self.drive(target, ('blk', blk['id']))
    self.marked.add(target)

  def add_conn(self, a, b, at):
    self.conns.append(dict(a=a, b=b, at=at, auto=False))
    self.nodes.add(a); self.nodes.add(b)

  def new_const(self, typ, value, at):
    cid = len(self.consts)
    self.consts.append(dict(cid=cid, type=typ, value=value, at=at, bits=bool((value ^ cid) & 1)))
    return ('const', cid)

  # ------------------------------------------------------------------ rendering
  def all_objects(self):
    """every object mentioned anywhere, in a fixed order; index = model id"""
    seen, out = set(), []
    def add(o):
      if o not in seen: seen.add(o); out.append(o)
    for c in self.conns: add(c['a']); add(c['b'])
    for b in self.blks:
      for (t, op, rhs) in b['stmts']: add(t)
      for r in b['reads'] + b.get('extra_reads', []): add(r)
    for f in self.funcs:
      for (t, op, rhs) in f['stmts']: add(t)
      for r in f['reads']: add(r)
    return out

  def model_args(self, conn_order=None, flips=None, blk_order=None):
    objs = self.all_objects()
    oid = {o: i for i, o in enumerate(objs)}
    ol = []
    nsig = len(self.sigs)
    for o in objs:
      if o[0] == 'const':
        ol.append([nsig + o[1], 'const', self.consts[o[1]]['at'], [], None])
      else:
        ol.append([o[1], self.okind(o), self.ohost(o), list(o[2]), list(o[3]) if o[3] is not None else None])
    par = [c['parent'] for c in self.comps]
    conns = list(range(len(self.conns))) if conn_order is None else conn_order
    cl = []
    for i in conns:
      c = self.conns[i]
      a, b = oid[c['a']], oid[c['b']]
      if flips and flips.get(i): a, b = b, a
      cl.append([a, b, c['at']])
    bl = []
    for i in (range(len(self.blks)) if blk_order is None else blk_order):
      b = self.blks[i]
      bl.append([b['comp'], b['ff'], [[oid[t], op] for (t, op, rhs) in b['stmts']], [oid[r] for r in b['reads'] + b.get('extra_reads', [])]])
    fl = [[[oid[t] for (t, op, rhs) in f['stmts']], [oid[r] for r in f['reads']], list(f['calls'])] for f in self.funcs]
    bc = [list(self.blks[i].get('calls', [])) for i in (range(len(self.blks)) if blk_order is None else blk_order)]
    return objs, (['objs'] + ol, ['par'] + par, ['conns'] + cl, ['blks'] + bl, ['funcs'] + fl, ['bcalls'] + bc)

  def model_line(self, **kw):
    objs, args = self.model_args(**kw)
    return objs, leanio.line('nets', 'elab', *args)

  def cls_name(self, comp, variant):
    return f'G{self.uid}v{variant}_' + (self.comps[comp]['path'].replace('.', '_') or 'Top')

  def stmt_src(self, comp, st, flip, style):
    if st[0] == 'conn':
      c = self.conns[st[1]]
      a, b = self.oexpr(c['a'], comp, True), self.oexpr(c['b'], comp, True)
      if flip: a, b = b, a
      if style and a.startswith('s.') and not a.endswith(']') and self.is_plain(c['b'] if flip else c['a']):
        return [f'    {a} //= {b}']
      return [f'    connect( {a}, {b} )']
    if st[0] == 'blk' and self.blks[st[1]].get('lam') is not None:
      b = self.blks[st[1]]
      tgt = self.oexpr(b['stmts'][0][0], comp)
      specs = self.hist if (getattr(self, 'hist', None) and b.get('hist')) else None
      if specs is None: return [f'    {tgt} //= lambda: {self.lam_src(b["lam"], comp)}']
      lines = []
      for i, spec in enumerate(specs):
        lines += [f'    {"if" if i == 0 else "elif"} p == {i}:', f'      {tgt} //= lambda: {self.lam_src(spec, comp)}']
      return lines
    if st[0] == 'func':
      b = self.funcs[st[1]]
      lines = ['    @s.func', f'    def fn{b["id"]}():']
    else:
      b = self.blks[st[1]]
      lines = [f'    @update_ff' if b['ff'] else '    @update', f'    def blk{b["id"]}():']
    items = []      # one list of source lines per statement of the body
    for (t, op, rhs) in b['stmts']:
      tgt = self.oexpr(t, comp)
      if op == 'for':
        items.append(([f'for {tgt} in range( 2 ):', '  pass'], (tgt, op)))
        continue
      sym = {'at': '@=', 'ff': '<<=', 'assign': '='}[op]
      if rhs[0] == 'k': r = tconst_src(self.otype(t), rhs[1])
      elif rhs[0] == 'r': r = self.oexpr(rhs[1], comp)
      else: r = f'{tgt} + 1'
      items.append(([f'{tgt} {sym} {r}'], (tgt, op)))
    for r in b.get('extra_reads', []):
      items.append(([f'tmp = {self.oexpr(r, comp)}'], ('read',)))
    for c in b.get('calls', []):
      items.append(([f'fn{c}()'], ('call', c)))
    lines += self.place_body(items, st)
    if len(lines) == 2: lines.append('      pass')
    return lines

  def place_body(self, items, st):
    """statements are placed one by one (`placed`) or two neighbours share one compound statement: the same branch of an
    if, the two branches of an if/else (inside a two-trip loop, so that each still runs once), a for body, a for body and
    its else clause; the compound may itself be placed again"""
    import zlib
    ind = lambda ls, n=1: ['  ' * n + l for l in ls]
    pair_forms = [
      lambda x, y: ['if 1 == 1:'] + ind(x + y),
      lambda x, y: ['for _k in range( 2 ):', '  if _k == 0:'] + ind(x, 2) + ['  else:'] + ind(y, 2),
      lambda x, y: ['for _k in range( 1 ):'] + ind(x + y),
      lambda x, y: ['for _k in range( 1 ):'] + ind(x) + ['else:'] + ind(y),
      lambda x, y: ['if 1 == 0:', '  pass', 'else:'] + ind(x + y),
      lambda x, y: ['if 2 > 1:'] + ind(x + ['if 1 == 1:'] + ind(y)),
    ]
    out, i = [], 0
    while i < len(items):
      h = zlib.crc32(repr((st, i, items[i][1], len(self.sigs), len(self.conns), len(self.blks), 'pair')).encode())
      if i + 1 < len(items) and h % 100 < 55:
        grp = pair_forms[(h // 100) % len(pair_forms)](items[i][0], items[i + 1][0])
        out += self.placed(grp, (st, i, 'grp')) if (h // 1000) % 3 == 0 else ['      ' + l for l in grp]
        i += 2
      else:
        out += self.placed(items[i][0], (st, i, items[i][1]))
        i += 1
    return out

  def placed(self, stmt, key):
    """syntactic placement of one statement of an update block / helper: plainly, in the body of a one-trip for loop, in the
    else clause of a for loop, under an always-true if, in the else of an always-false if, or nested; Python executes it
    exactly once in every form. The choice is a function of the design (no random state: replays render the same text)."""
    import zlib
    h = zlib.crc32(repr((key, len(self.sigs), len(self.conns), len(self.blks))).encode())
    ind = lambda ls, n=1: ['  ' * n + l for l in ls]
    forms = [
      lambda x: x,
      lambda x: x,
      lambda x: ['for _k in range( 1 ):'] + ind(x),
      lambda x: ['for _k in range( 1 ):', '  pass', 'else:'] + ind(x),
      lambda x: ['if 1 == 1:'] + ind(x),
      lambda x: ['if 1 == 0:', '  pass', 'else:'] + ind(x),
      lambda x: ['if 1 == 1:'] + ind(['for _k in range( 1 ):', '  pass', 'else:'] + ind(x)),
      lambda x: ['for _k in range( 1 ):'] + ind(['if 2 > 1:'] + ind(x)),
      lambda x: ['for _k in range( 1 ):', '  pass', 'else:'] + ind(['for _j in range( 1 ):', '  pass', 'else:'] + ind(x)),
    ]
    return ['      ' + l for l in forms[h % len(forms)](stmt)]

  def lams_last(self, sts):
    """a `//= lambda` that calls a helper must come after the helper's definition (its closure cell is read at once)"""
    late = [st for st in sts if st[0] == 'blk' and self.blks[st[1]].get('lam') is not None]
    return [st for st in sts if st not in late] + late

  def lam_src(self, spec, comp):
    if spec[0] == 'read': return self.oexpr(spec[1], comp) + (' + 1' if self.otype(spec[1])[0] == 'b' else '')
    if spec[0] == 'call': return f'fn{spec[1]}()'
    return '0'

  def new_lam(self, comp, target, spec, hist=False):
    """`target //= lambda: expr`: an update block writing target, reading / calling what the expression reads / calls"""
    b = self.new_blk(comp, False)
    b['stmts'].append((target, 'at', ('k', 0))); b['lam'] = spec; b['hist'] = hist
    if spec[0] == 'read': b['reads'].append(spec[1])
    if spec[0] == 'call': b['calls'].append(spec[1])
    self.drive(target, ('blk', b['id'])); self.marked.add(target)
    return b

  def is_plain(self, o):
    return o[0] == 'sig' and o[2] == () and o[3] is None

  def variant_orders(self, rng, identity=False):
    """one variant = per component a permutation of its statements + flip and style bits per connect"""
    per = {}
    for c in self.comps:
      sts = [('conn', i) for i, cn in enumerate(self.conns) if cn['at'] == c['idx'] and not cn['auto']]
      sts += [('blk', b['id']) for b in self.blks if b['comp'] == c['idx']]
      sts += [('func', f['id']) for f in self.funcs if f['comp'] == c['idx']]
      if not identity: rng.shuffle(sts)
      per[c['idx']] = self.lams_last(sts)
    flips = {i: (not identity and rng.random() < 0.5) for i in range(len(self.conns)) if not self.conns[i]['auto']}
    styles = {i: rng.random() < 0.3 for i in range(len(self.conns))}
    return dict(per=per, flips=flips, styles=styles)

  def conn_order_of(self, var):
    """the order in which the statements of this variant reach the adjacency (children are constructed
    when they are assigned, before the parent's statements; the auto clk/reset hook-ups follow each child)"""
    order = []
    def rec(ci):
      for ch in self.comps[ci]['children']:
        rec(ch)
        for i, cn in enumerate(self.conns):
          if cn['auto'] and cn['a'][1] in (self.comps[ch]['clk'], self.comps[ch]['reset']): order.append(i)
      order.extend(i for (k, i) in var['per'][ci] if k == 'conn')
    rec(0)
    return order

  def blk_order_of(self, var):
    order = []
    def rec(ci):
      for ch in self.comps[ci]['children']: rec(ch)
      order.extend(i for (k, i) in var['per'][ci] if k == 'blk')
    rec(0)
    return order

  def source(self, variants):
    out = ['from pymtl3 import *', STRUCT_SRC]
    for vi, var in enumerate(variants):
      for c in reversed(self.comps):        # children before parents
        sig = '  def construct( s, p ):' if (getattr(self, 'hist', None) and c['idx'] == 0) else '  def construct( s ):'
        out += [f'class {self.cls_name(c["idx"], vi)}( Component ):', sig]
        for sg in self.sigs:
          if sg['comp'] == c['idx'] and sg['name'] not in ('clk', 'reset'):
            out.append(f'    s.{sg["name"]} = {CTOR[sg["kind"]]}( {tname(sg["type"])} )')
        for ch in c['children']:
          out.append(f'    s.{self.comps[ch]["name"]} = {self.cls_name(ch, vi)}()')
        for st in var['per'][c['idx']]:
          fl = var['flips'].get(st[1], False) if st[0] == 'conn' else False
          sy = var['styles'].get(st[1], False) if st[0] == 'conn' else False
          out += self.stmt_src(c['idx'], st, fl, sy)
        out += ['    pass', '']
    return '\n'.join(out)

def const_repr(typ, value):
  from pymtl3.datatypes import mk_bits
  if typ[0] == 'b': return repr(mk_bits(typ[1])(value))
  parts, hi = [], twidth(typ)
  for fname, ft in STRUCTS[typ[1]]:
    w = twidth(ft); hi -= w
    parts.append(const_repr(ft, (value >> hi) & ((1 << w) - 1)))
  return f'{typ[1]}({",".join(parts)})'

# ---------------------------------------------------------------------------------------------
# legal designs
# ---------------------------------------------------------------------------------------------
TYPES = [('b', 1), ('b', 2), ('b', 4), ('b', 4), ('b', 8), ('b', 8), ('b', 12), ('s', 'PA'), ('s', 'PA'), ('s', 'PB')]

def gen_hierarchy(rng, d, levels=None, nsig=(2, 6)):
  levels = levels or rng.choice([1, 2, 2, 3, 3])
  d.add_comp('top', None)
  if levels >= 2:
    for i in range(rng.randint(1, 3)):
      c = d.add_comp(f'c{i}', 0)
      if levels >= 3 and rng.random() < 0.7:
        for j in range(rng.randint(1, 2)): d.add_comp(f'g{j}', c)
  for c in d.comps:
    n = rng.randint(*nsig)
    kinds = ['in', 'out', 'wire']
    for i in range(n):
      k = rng.choice(kinds) if i >= 2 else ['in', 'out'][i]
      d.add_sig(c['idx'], f'{k[0]}{i}', k, ('s', 'PG') if rng.random() < 0.12 else rng.choice(TYPES))
  d.hook_clk()

def pick_reader(d, rng, u, typ, tries=40):
  """a fresh object v of type typ that u may legally drive: all bits free, not yet a node"""
  sids = list(range(len(d.sigs)))
  for _ in range(tries):
    sid = rng.choice(sids)
    if d.sigs[sid]['name'] in ('clk', 'reset'): continue
    v = d.subobjects_of_type(sid, typ, rng, full_slice=rng.random() < 0.05)
    if v is None or v in d.nodes or v == u: continue
    if not d.free(v): continue
    # never overlap an existing node: keeps the data flow between nets acyclic and excludes a
    # member sharing bits with a member of its own net (separate labelled stream, see gen_self_overlap)
    if any(n[0] == 'sig' and n[1] == v[1] and d.share_bit(v, n) for n in d.nodes): continue
    at = d.flow_at(u, v)
    if at is None: continue
    return v, at
  return None

def grow_net(d, rng, writer, kind, nid, max_readers=4):
  members = [writer]
  typ = d.otype(writer)
  added = 0
  was_node = writer in d.nodes
  d.nodes.add(writer)        # readers must not overlap the writer either
  for _ in range(rng.randint(1, max_readers)):
    u = rng.choice(members)
    r = pick_reader(d, rng, u, typ)
    if r is None: continue
    v, at = r
    d.add_conn(u, v, at)
    d.drive(v, ('net', nid)); d.marked.add(v)
    members.append(v); added += 1
  if added == 0:
    if not was_node: d.nodes.discard(writer)
    return None
  info = dict(writer=writer, members=members, kind=kind, id=nid)
  d.netinfo.append(info)
  if kind in ('topin', 'const'):
    for m in members: d.safe_src.add(m)
  return info

def gen_legal(rng, nnets=None, levels=None, extra_blocks=True, d1=False):
  """a design with no structural defect"""
  d = Design(next(_uid))
  gen_hierarchy(rng, d, levels)
  nnets = nnets if nnets is not None else rng.randint(2, 8)
  for _ in range(nnets * 3):
    if len(d.netinfo) >= nnets: break
    nid = ('n', len(d.conns))
    kind = rng.choices(['blk', 'topin', 'const', 'derived'], [30, 25, 12, 33])[0]
    before = (len(d.conns), len(d.blks), len(d.consts))
    if kind == 'blk':
      comp = rng.randrange(len(d.comps))
      ws = d.writable_sigs(comp)
      if not ws: continue
      o = d.random_object(rng.choice(ws), rng)
      if o in d.nodes or not d.free(o): continue
      ff = d.is_plain(o) and rng.random() < 0.3
      # reuse a block of this component sometimes (one block, several targets)
      same = [b for b in d.blks if b['comp'] == comp and b['ff'] == ff]
      blk = rng.choice(same) if same and rng.random() < 0.4 else d.new_blk(comp, ff)
      d.add_write(blk, o, rng)
      if rng.random() < 0.2:       # written twice by the same block (default value, then override)
        d.add_write(blk, o, rng, rhs=('k', rng.randrange(1 << twidth(d.otype(o)))))
      info = grow_net(d, rng, o, 'blk', nid)
      if info is None:
        pass    # the block write stays (an object written but not connected)
    elif kind == 'topin':
      tins = [s['sid'] for s in d.sigs if s['comp'] == 0 and s['kind'] == 'in' and s['name'] not in ('clk', 'reset')]
      if not tins: continue
      o = d.random_object(rng.choice(tins), rng)
      if o in d.nodes: continue
      info = grow_net(d, rng, o, 'topin', nid)
      if info is not None: d.marked.add(o)
    elif kind == 'const':
      typ = rng.choice(TYPES)
      c = d.new_const(typ, rng.randrange(1 << twidth(typ)), 0)
      # the constant's host is the component of the statement: decided by its first reader
      r = None
      for _ in range(30):
        sid = rng.randrange(len(d.sigs))
        if d.sigs[sid]['name'] in ('clk', 'reset'): continue
        v = d.subobjects_of_type(sid, typ, rng)
        if v is None or v in d.nodes or not d.free(v): continue
        at = d.flow_at(c, v)
        if at is None: continue
        r = (v, at); break
      if r is None:
        d.consts.pop(); continue
      v, at = r
      d.consts[c[1]]['at'] = at
      d.add_conn(v, c, at)
      d.drive(v, ('net', nid)); d.marked.add(v)
      info = dict(writer=c, members=[c, v], kind='const', id=nid)
      d.netinfo.append(info)
      d.safe_src.add(v)
      # more readers hanging off v
      typ2 = typ
      for _ in range(rng.randint(0, 2)):
        u = rng.choice([m for m in info['members'] if m[0] != 'const'])
        rr = pick_reader(d, rng, u, typ2)
        if rr is None: continue
        d.add_conn(u, rr[0], rr[1]); d.drive(rr[0], ('net', nid)); d.marked.add(rr[0])
        info['members'].append(rr[0]); d.safe_src.add(rr[0])
    else:
      if not d.marked: continue
      t = rng.choice(sorted(d.marked, key=repr))
      rels = [x for x in d.relatives(t, rng) if x not in d.nodes]
      if not rels: continue
      o = rng.choice(rels)
      info = grow_net(d, rng, o, 'derived', nid)
  if extra_blocks:
    for _ in range(rng.randint(0, 3)):
      comp = rng.randrange(len(d.comps))
      ws = d.writable_sigs(comp)
      if not ws: continue
      o = d.random_object(rng.choice(ws), rng)
      if o in d.nodes or not d.free(o): continue
      ff = d.is_plain(o) and rng.random() < 0.4
      blk = d.new_blk(comp, ff)
      d.add_write(blk, o, rng)
      # the same object written twice by one block with the legal operator (default, then override)
      if rng.random() < 0.3:
        d.add_write(blk, o, rng, rhs=('k', rng.randrange(1 << twidth(d.otype(o)))))
      # one block writing two related objects (the shape of the repaired F6 and of 87007f6)
      if not ff and rng.random() < 0.5:
        for x in d.relatives(o, rng):
          if x not in d.nodes and d.free(x, same=('blk', blk['id'])) and rng.random() < 0.5:
            d.add_write(blk, x, rng); break
  if rng.random() < 0.3:       # a lambda connection: an update block written as `sig //= lambda: expr`
    comp = rng.randrange(len(d.comps))
    own = [sg['sid'] for sg in d.sigs if sg['comp'] == comp and sg['kind'] in ('out', 'wire') and sg['type'][0] == 'b']
    own = [x for x in own if d.whole(x) not in d.nodes and d.free(d.whole(x))]
    if own:
      o = d.whole(rng.choice(own))
      cands = [r for r in d.readable_objs(comp) if d.otype(r) == d.otype(o) and r[1] != o[1]]
      if cands:      # (a lambda that does not mention `s`, e.g. `lambda: 0`, elaborates but fails in simulation with NameError: not generated here)
        d.new_lam(comp, o, ('read', rng.choice(cands)))
        d.tags.append('lambda')
  if d1 and add_d1_shape(d, rng): d.tags.append('d1')
  if rng.random() < 0.35: add_slice_key_collision(d, rng)
  if rng.random() < 0.3: add_deep_override(d, rng, 'legal')
  if rng.random() < 0.35: add_list_field_nets(d, rng)
  assign_nests(d, rng)
  if rng.random() < 0.4: helperize(d, rng)
  return d

def make_nest(rng, lo, hi, W):
  """a chain of relative slices (depth 2, sometimes 3) that denotes [lo:hi) of a W-bit signal, or None"""
  if hi - lo >= W: return None
  for _ in range(8):
    olo = rng.randint(0, lo) if rng.random() < 0.2 else rng.randint(min(1, lo), lo)
    ohi = rng.randint(hi, W)
    if (olo, ohi) in ((lo, hi), (0, W)): continue
    chain = [(olo, ohi)]
    if rng.random() < 0.3 and (ohi - olo) > (hi - lo):
      mlo = rng.randint(olo, lo); mhi = rng.randint(hi, ohi)
      if (mlo, mhi) not in ((lo, hi), (olo, ohi)):
        chain.append((mlo - olo, mhi - olo)); olo = mlo
    chain.append((lo - olo, hi - olo))
    return chain
  return None

def assign_nests(d, rng, p=0.45):
  """write some of the slices that occur in connect statements as slices of slices"""
  for o in d.all_objects():
    if o[0] == 'sig' and o[3] is not None and o not in d.nest and rng.random() < p:
      W = twidth(d.otype(('sig', o[1], o[2], None)))
      ch = make_nest(rng, o[3][0], o[3][1], W)
      if ch: d.nest[o] = ch

def add_slice_key_collision(d, rng):
  """x[olo:ohi][r:r+w] (= x[olo+r : olo+r+w], outer slice not starting at 0) and the plain x[r:r+w] of the same signal,
  two disjoint ranges, used in different nets (or one written by a block): they must stay two objects"""
  comp = rng.randrange(len(d.comps))
  W = rng.choice([8, 12])
  x = d.add_sig(comp, f'x{len(d.sigs)}', 'wire', ('b', W))
  w = rng.randint(1, 3); r = rng.randint(0, min(2, (W - 2 * w) // 2))
  olo = rng.randint(r + w, W - r - w)
  ohi = rng.randint(olo + r + w, W)
  A = ('sig', x, (), (olo + r, olo + r + w)); B = ('sig', x, (), (r, r + w))
  chain = [(olo, ohi), (r, r + w)]
  if rng.random() < 0.3 and ohi - olo >= r + w + 1 and r >= 1:
    # depth 3: x[olo:ohi][1:..][r-1:r-1+w]
    chain = [(olo, ohi), (1, ohi - olo), (r - 1, r - 1 + w)]
    B = ('sig', x, (), (r - 1, r - 1 + w))
  d.nest[A] = chain
  if rng.random() < 0.3 and B[3][1] < olo:
    d.nest[B] = [(0, olo), B[3]]           # the partner nested too, outer slice starting at 0
  typ = ('b', w)
  def source():
    y = d.whole(d.add_sig(comp, f'x{len(d.sigs)}', 'wire', typ))
    if rng.random() < 0.5: _blk_write(d, rng, comp, y)
    else: assert _const_on(d, rng, y)
    return y
  mode = rng.choice(['two-nets', 'two-nets', 'same-net', 'block-and-net', 'net-and-block'])
  if mode == 'two-nets':
    for o in rng.sample([A, B], 2): d.add_conn(source(), o, comp)
  elif mode == 'same-net':
    y = source()
    for o in rng.sample([A, B], 2): d.add_conn(y, o, comp)
  elif mode == 'block-and-net':
    _blk_write(d, rng, comp, B); d.add_conn(source(), A, comp)
  else:
    _blk_write(d, rng, comp, A); d.add_conn(source(), B, comp)     # A only ever written plainly in the block
    d.add_conn(A, d.whole(d.add_sig(comp, f'x{len(d.sigs)}', 'wire', typ)), comp)   # ... and nested in a connect
  for o in (A, B): d.drive(o, ('net', ('gadget', x))); d.marked.add(o)
  d.tags.append('slice-key-collision:' + mode)

def add_deep_override(d, rng, mode='legal'):
  """default-then-override two levels deep: ONE block writes a struct object T (whole signal or a struct field) and a part
  D1 at least two levels below it; another part D2 under the same intermediate node (sibling field / disjoint slice) is
  mode 'legal': the writer of a net (driven through T);  'blk' / 'const': additionally driven by a block-written wire /
  a constant (second driver -> MultiWriterError)"""
  comp = rng.randrange(len(d.comps))
  ch = d.comps[comp]['children']
  shape = rng.choice(['field-field', 'field-slice', 'deep-slice', 'deep-mixed', 'mid-slice'])
  typ = ('s', 'PA') if shape == 'field-slice' else ('s', 'PB')
  if mode == 'legal' and ch and rng.random() < 0.3: sid = _fresh(d, rng.choice(ch), 'in', typ)
  else: sid = _fresh(d, comp, rng.choice(['wire', 'out']), typ)
  host = d.sigs[sid]['comp']
  def sl(fields, width):
    cut = rng.randint(1, width - 1)
    a, b = ('sig', sid, fields, (0, cut)), ('sig', sid, fields, (cut, width))
    if rng.random() < 0.3 and width - cut >= 2: b = ('sig', sid, fields, (cut + 1, width))
    return (a, b) if rng.random() < 0.5 else (b, a)
  T = d.whole(sid)
  if shape == 'field-field':     # PB: x and x.p.a ; x.p.b
    D1, D2 = ('sig', sid, (1, 0), None), ('sig', sid, (1, 1), None)
    if rng.random() < 0.5: D1, D2 = D2, D1
  elif shape == 'field-slice':   # PA: x and x.b[..] ; x.b[..]   (or field a)
    k, w = rng.choice([(0, 4), (1, 8)])
    D1, D2 = sl((k,), w)
  elif shape == 'deep-slice':    # PB: x and x.p.b[..] ; x.p.b[..]
    k, w = rng.choice([(0, 4), (1, 8)])
    D1, D2 = sl((1, k), w)
  elif shape == 'deep-mixed':    # PB: x and x.p.b[..] ; x.p.a   (intermediate node x.p recorded as not propagatable)
    D1 = ('sig', sid, (1, 1), (rng.randint(0, 3), rng.randint(4, 8))); D2 = ('sig', sid, (1, 0), None)
  else:                          # PB: x.p and x.p.b[..] ; x.p.b[..]  (the struct object written is a field itself)
    T = ('sig', sid, (1,), None)
    D1, D2 = sl((1, 1), 8)
  blk = d.new_blk(_writer_comp(d, T), False)
  for o in ([T, D1] if rng.random() < 0.7 else [D1, T]):
    d.add_write(blk, o, rng, rhs=('k', rng.randrange(1 << twidth(d.otype(o)))))
  t2 = d.otype(D2)
  if mode == 'legal':
    y = d.whole(_fresh(d, host, 'wire', t2))
    d.add_conn(D2, y, host)
    d.drive(y, ('net', ('deep', sid))); d.marked.add(y)
    d.netinfo.append(dict(writer=D2, members=[D2, y], kind='derived', id=('deep', sid)))
  elif mode == 'blk':
    w = d.whole(_fresh(d, host, 'wire', t2)); _blk_write(d, rng, host, w)
    d.add_conn(w, D2, host)
  else:
    assert _const_on(d, rng, D2)
  d.tags.append(f'deep-override:{shape}:{mode}')
  return 'MultiWriterError'

def _move_stmt(d, blk, idx, func):
  """move statement idx of an update block into a helper function (the block keeps reaching it through its calls)"""
  st = blk['stmts'].pop(idx)
  func['stmts'].append(st)
  if st[2][0] == 'r':
    blk['reads'].remove(st[2][1]); func['reads'].append(st[2][1])

def helperize(d, rng):
  """let some @update blocks perform part of their writes/reads through @s.func helpers: chains of call depth 1-3,
  diamonds (two callees sharing a callee), and a write-free helper shared by two blocks of a component through
  different intermediate helpers. Every signal bit keeps its single driver (the block that reaches the helper)."""
  done = False
  for blk in list(d.blks):
    if blk['ff'] or blk.get('lam') is not None or not blk['stmts'] or rng.random() < 0.5: continue
    if any(op != 'at' for (_, op, _) in blk['stmts']): continue
    comp = blk['comp']
    shape = rng.choice(['chain', 'chain', 'diamond'])
    if shape == 'chain':
      fs = [d.new_func(comp) for _ in range(rng.randint(1, 3))]
      for a, b in zip(fs, fs[1:]): a['calls'].append(b['id'])
      blk['calls'].append(fs[0]['id'])
    else:
      fa, fb, g = d.new_func(comp), d.new_func(comp), d.new_func(comp)
      fa['calls'].append(g['id']); fb['calls'].append(g['id'])
      blk['calls'] += [fa['id'], fb['id']]
      fs = [g, fa, fb] if rng.random() < 0.7 else [fa, fb, g]
    nmove = rng.randint(1, len(blk['stmts']))
    for _ in range(nmove):
      _move_stmt(d, blk, rng.randrange(len(blk['stmts'])), rng.choice(fs[-2:]) if rng.random() < 0.6 else rng.choice(fs))
    done = True
  # a helper without writes shared by two blocks of one component, reached through different intermediates
  by_comp = {}
  for b in d.blks:
    if not b['ff'] and b.get('lam') is None: by_comp.setdefault(b['comp'], []).append(b)
  for comp, bs in by_comp.items():
    if len(bs) >= 2 and rng.random() < 0.5:
      b1, b2 = rng.sample(bs, 2)
      h = d.new_func(comp)
      cands = d.readable_objs(comp)
      if cands and rng.random() < 0.6:
        r = rng.choice(cands); h['reads'].append(r); h['extra_reads'] = [r]
      f1, f2 = d.new_func(comp), d.new_func(comp)
      f1['calls'].append(h['id']); f2['calls'].append(h['id'])
      b1['calls'].append(f1['id']); b2['calls'].append(f2['id'])
      done = True
  if done: d.tags.append('helpers')

def inj_func(d, rng, kind):
  """defects reached through @s.func helpers"""
  comp = rng.randrange(len(d.comps))
  def chain(n, last):
    """n intermediate helpers ending in a call of `last`; returns the id to call"""
    cur = last
    for _ in range(n):
      f = d.new_func(comp); f['calls'].append(cur); cur = f['id']
    return cur
  if kind == 'cycle':
    fa, fb = d.new_func(comp), d.new_func(comp)
    if rng.random() < 0.3: fa['calls'].append(fa['id'])          # direct recursion
    else:
      fa['calls'].append(fb['id']); fb['calls'].append(chain(rng.randint(0, 1), fa['id']))
    blk = d.new_blk(comp, False)
    d.add_write(blk, d.whole(_fresh(d, comp, 'wire', rng.choice(TYPES))), rng, rhs=('k', 0))
    blk['calls'].append(chain(rng.randint(0, 1), fa['id']))
    return 'InvalidFuncCallError'
  o = d.random_object(_own_writable(d, rng, comp), rng)
  wc = _writer_comp(d, o)
  if wc != comp: comp = wc
  drive = d.new_func(comp)
  drive['stmts'].append((o, 'at', ('k', rng.randrange(1 << twidth(d.otype(o))))))
  d.drive(o, ('blk', 'helper')); d.marked.add(o)
  up_a = d.new_blk(comp, False)
  if kind == 'shared_nested':        # up_a -> fa.. -> drive ; up_b -> fb.. -> drive
    up_a['calls'].append(chain(rng.randint(1, 2), drive['id']))
    up_b = d.new_blk(comp, False)
    up_b['calls'].append(chain(rng.randint(1, 2), drive['id']))
    if rng.random() < 0.4:             # a diamond on one side
      up_b['calls'].append(chain(1, drive['id']))
  elif kind == 'shared_direct':
    up_a['calls'].append(drive['id'])
    up_b = d.new_blk(comp, False); up_b['calls'].append(chain(rng.randint(0, 1), drive['id']))
  elif kind == 'vs_direct':
    up_a['calls'].append(chain(rng.randint(0, 2), drive['id']))
    tgt = o
    if rng.random() < 0.4:
      rel = d.relatives(o, rng)
      if rel: tgt = rng.choice(rel)
    _blk_write(d, rng, comp, tgt)
  else:                               # vs_net: the object written in a helper is also a reader of a net
    up_a['calls'].append(chain(rng.randint(1, 2), drive['id']))
    if not _const_on(d, rng, o):
      y = d.whole(_fresh(d, d.ohost(o), 'wire', d.otype(o))); _blk_write(d, rng, d.ohost(o), y)
      at = d.flow_at(y, o)
      if at is None: return None
      d.add_conn(y, o, at)
  return 'MultiWriterError'

def add_list_field_nets(d, rng):
  """nets on elements of list-valued struct fields (2-D lists of Bits and of structs, a 1-D list as control): as writers
  (elements of a top-level input, passed on to ports and into a child) and as readers (driven by constants / written wires)"""
  comp = rng.randrange(len(d.comps))
  top_in = comp == 0 and rng.random() < 0.6
  x = d.add_sig(comp, f'x{len(d.sigs)}', 'in' if top_in else 'wire', ('s', 'PG'))
  def element():
    k = rng.choice([1, 1, 2, 2, 3])
    t = STRUCTS['PG'][k][1]; f = (k,)
    while t[0] == 'l':
      j = rng.randrange(t[1][0]); f += (j,); t = tstep(t, j)
    if len(f) == 3 and f[1] == f[2] and rng.random() < 0.7:       # prefer i != j
      f = (f[0], f[1], (f[2] + 1) % STRUCTS['PG'][k][1][1][1])
    if t[0] == 's' and rng.random() < 0.5: f += (rng.randrange(len(STRUCTS[t[1]])),)
    return ('sig', x, f, None)
  n = 0
  for _ in range(rng.randint(2, 5)):
    e = element()
    if e in d.nodes or any(m[0] == 'sig' and m[1] == x and d.share_bit(e, m) for m in d.nodes): continue
    t = d.otype(e)
    ch = d.comps[comp]['children']
    if top_in:
      y = d.whole(_fresh(d, rng.choice(ch), 'in', t)) if ch and rng.random() < 0.4 else d.whole(_fresh(d, comp, rng.choice(['wire', 'out']), t))
      d.add_conn(e, y, comp); d.drive(y, ('net', ('lf', x, n))); d.marked.add(y); d.marked.add(e)
      d.netinfo.append(dict(writer=e, members=[e, y], kind='topin', id=('lf', x, n)))
      d.safe_src.add(e); d.safe_src.add(y)
    else:
      src = d.whole(_fresh(d, comp, 'wire', t))
      if rng.random() < 0.5: _blk_write(d, rng, comp, src)
      else: assert _const_on(d, rng, src)
      d.add_conn(src, e, comp)
      z = d.whole(_fresh(d, comp, rng.choice(['wire', 'out']), t)); d.add_conn(e, z, comp)
      for o in (e, z): d.drive(o, ('net', ('lf', x, n))); d.marked.add(o)
      d.netinfo.append(dict(writer=src, members=[src, e, z], kind='blk', id=('lf', x, n)))
    n += 1
  if n: d.tags.append('list-field-nets:' + ('input' if top_in else 'wire'))

def gen_self_overlap(rng):
  """a net whose reader shares bits with its own writer: x[a:b] drives x[c:d] of the same signal"""
  d = Design(next(_uid))
  gen_hierarchy(rng, d, levels=rng.choice([1, 2]))
  comp = rng.randrange(len(d.comps))
  W = rng.choice([8, 12])
  sid = d.add_sig(comp, f'x{len(d.sigs)}', 'wire', ('b', W))
  w = rng.randint(2, 4)
  lo = rng.randint(w, W - w - 1) if W - w - 1 >= w else w
  writer = ('sig', sid, (), (lo, lo + w))
  # the writer becomes a source because its top bit is driven by a block through a sibling slice
  blk = d.new_blk(comp, False)
  d.add_write(blk, ('sig', sid, (), (lo + w - 1, min(W, lo + w + 1))), rng, rhs=('k', 1))
  reader = ('sig', sid, (), (lo - 1, lo + w - 1)) if rng.random() < 0.5 else ('sig', sid, (), (lo - w + 1, lo + 1))
  d.add_conn(writer, reader, comp)
  d.netinfo.append(dict(writer=writer, members=[writer, reader], kind='derived', id=('n', 0)))
  return d

def add_d1_shape(d, rng):
  """one block writes a signal and a field/slice of it; another field/slice of it drives a net"""
  for _ in range(20):
    comp = rng.randrange(len(d.comps))
    ws = [s for s in d.writable_sigs(comp) if d.free(d.whole(s)) and d.whole(s) not in d.nodes and twidth(d.sigs[s]['type']) >= 4]
    if not ws: continue
    sid = rng.choice(ws); o = d.whole(sid)
    rels = [x for x in d.relatives(o, rng)]
    if len(rels) < 2: continue
    blk = d.new_blk(comp, False)
    d.add_write(blk, o, rng)
    x = rng.choice(rels)
    d.add_write(blk, x, rng)
    for y in rels:
      if y != x and y not in d.nodes:
        info = grow_net(d, rng, y, 'derived', ('n', len(d.conns)))
        if info is not None: return True
    return True
  return False

# ---------------------------------------------------------------------------------------------
# independent oracle: union-find + bit-level driver sets + legal data flows
# ---------------------------------------------------------------------------------------------
def uf_nets(d, conns=None):
  parent = {}
  def find(x):
    while parent.setdefault(x, x) != x:
      parent[x] = parent[parent[x]]; x = parent[x]
    return x
  for c in (d.conns if conns is None else conns):
    ra, rb = find(c['a']), find(c['b'])
    if ra != rb: parent[ra] = rb
  groups = {}
  for x in parent: groups.setdefault(find(x), set()).add(x)
  return [g for g in groups.values() if len(g) >= 2]

def has_loop(d):
  """cycle in the simple undirected graph (pairs connected twice are merged, self connections count)"""
  seen = set(); parent = {}
  def find(x):
    while parent.setdefault(x, x) != x:
      parent[x] = parent[parent[x]]; x = parent[x]
    return x
  for c in d.conns:
    k = frozenset((c['a'], c['b']))
    if k in seen: continue
    seen.add(k)
    if c['a'] == c['b']: return True
    ra, rb = find(c['a']), find(c['b'])
    if ra == rb: return True
    parent[ra] = rb
  return False

def oracle(d):
  """verdict of the property's own reading of the design:
  returns dict(ops, loop, multi, nowriter, ports, nets=[(writer or None, members)], legal)"""
  res = dict(ops=set(), cycle=d.has_call_cycle(), loop=False, multi=False, nowriter=False, ports=set(), nets=None)
  # operators
  for b in d.blks:
    for (t, op, rhs) in b['stmts']:
      if b['ff']:
        if op != 'ff': res['ops'].add('UpdateFFBlockWriteError')
        elif not d.is_plain(t): res['ops'].add('UpdateFFNonTopLevelSignalError')
      elif op != 'at': res['ops'].add('UpdateBlockWriteError')
  res['loop'] = has_loop(d)
  nets = uf_nets(d)
  # bit-level drivers: blocks, external inputs, then nets by fixed point
  drv = {}
  def add(bit, tok): drv.setdefault(bit, set()).add(tok)
  for b in d.blks:
    for (t, op, rhs) in d.eff_stmts(b):
      for bit in d.obits(t): add(bit, ('blk', b['id']))
  for bit, toks in drv.items():
    if len(toks) > 1: res['multi'] = True
  for sg in d.sigs:
    if sg['kind'] == 'in' and sg['comp'] == 0:
      for bit in d.obits(d.whole(sg['sid'])): add(bit, ('ext',))
  writer = {}
  changed = True
  while changed:
    changed = False
    for i, n in enumerate(nets):
      if i in writer: continue
      srcs = [m for m in n if m[0] == 'const' or any(drv.get(bit, set()) - {('net', i)} for bit in d.obits(m))]
      if len(srcs) >= 2: res['multi'] = True; writer[i] = None; changed = True; continue
      if len(srcs) == 1:
        writer[i] = srcs[0]; changed = True
        for m in n:
          if m != srcs[0]:
            for bit in d.obits(m): add(bit, ('net', i))
  # a net resolved early may have acquired a second source later
  for i, n in enumerate(nets):
    srcs = [m for m in n if m[0] == 'const' or any(drv.get(bit, set()) - {('net', i)} for bit in d.obits(m))]
    if len(srcs) >= 2: res['multi'] = True
    if len(srcs) == 0: res['nowriter'] = True
  res['nets'] = [(writer.get(i), n) for i, n in enumerate(nets)]
  # ports in update blocks
  for b in d.blks:
    for r in d.eff_reads(b):
      if d.okind(r) == 'wire' and d.ohost(r) != b['comp']: res['ports'].add(1)
    for (t, op, rhs) in d.eff_stmts(b):
      k, h = d.okind(t), d.ohost(t)
      if k == 'in' and d.parent(h) != b['comp']: res['ports'].add(2)
      if k == 'out' and h != b['comp']: res['ports'].add(3)
      if k == 'wire' and h != b['comp']: res['ports'].add(4)
  # ports over nets: orient every connection away from the writer
  if not res['loop'] and not res['multi'] and not res['nowriter']:
    adjm = {}
    pairs = {}
    for c in d.conns:
      adjm.setdefault(c['a'], set()).add(c['b']); adjm.setdefault(c['b'], set()).add(c['a'])
      pairs.setdefault(frozenset((c['a'], c['b'])), set()).add(c['at'])
    for i, n in enumerate(nets):
      w = writer[i]; seen = {w}; todo = [w]
      while todo:
        u = todo.pop()
        for v in adjm[u]:
          if v in seen: continue
          seen.add(v); todo.append(v)
          k = flow_violation(d, u, v, pairs[frozenset((u, v))])
          if k is not None: res['ports'].add(k)
  res['legal'] = not (res['ops'] or res['cycle'] or res['loop'] or res['multi'] or res['nowriter'] or res['ports'])
  return res

def flow_violation(d, u, v, ats):
  """None if `u drives v` is a legal data flow, else the message type of the code (5..9, 'loopback')"""
  hu, hv, ku, kv = d.ohost(u), d.ohost(v), d.okind(u), d.okind(v)
  if hu == hv:
    if kv in ('out', 'wire'): return None
    if ku == 'out' and kv == 'in': return None if d.parent(hu) in ats else 'loopback'
    return 5
  if d.parent(hu) == hv: return None if (ku == 'out' and kv in ('out', 'wire')) else 6
  if d.parent(hv) == hu: return None if kv == 'in' else 7
  if d.parent(hu) == d.parent(hv): return None if (ku == 'out' and kv == 'in') else 8
  return 9

def expected_class(res):
  """exception class the stage order of elaborate() implies for an oracle result; None when legal"""
  if res['ops']: return sorted(res['ops'])
  if res['cycle']: return ['InvalidFuncCallError']
  if res['loop']: return ['InvalidConnectionError']
  if res['multi']: return ['MultiWriterError']
  if any(k in res['ports'] for k in (1, 2, 3, 4)): return ['SignalTypeError']
  if res['nowriter']: return ['NoWriterError']
  if res['ports']:
    return sorted({'InvalidConnectionError' if k == 'loopback' else 'SignalTypeError' for k in res['ports']})
  return None

# ---------------------------------------------------------------------------------------------
# loading and running the real thing
# ---------------------------------------------------------------------------------------------
def load_module(workdir, d, variants):
  modname = f'pvnets_{os.getpid()}_{d.uid}'
  path = os.path.join(workdir, modname + '.py')
  with open(path, 'w') as f: f.write(d.source(variants))
  spec = importlib.util.spec_from_file_location(modname, path)
  mod = importlib.util.module_from_spec(spec)
  sys.modules[modname] = mod
  spec.loader.exec_module(mod)
  return mod

def unload_module(mod):
  sys.modules.pop(mod.__name__, None)

def elaborate(mod, d, vi):
  """returns (top or None, exception class name or None, message)"""
  top = getattr(mod, d.cls_name(0, vi))()
  try:
    top.elaborate()
  except Exception as e:
    return None, type(e).__name__, str(e)
  return top, None, ''

# ---------------------------------------------------------------------------------------------
# history family (C09): one generated class whose construct parameter selects the expression of a `//= lambda`
# connection; the designs it stands for differ only in what that lambda reads or which helper it calls
# ---------------------------------------------------------------------------------------------
def gen_history(rng, family):
  """returns the list of designs D_0 .. D_{K-1} (D_p = the class constructed with parameter p); D_0 carries the rendering"""
  import copy
  d = Design(next(_uid))
  d.add_comp('top', None)
  a = d.add_comp('a', 0)
  if rng.random() < 0.4: d.add_comp('b', 0)
  d.hook_clk()
  W = ('b', rng.choice([4, 8]))
  in0 = d.whole(d.add_sig(0, 'in0', 'in', W)); out = d.whole(d.add_sig(0, 'out', 'out', W))
  ai = d.whole(d.add_sig(a, 'i', 'in', W)); ao = d.whole(d.add_sig(a, 'o', 'out', W)); aw = d.whole(d.add_sig(a, 'w', 'wire', W))
  d.add_conn(in0, ai, 0); d.add_conn(ai, aw, a); d.add_conn(aw, ao, a)
  ok_w = d.whole(d.add_sig(0, 'okw', 'wire', W))
  f_ok = d.new_func(0); f_ok['stmts'].append((ok_w, 'at', ('k', 1)))
  legal = [('read', in0), ('read', ao), ('call', f_ok['id']), ('const',)]
  if family == 'type1':
    bad = [('read', aw)]
  elif family in ('type2', 'type3', 'type4'):
    tgt = {'type2': lambda: d.whole(d.add_sig(0, 'in1', 'in', W)),
           'type3': lambda: d.whole(d.add_sig(a, 'o2', 'out', W)),
           'type4': lambda: d.whole(d.add_sig(a, 'w2', 'wire', W))}[family]()
    f = d.new_func(0); f['stmts'].append((tgt, 'at', ('k', 2)))
    bad = [('call', f['id'])]
  elif family == 'multi':
    seen = d.whole(d.add_sig(0, 'seen', 'out', W))
    f = d.new_func(0); f['stmts'].append((seen, 'at', ('k', 2)))
    blk = d.new_blk(0, False); d.add_write(blk, seen, rng, rhs=('k', 0))
    bad = [('call', f['id'])]
  else:   # nowriter: a net that only the helper drives
    y = d.whole(d.add_sig(0, 'y', 'wire', W)); z = d.whole(d.add_sig(0, 'z', 'out', W))
    d.add_conn(y, z, 0)
    f = d.new_func(0); f['stmts'].append((y, 'at', ('k', 2)))
    legal, bad = [('call', f['id'])], [('read', in0), ('read', ao), ('const',)]
  specs = [rng.choice(legal), rng.choice(bad)]
  if rng.random() < 0.5: specs.append(rng.choice(legal + bad))
  rng.shuffle(specs)
  ds = []
  for spec in specs:
    dp = copy.deepcopy(d)
    dp.uid = d.uid
    dp.new_lam(0, out, spec, hist=True)
    dp.hist = specs
    dp.tags.append('history:' + family)
    ds.append(dp)
  return ds

def elaborate_with(mod, d, vi, p):
  top = getattr(mod, d.cls_name(0, vi))(p)
  try:
    top.elaborate()
  except Exception as e:
    return None, type(e).__name__, str(e)
  return top, None, ''

def real_nets(top):
  return sorted((repr(w), sorted(repr(m) for m in net)) for (w, net) in top.get_all_value_nets())

def real_adj(top):
  return sorted((repr(k), sorted(repr(x) for x in v)) for k, v in top.get_signal_adjacency_dict().items() if v)

# ---------------------------------------------------------------------------------------------
# defect injection (C09): each function adds exactly one structural defect to a legal design and
# returns the exception class elaborate() must raise, or None if the design offers no place for it
# ---------------------------------------------------------------------------------------------
def _fresh(d, comp, kind, typ):
  return d.add_sig(comp, f'x{len(d.sigs)}', kind, typ)

def _own_writable(d, rng, comp, typ=None, kinds=('wire', 'out')):
  """a fresh signal of `comp` (or the InPort of one of its children) that a block of `comp` may write"""
  typ = typ or rng.choice(TYPES)
  ch = d.comps[comp]['children']
  if ch and rng.random() < 0.3:
    return _fresh(d, rng.choice(ch), 'in', typ)
  return _fresh(d, comp, rng.choice(kinds), typ)

def _writer_comp(d, o):
  """the component whose blocks may write object o"""
  sg = d.sigs[o[1]]
  return d.parent(sg['comp']) if sg['kind'] == 'in' else sg['comp']

def _blk_write(d, rng, comp, o, ff=False, op=None):
  b = d.new_blk(comp, ff)
  d.add_write(b, o, rng, op=op, rhs=('k', rng.randrange(1 << twidth(d.otype(o)))))
  return b

def _non_top(d): return [c['idx'] for c in d.comps if c['parent'] is not None]
def _with_children(d): return [c['idx'] for c in d.comps if c['children']]
def _lca(d, a, b):
  aa = d.ancestors_or_self(a)
  for x in d.ancestors_or_self(b):
    if x in aa: return x
  return 0

def inj_two_blocks(d, rng):
  existing = [(b, t) for b in d.blks for (t, op, rhs) in b['stmts'] if not b['ff']]
  if existing and rng.random() < 0.6:
    b, o = rng.choice(existing); comp = b['comp']
  else:
    comp = rng.randrange(len(d.comps))
    o = d.random_object(_own_writable(d, rng, comp), rng)
    _blk_write(d, rng, comp, o)
  _blk_write(d, rng, comp, o)
  return 'MultiWriterError'

def _net_readers(d):
  return [m for n in d.netinfo for m in n['members'] if m != n['writer'] and m[0] == 'sig']

def inj_blk_vs_net(d, rng):
  rs = [m for m in _net_readers(d) if _writer_comp(d, m) is not None]
  if not rs: return None
  v = rng.choice(rs)
  tgt = v
  if rng.random() < 0.5:
    rel = [x for x in d.relatives(v, rng)]
    if rel: tgt = rng.choice(rel)
  _blk_write(d, rng, _writer_comp(d, v), tgt)
  return 'MultiWriterError'

def inj_field_vs_parent(d, rng):
  comp = rng.randrange(len(d.comps))
  sid = _own_writable(d, rng, comp, rng.choice([('s', 'PA'), ('s', 'PB')]))
  t = d.sigs[sid]['type']
  whole = d.whole(sid)
  k = rng.randrange(len(STRUCTS[t[1]]))
  field = ('sig', sid, (k,), None)
  ft = STRUCTS[t[1]][k][1]
  if ft[0] == 's' and rng.random() < 0.5:     # nested: x.p vs x.p.a, or x vs x.p.a
    inner = ('sig', sid, (k, rng.randrange(len(STRUCTS[ft[1]]))), None)
    whole, field = rng.choice([(whole, inner), (field, inner)])
  a, b = (whole, field) if rng.random() < 0.5 else (field, whole)
  wc = _writer_comp(d, whole)
  _blk_write(d, rng, wc, a)
  if rng.random() < 0.3 and d.netinfo:
    # the second driver is a net: make b a reader of an existing net if a legal flow exists
    for n in rng.sample(d.netinfo, len(d.netinfo)):
      if d.otype(n['writer']) != d.otype(b): continue
      for u in n['members']:
        at = d.flow_at(u, b)
        if at is not None:
          d.add_conn(u, b, at); n['members'].append(b)
          return 'MultiWriterError'
  _blk_write(d, rng, wc, b)
  return 'MultiWriterError'

def inj_overlap_slices(d, rng):
  comp = rng.randrange(len(d.comps))
  W = rng.choice([4, 8, 12])
  sid = _own_writable(d, rng, comp, ('b', W))
  lo1 = rng.randint(0, W - 2); hi1 = rng.randint(lo1 + 1, W)
  lo2 = rng.randint(max(0, lo1 - 2), hi1 - 1); hi2 = rng.randint(max(lo2, lo1) + 1, W)
  if (lo1, hi1) == (lo2, hi2) or (lo1, hi1) == (0, W) or (lo2, hi2) == (0, W):
    lo1, hi1, lo2, hi2 = 0, W - 1, 1, W
  wc = _writer_comp(d, d.whole(sid))
  _blk_write(d, rng, wc, ('sig', sid, (), (lo1, hi1)))
  _blk_write(d, rng, wc, ('sig', sid, (), (lo2, hi2)))
  return 'MultiWriterError'

def inj_slice_vs_whole(d, rng):
  comp = rng.randrange(len(d.comps))
  W = rng.choice([4, 8, 12])
  sid = _own_writable(d, rng, comp, ('b', W))
  lo = rng.randint(0, W - 1); hi = rng.randint(lo + 1, W)
  if (lo, hi) == (0, W): lo = 1
  wc = _writer_comp(d, d.whole(sid))
  objs = [d.whole(sid), ('sig', sid, (), (lo, hi))]
  rng.shuffle(objs)
  _blk_write(d, rng, wc, objs[0])
  if rng.random() < 0.35:
    c = d.new_const(d.otype(objs[1]), rng.randrange(1 << twidth(d.otype(objs[1]))), 0)
    at = d.flow_at(c, objs[1])
    if at is not None:
      d.consts[c[1]]['at'] = at
      d.add_conn(objs[1], c, at)
      return 'MultiWriterError'
    d.consts.pop()
  _blk_write(d, rng, wc, objs[1])
  return 'MultiWriterError'

def _const_on(d, rng, v):
  typ = d.otype(v)
  c = d.new_const(typ, rng.randrange(1 << twidth(typ)), 0)
  at = d.flow_at(c, v)
  if at is None:
    d.consts.pop(); return False
  d.consts[c[1]]['at'] = at
  d.add_conn(v, c, at)
  return True

def inj_two_consts(d, rng):
  comp = rng.randrange(len(d.comps))
  typ = rng.choice(TYPES)
  x = d.whole(_fresh(d, comp, 'wire', typ))
  assert _const_on(d, rng, x)
  if rng.random() < 0.5:
    y = d.whole(_fresh(d, comp, 'wire', typ))
    d.add_conn(x, y, comp)
    assert _const_on(d, rng, y)
  else:
    assert _const_on(d, rng, x)
  return 'MultiWriterError'

def inj_const_vs_blk(d, rng):
  if d.netinfo and rng.random() < 0.5:
    n = rng.choice(d.netinfo)
    ms = [m for m in n['members'] if m[0] == 'sig']
    rng.shuffle(ms)
    for m in ms:
      if _const_on(d, rng, m): return 'MultiWriterError'
  comp = rng.randrange(len(d.comps))
  x = d.whole(_fresh(d, comp, 'wire', rng.choice(TYPES)))
  _blk_write(d, rng, comp, x)
  assert _const_on(d, rng, x)
  return 'MultiWriterError'

def inj_no_writer(d, rng):
  comp = rng.randrange(len(d.comps))
  typ = rng.choice(TYPES)
  ch = d.comps[comp]['children']
  x = d.whole(_fresh(d, comp, 'wire', typ))
  members = [x]
  for _ in range(rng.randint(1, 3)):
    u = rng.choice(members)
    r = rng.random()
    if ch and r < 0.4: v = d.whole(_fresh(d, rng.choice(ch), 'in', typ))
    elif r < 0.7: v = d.whole(_fresh(d, d.ohost(u), rng.choice(['wire', 'out']), typ))
    else: v = d.whole(_fresh(d, comp, 'wire', typ))
    at = d.flow_at(u, v)
    if at is None: continue
    if rng.random() < 0.3 and typ[0] == 'b' and typ[1] >= 2:
      # a headless net hanging on slices of the two signals
      w = rng.randint(1, typ[1] - 1); lo = rng.randint(0, typ[1] - w)
      d.add_conn(('sig', u[1], (), (lo, lo + w)), ('sig', v[1], (), (0, w)), at)
      return 'NoWriterError'
    d.add_conn(u, v, at); members.append(v)
  if len(members) == 1:
    y = d.whole(_fresh(d, comp, 'wire', typ)); d.add_conn(x, y, comp)
  return 'NoWriterError'

def inj_loop1(d, rng):
  nodes = sorted((n for n in d.nodes if n[0] == 'sig'), key=repr)
  if nodes and rng.random() < 0.6:
    x = rng.choice(nodes)
    d.add_conn(x, x, d.ohost(x))
  else:
    comp = rng.randrange(len(d.comps))
    x = d.whole(_fresh(d, comp, 'wire', rng.choice(TYPES)))
    if rng.random() < 0.5: _blk_write(d, rng, comp, x)
    d.add_conn(x, x, comp)
  return 'InvalidConnectionError'

def inj_loop3(d, rng):
  big = [n for n in d.netinfo if len(n['members']) >= 3]
  if big and rng.random() < 0.7:
    n = rng.choice(big)
    direct = {frozenset((c['a'], c['b'])) for c in d.conns}
    pairs = [(a, b) for a in n['members'] for b in n['members'] if a[0] == 'sig' and b[0] == 'sig' and repr(a) < repr(b) and frozenset((a, b)) not in direct]
    if pairs:
      a, b = rng.choice(pairs)
      ha = d.ohost(a); hb = d.ohost(b)
      d.add_conn(a, b, _lca(d, ha, hb))
      return 'InvalidConnectionError'
  comp = rng.randrange(len(d.comps))
  typ = rng.choice(TYPES)
  k = rng.randint(3, 5)
  xs = [d.whole(_fresh(d, comp, 'wire', typ)) for _ in range(k)]
  _blk_write(d, rng, comp, xs[0])
  for i in range(k): d.add_conn(xs[i], xs[(i + 1) % k], comp)
  return 'InvalidConnectionError'

def inj_dup(d, rng):
  """the quirk: the same pair connected again (either orientation) is merged, not a loop"""
  cs = [c for c in d.conns if not c['auto'] and c['a'][0] == 'sig' and c['b'][0] == 'sig']
  if not cs: return None
  c = rng.choice(cs)
  a, b = (c['a'], c['b']) if rng.random() < 0.5 else (c['b'], c['a'])
  d.add_conn(a, b, c['at'])
  return 'ok'

def inj_type1(d, rng):
  ps = _with_children(d)
  if not ps: return None
  p = rng.choice(ps)
  below = [c['idx'] for c in d.comps if c['idx'] != p and p in d.ancestors_or_self(c['idx'])]
  c = rng.choice(below)
  w = d.random_object(_fresh(d, c, 'wire', rng.choice(TYPES)), rng)
  b = _blk_write(d, rng, p, d.whole(_fresh(d, p, 'wire', ('b', 4))))
  b.setdefault('extra_reads', []).append(w)
  return 'SignalTypeError', 1

def inj_type2(d, rng):
  comp = rng.randrange(len(d.comps))
  below = [c['idx'] for c in d.comps if d.parent(c['idx']) is not None and d.parent(d.parent(c['idx'])) == comp]
  host = rng.choice(below) if below and rng.random() < 0.4 else comp      # own InPort, or a grandchild's
  o = d.random_object(_fresh(d, host, 'in', rng.choice(TYPES)), rng)
  _blk_write(d, rng, comp, o)
  return 'SignalTypeError', 2

def inj_type34(d, rng, kind):
  ps = _with_children(d)
  if not ps: return None
  p = rng.choice(ps)
  c = rng.choice(d.comps[p]['children'])
  o = d.random_object(_fresh(d, c, kind, rng.choice(TYPES)), rng)
  _blk_write(d, rng, p, o)
  return 'SignalTypeError', (3 if kind == 'out' else 4)

def inj_type5(d, rng):
  nt = _non_top(d)
  if not nt: return None
  c = rng.choice(nt); typ = rng.choice(TYPES)
  u = d.whole(_fresh(d, c, rng.choice(['wire', 'in']), typ))
  if d.okind(u) == 'wire': _blk_write(d, rng, c, u)
  else: _blk_write(d, rng, d.parent(c), u)
  v = d.whole(_fresh(d, c, 'in', typ))
  d.add_conn(u, v, c)
  return 'SignalTypeError', 5

def inj_loopback(d, rng):
  nt = _non_top(d)
  if not nt: return None
  c = rng.choice(nt); typ = rng.choice(TYPES)
  u = d.whole(_fresh(d, c, 'out', typ)); _blk_write(d, rng, c, u)
  v = d.whole(_fresh(d, c, 'in', typ))
  d.add_conn(u, v, c)       # fulfilled inside the component instead of at its parent
  return 'InvalidConnectionError'

def inj_type6(d, rng):
  nt = _non_top(d)
  if not nt: return None
  c = rng.choice(nt); p = d.parent(c); typ = rng.choice(TYPES)
  if p != 0 and rng.random() < 0.4:
    u = d.whole(_fresh(d, c, 'out', typ)); v = d.whole(_fresh(d, p, 'in', typ))
  else:
    u = d.whole(_fresh(d, c, 'wire', typ)); v = d.whole(_fresh(d, p, rng.choice(['wire', 'out']), typ))
  _blk_write(d, rng, c, u)
  d.add_conn(u, v, p)
  return 'SignalTypeError', 6

def inj_type7(d, rng):
  ps = _with_children(d)
  if not ps: return None
  p = rng.choice(ps); c = rng.choice(d.comps[p]['children']); typ = rng.choice(TYPES)
  u = d.whole(_fresh(d, p, rng.choice(['wire', 'out']), typ)); _blk_write(d, rng, p, u)
  v = d.whole(_fresh(d, c, rng.choice(['wire', 'out']), typ))
  d.add_conn(u, v, p)
  return 'SignalTypeError', 7

def inj_type8(d, rng):
  ps = [p for p in _with_children(d) if len(d.comps[p]['children']) >= 2]
  if not ps: return None
  p = rng.choice(ps); a, b = rng.sample(d.comps[p]['children'], 2); typ = rng.choice(TYPES)
  if rng.random() < 0.5:
    u = d.whole(_fresh(d, a, 'out', typ)); _blk_write(d, rng, a, u)
    v = d.whole(_fresh(d, b, rng.choice(['out', 'wire']), typ))
  else:
    u = d.whole(_fresh(d, a, 'wire', typ)); _blk_write(d, rng, a, u)
    v = d.whole(_fresh(d, b, 'in', typ))
  d.add_conn(u, v, p)
  return 'SignalTypeError', 8

def inj_type9(d, rng):
  gs = [c['idx'] for c in d.comps if d.parent(c['idx']) is not None and d.parent(d.parent(c['idx'])) is not None]
  if not gs: return None
  g = rng.choice(gs); gp = d.parent(d.parent(g)); typ = rng.choice(TYPES)
  if rng.random() < 0.5:
    u = d.whole(_fresh(d, gp, 'wire', typ)); _blk_write(d, rng, gp, u)
    v = d.whole(_fresh(d, g, 'in', typ))
  else:
    u = d.whole(_fresh(d, g, 'out', typ)); _blk_write(d, rng, g, u)
    v = d.whole(_fresh(d, gp, 'wire', typ))
  d.add_conn(u, v, gp)
  return 'SignalTypeError', 9

def inj_const_port(d, rng, typ_no):
  """a constant as the driver where the port rules forbid it: the constant sits in the component that makes the connection
  5: a non-top component ties its OWN InPort; 7: a parent ties a child's OutPort / Wire; 9: a component ties a port two or
  more levels below it"""
  if typ_no == 5:
    cs = _non_top(d)
    if not cs: return None
    at = host = rng.choice(cs); kind = 'in'
  elif typ_no == 7:
    ps = _with_children(d)
    if not ps: return None
    at = rng.choice(ps); host = rng.choice(d.comps[at]['children']); kind = rng.choice(['out', 'wire'])
  else:
    gs = [(d.parent(d.parent(c['idx'])), c['idx']) for c in d.comps
          if d.parent(c['idx']) is not None and d.parent(d.parent(c['idx'])) is not None]
    if not gs: return None
    at, host = rng.choice(gs); kind = rng.choice(['in', 'out', 'wire'])
  v = d.random_object(_fresh(d, host, kind, rng.choice(TYPES)), rng)
  t = d.otype(v)
  c = d.new_const(t, rng.randrange(1 << twidth(t)), at)
  d.add_conn(v, c, at)
  if rng.random() < 0.4 and typ_no != 5:     # the tied signal drives something legal further on
    y = d.whole(_fresh(d, host, 'wire', t)); d.add_conn(v, y, host)
  return 'SignalTypeError', typ_no

def table_const_ports(rng):
  """a constant as the driver: every (component that makes the connection, component of the tied signal) the source can
  express x kind of the tied signal"""
  out = []
  for at, hv in ((0, 0), (1, 1), (3, 3), (0, 1), (1, 3), (0, 3)):
    for kv in ('in', 'out', 'wire'):
      for sub in (False, True):
        d = fixed_hierarchy()
        typ = rng.choice([('b', 4), ('b', 8), ('s', 'PA')])
        sid = d.add_sig(hv, 'v', kv, typ)
        v = d.random_object(sid, rng) if sub else d.whole(sid)
        t = d.otype(v)
        c = d.new_const(t, rng.randrange(1 << twidth(t)), at)
        d.add_conn(v, c, at)
        d.labels.append((f'port-net:const@{at}->{kv}@{hv}' + (':part' if sub else ''), None, None))
        out.append(d)
  return out

def inj_op(d, rng, ff, op, shape='whole'):
  comp = rng.randrange(len(d.comps))
  typ = {'whole': rng.choice(TYPES), 'slice': ('b', rng.choice([4, 8, 12])), 'field': rng.choice([('s', 'PA'), ('s', 'PB')])}[shape]
  sid = _own_writable(d, rng, comp, typ)
  o = d.whole(sid)
  if shape == 'slice':
    lo = rng.randint(0, typ[1] - 2); o = ('sig', sid, (), (lo, rng.randint(lo + 1, typ[1] - 1 if lo == 0 else typ[1])))
  if shape == 'field':
    o = ('sig', sid, (rng.randrange(len(STRUCTS[typ[1]])),), None)
  wc = _writer_comp(d, o)
  blk = d.new_blk(wc, ff)
  def good():
    g_ = d.whole(_fresh(d, wc, 'wire', rng.choice([('b', 4), ('b', 8)])))
    d.add_write(blk, g_, rng, rhs=('k', 1))
  if rng.random() < 0.6: good()          # a correct augmented assignment precedes the offending statement
  d.add_write(blk, o, rng, op=op, rhs=('k', rng.randrange(1 << twidth(d.otype(o)))))
  if rng.random() < 0.25: good()
  if not ff: return 'UpdateBlockWriteError'
  return 'UpdateFFBlockWriteError' if op != 'ff' else 'UpdateFFNonTopLevelSignalError'

def inj_op2(d, rng, ff, bad):
  """one block writes an object with the legal operator and, in another statement, with a wrong one;
  the object is a whole signal, a slice or a field (update_ff: whole signal only, <<= needs one), either order"""
  comp = rng.randrange(len(d.comps))
  shape = 'whole' if ff else rng.choice(['whole', 'slice', 'field'])
  typ = {'whole': rng.choice(TYPES), 'slice': ('b', rng.choice([4, 8, 12])), 'field': rng.choice([('s', 'PA'), ('s', 'PB')])}[shape]
  sid = _own_writable(d, rng, comp, typ)
  o = d.whole(sid)
  if shape == 'slice':
    lo = rng.randint(0, typ[1] - 2); o = ('sig', sid, (), (lo, rng.randint(lo + 1, typ[1] - 1 if lo == 0 else typ[1])))
  if shape == 'field':
    o = ('sig', sid, (rng.randrange(len(STRUCTS[typ[1]])),), None)
  blk = d.new_blk(_writer_comp(d, o), ff)
  good = 'ff' if ff else 'at'
  ops = [good, bad]
  if rng.random() < 0.5: ops.reverse()
  if rng.random() < 0.3: ops.insert(rng.randrange(3), good)      # a third, legal, write somewhere
  for op in ops:
    d.add_write(blk, o, rng, op=op, rhs=('k', rng.randrange(1 << twidth(d.otype(o)))))
  return 'UpdateFFBlockWriteError' if ff else 'UpdateBlockWriteError'

INJECTORS = {
  'two_blocks': inj_two_blocks, 'blk_vs_net': inj_blk_vs_net, 'field_vs_parent': inj_field_vs_parent,
  'overlap_slices': inj_overlap_slices, 'slice_vs_whole': inj_slice_vs_whole, 'two_consts': inj_two_consts,
  'const_vs_blk': inj_const_vs_blk, 'no_writer': inj_no_writer, 'loop1': inj_loop1, 'loop3': inj_loop3, 'dup': inj_dup,
  'type1': inj_type1, 'type2': inj_type2, 'type3': lambda d, r: inj_type34(d, r, 'out'), 'type4': lambda d, r: inj_type34(d, r, 'wire'),
  'type5': inj_type5, 'loopback': inj_loopback, 'type6': inj_type6, 'type7': inj_type7, 'type8': inj_type8, 'type9': inj_type9,
  'op_u_eq': lambda d, r: inj_op(d, r, False, 'assign'), 'op_u_ff': lambda d, r: inj_op(d, r, False, 'ff'),
  'op_f_eq': lambda d, r: inj_op(d, r, True, 'assign'), 'op_f_at': lambda d, r: inj_op(d, r, True, 'at'),
  'op_f_slice': lambda d, r: inj_op(d, r, True, 'ff', 'slice'), 'op_f_field': lambda d, r: inj_op(d, r, True, 'ff', 'field'),
  'op_u_eq_slice': lambda d, r: inj_op(d, r, False, 'assign', 'slice'), 'op_f_at_field': lambda d, r: inj_op(d, r, True, 'at', 'field'),
  'op_u_for': lambda d, r: inj_op(d, r, False, 'for', r.choice(['whole', 'slice', 'field'])),
  'op_f_for': lambda d, r: inj_op(d, r, True, 'for', r.choice(['whole', 'slice', 'field'])),
  'op2_u_eq': lambda d, r: inj_op2(d, r, False, 'assign'), 'op2_u_ff': lambda d, r: inj_op2(d, r, False, 'ff'),
  'op2_u_for': lambda d, r: inj_op2(d, r, False, 'for'),
  'op2_f_eq': lambda d, r: inj_op2(d, r, True, 'assign'), 'op2_f_at': lambda d, r: inj_op2(d, r, True, 'at'),
  'op2_f_for': lambda d, r: inj_op2(d, r, True, 'for'),
  'const_type5': lambda d, r: inj_const_port(d, r, 5), 'const_type7': lambda d, r: inj_const_port(d, r, 7),
  'const_type9': lambda d, r: inj_const_port(d, r, 9),
  'func_shared_nested': lambda d, r: inj_func(d, r, 'shared_nested'), 'func_shared_direct': lambda d, r: inj_func(d, r, 'shared_direct'),
  'func_vs_direct': lambda d, r: inj_func(d, r, 'vs_direct'), 'func_vs_net': lambda d, r: inj_func(d, r, 'vs_net'),
  'func_cycle': lambda d, r: inj_func(d, r, 'cycle'),
  'deep_override_vs_blk': lambda d, r: add_deep_override(d, r, 'blk'), 'deep_override_vs_const': lambda d, r: add_deep_override(d, r, 'const'),
}

def inject(d, rng, kind):
  """returns (exception class or 'ok', SignalTypeError type number or None), or None if not applicable"""
  r = INJECTORS[kind](d, rng)
  if r is None: return None
  if isinstance(r, tuple): cls, typ = r
  else: cls, typ = r, None
  d.labels.append((kind, cls, typ))
  return cls, typ

# ---------------------------------------------------------------------------------------------
# JSON form (cases in evidence / replays)
# ---------------------------------------------------------------------------------------------
def _o2j(o):
  return ['const', o[1]] if o[0] == 'const' else ['sig', o[1], list(o[2]), list(o[3]) if o[3] is not None else None]

def _j2o(j):
  return ('const', j[1]) if j[0] == 'const' else ('sig', j[1], tuple(j[2]), tuple(j[3]) if j[3] is not None else None)

def design_to_json(d):
  return dict(
    comps=[[c['name'], c['parent']] for c in d.comps],
    sigs=[[s['comp'], s['name'], s['kind'], list(s['type'])] for s in d.sigs],
    consts=[[list(c['type']), c['value'], c['at'], bool(c.get('bits'))] for c in d.consts],
    conns=[[_o2j(c['a']), _o2j(c['b']), c['at'], c['auto']] for c in d.conns],
    blks=[[b['comp'], b['ff'], [[_o2j(t), op, [rhs[0]] + ([rhs[1]] if rhs[0] == 'k' else [_o2j(rhs[1])] if rhs[0] == 'r' else [])]
                                for (t, op, rhs) in b['stmts']], [_o2j(r) for r in b.get('extra_reads', [])], list(b.get('calls', [])),
           None if b.get('lam') is None else [b['lam'][0]] + ([_o2j(b['lam'][1])] if b['lam'][0] == 'read' else [b['lam'][1]] if b['lam'][0] == 'call' else [])] for b in d.blks],
    funcs=[[f['comp'], [[_o2j(t), op, [rhs[0]] + ([rhs[1]] if rhs[0] == 'k' else [_o2j(rhs[1])] if rhs[0] == 'r' else [])] for (t, op, rhs) in f['stmts']], list(f['calls']), [_o2j(r) for r in f.get('extra_reads', [])]] for f in d.funcs],
    labels=[list(l) for l in d.labels], tags=list(d.tags),
    nest=[[_o2j(o), [list(c) for c in ch]] for o, ch in d.nest.items()])

def design_from_json(j):
  d = Design(next(_uid))
  for name, parent in j['comps']:
    idx = len(d.comps)
    path = '' if parent is None else (name if parent == 0 else d.comps[parent]['path'] + '.' + name)
    c = dict(idx=idx, name=name, parent=parent, children=[], path=path)
    d.comps.append(c)
    if parent is not None: d.comps[parent]['children'].append(idx)
  for comp, name, kind, typ in j['sigs']:
    sid = d.add_sig(comp, name, kind, tuple(typ))
    if name in ('clk', 'reset'): d.comps[comp][name] = sid
  for typ, value, at, *rest in j['consts']:
    d.consts.append(dict(cid=len(d.consts), type=tuple(typ), value=value, at=at, bits=bool(rest[0]) if rest else False))
  for a, b, at, auto in j['conns']:
    d.conns.append(dict(a=_j2o(a), b=_j2o(b), at=at, auto=auto))
    d.nodes.add(_j2o(a)); d.nodes.add(_j2o(b))
  for comp, stmts, calls, extra in j.get('funcs', []):
    f = d.new_func(comp)
    f['calls'] = list(calls)
    if extra:
      f['extra_reads'] = [_j2o(r) for r in extra]; f['reads'] += f['extra_reads']
    for t, op, rhs in stmts:
      r = ('k', rhs[1]) if rhs[0] == 'k' else ('r', _j2o(rhs[1]))
      f['stmts'].append((_j2o(t), op, r))
      if r[0] == 'r': f['reads'].append(r[1])
  for comp, ff, stmts, extra, *rest in j['blks']:
    b = d.new_blk(comp, ff)
    b['calls'] = list(rest[0]) if rest else []
    if len(rest) > 1 and rest[1] is not None:
      l = rest[1]; b['lam'] = ('read', _j2o(l[1])) if l[0] == 'read' else ('call', l[1]) if l[0] == 'call' else ('const',)
    for t, op, rhs in stmts:
      r = ('k', rhs[1]) if rhs[0] == 'k' else ('r', _j2o(rhs[1])) if rhs[0] == 'r' else ('inc',)
      b['stmts'].append((_j2o(t), op, r))
      if r[0] == 'r': b['reads'].append(r[1])
      if r[0] == 'inc': b['reads'].append(_j2o(t))
    if extra: b['extra_reads'] = [_j2o(r) for r in extra]
  d.labels = [tuple(l) for l in j.get('labels', [])]
  d.tags = list(j.get('tags', []))
  d.nest = {_j2o(o): [tuple(c) for c in ch] for o, ch in j.get('nest', [])}
  return d

def variant_to_json(var):
  return dict(per={str(k): [list(s) for s in v] for k, v in var['per'].items()},
              flips=sorted(k for k, v in var['flips'].items() if v), styles=sorted(k for k, v in var['styles'].items() if v))

def variant_from_json(j):
  return dict(per={int(k): [tuple(s) for s in v] for k, v in j['per'].items()},
              flips={k: True for k in j['flips']}, styles={k: True for k in j['styles']})

# ---------------------------------------------------------------------------------------------
# simulation: every member of a net carries the writer's value
# ---------------------------------------------------------------------------------------------
def value_of(top, d, o, mod):
  """packed integer value of object o in the simulated design (constants: their own value)"""
  if o[0] == 'const': return d.consts[o[1]]['value']
  sg = d.sigs[o[1]]
  x = top
  p = d.comps[sg['comp']]['path']
  for nm in (p.split('.') if p else []): x = getattr(x, nm)
  x = getattr(x, sg['name'])
  t = sg['type']
  for k in o[2]:
    x = getattr(x, STRUCTS[t[1]][k][0]) if t[0] == 's' else x[k]       # python position, never through the name
    t = tstep(t, k)
  if o[3] is not None: x = x[o[3][0]:o[3][1]]
  return int(x.to_bits()) if hasattr(x, 'to_bits') else int(x)

def set_inputs(top, d, mod, rng):
  vals = {}
  for sg in d.sigs:
    if sg['comp'] == 0 and sg['kind'] == 'in' and sg['name'] not in ('clk', 'reset'):
      v = rng.randrange(1 << twidth(sg['type']))
      vals[sg['name']] = v
      port = getattr(top, sg['name'])
      port @= eval(tconst_src(sg['type'], v) if sg['type'][0] == 's' else f'Bits{sg["type"][1]}({v})', mod.__dict__)
  return vals

def simulate_and_check(top, d, mod, rng, nets, nvec=3, drive='reset', flow='default'):
  """nets: list of (writer obj, [member objs]). Returns list of failures (empty = ok).
  drive: what the fresh simulator is asked first -- 'eval' (sim_eval_combinational), 'reset' (sim_reset), 'tick' (sim_tick);
  flow: 'default' (DefaultPassGroup) | 'unroll' (mamba UnrollSim) | 'mamba' (Mamba2020)"""
  if flow == 'default':
    from pymtl3.passes.PassGroups import DefaultPassGroup
    top.apply(DefaultPassGroup())
  else:
    from pymtl3.passes.mamba.PassGroups import Mamba2020, UnrollSim
    top.apply((UnrollSim if flow == 'unroll' else Mamba2020)(print_line_trace=False))
  fails = []
  def check(k, phase, ins):
    for (w, members) in nets:
      wv = value_of(top, d, w, mod)
      for m in members:
        mv = value_of(top, d, m, mod)
        if mv != wv:
          fails.append(dict(vector=k, phase=phase, drive=drive, flow=flow, inputs=ins, writer=d.orepr(w), writer_value=wv, member=d.orepr(m), member_value=mv))
  if drive == 'reset': top.sim_reset()
  elif drive == 'tick': top.sim_tick()
  for k in range(nvec):
    ins = set_inputs(top, d, mod, rng)
    top.sim_eval_combinational()
    check(k, 'comb', ins)
    top.sim_tick()
    check(k, 'tick', ins)
  return fails

def witness_self_overlap():
  """the committed witness of the known finding: in_ drives x[6:8]; x[4:7] drives x[2:5]"""
  d = Design(next(_uid))
  d.add_comp('top', None)
  i = d.add_sig(0, 'in_', 'in', ('b', 2))
  x = d.add_sig(0, 'x', 'wire', ('b', 8))
  d.hook_clk()
  d.add_conn(d.whole(i), ('sig', x, (), (6, 8)), 0)
  d.add_conn(('sig', x, (), (4, 7)), ('sig', x, (), (2, 5)), 0)
  d.netinfo.append(dict(writer=d.whole(i), members=[d.whole(i), ('sig', x, (), (6, 8))], kind='topin', id=('n', 0)))
  d.netinfo.append(dict(writer=('sig', x, (), (4, 7)), members=[('sig', x, (), (4, 7)), ('sig', x, (), (2, 5))], kind='derived', id=('n', 1)))
  return d

def all_variant_orders(d, rng, cap):
  """every combination of per-component statement orders (flips random), or None if more than cap"""
  per_lists = {}
  total = 1
  for c in d.comps:
    sts = [('conn', i) for i, cn in enumerate(d.conns) if cn['at'] == c['idx'] and not cn['auto']]
    sts += [('blk', b['id']) for b in d.blks if b['comp'] == c['idx']]
    sts += [('func', f['id']) for f in d.funcs if f['comp'] == c['idx']]
    per_lists[c['idx']] = sts
    f = 1
    for k in range(2, len(sts) + 1): f *= k
    total *= f
    if total > cap: return None
  out = []
  keys = sorted(per_lists)
  for combo in itertools.product(*[list(itertools.permutations(per_lists[k])) for k in keys]):
    flips = {i: rng.random() < 0.5 for i in range(len(d.conns)) if not d.conns[i]['auto']}
    styles = {i: rng.random() < 0.3 for i in range(len(d.conns))}
    out.append(dict(per={k: d.lams_last(list(p)) for k, p in zip(keys, combo)}, flips=flips, styles=styles))
  return out

def describe(d):
  """small structural summary used for histograms and the non-triviality rule"""
  objs = d.all_objects()
  return dict(comps=len(d.comps), levels=1 + max(len(d.ancestors_or_self(c['idx'])) - 1 for c in d.comps),
              user_conns=sum(1 for c in d.conns if not c['auto']), blks=len(d.blks),
              sub_objects=sum(1 for o in objs if o[0] == 'sig' and (o[2] or o[3] is not None)),
              consts=len(d.consts))

# ---------------------------------------------------------------------------------------------
# exhaustive small tables (C09)
# ---------------------------------------------------------------------------------------------
def fixed_hierarchy():
  """top(0) -> a(1), b(2); a -> g(3); only clk/reset declared"""
  d = Design(next(_uid))
  d.add_comp('top', None)
  a = d.add_comp('a', 0); d.add_comp('b', 0); d.add_comp('g', a)
  d.hook_clk()
  return d

def _make_source(d, rng, u):
  """drive the fresh whole signal u by the block that may legally write it (top-level inputs are sources already)"""
  sg = d.sigs[u[1]]
  if sg['kind'] == 'in':
    if sg['comp'] == 0: return
    _blk_write(d, rng, d.parent(sg['comp']), u)
  else:
    _blk_write(d, rng, sg['comp'], u)

def table_port_nets(rng):
  """every (host relation, kind of the driving side, kind of the driven side), connected where the two meet"""
  rels = {'same': (1, 1), 'same-top': (0, 0), 'up': (1, 0), 'up2': (3, 1), 'down': (0, 1), 'down2': (1, 3), 'sibling': (1, 2),
          'far-down': (0, 3), 'far-up': (3, 0), 'uncle': (3, 2), 'nephew': (2, 3)}
  out = []
  for rel, (hu, hv) in rels.items():
    for ku in ('in', 'out', 'wire'):
      for kv in ('in', 'out', 'wire'):
        ats = [_lca_fixed(hu, hv)]
        if hu == hv and hu != 0: ats.append(0 if hu in (1, 2) else 1)     # also fulfilled at the parent (loop-back rule)
        for at in ats:
          d = fixed_hierarchy()
          typ = rng.choice([('b', 4), ('b', 8), ('s', 'PA')])
          u = d.whole(d.add_sig(hu, 'u', ku, typ)); v = d.whole(d.add_sig(hv, 'v', kv, typ))
          _make_source(d, rng, u)
          d.add_conn(u, v, at)
          d.labels.append((f'port-net:{rel}:{ku}->{kv}@{at}', None, None))
          out.append(d)
  return out

def _lca_fixed(x, y):
  par = {0: None, 1: 0, 2: 0, 3: 1}
  def anc(c):
    r = []
    while c is not None: r.append(c); c = par[c]
    return r
  ax = anc(x)
  for c in anc(y):
    if c in ax: return c
  return 0

def table_port_upblk(rng):
  out = []
  for bh, sh in ((0, 0), (0, 1), (0, 3), (1, 1), (1, 3)):
    for kind in ('in', 'out', 'wire'):
      for rw in ('read', 'write'):
        d = fixed_hierarchy()
        typ = rng.choice([('b', 4), ('b', 8), ('s', 'PA')])
        x = d.random_object(d.add_sig(sh, 'x', kind, typ), rng)
        if rw == 'write':
          _blk_write(d, rng, bh, x)
        else:
          b = _blk_write(d, rng, bh, d.whole(d.add_sig(bh, 'y', 'wire', ('b', 4))))
          b['extra_reads'] = [x]
        d.labels.append((f'port-upblk:{rw}:{kind}:blk@{bh}:sig@{sh}', None, None))
        out.append(d)
  return out

def table_ops(rng):
  out = []
  # a second write, in the same block, to an object the block already wrote: every (block kind, operator of the
  # first write, operator of the second write, shape)
  for ff in (False, True):
    for op1 in ('assign', 'at', 'ff', 'for'):
      for op2 in ('assign', 'at', 'ff', 'for'):
        for shape in ('whole', 'slice', 'field'):
          d = fixed_hierarchy()
          comp = rng.choice([0, 1, 3])
          typ = {'whole': rng.choice([('b', 8), ('s', 'PA')]), 'slice': ('b', 8), 'field': ('s', 'PB')}[shape]
          sid = d.add_sig(comp, 'x', rng.choice(['wire', 'out']), typ)
          o = d.whole(sid)
          if shape == 'slice': o = ('sig', sid, (), (2, 6))
          if shape == 'field': o = ('sig', sid, (rng.randrange(3),), None)
          blk = d.new_blk(comp, ff)
          for op in (op1, op2):
            d.add_write(blk, o, rng, op=op, rhs=('k', rng.randrange(1 << twidth(d.otype(o)))))
          d.labels.append((f'op2:{"ff" if ff else "comb"}:{op1}:{op2}:{shape}', None, None))
          out.append(d)
  for ff in (False, True):
    for op in ('assign', 'at', 'ff', 'for'):
      for shape in ('whole', 'slice', 'field'):
        d = fixed_hierarchy()
        comp = rng.choice([0, 1, 3])
        typ = {'whole': rng.choice([('b', 8), ('s', 'PA')]), 'slice': ('b', 8), 'field': ('s', 'PB')}[shape]
        sid = d.add_sig(comp, 'x', rng.choice(['wire', 'out']), typ)
        o = d.whole(sid)
        if shape == 'slice': o = ('sig', sid, (), (2, 6))
        if shape == 'field': o = ('sig', sid, (rng.randrange(3),), None)
        _blk_write(d, rng, comp, o, ff=ff, op=op)
        d.labels.append((f'op:{"ff" if ff else "comb"}:{op}:{shape}', None, None))
        out.append(d)
  return out

def table_write_pairs(rng, typ=('b', 4)):
  """every ordered pair of objects of one signal, written by two blocks / by one block / one by a block and one by a net"""
  d0 = fixed_hierarchy()
  sid0 = d0.add_sig(0, 'x', 'wire', typ)
  objs = []
  def rec(t, fields):
    objs.append(('sig', sid0, fields, None))
    if t[0] == 's':
      for k, (_, ft) in enumerate(STRUCTS[t[1]]): rec(ft, fields + (k,))
    elif typ[0] == 'b':
      for lo in range(t[1]):
        for hi in range(lo + 1, t[1] + 1): objs.append(('sig', sid0, fields, (lo, hi)))
    else:
      if t[1] >= 4: objs.append(('sig', sid0, fields, (1, 3))); objs.append(('sig', sid0, fields, (2, t[1])))
  rec(typ, ())
  out = []
  for o1 in objs:
    for o2 in objs:
      for mode in ('two-blocks', 'one-block', 'block-and-net'):
        if mode == 'block-and-net' and o1 == o2: continue
        d = fixed_hierarchy()
        comp = rng.choice([0, 1])
        sid = d.add_sig(comp, 'x', 'wire', typ)
        a = ('sig', sid, o1[2], o1[3]); b = ('sig', sid, o2[2], o2[3])
        if mode == 'two-blocks':
          _blk_write(d, rng, comp, a); _blk_write(d, rng, comp, b)
        elif mode == 'one-block':
          blk = _blk_write(d, rng, comp, a)
          d.add_write(blk, b, rng, rhs=('k', rng.randrange(1 << twidth(d.otype(b)))))
        else:
          _blk_write(d, rng, comp, a)
          src = d.whole(d.add_sig(comp, 'y', 'wire', d.otype(b)))
          _blk_write(d, rng, comp, src)
          d.add_conn(src, b, comp)
        d.labels.append((f'write-pair:{mode}:{d.suffix(a) or "whole"}:{d.suffix(b) or "whole"}', None, None))
        out.append(d)
  return out
