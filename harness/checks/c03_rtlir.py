"""Typed behavioural RTLIR of the real front end -> S-expression of `Model/VTr.lean: RStmt / RExpr`.

The tree is the one `BehavioralRTLIRGenPass` built and `BehavioralRTLIRTypeCheckPass` annotated (read
from the component's metadata after the translation pass ran): every width comes from `node.Type`,
every constant from `node._value`.  The only thing this converter adds is the name of sub-component /
interface signals (`s.c[1].out` -> `c__out[1]`, `s.ifc.msg` -> `ifc__msg`), spelled as
VBehavioralTranslatorL4/L5.visit_Attribute/visit_Index do (pending indices are appended to the first
node that is a port or a list of ports).  Shapes outside `RExpr` raise `Unmodelled` (the tie is skipped for that block; the
simulation comparison still covers it).
"""
from collections import deque

class Unmodelled(Exception):
  pass

def _imports():
  from pymtl3.passes.rtlir import BehavioralRTLIR as bir
  from pymtl3.passes.rtlir import RTLIRDataType as rdt
  from pymtl3.passes.rtlir import RTLIRType as rt
  return bir, rdt, rt

def width(node):
  return int(node.Type.get_dtype().get_length())

class Conv:
  def __init__(self, blk_name, be='verilog', component=None):
    self.bir, self.rdt, self.rt = _imports()
    self.blk = blk_name
    self.be, self.component = be, component
    self.q = deque()

  def loopvar(self, name):
    """Verilog backend: a loop variable named like an attribute of the component is emitted as
    `__loopvar__<blk>_<name>` (VBehavioralTranslatorL2._loopvar_name, the repair of F18), so that the
    freshness `WTsL` assumes holds; `VTr.loopVarName .verilog` uses the name it is given."""
    if self.be == 'verilog' and self.component is not None and hasattr(self.component, name):
      return f'__loopvar__{self.blk}_{name}'
    return name

  # ------------------------------------------------------------------ expressions
  def expr(self, n):
    bir = self.bir
    if isinstance(n, bir.Number):
      v = int(n.value)
      if v < 0: raise Unmodelled('negative number')
      return ('num', width(n), v)
    if isinstance(n, bir.SizeCast):
      if hasattr(n, '_value'):
        v = int(n._value)
        if v < 0 or v >= (1 << n.nbits): raise Unmodelled('cast constant out of range')
        return ('castC', n.nbits, v)
      return ('cast', n.nbits, self.expr(n.value))
    if isinstance(n, bir.Concat): return ('cat',) + tuple(self.expr(v) for v in n.values)
    if isinstance(n, bir.ZeroExt): return ('zext', int(n.nbits), self.expr(n.value))
    if isinstance(n, bir.SignExt): return ('sext', int(n.nbits), self.expr(n.value))
    if isinstance(n, bir.Truncate): return ('trunc', int(n.nbits), self.expr(n.value))
    if isinstance(n, bir.Reduce):
      op = {bir.BitAnd: 'and', bir.BitOr: 'or', bir.BitXor: 'xor'}.get(type(n.op))
      if op is None: raise Unmodelled('reduce op')
      return ('reduce', op, self.expr(n.value))
    if isinstance(n, bir.IfExp): return ('ifexp', self.expr(n.cond), self.expr(n.body), self.expr(n.orelse))
    if isinstance(n, bir.UnaryOp):
      if isinstance(n.op, bir.Invert): return ('inv', self.expr(n.operand))
      raise Unmodelled('unary ' + type(n.op).__name__)
    if isinstance(n, bir.BinOp):
      # visit_BinOp (as repaired, F33): an operation folded by the type checker is emitted as its value
      try:
        v = int(n._value)
        if v >= 0: return ('num', max(width(n), v.bit_length(), 1), v)
      except (AttributeError, TypeError, ValueError):
        pass
      op = {bir.Add: 'add', bir.Sub: 'sub', bir.Mult: 'mul', bir.Mod: 'mod', bir.BitAnd: 'and', bir.BitOr: 'or',
            bir.BitXor: 'xor', bir.ShiftLeft: 'shl', bir.ShiftRightLogic: 'shr'}.get(type(n.op))
      if op is None: raise Unmodelled('binop ' + type(n.op).__name__)
      return ('bin', op, self.expr(n.left), self.expr(n.right))
    if isinstance(n, bir.Compare):
      op = {bir.Eq: 'eq', bir.NotEq: 'ne', bir.Lt: 'lt', bir.LtE: 'le', bir.Gt: 'gt', bir.GtE: 'ge'}[type(n.op)]
      return ('cmp', op, self.expr(n.left), self.expr(n.right))
    if isinstance(n, bir.LoopVar): return ('loopvar', self.blk, self.loopvar(n.name), width(n))
    if isinstance(n, bir.FreeVar):
      from pymtl3.datatypes import Bits
      if isinstance(n.obj, (int, Bits)) and int(n.obj) >= 0: return ('freevar', n.name, width(n), int(n.obj))
      raise Unmodelled('freevar object')
    if isinstance(n, bir.TmpVar):
      return ('tmpvar', f'__tmpvar__{n.upblk_name}_{n.name}', width(n), bool(n._is_explicit))
    if isinstance(n, bir.StructInst):
      return ('cat',) + tuple(self.expr(v) for v in n.values)
    if isinstance(n, (bir.Attribute, bir.Index, bir.Slice)):
      r = self.ref(n)
      if r[0] == 'scope': raise Unmodelled('component / interface used as a value')
      return r
    raise Unmodelled(type(n).__name__)

  # ------------------------------------------------------------------ signal references
  def flush(self, r, w):
    while self.q:
      r = ('index', r, self.q.popleft(), w)
    return r

  def ref(self, n):
    bir, rdt, rt = self.bir, self.rdt, self.rt
    if isinstance(n, bir.TmpVar):
      return ('tmpvar', f'__tmpvar__{n.upblk_name}_{n.name}', width(n), True)
    if isinstance(n, bir.Attribute):
      T = n.Type
      if isinstance(n.value, bir.Base):
        if isinstance(T, rt.Array):
          sub = T.get_sub_type()
          if isinstance(sub, (rt.Port, rt.Wire)): return ('sig', n.attr, int(sub.get_dtype().get_length()))
          if isinstance(sub, (rt.Component, rt.InterfaceView)): return ('scope', n.attr)
          raise Unmodelled('array of ' + type(sub).__name__)
        if isinstance(T, (rt.Component, rt.InterfaceView)): return ('scope', n.attr)
        if isinstance(T, rt.Const):
          from pymtl3.datatypes import Bits
          obj = T.get_object()
          if isinstance(T.get_dtype(), rdt.Vector) and isinstance(obj, (int, Bits)) and int(obj) >= 0:
            return ('const', n.attr, width(n), int(obj))
          raise Unmodelled('constant attribute')
        if isinstance(T, (rt.Port, rt.Wire)): return ('sig', n.attr, width(n))
        raise Unmodelled('attribute of ' + type(T).__name__)
      vT = n.value.Type
      if isinstance(vT, (rt.InterfaceView, rt.Component)):
        base = self.ref(n.value)
        if base[0] != 'scope': raise Unmodelled('scope expected')
        name = base[1] + '__' + n.attr
        if isinstance(T, rt.Array):
          sub = T.get_sub_type()
          if isinstance(sub, rt.Port):
            # process_unpacked_q (as repaired, F21): the pending sub-component / interface indices follow the name
            # of the port also when the port is a (multi-dimensional) list of ports
            w = int(sub.get_dtype().get_length())
            return self.flush(('sig', name, w), w)
          if isinstance(sub, rt.Wire): return ('sig', name, int(sub.get_dtype().get_length()))
          return ('scope', name)
        if isinstance(T, (rt.InterfaceView, rt.Component)): return ('scope', name)
        if isinstance(T, rt.Port): return self.flush(('sig', name, width(n)), width(n))
        if isinstance(T, rt.Wire): return ('sig', name, width(n))
        raise Unmodelled('member of a scope: ' + type(T).__name__)
      if isinstance(vT, rt.Signal) and isinstance(vT.get_dtype(), rdt.Struct):
        if isinstance(vT, rt.Const): raise Unmodelled('member of a constant struct')
        return ('field', self.ref(n.value), n.attr, width(n))
      raise Unmodelled('attribute base ' + type(vT).__name__)
    if isinstance(n, bir.Index):
      vT = n.value.Type
      if isinstance(vT, rt.Array):
        sub = vT.get_sub_type()
        if isinstance(sub, (rt.InterfaceView, rt.Component)):
          self.q.appendleft(self.expr(n.idx))
          return self.ref(n.value)
        if isinstance(sub, (rt.Port, rt.Wire)):
          idx = self.expr(n.idx)
          base = self.ref(n.value)
          w = int(sub.get_dtype().get_length())
          if isinstance(n.Type, rt.Port): base = self.flush(base, w)
          return ('index', base, idx, w)
        raise Unmodelled('index into array of ' + type(sub).__name__)
      if isinstance(vT, rt.Signal):
        idx = self.expr(n.idx)
        return ('index', self.ref(n.value), idx, width(n))
      raise Unmodelled('index base')
    if isinstance(n, bir.Slice):
      base = self.ref(n.value)
      if getattr(n, 'base', None) is not None and getattr(n, 'size', None):
        return ('partsel', base, self.expr(n.base), int(n.size))
      if not (hasattr(n.lower, '_value') and hasattr(n.upper, '_value')): raise Unmodelled('slice bounds')
      lo, hi = int(n.lower._value), int(n.upper._value)
      return ('slice', base, lo, hi, width(n.lower), width(n.upper))
    raise Unmodelled('reference ' + type(n).__name__)

  # ------------------------------------------------------------------ statements
  def stmts(self, body):
    return ('seq',) + tuple(self.stmt(s) for s in body)

  def stmt(self, n):
    bir = self.bir
    if isinstance(n, bir.Assign):
      # visit_Assign (as repaired, F31): the value is assigned to the LAST target, which is then copied to the
      # other targets (last but one first): Python evaluates the right-hand side of a chained assignment once
      def lhs_of(tgt):
        self.q.clear()
        l = self.ref(tgt)
        if l[0] == 'scope': raise Unmodelled('scope target')
        self.q.clear()
        return l
      blk = 1 if n.blocking else 0
      last = lhs_of(n.targets[-1])
      out = [('assign', blk, last, self.expr(n.value))]
      for tgt in reversed(n.targets[:-1]):
        out.append(('assign', blk, lhs_of(tgt), lhs_of(n.targets[-1])))       # the text of the last target, never cast
      return out[0] if len(out) == 1 else ('seq',) + tuple(out)
    if isinstance(n, bir.If):
      self.q.clear()
      return ('if', self.expr(n.cond), self.stmts(n.body), self.stmts(n.orelse))
    if isinstance(n, bir.For):
      for x in (n.start, n.end, n.step):
        if not hasattr(x, '_value'): raise Unmodelled('loop bound')
      a, b, st = int(n.start._value), int(n.end._value), int(n.step._value)
      if a < 0 or b < 0 or st == 0: raise Unmodelled('loop bound sign')
      stepnode = n.step
      if isinstance(stepnode, bir.UnaryOp): stepnode = stepnode.operand
      if not isinstance(stepnode, bir.Number) or not isinstance(n.start, bir.Number) or not isinstance(n.end, bir.Number):
        raise Unmodelled('loop bound expression')
      return ('for', self.blk, self.loopvar(n.var.name), a, b, abs(st), 1 if st < 0 else 0, width(n.start), width(n.end), width(stepnode),
              self.stmts(n.body))
    raise Unmodelled(type(n).__name__)

def block_sexp(upblk, be='verilog', component=None):
  """bir.CombUpblk / bir.SeqUpblk -> ('seq', …) of Model/VTr.lean RStmt"""
  c = Conv(upblk.name, be, component)
  return c.stmts(upblk.body)

def component_blocks(top):
  """[(component, module name, block name, is_ff, rtlir upblk)] for every update block of the hierarchy,
  using the metadata the translation pass leaves behind"""
  from pymtl3.passes.rtlir.behavioral.BehavioralRTLIRGenL1Pass import BehavioralRTLIRGenL1Pass
  bir, _, _ = _imports()
  out = []
  for m in sorted(top.get_all_components(), key=repr):
    if not m.has_metadata(BehavioralRTLIRGenL1Pass.rtlir_upblks): continue
    ups = m.get_metadata(BehavioralRTLIRGenL1Pass.rtlir_upblks)
    for blk, r in ups.items():
      out.append((m, blk.__name__, isinstance(r, bir.SeqUpblk), r))
  return out
