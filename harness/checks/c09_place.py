"""C09 / C07 (part) — operator placement: which assignment targets pymtl3 accepts under which operator in which kind of block,
and whether an accepted write takes effect.

proof:          lean/PymtlVerif/Props/C09p.lean over Model/Place.lean (names bound by the block, constant / variable index,
                recorded objects and part marks, operator verdict, flip-flop marking): place_total, update_table,
                update_ff_table, helper_table, ff_accept_whole, ff_whole_accepted, helper_ff_accept_nocut,
                helper_nocut_accepted, static_covers_dynamic, ff_marks_cover, bound_name_is_variable, bound_index_all_elements
correspondence: one generated component per case = target shape {whole signal / struct, struct field (1-2 levels), element of a
                1-D / 2-D list of signals or of a list of struct signals, each index a literal / closure constant / module-level
                constant / name bound in the block / signal-valued or computed expression} x tail {none, bit select (same index
                forms), slice with constant bounds, slice with non-constant bounds} x operator {=, annotated =, tuple =, chained =,
                for target, @=, <<=, += -= *= /= //= %= **= >>= &= |= ^=} x block kind {update, update_ff} x {in the block, in an
                @s.func helper (1-2 levels) called from it} x binding form of the index name {for, tuple / nested-tuple / starred
                loop target, temporary, tuple temporary, walrus, annotated, augmented} x {module-level name of the same spelling
                exists or not}: exception class of construct()+elaborate(), recorded write objects (element, field?, slice
                object?) and needs_double_buffer marks vs the model
direct oracle:  (1) the class the placement rules call for, from the shape alone (whole? part? which operator?); any exception
                that is not one of pymtl3's is a violation; (2) every accepted write under the block's own operator is
                simulated over several cycles with an enable: the signals must follow an independent interpretation of the
                statement (target := data when enabled, hold otherwise; registers after the edge) — a silently ineffective
                accepted write is a violation; (3) a second block writing an element the statement can write at run time must
                give MultiWriterError, and a comprehension reading a child's Wire through a bound name must give SignalTypeError;
                (4) what a helper accepts under the OTHER block kind's operator: '@=' in a helper reached from an update_ff block
                gets a second update_ff block reading the assigned signal and both block orders are run (C07: the result must
                not depend on the order); '<<=' in a helper reached from an update block must take effect at some point.
                Both are accepted and fail today: reported, held back through PENDING until the maintainer settles them
"""
import importlib.util, itertools, os, sys

from ..common import leanio
from ..common.leanio import InfraError

DRIVERS = ['place']
MODULE = 'PymtlVerif.Props.C09p'
THEOREMS = ['PV.C09p.' + t for t in [
  'place_total', 'update_table', 'update_ff_table', 'helper_table', 'ff_accept_whole', 'ff_whole_accepted',
  'helper_ff_accept_nocut', 'helper_nocut_accepted', 'static_covers_dynamic', 'ff_marks_cover', 'bound_name_is_variable',
  'bound_index_all_elements', 'helper_table_strict']]
THEOREMS_FF = ['PV.C09p.' + t for t in ['update_ff_table', 'ff_accept_whole', 'ff_whole_accepted', 'helper_ff_accept_nocut', 'static_covers_dynamic',
                                        'ff_marks_cover', 'bound_name_is_variable']]
TRUSTED = [
  'Model/Place.lean: DetectReadsWritesCalls.enter (names bound in the block), _get_full_name (constant / "*" index, kept / "*" slice), '
  'extract_obj_from_names (lookup_variable / expand_array_index: objs and part_objs; operator and top-level rules; the part-select rule of '
  '<<= inside @s.func helpers) and the needs_double_buffer marking, written from AstHelper.py / ComponentLevel2.py after fix: ed2bf03, d9e41f0, '
  '9c0eae9, 744e2f6, c472181; rectangular lists of signals; struct fields abstracted to "reached through a field"',
  'quirk kept: inside an @s.func helper only the part-select rule of <<= and (fix R13 helper-op-rule) the cross-kind rule apply: '
  "'@=' reached from update_ff and '<<=' reached from update are rejected (Model/Place.lean `verdictStrict`, PV.C09p.helper_table_strict); "
  'a helper using =, += ... elaborates: such cases are compared with the model, not simulated',
]
RULE = ('operator-placement stream: a core table (13 target shapes x 18 operator forms x update / update_ff x block / helper) plus random '
        'shapes (index forms, binding forms, module-level name collisions, 2-D lists, lists of structs, nested fields), each one generated '
        'component; accepted writes are simulated; second-writer and comprehension-read variants; case = the shape spec; non-trivial = '
        'a part select, a list index or a bound name is involved')

# Shapes reported to the maintainer and not yet settled (a `fix:` commit or a known_findings.json entry): a violation whose
# signature carries one of these findings is counted (`ck.hist('place_pending_finding', …)`, first reproduction kept in the
# evidence under `place_pending_findings`) instead of being flagged.  Empty the set to flag them.
PENDING = set()   # (both helper shapes were repaired in /repo: fix R13 helper-op-rule; they are ordinary violations if they return)
# the tree has the repair `helper-op-rule` (a helper's writes obey the operator rule of the calling block): compare with the
# model's `verdictStrict` instead of `verdict`
HELPER_OP_RULE_IN_TREE = os.environ.get('PV_HELPER_OP_RULE', '1') == '1'     # the repair is in /repo (fix R13 helper-op-rule)

CLASSES = {'UpdateBlockWriteError', 'UpdateFFBlockWriteError', 'UpdateFFNonTopLevelSignalError', 'MultiWriterError', 'SignalTypeError'}

# ---------------------------------------------------------------------------------------------
# the component every case instantiates
# ---------------------------------------------------------------------------------------------
ATTRS = {'r': ([], False), 'st': ([], True), 'l': ([4], False), 'm': ([2, 3], False), 'ls': ([3], True)}
FIELDS = [('a',), ('b', 'c'), ('b', 'e')]
LEAVES = [('a',), ('b', 'c'), ('b', 'e')]
CONSTS = {f'{p}{k}': k for p in 'KG' for k in range(5)}      # K<k>: closure constants, G<k>: module-level constants
BIND_NAMES = ['i', 'j', 't']

AUG = {'+=': 'add', '-=': 'sub', '*=': 'mult', '/=': 'div', '//=': 'floordiv', '%=': 'mod', '**=': 'pow', '>>=': 'rshift',
       '&=': 'bitand', '|=': 'bitor', '^=': 'bitxor'}
OPS = ['=', 'ann=', 'tuple=', 'chain=', 'for', '@=', '<<='] + list(AUG)
def op_model(op):
  return {'=': 'assign', 'ann=': 'assign', 'tuple=': 'assign', 'chain=': 'assign', 'for': 'for', '@=': 'at', '<<=': 'ff'}.get(op) or AUG[op]

HEADER = '''from pymtl3 import *
{globals}
@bitstruct
class PIn{u}:
  c: Bits8
  e: Bits8
@bitstruct
class PSt{u}:
  a: Bits8
  b: PIn{u}
class PChild{u}( Component ):
  def construct( s ):
    s.mix = [ OutPort( 8 ), Wire( 8 ), OutPort( 8 ) ]
    @update
    def drive():
      for q in range(3): s.mix[q] @= q + 1
'''
CLASS = '''class {name}( Component ):
  def construct( s ):
    s.sel = InPort( 2 ); s.b = InPort( 4 ); s.d = InPort( 8 ); s.en = InPort( 1 ); s.ds = InPort( PSt{u} )
    s.r = Wire( 8 ); s.st = Wire( PSt{u} ); s.o = OutPort( 8 )
    s.l = [ Wire( 8 ) for _ in range(4) ]
    s.m = [ [ Wire( 8 ) for _ in range(3) ] for _ in range(2) ]
    s.ls = [ Wire( PSt{u} ) for _ in range(3) ]
    K0 = 0; K1 = 1; K2 = 2; K3 = 3; K4 = 4
{body}
'''

# ---------------------------------------------------------------------------------------------
# index expressions: spec = [form, text, value]; value: int, 'x' (the bound name), 'sel', 'sel0', 'selh', 'b', 'b1'
# ---------------------------------------------------------------------------------------------
def idx_value(v, env):
  if isinstance(v, int): return v
  return {'x': env.get('x'), 'sel': env['sel'], 'sel0': env['sel'] & 1, 'selh': env['sel'] >> 1, 'b': env['b'], 'b1': env['b'] + 1,
          'x2': (env.get('x') or 0) * 2}[v]

def idx_model(spec):
  form, text, val = spec
  if form == 'lit': return ['num', val]
  if form in ('clo', 'glo', 'bound'): return ['name', text]
  return ['dyn', 0]

def gen_index(rng, size, bound, bit=False):
  """an index expression whose run-time value is < size (bit: a bit position of an 8-bit signal, kept <= 5)"""
  forms = ['lit', 'clo', 'glo', 'dyn', 'dyn']
  if bound is not None and bound['n'] <= size: forms += ['bound', 'bound', 'bexpr']
  f = rng.choice(forms)
  top = min(size, 5) if not bit else 5
  if f == 'lit': v = rng.randrange(top); return ['lit', str(v), v]
  if f == 'clo': v = rng.randrange(top); return ['clo', f'K{v}', v]
  if f == 'glo': v = rng.randrange(top); return ['glo', f'G{v}', v]
  if f == 'bound': return ['bound', bound['name'], 'x']
  if f == 'bexpr': return ['dyn', f'{bound["name"]} + 0', 'x']
  if bit: return rng.choice([['dyn', 's.b', 'b'], ['dyn', 's.b + 1', 'b1'], ['dyn', 'int(s.b)', 'b']])
  if size >= 4: return rng.choice([['dyn', 's.sel', 'sel'], ['dyn', 'int(s.sel)', 'sel'], ['dyn', 's.sel + 0', 'sel']])
  if size == 3: return rng.choice([['dyn', 's.sel >> 1', 'selh'], ['dyn', 's.sel[1]', 'selh']])
  return ['dyn', 's.sel[0]', 'sel0']

def gen_tail(rng, bound, kind=None):
  kind = kind or rng.choice(['none', 'none', 'bit', 'slc', 'slv'])
  if kind == 'none': return ['none']
  if kind == 'bit': return ['bit', gen_index(rng, 8, bound, bit=True)]
  if kind == 'slc':
    lo = rng.randrange(0, 6); hi = lo + 2
    def txt(v, allow):
      f = rng.choice(allow)
      return str(v) if f == 'lit' or v > 4 else (f'K{v}' if f == 'clo' else f'G{v}')
    return ['slc', txt(lo, ['lit', 'clo', 'glo']), txt(hi, ['lit', 'lit', 'clo', 'glo']), lo, hi]
  forms = [['slv', 's.b', 's.b + 2', 'b'], ['slv', 'K2', 'K2 + 2', 2], ['slv', 'G1', 'G1 + 2', 1], ['slv', 's.b', 'int(s.b) + 2', 'b'],
           ['slv', '1 + 1', '4', 2]]
  if bound is not None and bound['n'] <= 4:
    forms += [['slv', f'{bound["name"]} * 2', f'{bound["name"]} * 2 + 2', 'x2'], ['slv', bound['name'], f'{bound["name"]} + 2', 'x']] * 2
  return rng.choice(forms)

BINDERS = ['for', 'tuple', 'nested', 'starred', 'temp', 'tupletemp', 'walrus', 'ann', 'augtemp']
def gen_binder(rng, form=None, n=None):
  form = form or rng.choice(BINDERS)
  name = rng.choice(BIND_NAMES)
  if form in ('for', 'tuple', 'nested', 'starred'):
    n = n or rng.randint(2, 4)
    return {'form': form, 'name': name, 'n': n, 'vals': list(range(n))}
  c = rng.randint(1, (n or 3) - 1) if (n or 3) > 1 else 0
  return {'form': form, 'name': name, 'n': c + 1, 'vals': [c]}

def binder_tgts(b):
  x = ['n', b['name']]
  return {'for': [x], 'tuple': [['p', x, ['n', 'w_']]], 'nested': [['p', ['n', 'u_'], ['p', x, ['n', 'w_']]]],
          'starred': [['p', x, ['s', ['n', 'w_']]]], 'temp': [x], 'tupletemp': [['p', x, ['n', 'w_']]], 'walrus': [x], 'ann': [x],
          'augtemp': [x, x]}[b['form']]

def binder_lines(b, inner):
  """wrap the statement lines `inner`"""
  x, vals = b['name'], b['vals']
  ind = ['  ' + ln for ln in inner]
  f = b['form']
  if f == 'for': return [f'for {x} in range({b["n"]}):'] + ind
  if f == 'tuple': return [f'for {x}, w_ in [ ' + ', '.join(f'({k}, 0)' for k in vals) + ' ]:'] + ind
  if f == 'nested': return [f'for ( u_, ( {x}, w_ ) ) in [ ' + ', '.join(f'(0, ({k}, 0))' for k in vals) + ' ]:'] + ind
  if f == 'starred': return [f'for {x}, *w_ in [ ' + ', '.join(f'({k}, 0, 0)' for k in vals) + ' ]:'] + ind
  c = vals[0]
  if f == 'temp': return [f'{x} = {c}'] + inner
  if f == 'tupletemp': return [f'{x}, w_ = {c}, 0'] + inner
  if f == 'walrus': return [f'if ( {x} := {c} ) >= 0:'] + ind
  if f == 'ann': return [f'{x}: int = {c}'] + inner
  if f == 'augtemp': return [f'{x} = {c - 1}', f'{x} += 1'] + inner
  raise ValueError(f)

# ---------------------------------------------------------------------------------------------
# a case: {'kind','helper','op','attr','idx':[spec],'fields':[..],'tail':[..],'binder':{..}|None,'collide':{name: value},
#          'guard':bool,'second':None|{'path':[..],'legal':bool}}
# ---------------------------------------------------------------------------------------------
def target_text(c):
  t = 's.' + c['attr'] + ''.join(f'[ {s[1]} ]' for s in c['idx']) + ''.join('.' + f for f in c['fields'])
  tl = c['tail']
  if tl[0] == 'bit': t += f'[ {tl[1][1]} ]'
  elif tl[0] in ('slc', 'slv'): t += f'[ {tl[1]} : {tl[2]} ]'
  return t

def target_width(c):
  tl = c['tail'][0]
  return 1 if tl == 'bit' else 2 if tl in ('slc', 'slv') else 8

def is_struct_whole(c):
  return ATTRS[c['attr']][1] and not c['fields']

def rhs_text(c):
  if is_struct_whole(c): return 's.ds'
  w = target_width(c)
  return 's.d' if w == 8 else f's.d[0:{w}]'

def stmt_lines(c):
  tgt, rhs, op = target_text(c), rhs_text(c), c['op']
  if op == '=': s = [f'{tgt} = {rhs}']
  elif op == 'ann=': s = [f'{tgt}: int = {rhs}']
  elif op == 'tuple=': s = [f'{tgt}, w_ = {rhs}, 0']
  elif op == 'chain=': s = [f'w_ = {tgt} = {rhs}']
  elif op == 'for': s = [f'for {tgt} in range(2):', '  pass']
  else: s = [f'{tgt} {op} {rhs}']
  inside = bool(c['guard'] and c['binder'] and c.get('guard_inside'))
  if inside: s = ['if s.en:'] + ['  ' + x for x in s]
  if c['binder']: s = binder_lines(c['binder'], s)
  if c['guard'] and not inside: s = ['if s.en:'] + ['  ' + x for x in s]
  return s

def body_lines(c):
  dec = '@update' if c['kind'] == 'update' else '@update_ff'
  st = stmt_lines(c)
  out = []
  if c['helper']:
    out += ['@s.func', 'def hf():'] + ['  ' + x for x in st]
    call = 'hf()'
    if c['helper'] == 2:
      out += ['@s.func', 'def hg():', '  hf()']; call = 'hg()'
    out += [dec, 'def blk():', '  ' + call]
  else:
    out += [dec, 'def blk():'] + ['  ' + x for x in st]
  sec = c.get('second')
  if sec:
    el = 's.' + sec['attr'] + ''.join(f'[{k}]' for k in sec['path'])
    val = 's.ds' if ATTRS[sec['attr']][1] else ('s.d' if sec.get('data') else '1')
    out += [dec, 'def blk2():', f'  {el} {"@=" if c["kind"] == "update" else "<<="} {val}']
  cr = c.get('compread')
  if cr:
    out += ['s.c = PChild{u}()', '@update', 'def rd():', f'  s.o @= {cr["expr"]}']
  if comb_in_ff(c):
    # another update_ff block reads the signal the helper assigns with '@='
    out += ['s.q = Wire( 8 )', '@update_ff', 'def rdr():', f'  s.q <<= {probe_leaf_text(c)}']
  return out

PROBE_ENV = {'sel': 1, 'b': 2}
def comb_in_ff(c): return bool(c['helper']) and c['kind'] == 'update_ff' and c['op'] == '@='
def ff_in_comb(c): return bool(c['helper']) and c['kind'] == 'update' and c['op'] == '<<='

def probe_leaf(c):
  """an 8-bit leaf signal the statement assigns (a part of) under PROBE_ENV"""
  a, path, flds, _ = runtime_targets(c, PROBE_ENV)[0]
  if ATTRS[a][1] and not flds: flds = ('a',)
  return a, path, flds

def probe_leaf_text(c):
  a, path, flds = probe_leaf(c)
  return 's.' + a + ''.join(f'[{k}]' for k in path) + ''.join('.' + f for f in flds)

def leaf_value(top, leaf):
  a, path, flds = leaf
  o = getattr(top, a)
  for k in path: o = o[k]
  for f in flds: o = getattr(o, f)
  return int(o)

def probe_inputs():
  return [dict(PROBE_ENV, d=d, en=1, ds=[d, d ^ 0xff, d]) for d in (0x55, 0xaa, 0x33, 0xcc)]

def set_inputs(top, env, St, In):
  top.sel @= env['sel']; top.b @= env['b']; top.d @= env['d']; top.en @= env['en']
  a, cc, e = env['ds']
  top.ds @= St(a, In(cc, e))

def probe_comb_in_ff(mod, name, St, In):
  """both orders of the two update_ff blocks: the register fed by the helper-written signal must not depend on the order"""
  from pymtl3.passes.sim.GenDAGPass import GenDAGPass
  from pymtl3.passes.sim.WrapGreenletPass import WrapGreenletPass
  from pymtl3.passes.sim.SimpleSchedulePass import SimpleSchedulePass
  from pymtl3.passes.sim.PrepareSimPass import PrepareSimPass
  traces = {}
  for order in (('blk', 'rdr'), ('rdr', 'blk')):
    top = getattr(mod, name)(); top.elaborate()
    GenDAGPass()(top); WrapGreenletPass()(top); SimpleSchedulePass()(top)
    by = {b.__name__: b for b in top._sched.schedule_ff}
    if set(by) != {'blk', 'rdr'}: raise InfraError(f'C09 place: ff schedule of {name} is {sorted(by)}')
    top._sched.schedule_ff = [by[n] for n in order]
    PrepareSimPass(print_line_trace=False)(top); top.sim_reset()
    tr = []
    for env in probe_inputs():
      set_inputs(top, env, St, In); top.sim_tick(); tr.append(int(top.q))
    traces[order] = tr
  return traces

def probe_ff_in_comb(c, mod, name, St, In):
  """a helper assigns with '<<=' and is reached from an update block only: does the signal ever take the value?"""
  top = getattr(mod, name)(); top.elaborate()
  apply_flow(top, 'default'); top.sim_reset()
  env = dict(PROBE_ENV, d=0xa5, en=1, ds=[0xa5, 0x5a, 0xa5])
  seen = []
  for _ in range(3):
    set_inputs(top, env, St, In); top.sim_tick(); seen.append(leaf_value(top, probe_leaf(c)))
  return seen

def class_source(c, name, u):
  return CLASS.format(name=name, u=u, body='\n'.join('    ' + x for x in body_lines(c)).replace('{u}', str(u)))

def scope_tgts(c):
  t = []
  if c['binder']: t += binder_tgts(c['binder'])
  if c['op'] in ('tuple=', 'chain='): t.append(['n', 'w_'])
  return t

def model_line(c, read=False):
  tl = c['tail']
  tail = 'none' if tl[0] == 'none' else ['bit', idx_model(tl[1])] if tl[0] == 'bit' else ['slc', tl[3], tl[4]] if tl[0] == 'slc' else 'slv'
  clo = [[k, v] for k, v in CONSTS.items() if k[0] == 'K']
  glo = [[k, v] for k, v in CONSTS.items() if k[0] == 'G'] + [[k, v] for k, v in sorted(c['collide'].items())]
  return leanio.line('place', 'v', c['kind'] == 'update_ff', bool(c['helper']), op_model(c['op']), clo, glo,
                     scope_tgts(c) if not read else c['compread']['tgts'], ATTRS[c['attr']][0] if not read else [3],
                     [idx_model(s) for s in c['idx']] if not read else [['name', c['compread']['name']]],
                     len(c['fields']) if not read else 0, tail if not read else 'none')

def parse_model(rep):
  p = leanio.parse_sexp(rep)
  d = {p[i]: p[i + 1] for i in range(0, len(p), 2)}
  objs = sorted({(tuple(int(k) for k in o[0]), o[1] == '1', o[2] == '1') for o in d['objs']})
  ver = d['strict'] if HELPER_OP_RULE_IN_TREE else d['verdict']
  return {'verdict': 'ok' if ver == 'accept' else ver, 'op': d['op'], 'bound': sorted(set(d['bound'])),
          'objs': objs, 'part': sorted({tuple(int(k) for k in o[0]) for o in d['objs'] if o[3] == '1'}),
          'marked': sorted({tuple(int(k) for k in m) for m in d['marked']})}

# ---------------------------------------------------------------------------------------------
# the harness's own reading of a case
# ---------------------------------------------------------------------------------------------
def shape_facts(c):
  cut = c['tail'][0] != 'none'
  return {'cut': cut, 'whole': not cut and not c['fields']}

def expected(c):
  """(set of acceptable outcomes, the one the placement rules call for or None)"""
  f = shape_facts(c)
  ff, op = c['kind'] == 'update_ff', c['op']
  if not c['helper']:
    if not ff: e = 'ok' if op == '@=' else 'UpdateBlockWriteError'
    elif op != '<<=': e = 'UpdateFFBlockWriteError'
    else: e = 'ok' if f['whole'] else 'UpdateFFNonTopLevelSignalError'
    return {e}, e
  # inside a helper the statement of the property does not prescribe a verdict; what is accepted under the calling block's
  # own operator has to work, anything else is one of pymtl3's classes or accepted (observed quirk)
  return {'ok'} | CLASSES, None

def own_op(c):
  return c['op'] == ('<<=' if c['kind'] == 'update_ff' else '@=')

def runtime_targets(c, env):
  """the (attr, path, fields, (lo, hi)|None) the statement assigns under `env`, once per bound value, in order"""
  out = []
  vals = c['binder']['vals'] if c['binder'] else [None]
  for x in vals:
    e = dict(env, x=x)
    path = tuple(idx_value(s[2], e) for s in c['idx'])
    tl = c['tail']
    if tl[0] == 'none': rng_ = None
    elif tl[0] == 'bit': k = idx_value(tl[1][2], e); rng_ = (k, k + 1)
    elif tl[0] == 'slc': rng_ = (tl[3], tl[4])
    else: k = idx_value(tl[3], e); rng_ = (k, k + 2)
    out.append((c['attr'], path, tuple(c['fields']), rng_))
  return out

def all_paths(dims):
  return [tuple(p) for p in itertools.product(*[range(d) for d in dims])]

def zero_state():
  st = {}
  for a, (dims, struct) in ATTRS.items():
    for p in all_paths(dims):
      for lf in (LEAVES if struct else [()]): st[(a, p, lf)] = 0
  return st

def ref_step(c, state, env):
  for (a, p, flds, rng_) in (runtime_targets(c, env) if env['en'] or not c['guard'] else []):
    if ATTRS[a][1] and not flds:
      for lf, v in zip(LEAVES, env['ds']): state[(a, p, lf)] = v
      continue
    key = (a, p, flds)
    if rng_ is None: state[key] = env['d']
    else:
      lo, hi = rng_
      mask = ((1 << (hi - lo)) - 1) << lo
      state[key] = (state[key] & ~mask) | ((env['d'] << lo) & mask)
  sec = c.get('second')
  if sec:
    a, p = sec['attr'], tuple(sec['path'])
    if ATTRS[a][1]:
      for lf, v in zip(LEAVES, env['ds']): state[(a, p, lf)] = v
    else: state[(a, p, ())] = env['d'] if sec.get('data') else 1

def read_state(top):
  st = {}
  for a, (dims, struct) in ATTRS.items():
    for p in all_paths(dims):
      o = getattr(top, a)
      for k in p: o = o[k]
      if struct:
        for lf in LEAVES:
          v = o
          for f in lf: v = getattr(v, f)
          st[(a, p, lf)] = int(v)
      else: st[(a, p, ())] = int(o)
  return st

def gen_envs(rng, n):
  envs = []
  for k in range(n):
    envs.append({'sel': rng.randrange(4), 'b': rng.randrange(6), 'd': rng.randrange(1, 256), 'en': 0 if k == 2 else (1 if k < 2 else rng.randrange(2)),
                 'ds': [rng.randrange(1, 256) for _ in LEAVES]})
  return envs

FLOWS = ['default', 'heutopo', 'mamba', 'unroll']
def apply_flow(top, flow):
  from pymtl3.passes.PassGroups import DefaultPassGroup
  from pymtl3.passes.mamba.PassGroups import HeuTopoUnrollSim, Mamba2020, UnrollSim
  if flow == 'default': top.apply(DefaultPassGroup())
  elif flow == 'heutopo': top.apply(HeuTopoUnrollSim(print_line_trace=False))
  elif flow == 'mamba': top.apply(Mamba2020(print_line_trace=False))
  elif flow == 'unroll': top.apply(UnrollSim(print_line_trace=False))
  else: raise ValueError(flow)

def simulate(c, top, envs, flow, St, In):
  """returns None or (cycle, key, got, want)"""
  apply_flow(top, flow)
  top.sim_reset()
  ref = zero_state()
  for k, env in enumerate(envs):
    top.sel @= env['sel']; top.b @= env['b']; top.d @= env['d']; top.en @= env['en']
    a, cc, e = env['ds']
    top.ds @= St(a, In(cc, e))
    if c['kind'] == 'update': top.sim_eval_combinational()
    else: top.sim_tick()
    ref_step(c, ref, env)
    got = read_state(top)
    if got != ref:
      key = next(q for q in sorted(ref) if got[q] != ref[q])
      return (k, key, got[key], ref[key])
  return None

# ---------------------------------------------------------------------------------------------
# real observables
# ---------------------------------------------------------------------------------------------
def sig_index(top):
  ix = {}
  for a, (dims, _) in ATTRS.items():
    for p in all_paths(dims):
      o = getattr(top, a)
      for k in p: o = o[k]
      ix[id(o)] = (a, p)
  return ix

def real_objs(top, c, ix):
  if c['helper']:
    f = next(f for f in top._dsl.func_writes if f.__name__ == 'hf')
    ws = top._dsl.func_writes[f]
  else:
    b = next(b for b in top._dsl.upblk_writes if b.__name__ == 'blk')
    ws = top._dsl.upblk_writes[b]
  out = set()
  for x in ws:
    if not x.is_signal(): continue
    a, p = ix.get(id(x.get_top_level_signal()), (None, None))
    if a != c['attr']: continue
    sliced = x.is_sliced_signal()
    base = x.get_parent_object() if sliced else x
    out.add((p, not base.is_top_level_signal(), sliced))
  return sorted(out)

def real_marked(top, c, ix):
  out = []
  dims = ATTRS[c['attr']][0]
  for p in all_paths(dims):
    o = getattr(top, c['attr'])
    for k in p: o = o[k]
    if o._dsl.needs_double_buffer: out.append(p)
  return sorted(out)

# ---------------------------------------------------------------------------------------------
# generators
# ---------------------------------------------------------------------------------------------
def base_case(kind, helper, op, attr, idx=(), fields=(), tail=('none',), binder=None, collide=None, guard=True):
  return {'kind': kind, 'helper': helper, 'op': op, 'attr': attr, 'idx': [list(s) for s in idx], 'fields': list(fields),
          'tail': list(tail), 'binder': binder, 'collide': dict(collide or {}), 'guard': guard, 'second': None}

def core_shapes():
  """representatives of the 13 shape classes of the table (label, attr, idx, fields, tail, binder)"""
  lp = {'form': 'for', 'name': 'i', 'n': 4, 'vals': [0, 1, 2, 3]}
  return [
    ('whole', 'r', [], [], ['none'], None),
    ('const-bit', 'r', [], [], ['bit', ['lit', '2', 2]], None),
    ('const-slice', 'r', [], [], ['slc', '2', '4', 2, 4], None),
    ('var-bit', 'r', [], [], ['bit', ['dyn', 's.b', 'b']], None),
    ('var-slice', 'r', [], [], ['slv', 's.b', 's.b + 2', 'b'], None),
    ('struct-whole', 'st', [], [], ['none'], None),
    ('field', 'st', [], ['a'], ['none'], None),
    ('field-bit', 'st', [], ['b', 'c'], ['bit', ['lit', '1', 1]], None),
    ('list-const', 'l', [['lit', '1', 1]], [], ['none'], None),
    ('list-loop', 'l', [['bound', 'i', 'x']], [], ['none'], lp),
    ('list-signal', 'l', [['dyn', 's.sel', 'sel']], [], ['none'], None),
    ('list-const-bit', 'l', [['lit', '1', 1]], [], ['bit', ['lit', '2', 2]], None),
    ('list-loop-var-slice', 'l', [['bound', 'i', 'x']], [], ['slv', 'i * 2', 'i * 2 + 2', 'x2'], lp),
  ]

def gen_random(rng, kind=None, helper=None, op=None, binder_form=None, collide_p=0.5, whole_p=0.0):
  kind = kind or rng.choice(['update', 'update_ff'])
  helper = rng.choice([0, 0, 1, 2]) if helper is None else helper
  own = '<<=' if kind == 'update_ff' else '@='
  op = op or (own if rng.random() < 0.6 else rng.choice(OPS))
  attr = rng.choice(['r', 'st', 'l', 'l', 'm', 'm', 'ls', 'ls'])
  dims, struct = ATTRS[attr]
  binder = gen_binder(rng, binder_form, n=min(dims) if dims else None) if (binder_form or rng.random() < 0.6) else None
  if binder is not None and binder['form'] in ('for', 'tuple', 'nested', 'starred') and dims: binder['n'] = min(binder['n'], min(dims)); binder['vals'] = list(range(binder['n']))
  idx = [gen_index(rng, d, binder) for d in dims]
  whole = rng.random() < whole_p
  fields = list(rng.choice(FIELDS)) if struct and rng.random() < (0.7 if not whole else 0.3 if helper else 0.0) else []
  tail = ['none'] if (struct and not fields) or whole else gen_tail(rng, binder)
  used = binder is not None and (any(s[2] == 'x' for s in idx) or (tail[0] == 'bit' and tail[1][2] == 'x') or (tail[0] == 'slv' and tail[3] in ('x', 'x2')))
  if binder is not None and not used:
    # make the bound name matter: use it as the first list index, or as the bit index
    if dims and binder['n'] <= dims[0]: idx[0] = ['bound', binder['name'], 'x']
    elif not (struct and not fields) and not whole: tail = ['bit', ['bound', binder['name'], 'x']]
    else: binder = None
  collide = {}
  if binder is not None and rng.random() < collide_p:
    # a module-level name spelled like the bound one, holding an index the statement does NOT (only) use
    others = [v for v in range(4) if v not in binder['vals'][-1:]]
    collide = {binder['name']: rng.choice(others), 'w_': 0}
  c = base_case(kind, helper, op, attr, idx, fields, tail, binder, collide, guard=rng.random() < 0.7)
  c['guard_inside'] = rng.random() < 0.5
  return c

def add_second(c, rng, legal):
  """a second block of the same kind writing one whole element: one the statement writes at run time (illegal) or another signal"""
  if legal:
    attr = rng.choice([a for a in ATTRS if a != c['attr']])
    path = [rng.randrange(d) for d in ATTRS[attr][0]]
    c['second'] = {'attr': attr, 'path': path, 'legal': True, 'data': rng.random() < 0.5}
  else:
    env = {'sel': rng.randrange(4), 'b': rng.randrange(6)}
    tg = rng.choice(runtime_targets(c, env))
    c['second'] = {'attr': c['attr'], 'path': list(tg[1]), 'legal': False, 'data': rng.random() < 0.5}
  return c

def gen_compread(rng, collide):
  """a parent block reads a child's list [OutPort, Wire, OutPort] through a comprehension / generator variable"""
  x = rng.choice(BIND_NAMES)
  form = rng.choice(['listcomp', 'genexp', 'tuplecomp', 'nestedcomp'])
  n = rng.choice([2, 3])
  if form == 'listcomp': expr = f'sum( [ s.c.mix[{x}] for {x} in range({n}) ] )'; tg = [['n', x]]
  elif form == 'genexp': expr = f'sum( s.c.mix[{x}] for {x} in range({n}) )'; tg = [['n', x]]
  elif form == 'tuplecomp': expr = f'sum( [ s.c.mix[{x}] for {x}, w_ in [ (0, 0), (1, 0) ] ] )'; tg = [['p', ['n', x], ['n', 'w_']]]
  else: expr = f'sum( [ s.c.mix[{x}] for u_ in range(1) for {x} in range({n}) ] )'; tg = [['n', 'u_'], ['n', x]]
  c = base_case('update', 0, '@=', 'r', guard=False)
  c['compread'] = {'expr': expr, 'name': x, 'tgts': tg, 'form': form}
  c['collide'] = {x: rng.choice([0, 2]), 'w_': 0} if collide else {}
  return c

# ---------------------------------------------------------------------------------------------
# running
# ---------------------------------------------------------------------------------------------
_uid = itertools.count()

def module_source(u, collide, cases):
  g = '\n'.join(f'{k} = {v}' for k, v in list(CONSTS.items()) + sorted(collide.items()) if k[0] != 'K')
  out = [HEADER.format(u=u, globals=g)]
  for k, c in enumerate(cases): out.append(class_source(c, f'P{u}_{k}', u))
  return '\n'.join(out)

def load(workdir, u, src):
  modname = f'pvplace_{os.getpid()}_{u}'
  path = os.path.join(workdir, modname + '.py')
  with open(path, 'w') as f: f.write(src)
  spec = importlib.util.spec_from_file_location(modname, path)
  mod = importlib.util.module_from_spec(spec)
  sys.modules[modname] = mod
  spec.loader.exec_module(mod)
  return mod

def elaborate(mod, name):
  try:
    top = getattr(mod, name)()
    top.elaborate()
  except Exception as e:
    return None, type(e).__name__, str(e)
  return top, None, ''

def label(c):
  tl = c['tail'][0]
  idx = '/'.join(s[0] if s[2] != 'x' or s[0] == 'bound' else 'bexpr' for s in c['idx']) or '-'
  return f"{c['attr']}:{idx}:{'.'.join(c['fields']) or '-'}:{tl}" + (f":{c['tail'][1][0]}" if tl == 'bit' else '')

def report(ck, kind, sig, case, det):
  f = sig.get('finding')
  if f in PENDING:
    ck.hist('place_pending_finding', f)
    ck.extra_cov.setdefault('place_pending_findings', {}).setdefault(f, {'kind': kind, 'signature': sig, 'detail': det})
  else:
    ck.violation(kind, sig, case, det)

def run_case(ck, pid, mod, name, u, c, m, flows, envs=None):
  rng = ck.rng
  case = {'stream': 'place', 'spec': c}
  facts = shape_facts(c)
  nontrivial = bool(c['idx']) or facts['cut'] or c['binder'] is not None or bool(c.get('compread'))
  ck.count(case, nontrivial)
  src = class_source(c, name, u)
  top, exc, msg = elaborate(mod, name)
  real = exc or 'ok'
  sig = {'stream': 'place', 'kind': c['kind'], 'helper': bool(c['helper']), 'op': c['op'], 'whole': facts['whole'], 'cut': facts['cut']}
  det = {'source': src, 'module_level_names': c['collide'], 'statement': stmt_lines(c), 'exception': real, 'message': msg[:400]}
  ck.hist('place_kind', c['kind'] + ('/helper' if c['helper'] else '')); ck.hist('place_op', c['op']); ck.hist('place_shape', label(c))
  if c['binder']: ck.hist('place_binder', c['binder']['form'] + ('/collide' if c['collide'] else ''))
  # ---------------- comprehension-read variant
  if c.get('compread'):
    # the comprehension reads s.c.mix[1], a Wire of the child: [Type 1]
    want = 'SignalTypeError'
    if real == 'ok': ck.violation('illegal-design-accepted', dict(sig, defect='comprehension-reads-child-wire'), case, dict(det, expected=want))
    elif real != want: ck.violation('wrong-error-class', dict(sig, got=real), case, dict(det, expected=want))
    mwant = want if any(o[0] == (1,) for o in m['objs']) else 'ok'
    if mwant != real: ck.disagreement('place-comprehension-read', case, {'read_elements': m['objs'], 'verdict': mwant}, real)
    ck.hist('place_verdict', real)
    return
  # ---------------- direct oracle: the verdict
  okset, want = expected(c)
  sec = c.get('second')
  if sec and not sec['legal']: okset, want = {'MultiWriterError'}, 'MultiWriterError'
  if real not in okset:
    if want is None: ck.violation('wrong-error-class', dict(sig, got=real), case, dict(det, expected='accepted or one of pymtl3\'s errors'))
    elif want == 'ok': ck.violation('legal-design-rejected', dict(sig, exc=real), case, dict(det, expected='ok'))
    elif real == 'ok': ck.violation('illegal-design-accepted', dict(sig, defect=('second-writer' if sec else 'operator-placement')), case, dict(det, expected=want))
    else: ck.violation('wrong-error-class', dict(sig, got=real), case, dict(det, expected=want))
  # ---------------- model second
  mver = m['verdict']
  if sec and not sec['legal'] and mver == 'ok':
    mver = 'MultiWriterError' if any(o[0] == tuple(sec['path']) for o in m['objs']) else 'ok'
  if mver != real:
    ck.disagreement('place-verdict', case, {'verdict': mver, 'objs': m['objs'], 'part': m['part'], 'bound': m['bound']}, {'exception': real, 'message': msg[:300]})
  ck.hist('place_verdict', real)
  if top is None: return
  ix = sig_index(top)
  ro = real_objs(top, c, ix)
  if ro != m['objs']:
    ck.disagreement('place-recorded-objects', case, m['objs'], ro)
  if c['kind'] == 'update_ff' and own_op(c):
    rm = real_marked(top, c, ix)
    mm = sorted(set(m['marked']) | ({tuple(sec['path'])} if sec and sec['attr'] == c['attr'] else set()))
    if rm != mm: ck.disagreement('place-flip-flop-marks', case, mm, rm)
  # ---------------- accepted in a helper under the OTHER block kind's operator
  St, In = getattr(mod, f'PSt{u}'), getattr(mod, f'PIn{u}')
  if comb_in_ff(c):
    tr = probe_comb_in_ff(mod, name, St, In)
    (o1, t1), (o2, t2) = sorted(tr.items())
    ck.hist('place_helper_other_op', 'comb-in-ff:' + ('order-dependent' if t1 != t2 else 'same'))
    if t1 != t2:
      report(ck, 'ff-order-changes-result', dict(sig, finding='helper-comb-write-reached-from-update_ff'), case,
             dict(det, ff_orders={'/'.join(o1): t1, '/'.join(o2): t2}, inputs=probe_inputs(), register='s.q <<= ' + probe_leaf_text(c),
                  oracle='every order of the update_ff blocks must give the same state: a value assigned in (a helper of) an update_ff block is invisible before the edge'))
    return
  if ff_in_comb(c):
    seen = probe_ff_in_comb(c, mod, name, St, In)
    ck.hist('place_helper_other_op', 'ff-in-comb:' + ('never-takes-effect' if 0xa5 not in seen else 'takes-effect'))
    if 0xa5 not in seen:
      report(ck, 'accepted-write-ineffective', dict(sig, finding='helper-ff-write-reached-from-update'), case,
             dict(det, signal=probe_leaf_text(c), data=0xa5, values_after_each_tick=seen,
                  oracle='an accepted assignment takes effect: the signal holds the data value after the evaluation or, at the latest, after the next edge'))
    return
  # ---------------- accepted under the block's own operator: it has to work
  if not own_op(c):
    ck.hist('place_accepted_not_simulated', c['kind'] + ('/helper' if c['helper'] else '/block') + ':' + c['op'])
    return
  envs = envs or gen_envs(rng, 5)
  for fi, flow in enumerate(flows):
    if fi > 0:
      top, exc, msg = elaborate(mod, name)
      if top is None: raise InfraError(f'C09 place: second elaboration of {name} raised {exc}')
    try:
      bad = simulate(c, top, envs, flow, St, In)
    except leanio.MachineryError: raise
    except Exception as e:
      ck.violation('accepted-write-raises-in-simulation', dict(sig, flow=flow, exc=type(e).__name__), case,
                   dict(det, flow=flow, inputs=envs, error=f'{type(e).__name__}: {e}'[:400]))
      continue
    ck.hist('place_sim_flow', flow)
    if bad is not None:
      k, key, got, wantv = bad
      ck.violation('accepted-write-ineffective', dict(sig, flow=flow), case,
                   dict(det, flow=flow, inputs=envs, cycle=k, signal=f's.{key[0]}' + ''.join(f'[{q}]' for q in key[1]) + ''.join('.' + f for f in key[2]),
                        impl=got, ref=wantv,
                        oracle='after each evaluation (update) / clock edge (update_ff) the assigned part equals the data input when enabled and every other signal holds'))

def run(ck, pid='C09'):
  rng = ck.rng
  quick = ck.tier == 'quick'
  plain, coll = [], []
  def put(c): (coll if c['collide'] else plain).append(c)
  if pid == 'C09':
    # ---- the core table
    for (lab, attr, idx, fields, tail, binder) in core_shapes():
      for kind in ('update', 'update_ff'):
        for helper in (0, 1):
          for op in OPS:
            if attr == 'st' and not fields and op == 'for': continue
            if quick and op not in ('=', '@=', '<<=', 'for') and rng.random() < 0.5: continue
            put(base_case(kind, helper, op, attr, idx, fields, tail, binder, None, guard=True))
    # ---- random shapes
    for _ in range(220 if quick else 6000): put(gen_random(rng))
    # ---- every binding form with a module-level name of the same spelling, as list index of written signals and registers
    for form in BINDERS:
      for kind in ('update', 'update_ff'):
        for _ in range(3 if quick else 40):
          c = gen_random(rng, kind=kind, helper=rng.choice([0, 0, 1]), op=('<<=' if kind == 'update_ff' else '@='), binder_form=form, collide_p=1.0, whole_p=0.6)
          if c['binder'] is None: continue
          put(c)
          ok = expected(c)[1] == 'ok'
          if ok and rng.random() < 0.8:
            c2 = gen_random(rng, kind=kind, helper=0, op=c['op'], binder_form=form, collide_p=1.0, whole_p=0.6)
            if c2['binder'] is not None and expected(c2)[1] == 'ok': put(add_second(c2, rng, legal=rng.random() < 0.3))
    for _ in range(60 if quick else 1500):
      c = gen_random(rng, helper=0, op=None)
      c['op'] = '<<=' if c['kind'] == 'update_ff' else '@='
      if expected(c)[1] == 'ok': put(add_second(c, rng, legal=rng.random() < 0.4))
    for _ in range(12 if quick else 200): put(gen_compread(rng, collide=rng.random() < 0.7))
    flows = lambda: ['default']
  else:
    # ---- C07: update_ff only, the block's own operator; what is accepted must behave as a register under every pass group
    for (lab, attr, idx, fields, tail, binder) in core_shapes():
      for helper in (0, 1, 2):
        put(base_case('update_ff', helper, '<<=', attr, idx, fields, tail, binder, None, guard=True))
    for _ in range(160 if quick else 4000): put(gen_random(rng, kind='update_ff', op='<<=', whole_p=0.7))
    # a helper that assigns with '@=' reached from an update_ff block, a second update_ff block reading the signal: both block orders
    for (lab, attr, idx, fields, tail, binder) in core_shapes():
      put(base_case('update_ff', 1, '@=', attr, idx, fields, tail, binder, None, guard=False))
    for _ in range(10 if quick else 300): put(gen_random(rng, kind='update_ff', helper=rng.choice([1, 2]), op='@=', whole_p=0.5))
    for form in BINDERS:
      for _ in range(3 if quick else 40):
        c = gen_random(rng, kind='update_ff', helper=rng.choice([0, 0, 1, 2]), op='<<=', binder_form=form, collide_p=1.0, whole_p=0.8)
        if c['binder'] is not None: put(c)
    flows = lambda: rng.sample(FLOWS, 2)
  # the colliding names are module-level: one module per table of values
  tables = {}
  for c in coll: tables.setdefault(tuple(sorted(c['collide'].items())), []).append(c)
  for chunk in [plain[i:i + 400] for i in range(0, len(plain), 400)]:
    run_cases(ck, pid, {}, chunk, flows)
  for tab, cs in sorted(tables.items()):
    run_cases(ck, pid, dict(tab), cs, flows)
  ck.extra_cov['place_stream'] = {'cases': len(plain) + len(coll), 'with_module_level_collision': len(coll)}

def run_cases(ck, pid, collide, cases, flows):
  if not cases: return
  u = next(_uid)
  mod = load(ck.workdir, u, module_source(u, collide, cases))
  reps = ck.drv('place').batch([model_line(c, read=bool(c.get('compread'))) for c in cases])
  try:
    for k, (c, rep) in enumerate(zip(cases, reps)):
      run_case(ck, pid, mod, f'P{u}_{k}', u, c, parse_model(rep), flows())
  finally:
    sys.modules.pop(mod.__name__, None)

def replay(ck, data):
  case = data.get('case') or {}
  if case.get('stream') != 'place': return None
  c = case['spec']
  print(data.get('kind'), data.get('signature'))
  u = next(_uid)
  src = module_source(u, c['collide'], [c])
  print('--- source'); print(src)
  mod = load(ck.workdir, u, src)
  rep = ck.drv('place').batch([model_line(c, read=bool(c.get('compread')))])[0]
  print('--- model :', rep)
  top, exc, msg = elaborate(mod, f'P{u}_0')
  print('--- impl  :', exc or 'ok', msg[:300])
  run_case(ck, data.get('property', 'C09'), mod, f'P{u}_0', u, c, parse_model(rep), [((data.get('signature') or {}).get('flow') or 'default')],
           envs=(data.get('detail') or {}).get('inputs'))
  for v in ck.violations: print('--- violation:', v.kind, {k: v.detail.get(k) for k in ('cycle', 'signal', 'impl', 'ref', 'expected', 'exception') if k in v.detail})
  return 1 if (ck.violations or ck.breaks) else 0
