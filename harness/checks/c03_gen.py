"""Generator of translatable PyMTL components for C03 / C12.

`gen_design(rng, be, stream)` returns {'src', 'label', 'features'}: the source text of a module defining
component class `Top` (plus bitstructs, interfaces and sub-component classes).  Designs are built so that
the PyMTL simulation raises no exception (equal operand widths, indices in range, every driven bit
assigned on every path, single writer, no combinational loop), because the property compares two
executions.  The typing of the expressions is NOT given to the Lean side by this generator: the checks
read the real, type-checked RTLIR of the elaborated component.

stream = 'clean'   : the main stream; avoids the shapes of the KNOWN findings (F10, F17, F7) only
labelled streams (`gen_finding`), one known defect shape each:
   F10 (yosys)   struct signal kept in several unsynchronised forms: variants const-array-field (struct constant with a list-of-struct field connected to a struct output), field-write (struct output port written by
                 field), nested-leaf (struct port with a nested-struct / list field in output direction), struct-wire (struct
                 wire written by field and read whole or vice versa), comp-array (list of sub-components with a struct input)
   F17 (verilog) for loop with a negative step that does not land on the bound (unsigned loop variable wraps)
   F12 (verilog) the translator face of C10's F12: an implicitly sized temporary `t = i + 1` in a loop is declared with the operand width and wraps
   F35 (both)    a chained assignment to temporaries as the ONLY statement of an else / for body: emitted without begin/end
   F25 (yosys)   an interface that contains a list of interfaces: the grouping wires the code refers to are never declared / connected
   yosys-signed-loopvar (yosys)  `< <= > >=` / `%` / a compared `>>` whose operands are ALL loop variables (`integer`: signed, every use
                 `N'(__loopvar__…)` keeps the sign, IEEE 1800-2017 6.24.1 / 11.8.1), ranges reaching the sign bit of the inferred width; with
                 controls in the same design (`== !=`, one operand a temporary / signal / literal: unsigned, correct)
regression streams (`gen_fixed`): the shapes of defects repaired by fix: commits (F15, F16, F16b, F18, F19, F20, F21, F22, F23, F29, F31-F34); expected clean.
"""
import math

WIDTHS = [1, 1, 2, 3, 4, 4, 5, 7, 8, 8, 8, 12, 16, 16, 24, 31, 32, 33, 64]
TAIL_WIDTHS = [65, 96, 127, 128, 200, 512]

def clog2(n): return max(1, (n - 1).bit_length())

def dims_of(n):
  """list dimensions: None -> [], 3 -> [3], (2, 3) -> [2, 3]"""
  return [] if n is None else ([n] if isinstance(n, int) else list(n))

def all_indices(dims):
  import itertools
  return list(itertools.product(*[range(d) for d in dims]))

def idx_text(ix): return ''.join(f'[{i}]' for i in ix)

def list_ctor(elem, dims):
  """python text of a (nested) list comprehension building a list of `elem` with the given dimensions"""
  t = elem
  for d in reversed(dims): t = f'[ {t} for _ in range({d}) ]'
  return t

def numel(n):
  k = 1
  for d in dims_of(n): k *= d
  return k

class Struct:
  def __init__(self, name, fields):
    self.name, self.fields = name, fields            # fields: [(fname, ftype)], ftype: ('b', w) | ('l', n, w) | ('s', Struct) | ('ls', n, Struct)
  @property
  def width(self): return sum(ftype_width(t) for _, t in self.fields)
  @property
  def flat(self): return all(t[0] == 'b' for _, t in self.fields)
  def decl(self):
    out = ['@bitstruct', f'class {self.name}:']
    for f, t in self.fields:
      if t[0] == 'b': out.append(f'  {f}: Bits{t[1]}')
      elif t[0] == 'l':
        ty = f'Bits{t[2]}'
        for d in reversed(dims_of(t[1])): ty = f'[{ty}]*{d}'
        out.append(f'  {f}: {ty}')
      elif t[0] == 'ls':
        ty = t[2].name
        for d in reversed(dims_of(t[1])): ty = f'[{ty}]*{d}'
        out.append(f'  {f}: {ty}')
      else: out.append(f'  {f}: {t[1].name}')
    return out
  def const_text(self, rng):
    """a constant of this type: nested constructor calls with integer arguments"""
    def val(t):
      if t[0] == 'b': return str(rng.getrandbits(t[1]))
      if t[0] == 's': return t[1].const_text(rng)
      def lst(dims):
        # (list elements are written as BitsN(v): the bitstruct constructor keeps the elements of a list argument as they are)
        if not dims: return f'Bits{t[2]}({rng.getrandbits(t[2])})' if t[0] == 'l' else t[2].const_text(rng)
        return '[ ' + ', '.join(lst(dims[1:]) for _ in range(dims[0])) + ' ]'
      return lst(dims_of(t[1]))
    return f"{self.name}( {', '.join(val(t) for _, t in self.fields)} )"
  @property
  def has_struct_list(self):
    return any(t[0] == 'ls' or (t[0] == 's' and t[1].has_struct_list) for _, t in self.fields)

def ftype_width(t):
  if t[0] == 'b': return t[1]
  if t[0] == 'l': return numel(t[1]) * t[2]
  if t[0] == 'ls': return numel(t[1]) * t[2].width
  return t[1].width

class Sig:
  """a signal of a component: kind in/out/wire, T = ('b', w) | ('s', Struct), n = list length or None"""
  def __init__(self, name, kind, T, n=None, path=None):
    self.name, self.kind, self.T, self.n = name, kind, T, n
    self.path = path or ('s.' + name)        # python access path from the hosting component

class Ref:
  """a readable scalar: python text, width, kind (for the operand rules of sext), sliceable"""
  def __init__(self, text, w, kind='sig', sliceable=True):
    self.text, self.w, self.kind, self.sliceable = text, w, kind, sliceable

class Scope:
  def __init__(self):
    self.refs = []          # Ref: readable scalars with constant paths
    self.arrays = []        # (base text, n, elem width): element selectable by an index expression
    self.vectors = []       # Ref of plain vectors (for dynamic bit select / part select)
    self.consts = []        # (text, value): implicit ints (s.K, closure ints)
    self.loopvars = []      # (name, max value)
  def copy(self):
    c = Scope()
    c.refs, c.arrays, c.vectors = list(self.refs), list(self.arrays), list(self.vectors)
    c.consts, c.loopvars = list(self.consts), list(self.loopvars)
    return c

def add_readable(scope, path, T, n=None, dyn=True):
  """register everything readable below a signal path of data type T (list dimensions n)"""
  dims = dims_of(n)
  if dims:
    if T[0] == 'b':
      for pre in all_indices(dims[:-1]): scope.arrays.append((path + idx_text(pre), dims[-1], T[1]))
      for ix in all_indices(dims): scope.refs.append(Ref(path + idx_text(ix), T[1], 'elem'))
    else:
      for ix in all_indices(dims): add_readable(scope, path + idx_text(ix), T)
    return
  if T[0] == 'b':
    r = Ref(path, T[1], 'sig')
    scope.refs.append(r)
    if T[1] >= 2: scope.vectors.append(r)
  else:
    for f, t in T[1].fields:
      if t[0] == 'b': add_readable(scope, f'{path}.{f}', t)
      elif t[0] == 'l': add_readable(scope, f'{path}.{f}', ('b', t[2]), t[1])
      elif t[0] == 'ls': add_readable(scope, f'{path}.{f}', ('s', t[2]), t[1])
      else: add_readable(scope, f'{path}.{f}', ('s', t[1]))

class ExprGen:
  def __init__(self, rng, scope, opts):
    self.rng, self.scope, self.opts = rng, scope, opts

  # -------------------------------------------------------------- leaves
  def literal(self, w):
    rng = self.rng
    top = (1 << w) - 1
    return rng.choice([0, 1, top, top >> 1, rng.getrandbits(w), rng.getrandbits(w)]) & top

  def index_of(self, n):
    """an index expression text for a list of n elements / an n-bit vector: constant, dynamic signal or loop variable"""
    rng = self.rng
    lv = [name for name, mx in self.scope.loopvars if mx < n]
    if lv and rng.random() < 0.6: return rng.choice(lv)
    k = clog2(n)
    if (1 << k) == n and rng.random() < 0.4:        # every value of a k-bit selector is in range
      sel = [r for r in self.scope.refs if r.w == k and r.kind in ('sig', 'elem')]
      if sel: return rng.choice(sel).text
    return str(rng.randrange(n))

  def leaf(self, w):
    """expression text of width exactly w built from one readable source; returns (text, kind)"""
    rng, sc = self.rng, self.scope
    r = rng.random()
    lv = [name for name, mx in sc.loopvars if mx < (1 << w)]
    if lv and r < 0.06:
      return f'Bits{w}({rng.choice(lv)})', 'other'            # BitsN(loop variable)
    if r < 0.10 or not sc.refs:
      return f'Bits{w}({self.literal(w)})', 'const'
    if r < 0.22 and sc.arrays:
      base, n, ew = rng.choice(sc.arrays)
      src = Ref(f'{base}[{self.index_of(n)}]', ew, 'elem')
    elif r < 0.30 and w == 1 and sc.vectors:
      v = rng.choice(sc.vectors)
      if rng.random() < 0.25 and v.w >= 3:
        # an index computed from constants, folded by the type checker (repaired defect F33)
        p_ = rng.randint(1, max(1, int((v.w - 1) ** 0.5))); q_ = rng.randint(1, (v.w - 1) // p_)
        ks = [t for t, val in sc.consts if t in ('s.K', 'kf') and p_ * val < v.w]
        if ks and rng.random() < 0.5: return f'{v.text}[{p_}*{rng.choice(ks)}]', 'bit'
        return f"{v.text}[{rng.choice([f'{p_}*{q_}', f'{p_ * q_ - 1}+1'])}]", 'bit'
      return f'{v.text}[{self.index_of(v.w)}]', 'bit'
    elif r < 0.36 and sc.vectors and self.opts.get('partsel', True):
      ps = self.part_select(w)
      if ps: return ps, 'psel'
      src = rng.choice(sc.refs)
    else:
      same = [x for x in sc.refs if x.w == w]
      src = rng.choice(same) if same and rng.random() < 0.6 else rng.choice(sc.refs)
    return self.fit(src, w)

  def part_select(self, w):
    """v[b : b + w] with a base signal whose every value keeps the select in range"""
    rng, sc = self.rng, self.scope
    cands = []
    for v in sc.vectors:
      if v.kind != 'sig' or v.w <= w: continue
      iw = clog2(v.w)                               # the index width the type checker expects
      for b in sc.refs:
        # b + w must not wrap in iw bits and b + w <= v.w for every value of b: b is a zero-extended narrower signal
        if b.w == iw and b.kind == 'sig' and hasattr(b, 'maxval') and b.maxval + w <= min(v.w, (1 << iw) - 1):
          cands.append((v, b))
    if not cands: return None
    v, b = rng.choice(cands)
    return f'{v.text}[{b.text}:{b.text}+{w}]'

  def fit(self, src, w):
    rng = self.rng
    if src.w == w: return src.text, src.kind
    if src.w > w:
      if src.sliceable and rng.random() < 0.75:
        lo = rng.choice([0, src.w - w, rng.randint(0, src.w - w)])
        return f'{src.text}[{lo}:{lo + w}]', ('bit1' if w == 1 else 'slice')
      return f'trunc({src.text}, {w})', 'other'
    # narrower: extend or pad
    k = rng.random()
    if k < 0.45: return f'zext({src.text}, {w})', 'ext'
    if k < 0.75 and self.sext_ok(src.kind): return f'sext({src.text}, {w})', 'ext'
    rest, _ = self.leaf(w - src.w)
    if rng.random() < 0.5: return f'concat({src.text}, {rest})', 'cat'
    return f'concat({rest}, {src.text})', 'cat'

  def sext_ok(self, kind):
    # every operand kind (F16 / F16b are repaired); a bare constant is left to the type checker's folding quirks
    return True

  def nc(self, w, depth):
    """an expression that is not a bare constant (the type checker folds operators over constants and
    forgets their width)"""
    for _ in range(8):
      t, k = self.expr(w, depth)
      if k != 'const': return t, k
    nonconst = [x for x in self.scope.refs if x.kind != 'const']
    if nonconst: return self.fit(self.rng.choice(nonconst), w) if self.rng.random() < 2 else None
    return t, k

  # -------------------------------------------------------------- composite
  def expr(self, w, depth):
    """(text, kind) of an expression of width w"""
    rng = self.rng
    if depth <= 0 or rng.random() < 0.22: return self.leaf(w)
    k = rng.random()
    if k < 0.34:
      op = rng.choice(['+', '-', '&', '|', '^', '+', '^', '*'])
      a, _ = self.nc(w, depth - 1)
      if rng.random() < 0.22: b = self.int_operand(w)
      else: b, _ = self.expr(w, depth - 1)
      return f'({a} {op} {b})', 'cmpd'
    if k < 0.385 and depth >= 2:
      # a binary operation as an operand of the SAME operator: right-nested for the non-associative -, >>, << (the grouping
      # matters: a - (b - c) != (a - b) - c), left-nested and associative controls (seeded C03-8)
      op = rng.choice(['-', '-', '>>', '<<', '-', '+', '^'])
      a, _ = self.nc(w, depth - 2)
      b, _ = self.nc(w, depth - 2)
      if op in ('>>', '<<') and w > 1: c = rng.choice([str(rng.randint(1, min(3, w - 1))), self.nc(w, 0)[0]])
      else: c = self.nc(w, depth - 2)[0] if rng.random() < 0.7 else self.int_operand(w)
      right = rng.random() < 0.75
      self.opts.setdefault('_features', set()).add(('same-op-right-nested-' if right else 'same-op-left-nested-') + {'-': 'sub', '>>': 'shr', '<<': 'shl', '+': 'add', '^': 'xor'}[op])
      if right: return f'({a} {op} ({b} {op} {c}))', 'cmpd'
      return f'(({a} {op} {b}) {op} {c})', 'cmpd'
    if k < 0.42:
      op = rng.choice(['<<', '>>'])
      a, _ = self.nc(w, depth - 1)
      lvs = [name for name, mx in self.scope.loopvars]
      if lvs and rng.random() < 0.5:
        # a PLAIN loop variable as the (implicitly sized) shift amount; it may exceed the width of the shifted value (seeded C03-10)
        self.opts.setdefault('_features', set()).add('shift-by-loopvar')
        return f'({a} {op} {rng.choice(lvs)})', 'cmpd'
      if rng.random() < 0.6: b = str(rng.choice([0, 1, w - 1, w, rng.randint(0, min(w + 1, (1 << w) - 1))]) if w > 1 else rng.randint(0, 1))
      else: b, _ = self.expr(w, depth - 1)
      return f'({a} {op} {b})', 'cmpd'
    if k < 0.46 and w >= 2:
      a, _ = self.nc(w, depth - 1)
      b, _ = self.nc(w, depth - 1)
      return f'({a} % ({b} | 1))', 'cmpd'
    if k < 0.54:
      a, _ = self.nc(w, depth - 1)
      return f'(~{a})', 'cmpd'
    if k < 0.66 and w == 1:
      ww = rng.choice([1, 2, 4, 8, 8, 16, 33])
      op = rng.choice(['==', '!=', '<', '<=', '>', '>='])
      a, _ = self.nc(ww, depth - 1)
      if rng.random() < 0.25: b = self.int_operand(ww)
      else: b, _ = self.expr(ww, depth - 1)
      return f'({a} {op} {b})', 'cmpd'
    if k < 0.72 and w == 1:
      ww = rng.choice([1, 2, 3, 8, 16])
      a, _ = self.expr(ww, depth - 1)
      return f"reduce_{rng.choice(['and', 'or', 'xor'])}({a})", 'other'
    if k < 0.82:
      c, _ = self.expr(1, depth - 1)
      t, _ = self.expr(w, depth - 1)
      f, _ = self.expr(w, depth - 1)
      return f'({t} if {c} else {f})', 'cmpd'
    if k < 0.90 and w >= 2:
      n = rng.randint(2, min(3, w))
      cuts = sorted(rng.sample(range(1, w), n - 1))
      ws = [b - a for a, b in zip([0] + cuts, cuts + [w])]
      parts = [self.expr(x, depth - 1)[0] for x in ws]
      return f"concat({', '.join(parts)})", 'cat'
    if k < 0.96 and w >= 2:
      cw = rng.randint(1, w - 1)
      e, kind = self.expr(cw, depth - 1)
      if rng.random() < 0.5 and self.sext_ok(kind): return f'sext({e}, {w})', 'ext'
      return f'zext({e}, {w})', 'ext'
    if rng.random() < 0.3:
      e, _ = self.nc(w, depth - 1)
      return f'Bits{w}({e})', 'other'                          # BitsN( expression of the same width )
    if rng.random() < 0.3:
      e, _ = self.nc(w, depth - 1)                             # same-width zext / sext / trunc (repaired defect F32)
      return f"{rng.choice(['zext', 'sext', 'trunc'])}({e}, {w})", 'other'
    cw = w + rng.choice([1, 3, 8])
    e, kind = self.expr(cw, depth - 1)
    return f'trunc({e}, {w})', 'other'

  def int_operand(self, w):
    """an implicit (Python int) operand that fits w bits: literal, constant attribute or closure constant"""
    rng = self.rng
    ok = [t for t, v in self.scope.consts if v < (1 << w)]
    if w >= 4 and rng.random() < 0.15:
      a_ = rng.randint(1, 3); b_ = rng.randint(1, 5)
      return f'({a_}*{b_})' if rng.random() < 0.5 else f'({a_}+{b_})'      # folded by the type checker (repaired defect F33)
    if ok and rng.random() < 0.5: return rng.choice(ok)
    lv = [name for name, mx in self.scope.loopvars if mx < (1 << w)]
    if lv and rng.random() < 0.5: return rng.choice(lv)
    return str(self.literal(w))

  def cond(self, depth=1):
    bools = [t for t, _ in self.scope.consts if t.startswith('s.FL')]
    if bools and self.rng.random() < 0.15: return self.rng.choice(bools)          # `if s.FLG:` - a bool constant as the condition
    return self.expr(1, depth)[0]

# ---------------------------------------------------------------------------------------------
# components
# ---------------------------------------------------------------------------------------------
class Comp:
  def __init__(self, g, name, level, params=None):
    self.g, self.rng, self.name, self.level = g, g.rng, name, level
    self.sigs = []
    self.lines = []            # body of construct after the declarations
    self.decl = []
    self.children = []         # (inst name, Comp, list length or None)
    self.ifcs = []
    self.nifcs = []
    self.regs = []
    self.nblk = 0
    self.params = params or []  # [(name, default)]

  def W(self):
    rng = self.rng
    if self.g.opts.get('wide') and rng.random() < 0.04: return rng.choice(TAIL_WIDTHS)
    return rng.choice(WIDTHS)

class DesignGen:
  def __init__(self, rng, be, stream='clean', opts=None):
    self.rng, self.be, self.stream = rng, be, stream
    self.opts = dict(opts or {})
    self.opts['be'] = be
    self.structs = []
    self.classes = []          # rendered class texts, children first
    self.ifc_classes = {}
    self.nifc_decls = []       # texts of the generated (nested) interface classes, inner ones first
    self.features = set()
    self.opts['_features'] = self.features          # expression generators record their shapes here
    self.uid = 0

  # -------------------------------------------------------------- data types
  def new_struct(self, flat_only=False, depth=0, force_ls=False):
    rng = self.rng
    self.uid += 1
    name = f'St{self.uid}'
    fields = []
    for k in range(rng.randint(2, 3)):
      r = rng.random()
      if force_ls and k == 0: r = 0.8
      fname = 'abcdefg'[k] + rng.choice(['', 'x', '_f'])
      if flat_only or r < 0.6: fields.append((fname, ('b', rng.choice([1, 2, 3, 4, 8, 5]))))
      elif r < 0.76: fields.append((fname, ('l', rng.choice([2, 4, 2, (2, 3), (3, 2), (2, 2)]), rng.choice([1, 2, 4]))))
      elif r < 0.88 and depth < 2:
        # a (possibly 2-D) list of nested structs; the element type may itself contain a list of structs (two deep)
        inner = [s for s in self.structs if s.flat]
        if depth == 0 and rng.random() < 0.3: s2 = self.new_struct(depth=1, force_ls=True)
        elif inner and rng.random() < 0.6: s2 = rng.choice(inner)
        else: s2 = self.new_struct(flat_only=True)
        fields.append((fname, ('ls', rng.choice([2, 2, 3, (2, 2), (1, 2)]), s2)))
        self.features.add('struct-field-list-of-struct')
      else:
        inner = [s for s in self.structs if s.flat]
        if inner and rng.random() < 0.7: fields.append((fname, ('s', rng.choice(inner))))
        else:
          s2 = self.new_struct(flat_only=True)
          fields.append((fname, ('s', s2)))
    st = Struct(name, fields)
    self.structs.append(st)
    return st

  def new_nested_ifc(self, depth=0, lists_below=True):
    """a fresh Interface class; returns (class name, leaves) with leaves = [(dotted path, 'in'|'out', width, list length or None)]"""
    rng = self.rng
    self.uid += 1
    name = f'NI{self.uid}'
    pool = rng.sample(['a0', 'ack', 'dat', 'en', 'lane', 'mid', 'q', 'zz'], rng.randint(3, 4) if depth < 2 else rng.randint(2, 3))
    kinds = ['ifc'] if depth == 0 else []                      # the outermost level always holds an interface attribute
    while len(kinds) < len(pool):
      r = rng.random()
      if r < 0.35 and (lists_below or depth == 0): kinds.append('list')
      elif r < 0.45 and depth == 1 and lists_below: kinds.append('ifc')      # (verilog, current tree: one level of nesting only)
      else: kinds.append('port')
    if depth >= 1 and lists_below and 'list' not in kinds: kinds[0] = 'list'
    if depth >= 1 and 'port' not in kinds: kinds[-1] = 'port'
    rng.shuffle(kinds)
    body, leaves = [], []
    for m, k in zip(pool, kinds):
      direction = rng.choice(['in', 'in', 'out'])
      ctor = 'InPort' if direction == 'in' else 'OutPort'
      W = rng.choice([1, 2, 4, 8])
      if k == 'port':
        body.append(f'    s.{m} = {ctor}( Bits{W} )'); leaves.append((m, direction, W, None))
      elif k == 'list':
        n = rng.choice([2, 3, (2, 2)])
        body.append(f"    s.{m} = {list_ctor(f'{ctor}( Bits{W} )', dims_of(n))}"); leaves.append((m, direction, W, n))
      else:
        cls, sub = self.new_nested_ifc(depth + 1, lists_below)
        body.append(f'    s.{m} = {cls}()'); leaves += [(f'{m}.{r}', d_, w_, n_) for r, d_, w_, n_ in sub]
    self.nifc_decls.append('\n'.join([f'class {name}( Interface ):', '  def construct( s ):'] + body))
    return name, leaves

  def pick_struct(self, flat_only=False):
    cands = [s for s in self.structs if s.flat or not flat_only]
    if cands and self.rng.random() < 0.6: return self.rng.choice(cands)
    return self.new_struct(flat_only)

  # -------------------------------------------------------------- one component
  def build_comp(self, name, level, is_top):
    rng, be = self.rng, self.be
    c = Comp(self, name, level)
    if not is_top and rng.random() < 0.6: c.params = [('kp', rng.choice([1, 2, 3, 6]))]   # constructor parameter -> closure constant
    yos = be == 'yosys'
    struct_p = self.opts.get('structs', 0.5)
    # ---- ports
    ins, outs, wires = [], [], []
    for i in range(rng.randint(2, 4)):
      r = rng.random()
      if r < 0.18 * 2 * struct_p:
        st = self.pick_struct(flat_only=yos and not is_top)   # yosys: a child's struct input is in output direction for the parent
        nn = None
        if rng.random() < 0.4 and (is_top or not yos):         # a LIST of struct ports (yosys: top-level inputs only)
          nn = rng.choice([2, 3]); self.features.add('struct-port-list-in')
        ins.append(Sig(f'in{i}', 'in', ('s', st), n=nn)); self.features.add('struct-in')
      elif r < 0.18 * 2 * struct_p + 0.12:
        nn = rng.choice([2, 3, 4, 2, (2, 3), (3, 2)])
        ins.append(Sig(f'in{i}', 'in', ('b', rng.choice([2, 4, 8, 8])), n=nn)); self.features.add('port-array-in' + ('-2d' if not isinstance(nn, int) else ''))
      else:
        nm = 'i' if (i == 0 and rng.random() < 0.06) else f'in{i}'      # a port named like the loop variable
        if nm == 'i': self.features.add('signal-named-like-loopvar')
        ins.append(Sig(nm, 'in', ('b', c.W())))
    # narrow selectors help dynamic indexing
    if rng.random() < 0.7: ins.append(Sig('sel', 'in', ('b', rng.choice([1, 2, 2, 3]))))
    for i in range(rng.randint(1, 3)):
      r = rng.random()
      if r < 0.16 * 2 * struct_p:
        st = self.pick_struct(flat_only=yos)         # yosys clean stream: flat structs in output direction
        outs.append(Sig(f'out{i}', 'out', ('s', st))); self.features.add('struct-out')
      elif r < 0.16 * 2 * struct_p + 0.10:
        nn = rng.choice([2, 3, 4, 2, (2, 3), (3, 2)])
        outs.append(Sig(f'out{i}', 'out', ('b', rng.choice([2, 4, 8])), n=nn)); self.features.add('port-array-out' + ('-2d' if not isinstance(nn, int) else ''))
      else:
        outs.append(Sig(f'out{i}', 'out', ('b', c.W())))
    # a struct input re-read as its packed bit vector (`s.o @= s.p`): the whole-port form of the flat port map
    for sin in [x for x in ins if x.T[0] == 's' and x.n is None]:
      if rng.random() < 0.5:
        o = Sig(f'pk_{sin.name}', 'out', ('b', sin.T[1].width)); o.direct = sin.path
        outs.append(o); self.features.add('struct-as-bits')
    for i in range(rng.randint(0, 3)):
      r = rng.random()
      if r < 0.12 and not yos:                       # struct wires: verilog only (yosys: finding F10c)
        wires.append(Sig(f'w{i}', 'wire', ('s', self.pick_struct()))); self.features.add('struct-wire')
      elif r < 0.24:
        nn = rng.choice([2, 4, 2, (2, 3), (2, 2)])
        wires.append(Sig(f'w{i}', 'wire', ('b', rng.choice([2, 4, 8])), n=nn)); self.features.add('wire-array' + ('-2d' if not isinstance(nn, int) else ''))
      else:
        wires.append(Sig(f'w{i}', 'wire', ('b', c.W())))
    # ---- interfaces (top-level or not): ports with mangled names
    if rng.random() < self.opts.get('ifc', 0.25):
      n = rng.choice([None, None, 2, (2, 3)])
      W = rng.choice([4, 8])
      iname = 'ifc'
      c.ifcs.append((iname, W, n))
      self.features.add('interface' + ('' if n is None else '-array' if isinstance(n, int) else '-array-2d'))
      for ix in ([()] if n is None else all_indices(dims_of(n))):
        tag = ''.join(str(k) for k in ix)
        pre = f's.{iname}{idx_text(ix)}'
        ins.append(Sig(f'ifc{tag}_msg', 'in', ('b', W), path=f'{pre}.msg'))
        ins.append(Sig(f'ifc{tag}_val', 'in', ('b', 1), path=f'{pre}.val'))
        outs.append(Sig(f'ifc{tag}_rdy', 'out', ('b', 1), path=f'{pre}.rdy'))
    # ---- an interface that has another INTERFACE as an attribute (not a list of interfaces: known finding F25); the members
    #      of every level - sorted by name by the translators - mix lists of ports, scalar ports and deeper interfaces
    #      in all orders.  The SystemVerilog backend rejects a list of ports inside a nested interface on the current
    #      tree, and so it does an interface nested two deep (TypeError in rtlir_tr_interface_port_decl): verilog designs get
    #      one level of nesting with scalar members (opts['nifc_full'] lifts the restriction).
    if rng.random() < self.opts.get('nifc', 0.3 if yos else 0.15):
      cls, leaves = self.new_nested_ifc(lists_below=yos or bool(self.opts.get('nifc_full')))
      c.nifcs.append(('nif', cls))
      self.features.add('interface-nested')
      for rel, direction, W, n in leaves:
        nm = 'nif_' + rel.replace('.', '_')
        (ins if direction == 'in' else outs).append(Sig(nm, direction, ('b', W), n=n, path=f's.nif.{rel}'))
        if n is not None and '.' in rel: self.features.add('interface-nested-port-list')
    c.ins, c.outs, c.wires = ins, outs, wires
    c.sigs = ins + outs + wires
    # ---- declarations
    d = c.decl
    for s in c.sigs:
      if s.path != 's.' + s.name: continue             # interface members are declared by the interface
      ctor = {'in': 'InPort', 'out': 'OutPort', 'wire': 'Wire'}[s.kind]
      ty = f'Bits{s.T[1]}' if s.T[0] == 'b' else s.T[1].name
      if s.n is None: d.append(f'    s.{s.name} = {ctor}( {ty} )')
      else: d.append(f'    s.{s.name} = {list_ctor(f"{ctor}( {ty} )", dims_of(s.n))}')
    for (iname, cls) in c.nifcs: d.append(f'    s.{iname} = {cls}()')
    for (iname, W, n) in c.ifcs:
      self.ifc_classes['GIfc'] = True
      d.append(f"    s.{iname} = {list_ctor(f'GIfc( Bits{W} )', dims_of(n))}")
    # ---- constants
    consts = []
    if rng.random() < 0.6:
      v = rng.choice([0, 1, 3, 7, 12, 200]); d.append(f'    s.K = {v}'); consts.append(('s.K', v)); self.features.add('const-int')
    kb = None
    if rng.random() < 0.4:
      w = rng.choice([4, 8, 16]); v = rng.getrandbits(w)
      d.append(f'    s.KB = Bits{w}({v})'); kb = Ref('s.KB', w, 'const', sliceable=False); self.features.add('const-bits')
    if rng.random() < 0.4:
      v = rng.choice([1, 2, 5, 9]); d.append(f'    kf = {v}'); consts.append(('kf', v)); self.features.add('closure-int')
    if rng.random() < 0.3:
      # Python bool constants of the component (repaired defect F38: emitted as 1'dTrue)
      v = rng.random() < 0.5; d.append(f'    s.FLG = {v}'); consts.append(('s.FLG', int(v))); self.features.add('const-bool')
      if rng.random() < 0.5:
        vs = [rng.random() < 0.5 for _ in range(rng.randint(2, 3))]
        d.append(f"    s.FLS = [ {', '.join(map(str, vs))} ]"); consts += [(f's.FLS[{k}]', int(x)) for k, x in enumerate(vs)]; self.features.add('const-bool-list')
    fb = None
    if rng.random() < 0.25:
      w = rng.choice([4, 8]); v = rng.getrandbits(w)
      d.append(f'    fb = Bits{w}({v})'); fb = Ref('fb', w, 'const', sliceable=False); self.features.add('closure-bits')
    for pn, _ in c.params:
      consts.append((pn, 7)); self.features.add('ctor-param')      # usable wherever an int < 8 fits (values 0..7 are passed)
      # constants of the INSTANCE derived from the constructor parameter, read through attributes / constant subscripts
      d.append(f'    s.KP = {pn} + 1'); consts.append(('s.KP', 8))
      d.append(f'    s.KPB = Bits4( {pn} + 2 )')
      d.append(f'    s.TAB = [ Bits4( {pn} ), Bits4( 15 - {pn} ) ]')
      self.features.add('instance-const-from-param')
    c.param_refs = [Ref('s.KPB', 4, 'const', sliceable=False), Ref('s.TAB[0]', 4, 'const', sliceable=False),
                    Ref('s.TAB[1]', 4, 'const', sliceable=False)] if c.params else []
    c.consts, c.kb, c.fb = consts, kb, fb
    return c

  # -------------------------------------------------------------- driving plan
  def finish_comp(self, c, is_top):
    """create children, decide who drives what, emit blocks and connections"""
    rng, be = self.rng, self.be
    yos = be == 'yosys'
    # children
    nchild = 0
    if c.level < self.opts.get('depth', 2) and rng.random() < self.opts.get('child', 0.55):
      nchild = rng.choice([1, 2, 2, 2]) if c.level == 0 else 1      # keep the flattened design small (the Lean store is a list)
    prev = None
    for k in range(nchild):
      if prev is not None and prev.params and rng.random() < 0.8:
        ch = prev                                  # a second instance of the same class, constructed with another parameter
        self.features.add('same-class-two-instances')
      else:
        self.uid += 1
        ch = self.build_comp(f'Sub{self.uid}', c.level + 1, False)
        self.finish_comp(ch, False)
      prev = ch
      n = None
      # a list of identical sub-components (struct-free in yosys: finding F10d)
      has_struct_in = any(s.T[0] == 's' for s in ch.ins)
      if rng.random() < 0.3 and not (yos and has_struct_in) and not ch.ifcs and not ch.nifcs and not ch.children:      # lists of leaf components only
        # 2-D lists only of leaf components (a 2x3 grid of sub-hierarchies makes the flattened design very large)
        n = rng.choice([2, 2, 2, (2, 2), (2, 3)])
        self.features.add('comp-array' + ('' if isinstance(n, int) else '-2d'))
      c.children.append((f'c{k}', ch, n))
      def inst():
        return f'{ch.name}( {rng.randint(0, 7)} )' if ch.params else f'{ch.name}()'
      def nested(dims):
        if not dims: return inst()
        return '[ ' + ', '.join(nested(dims[1:]) for _ in range(dims[0])) + ' ]'
      if n is None: c.decl.append(f'    s.c{k} = {inst()}')
      elif ch.params and rng.random() < 0.7:
        c.decl.append(f'    s.c{k} = {nested(dims_of(n))}'); self.features.add('comp-array-different-params')
      else:
        c.decl.append(f'    s.c{k} = {list_ctor(inst(), dims_of(n))}')
      self.features.add(f'child-level{c.level + 1}')
    # availability
    scope = Scope()
    scope.consts = list(c.consts)
    if c.kb: scope.refs.append(c.kb)
    if c.fb: scope.refs.append(c.fb)
    scope.refs += getattr(c, 'param_refs', [])
    for s in c.ins: add_readable(scope, s.path, s.T, s.n)
    sel = next((s for s in c.ins if s.name == 'sel'), None)
    wide = [s for s in c.ins if s.T[0] == 'b' and s.n is None and s.T[1] >= 8 and s.path == 's.' + s.name]
    if sel is not None and wide and rng.random() < 0.5:
      v = rng.choice(wide)
      iw = clog2(v.T[1])
      if sel.T[1] < iw:
        c.decl.append(f'    s.pb = Wire( Bits{iw} )')
        nm = self.blk_name(c, 'up')
        c.lines += ['    @update', f'    def {nm}():', f'      s.pb @= zext( s.sel, {iw} )']
        r = Ref('s.pb', iw, 'sig'); r.maxval = (1 << sel.T[1]) - 1
        scope.refs.append(r); self.features.add('part-select-base')
    # registers: some wires / outs are flip-flops (available from the start)
    drivable = [s for s in c.outs + c.wires]
    regs = []
    for s in drivable:
      if s.T[0] == 'b' and not hasattr(s, 'direct') and rng.random() < self.opts.get('reg', 0.3): regs.append(s)
    for s in regs: add_readable(scope, s.path, s.T, s.n)
    c.reg_paths = {s.path for s in regs if s.kind == 'out'}
    # targets in driving order: own comb signals and child inputs; child outputs become readable once
    # every input of the child is driven
    items = [('sig', s) for s in drivable if s not in regs]
    for (iname, ch, n) in c.children:
      for idx in ([None] if n is None else all_indices(dims_of(n))):
        pre = f's.{iname}' if idx is None else f's.{iname}{idx_text(idx)}'
        for s in ch.ins:
          items.append(('cin', Sig(s.name, 'wire', s.T, s.n, path=pre + s.path[1:]), (iname, idx)))
    rng.shuffle(items)
    # keep the inputs of one child instance adjacent-ish is not needed; track completion
    pending = {}
    for it in items:
      if it[0] == 'cin': pending[it[2]] = pending.get(it[2], 0) + 1
    for (iname, ch, n) in c.children:
      for idx in ([None] if n is None else all_indices(dims_of(n))):
        if (iname, idx) not in pending:               # child without inputs: outputs readable at once
          self.child_outputs(scope, iname, idx, ch)
    blocks = []
    cur = None
    driven_cin = {}
    for it in items:
      s = it[1]
      mode = rng.random()
      connectable = s.T[0] == 'b' or True
      prev_in = []
      if it[0] == 'cin' and s.T[0] == 'b' and s.n is None:
        # REGISTERED outputs of the same child instance (no combinational path back to its inputs)
        iname_, idx_ = it[2]
        ch_ = next(x[1] for x in c.children if x[0] == iname_)
        pre_ = f's.{iname_}' if idx_ is None else f's.{iname_}{idx_text(idx_)}'
        prev_in = [pre_ + o.path[1:] for o in ch_.outs if o.path in getattr(ch_, 'reg_paths', ()) and o.T == s.T and o.n is None]
      if prev_in and mode < self.opts.get('same_child', 0.12):
        # the parent connects an output of a child to an input of the SAME child instance (the current tree rejects the design:
        # 'connection missing from connect_order'; accepted => the usual comparison applies); control: via a parent wire
        src_ = rng.choice(prev_in)
        if rng.random() < 0.5:
          c.lines.append(f'    {s.path} //= {src_}'); self.features.add('same-child-output-to-input')
        else:
          self.uid += 1
          c.decl.append(f'    s.lw{self.uid} = Wire( Bits{s.T[1]} )')
          c.lines += [f'    s.lw{self.uid} //= {src_}', f'    {s.path} //= s.lw{self.uid}']; self.features.add('same-child-output-to-input-via-parent-wire')
      elif hasattr(s, 'direct'):
        nm = self.blk_name(c, 'up')
        c.lines += ['    @update', f'    def {nm}():', f'      {s.path} @= {s.direct}']
      elif mode < (0.4 if s.T[0] == 's' and s.n is None else 0.22) and connectable:
        self.emit_connection(c, scope, s)
      else:
        if cur is None or len(cur) >= rng.randint(1, 3):
          cur = []; blocks.append(cur)
        cur.append(s)
        # the block is rendered immediately so that the scope at that moment is the one it may read
        self.render_comb_target(c, scope, cur, s)
      if it[0] == 'sig': add_readable(scope, s.path, s.T, s.n)
      if it[0] == 'cin':
        pending[it[2]] -= 1
        if pending[it[2]] == 0:
          iname, idx = it[2]
          ch = next(x[1] for x in c.children if x[0] == iname)
          self.child_outputs(scope, iname, idx, ch)
          cur = None                                  # child outputs are read by later blocks only
    # ff blocks: may read everything readable (including signals driven later)
    full = scope
    rng.shuffle(regs)
    while regs:
      k = rng.randint(1, min(2, len(regs)))
      mine, regs = regs[:k], regs[k:]
      self.render_ff(c, full, mine)
    self.classes.append(self.render_class(c, is_top))

  def child_outputs(self, scope, iname, idx, ch):
    pre = f's.{iname}' if idx is None else f's.{iname}{idx_text(idx)}'
    for s in ch.outs:
      add_readable(scope, pre + s.path[1:], s.T, s.n)

  # -------------------------------------------------------------- connections
  def emit_connection(self, c, scope, s):
    """drive s by `//=` from something readable of the same type (falls back to a block)"""
    rng = self.rng
    if s.n is not None and s.T[0] == 'b':
      # every element of the (nested) list is a structural connection end point
      for ix in all_indices(dims_of(s.n)):
        self.connect_scalar(c, scope, s.path + idx_text(ix), s.T[1], allow_lambda=False)
      self.features.add('connect-list-elements' + ('-2d' if len(dims_of(s.n)) > 1 else ''))
      return
    if s.n is not None or s.T[0] == 's':
      # whole struct connection from a same-typed readable path
      if s.T[0] == 's' and s.n is None:
        cands = [x for x in self.struct_paths(c, scope, s.T[1])]
        st = s.T[1]
        if rng.random() < (0.55 if st.has_struct_list else 0.3) and (self.be == 'verilog' or st.flat):
          # a CONSTANT of the struct type as the source of a structural connection (yosys: flat structs only, F10)
          c.lines.append(f'    {s.path} //= {st.const_text(rng)}')
          self.features.add('connect-struct-const' + ('-list-of-struct' if st.has_struct_list else '')); return
        if cands:
          c.lines.append(f'    {s.path} //= {rng.choice(cands)}'); self.features.add('connect-struct'); return
      self.render_comb_target(c, scope, [], s); return
    if not self.connect_scalar(c, scope, s.path, s.T[1]):
      self.render_comb_target(c, scope, [], s)

  def connect_scalar(self, c, scope, path, w, allow_lambda=True):
    """drive the Bits signal `path` by one `//=` (always succeeds when allow_lambda is False)"""
    rng = self.rng
    class _S: pass
    s = _S(); s.path = path
    r = rng.random()
    if r < 0.22 and allow_lambda:
      eg = ExprGen(rng, scope.copy(), self.opts)
      txt = eg.nc(w, 2)[0]
      if 's.' in txt:          # a lambda that does not mention the component has no closure to find `s` in
        c.lines.append(f'    {s.path} //= lambda: {txt}'); self.features.add('lambda'); return True
    r = rng.random()
    same = [x for x in scope.refs if x.w == w and x.kind in ('sig', 'elem') and x.sliceable]
    wider = [x for x in scope.refs if x.w > w and x.kind in ('sig', 'elem') and x.sliceable]
    if r < 0.15 or (not same and not wider and not allow_lambda):
      c.lines.append(f'    {s.path} //= {rng.getrandbits(w)}'); self.features.add('connect-const')
    elif r < 0.6 and same:
      c.lines.append(f'    {s.path} //= {rng.choice(same).text}'); self.features.add('connect')
    elif r < 0.8 and wider:
      x = rng.choice(wider); lo = rng.randint(0, x.w - w)
      c.lines.append(f'    {s.path} //= {x.text}[{lo}:{lo + w}]'); self.features.add('connect-slice')
    elif w >= 2 and same and len(scope.refs) >= 2:
      k = rng.randint(1, w - 1)
      a = [x for x in scope.refs if x.w >= k and x.kind in ('sig', 'elem') and x.sliceable]
      b = [x for x in scope.refs if x.w >= w - k and x.kind in ('sig', 'elem') and x.sliceable]
      if a and b:
        xa, xb = rng.choice(a), rng.choice(b)
        ta = xa.text if xa.w == k else f'{xa.text}[0:{k}]'
        tb = xb.text if xb.w == w - k else f'{xb.text}[{xb.w - (w - k)}:{xb.w}]'
        c.lines.append(f'    {s.path}[0:{k}] //= {ta}')
        c.lines.append(f'    {s.path}[{k}:{w}] //= {tb}'); self.features.add('connect-to-slices')
      else:
        c.lines.append(f'    {s.path} //= {rng.choice(same).text}')
    elif same:
      c.lines.append(f'    {s.path} //= {rng.choice(same).text}'); self.features.add('connect')
    elif wider:
      x = rng.choice(wider)
      c.lines.append(f'    {s.path} //= {x.text}[0:{w}]'); self.features.add('connect-slice')
    elif allow_lambda:
      return False
    else:
      c.lines.append(f'    {s.path} //= {rng.getrandbits(w)}'); self.features.add('connect-const')
    return True

  def struct_paths(self, c, scope, st):
    out = []
    for s in c.ins:
      if s.T == ('s', st) and s.n is None: out.append(s.path)
    return out

  # -------------------------------------------------------------- blocks
  def blk_name(self, c, kind):
    c.nblk += 1
    return f'{kind}{c.nblk}'

  def render_comb_target(self, c, scope, cur, s):
    """emit one update block assigning s (blocks hold one target each; several statements)"""
    rng = self.rng
    name = self.blk_name(c, 'up')
    body = self.assign_stmts(c, scope.copy(), s, '@=', name)
    c.lines.append('    @update')
    c.lines.append(f'    def {name}():')
    c.lines += ['      ' + l for l in body]

  def render_ff(self, c, scope, regs):
    rng = self.rng
    name = self.blk_name(c, 'ff')
    body = []
    for s in regs:
      sc = scope.copy()
      stm = self.assign_stmts(c, sc, s, '<<=', name, ff=True)
      if rng.random() < 0.5 and s.n is None:
        rst = f'{s.path} <<= {rng.choice([0, 1, (1 << s.T[1]) - 1])}'
        body += ['if s.reset:', '  ' + rst, 'else:'] + ['  ' + l for l in stm]
        self.features.add('reset')
      else:
        body += stm
    c.lines.append('    @update_ff')
    c.lines.append(f'    def {name}():')
    c.lines += ['      ' + l for l in body]
    self.features.add('update_ff')

  def assign_stmts(self, c, scope, s, op, blk, ff=False):
    """statements that assign every bit of s exactly on every path"""
    rng = self.rng
    out = []
    depth = self.opts.get('depth_expr', 3)
    eg = ExprGen(rng, scope, self.opts)
    # temporaries
    if rng.random() < 0.3:
      w = rng.choice([1, 4, 8])
      e, kind = eg.expr(w, depth - 1)
      self.uid += 1
      tn = f't{self.uid}'
      if w >= 4 and rng.random() < 0.5:
        # part-writes of the temporary (blocking also in update_ff blocks: repaired defect F29); the temporary must be a
        # fresh value, `t = s.x` would alias the signal object in the PyMTL simulation
        e = f'({e} | 0)'      # (an if-expression or a same-width zext / trunc may return the signal or constant object itself)
        out.append(f'{tn} = {e}')
        lo = rng.randint(0, w - 2); hi = rng.randint(lo + 1, w)
        out.append(f'{tn}[{lo}:{hi}] = {eg.expr(hi - lo, 1)[0]}')
        if True:                          # (yosys: repaired defect F30)
          k = rng.randrange(w)
          if rng.random() < 0.5: out += [f'if {eg.cond()}:', f'  {tn}[{k}] = {eg.expr(1, 1)[0]}']
          else: out.append(f'{tn}[{k}] = {eg.expr(1, 1)[0]}')
        self.features.add('tmpvar-part-write' + ('-ff' if ff else ''))
      else:
        out.append(f'{tn} = {e}')
      tref = Ref(tn, w, 'sig')
      scope.refs.append(tref)
      if w >= 2: scope.vectors.append(tref)          # bit selects of the temporary (constant, dynamic, loop variable)
      self.features.add('tmpvar')
      if rng.random() < 0.25:
        # chained assignment to temporaries whose right-hand side reads the FIRST target (Python evaluates it once)
        self.uid += 1
        tb = f't{self.uid}'
        if rng.random() < 0.5:
          out.append(f"{tn} = {tb} = ({tn} {rng.choice('+^-')} {eg.nc(w, 1)[0]})")
        else:
          # mirror shape (repaired defect F31): the right-hand side reads the LAST target
          out.append(f'{tb} = ({eg.nc(w, 1)[0]} | 0)')
          out.append(f"{tn} = {tb} = ({tb} {rng.choice('+^-')} {eg.nc(w, 1)[0]})")
          self.features.add('chained-assign-mirror')
        scope.refs.append(Ref(tb, w, 'sig'))
        self.features.add('chained-assign')
    if s.T[0] == 's':
      return out + self.assign_struct(c, scope, s, op, eg)
    w = s.T[1]
    if s.n is not None:
      # (nested) list of signals: (nested) loop or element-wise
      dims = dims_of(s.n)
      if rng.random() < 0.6:
        vs = ['i', 'j'][:len(dims)]
        sc2 = scope.copy()
        for v, d in zip(vs, dims): sc2.loopvars.append((v, d - 1))
        eg2 = ExprGen(rng, sc2, self.opts)
        e, _ = eg2.expr(w, depth - 1)
        ind = ''
        for v, d in zip(vs, dims):
          out.append(f'{ind}for {v} in range({d}):'); ind += '  '
        out.append(f"{ind}{s.path}{''.join(f'[{v}]' for v in vs)} {op} {e}")
        self.features.add('for-array' + ('-2d' if len(dims) > 1 else ''))
      else:
        for ix in all_indices(dims):
          out += self.assign_scalar(f'{s.path}{idx_text(ix)}', w, op, eg, depth)
      return out
    return out + self.assign_scalar(s.path, w, op, eg, depth)

  def assign_scalar(self, tgt, w, op, eg, depth):
    rng = self.rng
    r = rng.random()
    if op == '<<=' and r >= 0.74: r = rng.random() * 0.74      # update_ff: only whole signals on the left of <<=
    E = lambda ww=w, d=depth: eg.expr(ww, d)[0]
    if r < 0.40:
      if any(x.text == 's.KPB' for x in eg.scope.refs) and rng.random() < 0.6:
        # a component with constructor parameters: mix a constant of the INSTANCE (attribute / constant subscript) in
        pk = rng.choice(['s.KP', 'zext(s.KPB, %d)' % w if w > 4 else 's.KPB', 'zext(s.TAB[%d], %d)' % (rng.randint(0, 1), w) if w > 4 else 's.TAB[1]']) \
             if w >= 4 else f"trunc(s.{rng.choice(['KPB', 'TAB[0]', 'TAB[1]'])}, {w})"
        self.features.add('instance-const-used')
        return [f"{tgt} {op} ({eg.nc(w, depth - 1)[0]} {rng.choice('^+')} {pk})"]
      return [f'{tgt} {op} {E()}']
    if r < 0.55:
      self.features.add('if-else')
      return [f'if {eg.cond()}:', f'  {tgt} {op} {E(w, depth - 1)}', 'else:', f'  {tgt} {op} {E(w, depth - 1)}']
    if r < 0.63:
      self.features.add('if-elif')
      return [f'if {eg.cond()}:', f'  {tgt} {op} {E(w, depth - 1)}', f'elif {eg.cond()}:', f'  {tgt} {op} {E(w, depth - 1)}',
              'else:', f'  {tgt} {op} {E(w, depth - 1)}']
    if r < 0.74:
      self.features.add('default-override')
      return [f'{tgt} {op} {E(w, depth - 1)}', f'if {eg.cond()}:', f'  {tgt} {op} {E(w, depth - 1)}']
    if r < 0.84 and w >= 2:
      k = rng.randint(1, w - 1)
      self.features.add('slice-target')
      return [f'{tgt}[0:{k}] {op} {E(k, depth - 1)}', f'{tgt}[{k}:{w}] {op} {E(w - k, depth - 1)}']
    if r < 0.94 and 2 <= w <= 16:
      # bit loop: positive or (landing) negative step
      v = 'i'
      sc2 = eg.scope.copy(); sc2.loopvars.append((v, w - 1))
      eg2 = ExprGen(rng, sc2, eg.opts)
      e = eg2.expr(1, 1)[0]
      self.features.add('for-bits')
      if rng.random() < (0.3 if self.be == 'verilog' else 0.12):      # yosys: rejected (AttributeError) on the current tree
        self.features.add('for-negative-step')
        if rng.random() < 0.6:
          # the loop variable as a VALUE of its own width (BitsN(i), compared / concatenated), descending
          self.features.add('for-negative-step-loopvar-value')
          M = (w - 1).bit_length()
          k = rng.random()
          if k < 0.4: e = f"((Bits{M}({v}) {rng.choice(['==', '!=', '<', '>='])} {rng.randint(0, w - 1)}) {rng.choice('&|^')} {e})"
          elif k < 0.7: e = f"(reduce_xor(Bits{M}({v})) ^ {e})"
          else: e = f"(concat(Bits{M}({v}), {e}) {rng.choice(['==', '>'])} {rng.getrandbits(M + 1)})"
        # range(w-1, 0, -1) leaves bit 0: assign it first
        return [f'{tgt}[0] {op} {eg.expr(1, 1)[0]}', f'for {v} in range({w - 1}, 0, -1):', f'  {tgt}[{v}] {op} {e}']
      if rng.random() < 0.3 and w % 2 == 0:
        self.features.add('for-step2')
        e2 = eg2.expr(1, 1)[0]
        return [f'for {v} in range(0, {w}, 2):', f'  {tgt}[{v}] {op} {e}', f'for {v} in range(1, {w}, 2):', f'  {tgt}[{v}] {op} {e2}']
      if rng.random() < 0.25:
        # an if-expression as the loop bound, constant or signal condition (repaired defect F39: `i < c ? a : b`); the
        # larger bound has as many bits as an index of the target, the whole target is assigned first
        hi = w if w & (w - 1) else w - 1
        lo = rng.randint(1, hi)
        bools = [t for t, _ in eg.scope.consts if t.startswith('s.FL')]
        cnd = rng.choice(bools) if bools and rng.random() < 0.5 else eg.expr(1, 1)[0]
        a_, b_ = (hi, lo) if rng.random() < 0.5 else (lo, hi)
        self.features.add('for-ifexp-bound' + ('-const' if cnd.startswith('s.FL') else '-signal'))
        return [f'{tgt} {op} {E(w, 1)}', f'for {v} in range({a_} if {cnd} else {b_}):', f'  {tgt}[{v}] {op} {e}']
      return [f'for {v} in range({w}):', f'  {tgt}[{v}] {op} {e}']
    return [f'{tgt} {op} {E()}']

  def assign_struct(self, c, scope, s, op, eg):
    rng = self.rng
    st = s.T[1]
    def value_of(t):
      if t[0] == 'b': return eg.expr(t[1], 2)[0]
      return None
    targets = [s.path] if s.n is None else [f'{s.path}[{k}]' for k in range(s.n)]
    out = []
    for tgt in targets:
      same = [p for p in self.struct_paths(c, scope, st)]
      by_field = (self.be == 'verilog' and rng.random() < 0.45) or not st.flat
      if st.flat and self.be == 'verilog' and rng.random() < 0.15:
        # a struct-typed temporary built from a fresh struct value, one field overwritten (yosys: F10 variant struct-tmpvar)
        self.uid += 1
        tn = f'ts{self.uid}'
        f0, t0 = rng.choice(st.fields)
        out.append(f"{tn} = {st.name}( {', '.join(value_of(t) for _, t in st.fields)} )")
        out.append(f'{tn}.{f0} = {eg.expr(t0[1], 1)[0]}')
        out.append(f'{tgt} {op} {tn}'); self.features.add('struct-tmpvar-field-write')
      elif st.flat and self.be == 'verilog' and rng.random() < 0.12:
        # a bitstruct constant of the component (the yosys backend rejects reading it: KeyError in the translator)
        self.uid += 1
        cn = f'CS{self.uid}'
        vals = ', '.join(str(rng.getrandbits(t[1])) for _, t in st.fields)
        c.decl.append(f'    s.{cn} = {st.name}( {vals} )')
        out.append(f'{tgt} {op} s.{cn}'); self.features.add('struct-const')
      elif same and rng.random() < 0.3:
        out.append(f'{tgt} {op} {rng.choice(same)}'); self.features.add('struct-copy')
      elif st.flat and not by_field:
        args = ', '.join(value_of(t) for _, t in st.fields)
        out.append(f'{tgt} {op} {st.name}( {args} )'); self.features.add('struct-inst')
      elif self.be == 'verilog' or True:
        # field by field (verilog; for yosys this branch is only reached for input-direction data, never here)
        out += self.assign_fields(tgt, st, op, eg); self.features.add('struct-by-field')
    return out

  def assign_fields(self, tgt, st, op, eg):
    out = []
    for f, t in st.fields:
      if t[0] == 'b': out.append(f'{tgt}.{f} {op} {eg.expr(t[1], 2)[0]}')
      elif t[0] == 'l':
        for ix in all_indices(dims_of(t[1])): out.append(f'{tgt}.{f}{idx_text(ix)} {op} {eg.expr(t[2], 1)[0]}')
      elif t[0] == 'ls':
        for ix in all_indices(dims_of(t[1])): out += self.assign_fields(f'{tgt}.{f}{idx_text(ix)}', t[2], op, eg)
      else: out += self.assign_fields(f'{tgt}.{f}', t[1], op, eg)
    return out

  # -------------------------------------------------------------- rendering
  def render_class(self, c, is_top):
    args = ''.join(f', {pn}={dv}' for pn, dv in c.params)
    out = [f'class {c.name}( Component ):', f'  def construct( s{args} ):']
    out += c.decl
    out += c.lines
    out.append('    pass')
    return '\n'.join(out)

  def render(self):
    out = ['from pymtl3 import *', '']
    for st in self.structs: out += st.decl() + ['']
    if self.ifc_classes:
      out += ['class GIfc( Interface ):', '  def construct( s, T ):', '    s.msg = InPort( T )', '    s.val = InPort()',
              '    s.rdy = OutPort()', '']
    for t in self.nifc_decls: out += [t, '']
    for cl in self.classes: out += [cl, '']
    src = '\n'.join(out)
    import re
    wide = sorted({int(m) for m in re.findall(r'\bBits(\d+)\b', src) if int(m) > 256})
    if wide:        # `from pymtl3 import *` defines Bits1 … Bits256 only
      alias = '\n'.join(f'Bits{n} = mk_bits({n})' for n in wide)
      src = src.replace('from pymtl3 import *\n', 'from pymtl3 import *\n' + alias + '\n', 1)
    if self.rng.random() < 0.3:
      # module-level names equal to the loop variables, arbitrary values: a loop variable shadows them
      # (repaired: translator F34 bce9656, elaboration read/write sets 908de91)
      gi, gj = self.rng.choice([0, 2, 5, 9, 300]), self.rng.choice([0, 1, 2, 7])
      src = src.replace('from pymtl3 import *\n', f'from pymtl3 import *\ni = {gi}\nj = {gj}\n', 1)
      self.features.add('global-named-like-loopvar')
    return src

def gen_clean(rng, be, opts=None):
  g = DesignGen(rng, be, 'clean', opts)
  top = g.build_comp('Top', 0, True)
  g.finish_comp(top, True)
  return {'src': g.render(), 'label': 'clean', 'features': sorted(g.features)}

# ---------------------------------------------------------------------------------------------
# labelled streams: one known defect shape each (small directed designs, randomised widths / operands)
# ---------------------------------------------------------------------------------------------
F10 = 'F10-struct-output-written-by-field'
F15 = 'F15-yosys-subcomponent-array-parameters'
F16 = 'F16-sext-operand-not-selectable'
F16B = 'F16b-sext-of-list-element'
F17 = 'F17-negative-step-loop-wraps'
F18 = 'F18-loop-variable-shadows-signal'
F19 = 'F19-yosys-trunc-unmangled'
F7 = 'F7-same-class-name-different-bodies'
F20 = 'F20-yosys-2d-list-of-interfaces-or-subcomponents-transposed'
F21 = 'F21-verilog-2d-port-list-of-listed-subcomponent'
F22 = 'F22-yosys-cast-of-compound-unparenthesised'
F23 = 'F23-yosys-truncating-cast-selects-an-expression'
F25 = 'F25-yosys-interface-containing-interface-list'
F29 = 'F29-tmpvar-part-write-nonblocking-in-update-ff'
F12 = 'F12-implicit-arithmetic-width'
F31 = 'F31-chained-assignment-rhs-reads-last-target'
F32 = 'F32-same-width-ext-trunc-of-compound'
F33 = 'F33-folded-constant-recomputed-narrow'
F34 = 'F34-loop-variable-named-like-global'
D1 = 'D1-descending-loop-variable-as-value'
T3 = 'regression-T3-folded-constant-in-struct-field'      # repaired 0e3882f: a folded constant takes the width of its context
T4 = 'regression-T4-negative-integer-constant'            # repaired 4f83e01: rejected
T5 = 'regression-T5-struct-closure-constant-typedef'        # repaired 814484c (verilog; yosys refuses struct closure constants)
T6 = 'T6-temporary-of-earlier-block-shadows-closure-name'
T7 = 'regression-T7-temporary-variable-name-collision'     # repaired 1182cae: refused
D4 = 'D4-implicit-shift-amount-exceeds-width'
D2 = 'D2-same-child-port-to-port-connection'
D3 = 'D3-same-operator-nesting'
T1 = 'regression-T1-select-of-computed-value'             # repaired d462da9: rejected by the type checker / yosys keeps the concatenation text
T2 = 'regression-T2-single-field-struct-instance'           # repaired f402609: a compound value of a one-field struct instance is parenthesised
F38 = 'F38-bool-constant-attribute'
F39 = 'F39-if-expression-loop-bound'
F35 = 'F35-chained-assignment-sole-body-without-begin-end'
YSL = 'yosys-signed-loopvar'                                    # round 13 (P5): known finding C12-yosys-signed-loopvar
P6 = 'regression-P6-bool-free-variable'                         # repaired 93e9b7c: a bool closure / global constant is the number 0 / 1
R12 = 'regression-R12-free-variable-name-collision'             # repaired 141f6eb: one name, different constants in two blocks of a component: refused (seeded C03-R12)
R12B = 'regression-R12b-block-bound-name-vs-module-constant'     # repaired: the constant extractor ignores names bound in the block (seeded C03-R12b)
R13S = 'regression-R13-struct-field-of-struct-constant'         # repaired: `K.p` of a struct constant K is `__const__K.p` (seeded C03-R13); yosys refuses the shape

FINDING_STREAMS = {
  # id -> (backends, expected violation kinds)
  F10: (('yosys',), ('multi-driver', 'undriven', 'output-mismatch', 'syntax-invalid')),
  F17: (('verilog',), ('loop-overrun', 'output-mismatch')),
  F12: (('verilog', 'yosys'), ('output-mismatch', 'cast-reading-dependent')),
  F35: (('verilog', 'yosys'), ('output-mismatch', 'multi-driver', 'undriven')),
  F25: (('yosys',), ('syntax-invalid', 'undriven', 'output-mismatch', 'multi-driver')),
  YSL: (('yosys',), ('output-mismatch',)),
}
# labelled streams of confirmed defects that are neither registered as known findings nor repaired yet: a check runs such a
# stream only once known_findings.json has an entry of its property whose match.finding is the stream id
PENDING_STREAMS = {
  # (observed, not a property violation, not repaired: stays switched off unless registered)
  T6: (('verilog', 'yosys'), ('rejected-translatable',)),  # temporary `u` of block up1, closure `u` read in block up2: spurious rejection (tmp_var_env is never reset)
}

def registered(fid, pid):
  import json, os
  try:
    d = json.load(open(os.path.join(os.path.dirname(os.path.dirname(os.path.dirname(os.path.abspath(__file__)))), 'known_findings.json')))
    return any(f.get('property') == pid and (f.get('match') or {}).get('finding') == fid for f in d.get('findings', []))
  except Exception:
    return False

FIXED_STREAMS = {
  # shapes of repaired defects: ordinary clean cases now
  F15: ('yosys', 'verilog'), F16: ('verilog', 'yosys'), F16B: ('verilog', 'yosys'), F18: ('verilog', 'yosys'), F19: ('yosys', 'verilog'),
  F20: ('yosys', 'verilog'), F21: ('verilog', 'yosys'), F22: ('yosys', 'verilog'),
  F23: ('yosys', 'verilog'),
  F29: ('verilog', 'yosys'),
  F31: ('verilog', 'yosys'), F32: ('verilog', 'yosys'), F33: ('verilog', 'yosys'), F34: ('verilog', 'yosys'),
  F38: ('verilog', 'yosys'), F39: ('verilog', 'yosys'),
  D2: ('verilog', 'yosys'),   # directed: the parent connects two ports of the SAME child (rejected on the current tree: counted; seeded C03-7); control: via a parent wire
  T1: ('verilog', 'yosys'), T2: ('verilog', 'yosys'), T3: ('verilog', 'yosys'), T4: ('verilog', 'yosys'),
  T5: ('verilog',), T7: ('verilog', 'yosys'),
  D4: ('verilog', 'yosys'),   # directed: a plain loop variable / int temporary as the shift amount, reaching and exceeding the width of the shifted value (seeded C03-10)
  D3: ('verilog', 'yosys'),   # directed: right-nested chains of -, >>, <<, % with operand values for which the groupings differ (seeded C03-8)
  P6: ('verilog', 'yosys'),
  R12: ('verilog', 'yosys'), R12B: ('verilog', 'yosys'), R13S: ('verilog', 'yosys'),
  D1: ('verilog',),       # directed (not a repaired defect): descending loops whose variable is used as a VALUE of its own width (seeded C03-2); yosys rejects negative steps
}

def _hdr(): return ['from pymtl3 import *', '']

def gen_finding(rng, be, fid):
  w = rng.choice([2, 3, 4, 8])
  w2 = rng.choice([2, 4, 5])
  variant = None
  L = _hdr()
  if fid == F10:
    variant = rng.choice(['field-write', 'nested-leaf', 'struct-wire', 'comp-array', 'struct-tmpvar', 'const-array-field'])
    L += ['@bitstruct', 'class Fl:', f'  a: Bits{w}', f'  b: Bits{w2}', '']
    if variant == 'field-write':
      L += ['class Top( Component ):', '  def construct( s ):', f'    s.x = InPort( Bits{w} )', f'    s.y = InPort( Bits{w2} )',
            '    s.q = OutPort( Fl )', '    @update', '    def up():', f'      s.q.a @= s.x {rng.choice("+^&")} {rng.randint(0, (1 << w) - 1)}',
            '      s.q.b @= ~s.y']
    elif variant == 'nested-leaf':
      n = rng.choice([2, 3])
      inner = rng.random() < 0.5
      if inner: L += ['@bitstruct', 'class Ne:', '  f: Fl', f'  g: Bits{w}', '']
      else: L += ['@bitstruct', 'class Ne:', f'  f: [Bits{w2}]*{n}', f'  g: Bits{w}', '']
      L += ['class Top( Component ):', '  def construct( s ):', '    s.p = InPort( Ne )', '    s.q = OutPort( Ne )']
      L += ['    s.q //= s.p'] if rng.random() < 0.5 else ['    @update', '    def up():', '      s.q @= s.p']
    elif variant == 'struct-wire':
      L += ['class Top( Component ):', '  def construct( s ):', f'    s.x = InPort( Bits{w} )', f'    s.y = InPort( Bits{w2} )',
            '    s.w = Wire( Fl )', '    s.q = OutPort( Fl )']
      if rng.random() < 0.5:
        L += ['    @update', '    def up1():', '      s.w.a @= s.x', '      s.w.b @= s.y', '    @update', '    def up2():', '      s.q @= s.w']
      else:
        L += [f'    s.o = OutPort( Bits{w} )', '    @update', '    def up1():', '      s.w @= Fl( s.x, s.y )', '    @update', '    def up2():',
              '      s.o @= ~s.w.a', '      s.q @= s.w']
    elif variant == 'const-array-field':
      # a struct CONSTANT with a (1-D / 2-D / two-deep) list-of-struct field connected to a struct output, followed by further
      # connections and a child component.  On the current tree only the forms of the struct output are affected
      # (multi-driver / undriven); anything else - invalid text, a wrong value on another port - is NOT part of F10.
      n = rng.choice([1, 2, 3]); m = rng.choice([1, 2])
      fl = lambda: f'Fl( {rng.getrandbits(w)}, {rng.getrandbits(w2)} )'
      shape = rng.choice(['1d', '2d', 'deep'])
      if shape == '1d':
        L += ['@bitstruct', 'class Cfg:', f'  a: Bits{w}', f'  b: [ Fl ] * {n}', '']
        cst = f"Cfg( {rng.getrandbits(w)}, [ {', '.join(fl() for _ in range(n))} ] )"
      elif shape == '2d':
        L += ['@bitstruct', 'class Cfg:', f'  b: [ [ Fl ] * {n} ] * {m}', f'  a: Bits{w}', '']
        cst = 'Cfg( [ ' + ', '.join('[ ' + ', '.join(fl() for _ in range(n)) + ' ]' for _ in range(m)) + f' ], {rng.getrandbits(w)} )'
      else:
        L += ['@bitstruct', 'class Deep:', f'  p: [ Fl ] * {n}', f'  z: Bits{w2}', '', '@bitstruct', 'class Cfg:', f'  a: Bits{w}', f'  d: [ Deep ] * {m}', '']
        dp = lambda: f"Deep( [ {', '.join(fl() for _ in range(n))} ], {rng.getrandbits(w2)} )"
        cst = f"Cfg( {rng.getrandbits(w)}, [ {', '.join(dp() for _ in range(m))} ] )"
      L += ['class Inc( Component ):', '  def construct( s ):', '    s.in_ = InPort( Bits8 )', '    s.out = OutPort( Bits8 )', '    s.k = OutPort( Fl )',
            '    s.out //= s.in_', f'    s.k //= {fl()}', '',
            'class Top( Component ):', '  def construct( s ):', '    s.in_ = InPort( Bits8 )', '    s.cfg = OutPort( Cfg )', '    s.o1 = OutPort( Bits8 )',
            '    s.o2 = OutPort( Bits8 )', '    s.k = OutPort( Fl )', '    s.sub = Inc()']
      conns = [f'    s.cfg //= {cst}', '    s.sub.in_ //= s.in_', '    s.o1 //= s.sub.out', '    s.o2 //= s.in_', '    s.k //= s.sub.k']
      if rng.random() < 0.5: conns[0], conns[1] = conns[1], conns[0]
      L += conns
    elif variant == 'struct-tmpvar':
      L += ['class Top( Component ):', '  def construct( s ):', '    s.in_ = InPort( Fl )', f'    s.out = OutPort( Bits{w} )', f'    s.out2 = OutPort( Bits{w2} )',
            '    @update', '    def up():', '      t = s.in_', '      s.out @= t.a', f"      s.out2 @= t.b {rng.choice('+^')} {rng.randint(1, (1 << w2) - 1)}"]
    else:
      L += ['class Leaf( Component ):', '  def construct( s ):', '    s.p = InPort( Fl )', f'    s.o = OutPort( Bits{w} )', '    @update',
            '    def lb():', f'      s.o @= s.p.a + {rng.randint(0, (1 << w) - 1)}', '',
            'class Top( Component ):', '  def construct( s ):', '    s.p = InPort( Fl )', f'    s.o = [ OutPort( Bits{w} ) for _ in range(2) ]',
            '    s.l = [ Leaf() for _ in range(2) ]', '    for i in range(2):', '      s.l[i].p //= s.p', '      s.o[i] //= s.l[i].o']
  elif fid == F15:
    k = rng.sample(range(1, 1 << w), 2) if w > 1 else [0, 1]
    op = rng.choice('+^-')
    L += ['class Inc( Component ):', '  def construct( s, k ):', f'    s.in_ = InPort( Bits{w} )', f'    s.out = OutPort( Bits{w} )',
          '    @update', '    def up():', f'      s.out @= s.in_ {op} k', '',
          'class Top( Component ):', '  def construct( s ):', f'    s.a = InPort( Bits{w} )', f'    s.o = [ OutPort( Bits{w} ) for _ in range(2) ]',
          f'    s.c = [ Inc( {k[0]} ), Inc( {k[1]} ) ]', '    for i in range(2):', '      s.c[i].in_ //= s.a', '      s.o[i] //= s.c[i].out']
  elif fid == F16:
    variant = rng.choice(['trunc', 'reduce', 'cast', 'const', 'partsel', 'loopvar', 'sum', 'sum'])
    W = w + rng.choice([1, 4, 8])
    L += ['class Top( Component ):', '  def construct( s ):', f'    s.a = InPort( Bits{W} )', '    s.sel = InPort( Bits1 )', f'    s.o = OutPort( Bits{W + 4} )']
    if variant == 'trunc': body = [f'      s.o @= sext( trunc( s.a, {w} ), {W + 4} )']
    elif variant == 'reduce': body = [f"      s.o @= sext( reduce_{rng.choice(['and', 'or', 'xor'])}( s.a ), {W + 4} )"]
    elif variant == 'cast': body = [f'      s.o @= sext( Bits{W}( s.a ), {W + 4} )']
    elif variant == 'sum':
      # an operand with a context-determined operator: its carry / inverted upper bits must not reach the sign test (seeded C03-4)
      e = rng.choice([f's.a + {rng.randint(1, (1 << W) - 1)}', 's.a + s.a', f's.a - {rng.randint(1, (1 << W) - 1)}', '~s.a', f's.a << {rng.randint(1, W - 1)}', f"( s.a + {rng.randint(1, (1 << W) - 1)} ) if s.sel else ( ~s.a )"])
      body = [f'      s.o @= sext( {e}, {W + 4} )']
    elif variant == 'const':
      L.insert(-4, ''); L += [f'    s.KB = Bits{w}({rng.getrandbits(w)})']
      body = [f'      s.o @= sext( s.KB, {W + 4} ) + zext( s.a, {W + 4} )']
    elif variant == 'loopvar':
      body = [f'      s.o @= 0', f'      for i in range(2):', f'        s.o @= sext( Bits{w}( i ), {W + 4} )']
    else:
      iw = clog2(W)
      L += [f'    s.pb = Wire( Bits{iw} )']
      body = [f'      s.pb @= zext( s.sel, {iw} )', f'      s.o @= sext( s.a[s.pb:s.pb+{min(w, W - 1)}], {W + 4} )']
    L += ['    @update', '    def up():'] + body
  elif fid == F16B:
    variant = rng.choice(['port-list', 'list-field'])
    w = max(w, 2)
    if variant == 'port-list':
      L += ['class Top( Component ):', '  def construct( s ):', f'    s.arr = [ InPort( Bits{w} ) for _ in range(2) ]',
            f'    s.o = OutPort( Bits{2 * w} )', '    @update', '    def up():', f'      s.o @= sext( s.arr[{rng.randint(0, 1)}], {2 * w} )']
    else:
      L += ['@bitstruct', 'class Pl:', f'  b: [Bits{w}]*2', '  c: Bits1', '',
            'class Top( Component ):', '  def construct( s ):', '    s.p = InPort( Pl )', f'    s.o = OutPort( Bits{2 * w} )',
            '    @update', '    def up():', f'      s.o @= sext( s.p.b[{rng.randint(0, 1)}], {2 * w} )']
  elif fid == F17:
    W = rng.choice([6, 8])
    step = rng.choice([2, 3])
    start = rng.choice([x for x in range(3, W) if x % step != 0])
    L += ['class Top( Component ):', '  def construct( s ):', f'    s.a = InPort( Bits{W} )', f'    s.o = OutPort( Bits{W} )',
          '    @update', '    def up():', '      s.o @= 0', f'      for i in range({start}, 0, -{step}):', '        s.o[i] @= s.a[i]']
  elif fid == F18:
    W = rng.choice([4, 8])
    L += ['class Top( Component ):', '  def construct( s ):', f'    s.i = InPort( Bits{W} )', f'    s.o = OutPort( Bits{W} )',
          '    @update', '    def up():', f'      for i in range({W}):', f"        s.o[i] @= {rng.choice(['s.i[i]', '~s.i[i]'])}"]
  elif fid == F19:
    variant = rng.choice(['struct-field', 'subcomponent', 'interface'])
    W = w + rng.choice([1, 4])
    if variant == 'struct-field':
      L += ['@bitstruct', 'class Pq:', f'  a: Bits{W}', f'  b: Bits{W}', '',
            'class Top( Component ):', '  def construct( s ):', '    s.p = InPort( Pq )', f'    s.o = OutPort( Bits{w} )',
            '    @update', '    def up():', f"      s.o @= trunc( s.p.{rng.choice('ab')}, {w} )"]
    elif variant == 'subcomponent':
      L += ['class Inc( Component ):', '  def construct( s ):', f'    s.in_ = InPort( Bits{W} )', f'    s.out = OutPort( Bits{W} )',
            '    @update', '    def up():', '      s.out @= s.in_ + 1', '',
            'class Top( Component ):', '  def construct( s ):', f'    s.a = InPort( Bits{W} )', f'    s.o = OutPort( Bits{w} )',
            '    s.c = Inc()', '    s.c.in_ //= s.a', '    @update', '    def up():', f'      s.o @= trunc( s.c.out, {w} )']
    else:
      L += ['class GIfc( Interface ):', '  def construct( s, T ):', '    s.msg = InPort( T )', '    s.val = InPort()', '    s.rdy = OutPort()', '',
            'class Top( Component ):', '  def construct( s ):', f'    s.ifc = [ GIfc( Bits{W} ) for _ in range(2) ]', f'    s.o = OutPort( Bits{w} )',
            '    @update', '    def up():', f'      s.o @= trunc( s.ifc[{rng.randint(0, 1)}].msg, {w} )',
            '      s.ifc[0].rdy @= s.ifc[0].val', '      s.ifc[1].rdy @= s.ifc[1].val']
  elif fid == F20:
    variant = rng.choice(['interface', 'subcomponent'])
    a, b = rng.choice([(2, 3), (3, 2), (2, 4)])
    if variant == 'interface':
      L += ['class GIfc( Interface ):', '  def construct( s, T ):', '    s.msg = InPort( T )', '    s.val = InPort()', '    s.rdy = OutPort()', '',
            'class Top( Component ):', '  def construct( s ):', f'    s.ifc = [ [ GIfc( Bits{w} ) for _ in range({b}) ] for _ in range({a}) ]',
            f'    s.o = OutPort( Bits{w} )', '    @update', '    def up():',
            f'      s.o @= s.ifc[{a - 1}][{b - 1}].msg {rng.choice("^+&")} s.ifc[0][{b - 1}].msg',
            f'      for i in range({a}):', f'        for j in range({b}):', '          s.ifc[i][j].rdy @= s.ifc[i][j].val']
    else:
      L += ['class Sub( Component ):', '  def construct( s, k ):', f'    s.in_ = InPort( Bits{max(w, 3)} )', f'    s.out = OutPort( Bits{max(w, 3)} )',
            '    @update', '    def sb():', '      s.out @= s.in_ + k', '',
            'class Top( Component ):', '  def construct( s ):', f'    s.a = [ [ InPort( Bits{max(w, 3)} ) for _ in range({b}) ] for _ in range({a}) ]',
            f'    s.o = [ [ OutPort( Bits{max(w, 3)} ) for _ in range({b}) ] for _ in range({a}) ]',
            f'    s.c = [ [ Sub( i * {b} + j ) for j in range({b}) ] for i in range({a}) ]',
            f'    for i in range({a}):', f'      for j in range({b}):', '        s.c[i][j].in_ //= s.a[i][j]', '        s.o[i][j] //= s.c[i][j].out']
  elif fid == F21:
    a, b = rng.choice([(2, 3), (3, 2)])
    i0, j0 = rng.randrange(a), rng.randrange(b)
    while i0 == 1 and j0 == min(b - 1, 1) and False: pass
    L += ['class Sub( Component ):', '  def construct( s ):', f'    s.in0 = [ [ InPort( Bits{w} ) for _ in range({b}) ] for _ in range({a}) ]',
          f'    s.out = OutPort( Bits{w} )', '    @update', '    def sb():', f'      s.out @= s.in0[{i0}][{j0}]', '',
          'class Top( Component ):', '  def construct( s ):', f'    s.x = InPort( Bits{w} )', f'    s.o = [ OutPort( Bits{w} ) for _ in range(2) ]',
          '    s.c = [ Sub(), Sub() ]', f'    for i in range({a}):', f'      for j in range({b}):', '        s.c[0].in0[i][j] //= 0',
          '    @update', '    def up():', f'      for i in range({a}):', f'        for j in range({b}):', '          s.c[1].in0[i][j] @= s.x',
          '    s.o[0] //= s.c[0].out', '    s.o[1] //= s.c[1].out']
  elif fid == F22:
    w = max(w, 2)
    op1, op2 = rng.choice([('^', '|'), ('&', '|'), ('&', '^'), ('-', '+'), ('^', '|')])
    L += ['class Top( Component ):', '  def construct( s ):', f'    s.a = InPort( Bits{w} )', f'    s.b = InPort( Bits{w} )', f'    s.o = OutPort( Bits{w} )',
          '    @update', '    def up():', f'      s.o @= s.a {op1} Bits{w}( s.b {op2} {rng.randint(1, (1 << w) - 1)} )']
  elif fid == F23:
    W = w + rng.choice([1, 4])
    variant = rng.choice(['compound', 'loopvar'])
    L += ['class Top( Component ):', '  def construct( s ):', f'    s.a = InPort( Bits{W} )', f'    s.b = InPort( Bits{W} )', f'    s.o = OutPort( Bits{w} )']
    if variant == 'compound':
      L += ['    @update', '    def up():', f"      s.o @= Bits{w}( s.a {rng.choice('+^&|')} s.b )"]
    else:
      n = (1 << w) + 1                      # the loop variable needs w+1 bits; PyMTL raises at the last iteration only
      L += ['    @update', '    def up():', '      s.o @= 0', f'      for i in range({n}):', f'        s.o @= Bits{w}( i ) + trunc( s.a, {w} )']
  elif fid == F12:
    n = rng.choice([4, 8])
    W = (n - 1).bit_length() + rng.choice([1, 2])
    variant = rng.choice(['tmpvar', 'cast-of-sum', 'shift-amount'])
    if variant == 'shift-amount':
      # arithmetic on the loop variable in a SELF-DETERMINED position (shift amount): `in_ >> ( 3'(i) + 3'd1 )` is a shift by 0 at
      # i = n-1, PyMTL shifts by the Python int n
      W = 2 * n
      L += ['class Top( Component ):', '  def construct( s ):', f'    s.a = InPort( Bits{W} )', f'    s.o = OutPort( Bits{W} )',
            '    @update', '    def up():', '      s.o @= 0', f'      for i in range({n}):', f"        s.o @= s.o ^ ( s.a {rng.choice(['>>', '<<'])} (i + 1) )"]
    elif variant == 'tmpvar':
      L += ['class Top( Component ):', '  def construct( s ):', f'    s.a = InPort( Bits{W} )', f'    s.o = OutPort( Bits{W} )',
            '    @update', '    def up():', '      s.o @= 0', f'      for i in range({n}):', '        t = i + 1', '        if s.a == t:', f'          s.o @= {rng.randint(1, (1 << W) - 1)}']
    else:
      # BitsW( i + 1 ): the sum is typed with the width of the loop variable and wraps at i = n-1 before the cast widens it
      L += ['class Top( Component ):', '  def construct( s ):', f'    s.a = InPort( Bits{W} )', f'    s.o = OutPort( Bits{W} )',
            '    @update', '    def up():', '      s.o @= 0', f'      for i in range({n}):', f'        if s.a == Bits{W}( i + 1 ):', f'          s.o @= {rng.randint(1, (1 << W) - 1)}']
    fixed_cycles = [{'.a': 0, '.reset': 0}, {'.a': n, '.reset': 0}, {'.a': rng.getrandbits(W), '.reset': 0}]      # t wraps to 0 at i = n-1
    if variant == 'shift-amount': fixed_cycles = [{'.a': (1 << (W - 1)) | 1, '.reset': 0}, {'.a': rng.getrandbits(W) | 1 | (1 << (W - 1)), '.reset': 0}]
  elif fid == F25:
    variant = rng.choice(['top', 'subcomponent'])
    n = rng.choice([2, 3])
    L += ['class Inner( Interface ):', '  def construct( s ):', f'    s.msg = InPort( Bits{w} )', '    s.ack = OutPort( Bits1 )', '',
          'class Outer( Interface ):', '  def construct( s ):', '    s.val = InPort( Bits1 )', f'    s.ch = [ Inner() for _ in range({n}) ]', '']
    if variant == 'top':
      L += ['class Top( Component ):', '  def construct( s ):', '    s.ifc = Outer()', f'    s.o = OutPort( Bits{w} )', '    @update', '    def up():',
            f"      s.o @= s.ifc.ch[{n - 1}].msg {rng.choice('^&|')} s.ifc.ch[0].msg", f'      for i in range({n}):', '        s.ifc.ch[i].ack @= s.ifc.val & s.ifc.ch[i].msg[0]']
    else:
      L += ['class Sub( Component ):', '  def construct( s ):', '    s.ifc = Outer()', f'    s.o = OutPort( Bits{w} )', '    @update', '    def sb():',
            f'      s.o @= s.ifc.ch[{n - 1}].msg', f'      for i in range({n}):', '        s.ifc.ch[i].ack @= s.ifc.val', '',
            'class Top( Component ):', '  def construct( s ):', f'    s.a = InPort( Bits{w} )', f'    s.o = OutPort( Bits{w} )', '    s.c = Sub()',
            '    s.c.ifc.val //= 1', f'    for k in range({n}):', '      s.c.ifc.ch[k].msg //= s.a', '    s.o //= s.c.o']
  elif fid == F29:
    W = max(w, 4) + rng.choice([0, 4])
    lo = rng.randint(0, W - 2); hi = rng.randint(lo + 1, W)
    L += ['class Top( Component ):', '  def construct( s ):', f'    s.a = InPort( Bits{W} )', f'    s.b = InPort( Bits{W} )', f'    s.r = OutPort( Bits{W} )',
          '    @update_ff', '    def ff():', f"      t = s.a {rng.choice('|^+')} s.b", f'      t[{lo}:{hi}] = s.b[0:{hi - lo}]', '      s.r <<= t']
  elif fid == D4:
    W = rng.choice([3, 4, 5, 8]); n = rng.randint(W + 1, 2 * W)
    K = rng.randint(W, 2 * W - 1); K2 = rng.randint(1 << (W - 1).bit_length(), 2 * W + 1)
    L += ['class Top( Component ):', '  def construct( s ):', f'    s.in_ = InPort( Bits{W} )',
          f'    s.rsh = [ OutPort( Bits{W} ) for _ in range({n}) ]', f'    s.lsh = [ OutPort( Bits{W} ) for _ in range({n}) ]',
          f'    s.acc = [ OutPort( Bits{W} ) for _ in range({n}) ]', f'    s.far = OutPort( Bits{W} )', f'    s.far2 = OutPort( Bits{W} )', f'    s.mix = OutPort( Bits{W} )',
          '    @update', '    def up():', f'      for i in range({n}):', '        s.rsh[i] @= s.in_ >> i', '        s.lsh[i] @= s.in_ << i',
          '    @update', '    def up2():', f'      t = {K}', f'      u = {K2}', '      s.far @= s.in_ >> t', '      s.far2 @= ( s.in_ | 1 ) << u',
          '      s.mix @= 0', f'      for j in range({n}):', f"        s.mix @= s.mix ^ ( s.in_ {rng.choice(['>>', '<<'])} j )",
          '    @update_ff', '    def ff():', f'      for i in range({n}):', f"        s.acc[i] <<= ( s.in_ | {1 << (W - 1)} ) {rng.choice(['>>', '<<'])} i"]
  elif fid == D3:
    W = rng.choice([4, 8])
    ops = ['-', '>>', '<<', '%', '-', '+', '^']
    L += ['class Top( Component ):', '  def construct( s ):'] + [f'    s.{x} = InPort( Bits{W} )' for x in 'abc'] + [f'    s.o{k} = OutPort( Bits{W} )' for k in range(len(ops) + 1)]
    body = []
    for k, op in enumerate(ops):
      right = k < 4 or rng.random() < 0.5
      body.append(f'      s.o{k} @= s.a {op} ( s.b {op} s.c )' if right else f'      s.o{k} @= ( s.a {op} s.b ) {op} s.c')
    r_ = f's.o{len(ops)}'
    L += ['    @update', '    def up():'] + body + ['    @update_ff', '    def ff():', rng.choice([f'      {r_} <<= s.a - ( s.b - {r_} )', f'      {r_} <<= s.a >> ( s.b >> s.c )', f'      {r_} <<= ( {r_} | 1 ) << ( s.c << s.c )'])]
    # operand values: c >= 2, b = c*q + r with 0 < r < c (so that b % c != 0: no division by zero anywhere), small shift amounts
    fixed_cycles = []
    for _ in range(5):
      c_ = rng.randint(2, 3); q_ = rng.randint(1, 2); r_ = rng.randint(1, c_ - 1)
      fixed_cycles.append({'.a': rng.getrandbits(W) | (1 << (W - 1)) | 1, '.b': c_ * q_ + r_, '.c': c_, '.reset': 0})
  elif fid == T1:
    variant = rng.choice(['cast', 'trunc', 'concat-index'])
    W = rng.choice([4, 8])
    e = rng.choice(['s.a if s.c else s.b', 's.a + s.b', 's.a & s.b'])
    k = rng.randint(0, W - 1); lo = rng.randint(0, W - 2); hi = rng.randint(lo + 1, W)
    L += ['class Top( Component ):', '  def construct( s ):', f'    s.a = InPort( Bits{W} )', f'    s.b = InPort( Bits{W} )', '    s.c = InPort( Bits1 )', '    s.o1 = OutPort( Bits1 )',
          f'    s.o2 = OutPort( Bits{hi - lo} )', '    @update', '    def up():']
    if variant == 'cast': L += [f'      s.o1 @= Bits{W}( {e} )[{k}]', f'      s.o2 @= Bits{W}( {e} )[{lo}:{hi}]']
    elif variant == 'trunc': L += [f'      s.o1 @= trunc( concat( s.a, s.b ) + 1, {W} )[{k}]', f'      s.o2 @= trunc( {e}, {W} )[{lo}:{hi}]']
    else: L += [f'      s.o1 @= concat( s.a, s.b )[{k}]', f'      s.o2 @= zext( s.a, {W + 4} )[{lo}:{hi}]']
  elif fid == T3:
    W = rng.choice([4, 8]); K = rng.choice([6, 8])
    N = rng.randint(1, 3); m = rng.randint(2, 3)
    e = rng.choice([f'{m}*s.N', f's.N+{m}', f'{m}*{N}'])
    L[1:1] = ['@bitstruct', 'class Foo:', f'  v: Bits{W}', f'  k: Bits{K}', '']
    L += ['class Top( Component ):', '  def construct( s ):', f'    s.x = InPort( Bits{W} )', '    s.o = OutPort( Foo )', '    s.q = OutPort( Bits1 )', f'    s.N = {N}',
          '    @update', '    def up():', f'      s.o @= Foo( s.x, {e} )', f'      s.q @= Foo( s.x, {e} ) == Foo( s.x, {rng.randint(1, 9)} )']
  elif fid == T4:
    variant = rng.choice(['attribute', 'closure', 'global'])
    v = -rng.randint(1, 9)
    name = {'attribute': 's.OFF', 'closure': 'k', 'global': 'GOFF'}[variant]
    if variant == 'global': L[1:1] = [f'GOFF = {v}', '']
    L += ['class Top( Component ):', '  def construct( s ):', '    s.a = InPort( Bits8 )', '    s.o = OutPort( Bits8 )'] + \
         ([f'    s.OFF = {v}'] if variant == 'attribute' else [f'    k = {v}'] if variant == 'closure' else []) + \
         ['    @update', '    def up():', f"      if {name} < {rng.choice([0, 1])}:", f"        s.o @= s.a {rng.choice('+^')} {rng.randint(1, 200)}", '      else:', '        s.o @= s.a']
  elif fid == T5:
    a_, b_ = rng.randint(0, 15), rng.randint(0, 15)
    L[1:1] = ['@bitstruct', 'class Pt:', '  x: Bits4', '  y: Bits4', '']
    L += ['class Top( Component ):', '  def construct( s ):', '    s.a = InPort( Bits4 )', '    s.q = OutPort( Bits1 )', f'    ks = Pt( {a_}, {b_} )',
          '    @update', '    def up():', f"      s.q @= {rng.choice(['ks == Pt( s.a, %d )' % b_, 'Pt( %d, s.a ) != ks' % a_])}"]
  elif fid == T6:
    nm = rng.choice(['u', 'tmp', 'k'])
    L += ['class Top( Component ):', '  def construct( s ):', '    s.a = InPort( Bits8 )', '    s.o = OutPort( Bits8 )', '    s.p = OutPort( Bits8 )', f'    {nm} = {rng.randint(1, 200)}',
          '    @update', '    def up1():', f"      {nm} = s.a {rng.choice('^+&')} {rng.randint(1, 200)}", f'      s.o @= {nm}',
          '    @update', '    def up2():', f"      s.p @= s.a {rng.choice('+^')} {nm}"]
  elif fid == T7:
    same = rng.random() < 0.5
    L += ['class Top( Component ):', '  def construct( s ):', '    s.a = InPort( Bits8 )', '    s.o = OutPort( Bits8 )', f"    s.p = OutPort( Bits{8 if same else 4} )",
          '    @update', '    def up():', f"      a_b = s.a {rng.choice('+^')} {rng.randint(1, 200)}", '      s.o @= a_b',
          '    @update', '    def up_a():', f"      b = {'s.a' if same else 's.a[0:4]'} ^ {rng.randint(1, 15)}", '      s.p @= b']
  elif fid == T2:
    W = rng.choice([4, 8])
    op = rng.choice('&|^')
    L[1:1] = ['@bitstruct', 'class Foo:', f'  v: Bits{W}', '']
    L += ['class Top( Component ):', '  def construct( s ):', f'    s.a = InPort( Bits{W} )', f'    s.b = InPort( Bits{W} )', '    s.f = InPort( Foo )', '    s.o1 = OutPort( Bits1 )',
          '    s.o2 = OutPort( Foo )', '    s.o3 = OutPort( Bits1 )', '    @update', '    def up():',
          f'      s.o1 @= s.f == Foo( s.a {op} s.b )', f"      s.o2 @= Foo( s.a {rng.choice('&|^+')} s.b )", f'      s.o3 @= Foo( s.a {op} s.b ) != s.f']
  elif fid == D2:
    W = rng.choice([2, 4, 8])
    variant = rng.choice(['loop', 'via-wire', 'loop'])        # (input-to-input chaining inside one child is an elaboration error in PyMTL)
    L += ['class Ch( Component ):', '  def construct( s ):', f'    s.a_in = InPort( Bits{W} )', f'    s.b_in = InPort( Bits{W} )', f'    s.a_out = OutPort( Bits{W} )', f'    s.o = OutPort( Bits{W} )',
          '    @update_ff', '    def ff():', f"      s.a_out <<= s.a_in {rng.choice('+^-')} {rng.randint(1, (1 << W) - 1)}",
          '    @update', '    def up():', f"      s.o @= s.b_in {rng.choice('^+|')} s.a_in", '',
          'class Top( Component ):', '  def construct( s ):', f'    s.in_ = InPort( Bits{W} )', f'    s.o = OutPort( Bits{W} )', f'    s.o2 = OutPort( Bits{W} )', '    s.u = Ch()']
    conns = ['    s.u.a_in //= s.in_', '    s.o //= s.u.o', '    s.o2 //= s.u.a_out']
    if variant == 'loop': mine = ['    s.u.b_in //= s.u.a_out']
    else: L += [f'    s.w = Wire( Bits{W} )']; mine = ['    s.w //= s.u.a_out', '    s.u.b_in //= s.w']
    k = rng.randint(0, len(conns))
    L += conns[:k] + mine + conns[k:]
  elif fid == D1:
    W = rng.choice([4, 5, 6, 7, 8]); M = (W - 1).bit_length()
    step = rng.choice([1, 1, 2])
    start = W - 1 if step == 1 else ((W - 1) // 2) * 2        # lands on the stop value 0 exactly (otherwise: known finding F17)
    use = rng.choice(['zext', 'concat', 'add'])
    val = {'zext': f'zext( Bits{M}( i ), {M + 2} )', 'concat': f'concat( Bits2( {rng.randint(0, 3)} ), Bits{M}( i ) )', 'add': f'zext( Bits{M}( i ) + {rng.randint(1, 3)}, {M + 2} )'}[use]
    L += ['class Top( Component ):', '  def construct( s ):', f'    s.a = InPort( Bits{W} )', f'    s.sel = InPort( Bits{M} )', f'    s.o = OutPort( Bits{W} )', f'    s.o2 = OutPort( Bits{M + 2} )',
          '    @update', '    def up():', '      s.o @= 0', '      s.o2 @= 0', f'      for i in range({start}, 0, -{step}):',
          f"        s.o[i] @= s.a[i] ^ ( Bits{M}( i ) {rng.choice(['==', '<', '>='])} s.sel )", f'        if s.sel == Bits{M}( i ):', f'          s.o2 @= {val}']
  elif fid == F38:
    fl = [rng.random() < 0.5 for _ in range(3)]
    W = rng.choice([4, 8])
    L += ['class Top( Component ):', '  def construct( s ):', f'    s.a = InPort( Bits{W} )', f'    s.o = OutPort( Bits{W} )', '    s.p = OutPort( Bits1 )', '    s.q = OutPort( Bits1 )',
          f'    s.FLAG = {rng.random() < 0.5}', f"    s.FL = [ {', '.join(map(str, fl))} ]", '    @update', '    def up():',
          '      if s.FLAG:', f"        s.o @= s.a {rng.choice('+-^')} {rng.randint(1, 7)}", '      else:', '        s.o @= s.a',
          f"      s.p @= s.a[0] {rng.choice('&|^')} s.FLAG", f"      s.q @= ( s.a[1] & s.FL[0] ) | s.FL[{rng.randint(1, 2)}]"]
  elif fid == F39:
    a_, b_ = rng.sample([1, 2, 3, 4, 5, 6, 7], 2)
    c_, d_ = rng.sample([1, 2, 3, 4, 5], 2)
    L += ['class Top( Component ):', '  def construct( s ):', '    s.a = InPort( Bits8 )', '    s.mode = InPort( Bits1 )', '    s.o = OutPort( Bits8 )', '    s.q = OutPort( Bits8 )',
          '    s.r = OutPort( Bits8 )', f'    s.MODE = {rng.choice([0, 1, True, False])}', '    @update', '    def up():',
          '      s.o @= 0', f'      for i in range({a_} if s.MODE else {b_}):', '        s.o @= s.o + s.a',
          '      s.q @= 0', f'      for j in range({c_} if s.mode else {d_}):', f"        s.q @= s.q + {rng.randint(1, 9)}",
          '      s.r @= 0', f'      for k in range({max(c_, d_, 4)} if s.a[7] & s.mode else {min(c_, d_)}):', '        s.r[k] @= s.a[k]']
  elif fid in (F31, F32, F33, F34, F35):
    W = rng.choice([8, 12, 16])
    fixed_cycles = None
    L += (['i = 5', ''] if fid == F34 else []) + ['class Top( Component ):', '  def construct( s ):', f'    s.a = InPort( Bits{W} )', f'    s.b = InPort( Bits{W} )',
          '    s.c = InPort( Bits1 )', f'    s.o = OutPort( Bits{W} )', f'    s.o2 = OutPort( Bits{W} )', '    s.N = 3', '    @update', '    def up():']
    op = rng.choice('+-^')
    if fid == F31:
      L += ['      v = s.b | 0', f'      w = v = v {op} {rng.randint(1, 7)}', '      s.o @= w', '      s.o2 @= v']
    elif fid == F32:
      f1, f2 = rng.choice(['zext', 'sext', 'trunc']), rng.choice(['zext', 'sext', 'trunc'])
      L += [f"      s.o @= s.a & {f1}( s.a | s.b, {W} )", f"      s.o2 @= s.a ^ {f2}( s.a + s.b, {W} ) ^ s.b"]
    elif fid == F33:
      L += ['      s.o @= 0', '      s.o[0] @= s.a[2*s.N]', f'      s.o2 @= s.b {op} (2*s.N)']
    elif fid == F34:
      L += ['      s.o @= 0', f'      for i in range({W}):', f'        s.o[i] @= s.a[i] & s.b[{W - 1}-i]', '      s.o2 @= s.a']
    else:
      variant = rng.choice(['else', 'for'])
      L += ['      t = s.a | 0', '      u = s.b | 0']
      if variant == 'else':
        L += ['      if s.c:', f'        t = s.b {op} 1', '      else:', f'        t = u = s.a {op} s.b', '      s.o @= t', '      s.o2 @= u']
      else:
        L += ['      for k in range(2):', f'        t = u = t {op} u', '      s.o @= t', '      s.o2 @= u']
      # the texts differ when c = 1 (else) / when b != 0 (for)
      fixed_cycles = [{'.a': rng.getrandbits(W), '.b': rng.getrandbits(W) | 1, '.c': 1, '.reset': 0}, {'.a': rng.getrandbits(W), '.b': rng.getrandbits(W), '.c': 0, '.reset': 0},
                      {'.a': rng.getrandbits(W), '.b': rng.getrandbits(W) | 2, '.c': 1, '.reset': 0}]
  elif fid == YSL:
    # two (three) loop variables whose ranges reach the sign bit of the width the type checker infers for them (range(n): (n-1).bit_length()
    # bits); the FIRST statement is always a comparison of two loop variables whose outcome does not depend on the inputs, the others
    # are drawn from the sign-sensitive shapes and from the controls
    n1 = rng.choice([3, 4, 5, 8, 8, 13, 16]); n2 = rng.choice([3, 4, 8, n1, n1]); n3 = rng.choice([2, 3, 4])
    W = max(n1, n2)
    cmpop = lambda: rng.choice(['<', '<=', '>', '>='])
    variant = rng.choice(['if', 'value', 'ifexp', 'shifted', 'masked', 'mod'])
    first = {'if': [f'          if i {cmpop()} j:', '            s.o[i] @= 1'],
             'value': [f'          s.p[j] @= s.p[j] | ( i {cmpop()} j )'],
             'ifexp': [f'          s.o[i] @= s.o[i] | ( 1 if i {cmpop()} j else 0 )'],
             'shifted': [f'          if ( i >> 1 ) {cmpop()} j:', '            s.o[i] @= 1'],
             'masked': [f"          if ( i {rng.choice('&|^')} j ) {cmpop()} {rng.choice('ij')}:", '            s.o[i] @= 1'],
             'mod': ['          if j > 0:', '            if ( i % j ) == ( i >> 1 ):', '              s.o[i] @= 1']}[variant]     # both sides signed: a signed remainder
    pool = [
      [f'          if i {cmpop()} j:', '            s.q[i] @= s.a[j]'],
      [f'          s.q[j] @= s.q[j] ^ ( ( i {cmpop()} j ) & s.a[i] )'],
      [f"          if ( i >> k ) {cmpop()} ( j >> k ):", '            s.q[i] @= s.a[j]'],
      # controls: the same operators with ONE unsigned operand, and the sign-insensitive operators on two loop variables
      [f"          if i {rng.choice(['==', '!='])} j:", '            s.r[i] @= s.a[j]'],
      ['          t = i ^ j', f'          if t {cmpop()} j:', '            s.r[j] @= s.a[i]'],
      [f'          if ( i >> k ) {cmpop()} {rng.randint(0, 3)}:', '            s.r[i] @= ~s.a[i]'],
      [f'          if zext( s.a[0:2], {max(2, (W - 1).bit_length())} ) {cmpop()} i:', '            s.r[i] @= s.a[j]'],
      [f'          s.r[j] @= s.r[j] | ( ( s.a >> i ) {cmpop()} ( s.a >> j ) )'],
    ]
    rng.shuffle(pool)
    L += ['class Top( Component ):', '  def construct( s ):', f'    s.a = InPort( Bits{W} )'] + [f'    s.{x} = OutPort( Bits{W} )' for x in 'opqr'] + \
         ['    @update', '    def up():'] + [f'      s.{x} @= 0' for x in 'opqr'] + \
         [f'      for i in range({n1}):', f'        for j in range({n2}):'] + first + [f'          for k in range({n3}):'] + \
         ['  ' + l for st in pool[:rng.randint(2, 4)] for l in st]
    top = (1 << W) - 1
    fixed_cycles = [{'.a': top, '.reset': 0}, {'.a': rng.getrandbits(W), '.reset': 0}, {'.a': rng.getrandbits(W) | 1 | (1 << (W - 1)), '.reset': 0}]
  elif fid == P6:
    W = rng.choice([4, 8])
    g1, g2, k1 = rng.random() < 0.5, rng.random() < 0.5, rng.random() < 0.5
    L[1:1] = [f'GK = {g1}', f'GF = {g2}', '']
    L += ['class Top( Component ):', '  def construct( s ):', f'    s.a = InPort( Bits{W} )', f'    s.o = OutPort( Bits{W} )', '    s.p = OutPort( Bits1 )', f'    s.q = OutPort( Bits{W} )',
          f'    kf = {k1}', '    @update', '    def up():', f"      s.o @= s.a {rng.choice('+-^')} GK", f"      s.p @= s.a[0] {rng.choice('&|^')} kf",
          '      if GF:', f"        s.q @= s.a ^ {rng.randint(1, 7)}", '      else:', f"        s.q @= s.a {rng.choice('+-')} kf"]
  elif fid == R12:
    # one free-variable NAME standing for different constants in two update blocks of one component.  two-modules: the base class
    # (block up_a) lives in a second generated module (d['aux'], imported through the placeholder {AUX0}) with its own module-level
    # constant of that name; refused on the current tree - with the repair reverted both blocks share one localparam (first value).
    # closure-vs-global: a closure constant and a module-level constant of one name (translated: the closure constant is renamed).
    # same-value: the two modules agree - nothing to refuse.  Oracle: refused, or text = simulation.
    variant = rng.choice(['two-modules-int', 'two-modules-bits'] * 3 + ['closure-vs-global', 'same-value'])
    W = rng.choice([4, 8])
    nm = rng.choice(['N', 'KOFF', 'STEP'])
    v1, v2 = rng.sample(range(1, 1 << (W - 1)), 2)
    if variant == 'same-value': v2 = v1
    lit = (lambda v: f'Bits{W}( {v} )') if variant == 'two-modules-bits' else str
    op1, op2 = rng.choice('+^-'), rng.choice('+^-')
    if variant == 'closure-vs-global':
      L += [f'{nm} = {v1}', '', 'class Top( Component ):', '  def construct( s ):', f'    s.a = InPort( Bits{W} )', f'    s.o = OutPort( Bits{W} )', f'    s.o2 = OutPort( Bits{W} )',
            '    @update', '    def up_a():', f'      s.o @= s.a {op1} {nm}', '    def mk():', f'      {nm} = {v2}', '      @update', '      def up_b():', f'        s.o2 @= s.a {op2} {nm}', '    mk()']
    else:
      aux = _hdr() + [f'{nm} = {lit(v1)}', '', 'class Base( Component ):', '  def construct( s ):', f'    s.a = InPort( Bits{W} )', f'    s.o = OutPort( Bits{W} )',
                      f'    s.o2 = OutPort( Bits{W} )', '    @update', '    def up_a():', f'      s.o @= s.a {op1} {nm}', '    s.more()', '  def more( s ):', '    pass']
      L += ['from {AUX0} import Base', '', f'{nm} = {lit(v2)}', '', 'class Top( Base ):', '  def more( s ):', '    @update', '    def up_b():', f'      s.o2 @= s.a {op2} {nm}']
  elif fid == R12B:
    # a module-level name equal to a loop variable (temporary) of the block: the loop variable indexes a constant list of BitsN and
    # appears in arithmetic / as a bit index.  (Indexing a constant list by a loop variable is refused on the current tree; with the
    # repair reverted the index is folded to the module-level value.)  Oracle: refused, or text = simulation.
    variant = rng.choice(['const-list', 'const-list', 'arith', 'temporary'])
    W = rng.choice([4, 8]); n = rng.choice([3, 4]); g = rng.randrange(1, n)
    lv = rng.choice(['i', 'k', 'idx'])
    vals = rng.sample(range(1, 1 << W), n)
    L += [f'{lv} = {g}', 't = 2', '', 'class Top( Component ):', '  def construct( s ):', f'    s.in_ = InPort( Bits{W} )', f'    s.out = OutPort( Bits{W} )', f'    s.out2 = OutPort( Bits{W} )',
          f"    s.arr = [ {', '.join(f'Bits{W}( {v} )' for v in vals)} ]", '    @update', '    def up():', '      s.out @= 0', '      s.out2 @= s.in_']
    if variant == 'const-list':
      L += [f'      for {lv} in range({rng.randint(g, n - 1) if rng.random() < 0.5 else n}):', f"        s.out @= s.out {rng.choice('+^')} s.arr[{lv}] {rng.choice('+^')} s.in_"]
    elif variant == 'arith':
      L += [f'      for {lv} in range({n}):', f"        s.out @= s.out {rng.choice('+^')} ( s.in_ {rng.choice('+-^')} {lv} )", f'        s.out2[{lv}] @= ~s.in_[{lv}]']
    else:
      L += [f"      t = s.in_ {rng.choice('+^')} 1", f"      s.out @= t {rng.choice('+^')} {rng.randint(1, 7)}"]
  elif fid == R13S:
    # a struct-valued field of a bitstruct constant from the enclosing scope (module level / closure), also two levels deep and an element
    # of a list-of-struct field; the leaf reads next to them are folded to literals.  The Yosys backend refuses struct constants.
    w1, w2, w3 = rng.choice([4, 8]), rng.choice([2, 4, 8]), rng.choice([3, 8])
    pt = lambda: f'Pt( {rng.getrandbits(w1)}, {rng.getrandbits(w2)} )'
    L[1:1] = ['@bitstruct', 'class Pt:', f'  x: Bits{w1}', f'  y: Bits{w2}', '', '@bitstruct', 'class Q:', '  p: Pt', f'  z: Bits{w3}', '',
              '@bitstruct', 'class R:', '  q: Q', '  ps: [ Pt ] * 2', '', f'K = Q( {pt()}, {rng.getrandbits(w3)} )', f'KR = R( Q( {pt()}, {rng.getrandbits(w3)} ), [ {pt()}, {pt()} ] )', '']
    reads = [('Pt', 'K.p'), (f'Bits{w2}', 'K.p.y'), ('Pt', 'kc.p'), ('Q', 'KR.q'), ('Pt', 'KR.q.p'), (f'Bits{w1}', 'KR.q.p.x'), ('Pt', f'KR.ps[{rng.randint(0, 1)}]'), (f'Bits{w3}', 'kc.z')]
    pick = [reads[0]] + rng.sample(reads[1:], rng.randint(2, 4))
    variant = 'verilog-must-translate' if be == 'verilog' else 'yosys-may-refuse'
    L += ['class Top( Component ):', '  def construct( s ):', f'    s.a = InPort( Bits{w1} )', f'    s.oa = OutPort( Bits{w1} )'] + [f'    s.o{k} = OutPort( {T} )' for k, (T, _) in enumerate(pick)] + \
         [f'    kc = Q( {pt()}, {rng.getrandbits(w3)} )', '    @update', '    def up():', '      s.oa @= s.a ^ K.p.x'] + [f'      s.o{k} @= {e}' for k, (_, e) in enumerate(pick)]
  elif fid == F7:
    k = rng.sample(range(1, 1 << max(w, 2)), 2)
    w = max(w, 2)
    L += ['def mk( k ):', '  class Inner( Component ):', '    def construct( s ):', f'      s.in_ = InPort( Bits{w} )', f'      s.out = OutPort( Bits{w} )',
          '      @update', '      def up():', f'        s.out @= s.in_ + {{}}'.format('k'), '  return Inner', '',
          f'A = mk( {k[0]} )', f'B = mk( {k[1]} )', '',
          'class Top( Component ):', '  def construct( s ):', f'    s.a = InPort( Bits{w} )', f'    s.o1 = OutPort( Bits{w} )', f'    s.o2 = OutPort( Bits{w} )',
          '    s.x = A()', '    s.y = B()', '    s.x.in_ //= s.a', '    s.y.in_ //= s.a', '    s.o1 //= s.x.out', '    s.o2 //= s.y.out']
  else:
    raise ValueError(fid)
  if fid == F12:
    return {'src': '\n'.join(L) + '\n', 'label': fid + ':' + variant, 'finding': fid, 'variant': variant, 'expect': FINDING_STREAMS[fid][1],
            'features': ['finding-stream'], 'cycles': fixed_cycles}
  if fid in FIXED_STREAMS:
    d = {'src': '\n'.join(L) + '\n', 'label': ('' if fid.startswith('regression-') else 'fixed:') + fid + (':' + variant if variant else ''), 'features': ['fixed-defect-shape']}
    if fid == D3: d['cycles'] = fixed_cycles
    if fid == T1 and variant != 'concat-index': d['must_reject'] = 'cannot select bits of a computed value'
    if fid == T4: d['must_reject'] = 'negative integer constant'
    if fid == T7: d['must_reject'] = 'get the same name in the translation'
    if fid == T5 and be == 'verilog': d['must_translate'] = True
    if fid == R13S and be == 'verilog': d['must_translate'] = True
    if fid == R12 and variant in ('closure-vs-global', 'same-value'): d['must_translate'] = True
    if fid == R12 and variant != 'closure-vs-global': d['aux'] = ['\n'.join(aux) + '\n']
    return d
  if fid in PENDING_STREAMS:
    d = {'src': '\n'.join(L) + '\n', 'label': fid + (':' + variant if variant else ''), 'finding': fid, 'variant': variant,
         'expect': PENDING_STREAMS[fid][1], 'features': ['finding-stream']}
    if fid == T6: d['must_translate'] = True
    return d
  d = {'src': '\n'.join(L) + '\n', 'label': fid + (':' + variant if variant else ''), 'finding': fid, 'variant': variant,
       'expect': FINDING_STREAMS[fid][1], 'features': ['finding-stream']}
  if variant == 'const-array-field': d['expect'] = ('multi-driver', 'undriven'); d['scope'] = ('cfg',)
  if fid in (F35, YSL): d['cycles'] = fixed_cycles
  return d

def extra_witnesses(be, pid):
  """canonical witnesses kept as committed replay files under known_replays/ (run first, like c03_corpus.WITNESSES)"""
  import json, os
  out = []
  root = os.path.dirname(os.path.dirname(os.path.dirname(os.path.abspath(__file__))))
  for fid, fn in ((YSL, 'C12-yosys-signed-loopvar.json'),):
    if be not in FINDING_STREAMS[fid][0]: continue
    try: case = json.load(open(os.path.join(root, 'known_replays', fn)))['case']
    except (OSError, KeyError, ValueError): continue
    out.append({'src': case['src'], 'label': fid + ':witness', 'finding': fid, 'variant': None, 'expect': FINDING_STREAMS[fid][1],
                'features': ['finding-stream'], 'cycles': case['cycles']})
  return out

def gen_history(rng, be):
  """one class whose `//= lambda` is selected by a constructor parameter (a different expression text per value, on separate
  lines under if/elif/else); several instances are elaborated in one process in random order, then each is translated and its
  text compared with its own simulation (repaired defect F41: the source of a lambda block was cached per class)"""
  W = rng.choice([4, 8, 16])
  def ex():
    a, b = rng.choice(['s.in_', 's.b']), rng.choice(['s.in_', 's.b', str(rng.randint(1, (1 << W) - 1))])
    e = f"{a} {rng.choice('+-^&|')} {b}"
    if rng.random() < 0.4: e = f"( {e} ) {rng.choice('+^')} {rng.randint(1, (1 << W) - 1)}"
    return e
  n = rng.choice([2, 3, 3])
  es = []
  while len(es) < n:
    e = ex()
    if e not in es: es.append(e)
  L = _hdr() + ['class Top( Component ):', '  def construct( s, k ):', f'    s.in_ = InPort( Bits{W} )', f'    s.b = InPort( Bits{W} )', f'    s.out = OutPort( Bits{W} )',
                f'    s.out2 = OutPort( Bits{W} )']
  for k, e in enumerate(es):
    L += [f"    {'if' if k == 0 else 'elif'} k == {k}:" if k < n - 1 else '    else:', f'      s.out //= lambda: {e}']
  if rng.random() < 0.5:
    L += [f"    s.out2 //= lambda: s.b {rng.choice('+^')} k" if rng.random() < 0.5 else '    s.out2 //= s.b']
  else:
    # constants of the INSTANCE derived from the parameter, read through attributes / constant subscripts in a named block
    # (the per-class AST of the block is shared by the instances: seeded C03-3)
    m = rng.randint(1, (1 << W) // 4 - 1)
    L += [f'    s.LIM = k * {m} + {rng.randint(0, 3)}', f'    s.STEP = Bits{W}( k + {rng.randint(1, 5)} )', f'    s.TAB = [ Bits{W}( {rng.randint(0, 7)} + k ), Bits{W}( {(1 << W) - 1} - k ) ]',
          '    @update', '    def upc():', f"      s.out2 @= ( s.b {rng.choice('+^')} s.STEP ) {rng.choice('^+')} s.TAB[{rng.randint(0, 1)}] if s.in_ < s.LIM else s.TAB[{rng.randint(0, 1)}]"]
  hist = [[k] for k in range(n)] + ([[rng.randrange(n)]] if rng.random() < 0.4 else [])
  rng.shuffle(hist)
  src = '\n'.join(L) + '\n'
  return [{'src': src, 'label': 'history:lambda-selected-by-parameter', 'features': ['history'], 'history': hist, 'pick': i} for i in range(len(hist))]

def gen_fixed(rng, be, fid):
  return gen_finding(rng, be, fid)
