"""C18 helpers: test harnesses around the real magic memories that record what the memory did.

Nothing in /repo is modified: recording is done by instance attributes on the elaborated
components (MagicMemoryFL.read/write/amo of the instance inside the memory, the stall components'
random generators) and by the `cmp_fn` hook of the stdlib sinks.
"""
import sys
from random import Random

from pymtl3 import *
from pymtl3.stdlib.mem.MagicMemoryCL import MagicMemoryCL
from pymtl3.stdlib.mem.MagicMemoryFL import MagicMemoryFL
from pymtl3.stdlib.mem.MemMsg import mk_mem_msg
from pymtl3.stdlib.stream.magic_memory import MagicMemoryRTL
from pymtl3.stdlib.stream.SourceRTL import SourceRTL
from pymtl3.stdlib.stream.SinkRTL import SinkRTL
from pymtl3.stdlib.test_utils import TestSinkCL, TestSrcCL

_TYPES = {}
def msg_types(dbits, abits=32):
  """(req class, resp class) of mk_mem_msg(8, abits, dbits)"""
  if (dbits, abits) not in _TYPES: _TYPES[dbits, abits] = mk_mem_msg(8, abits, dbits)
  return _TYPES[dbits, abits]

def port_widths(c):
  """data width in bits of every port: c['widths'] (the ports of one memory may carry different message types), else
  c['dbits'] on every port"""
  return list(c['widths']) if c.get('widths') else [c['dbits']] * c['nports']

def mk_req(dbits, r, abits=32):
  """r = [type, opaque, addr, len, data]"""
  Req, _ = msg_types(dbits, abits)
  return Req(r[0], r[1], r[2], r[3], r[4])

def resp_tuple(m):
  return [int(m.type_), int(m.opaque), int(m.test), int(m.len), int(m.data)]

#-------------------------------------------------------------------------
# harnesses (same shape as the ones in the pymtl3 test files)
#-------------------------------------------------------------------------

class C18HarnessCL(Component):
  def construct(s, nports, types, src_msgs, nresp, stall_prob, latency, src_init, src_intv, sink_init, sink_intv, cmp_fns, mem_nbytes):
    s.srcs = [TestSrcCL(types[i][0], src_msgs[i], src_init[i], src_intv[i]) for i in range(nports)]
    s.mem = MagicMemoryCL(nports, list(types), stall_prob, latency, mem_nbytes)
    s.sinks = [TestSinkCL(types[i][1], [None] * nresp[i], sink_init[i], sink_intv[i], None, cmp_fns[i]) for i in range(nports)]
    for i in range(nports):
      connect(s.srcs[i].send, s.mem.ifc[i].req)
      connect(s.mem.ifc[i].resp, s.sinks[i].recv)

  def done(s):
    return all(x.done() for x in s.srcs) and all(x.done() for x in s.sinks)

  def line_trace(s):
    return s.mem.line_trace()

class C18HarnessRTL(Component):
  def construct(s, nports, types, src_msgs, nresp, stall_prob, extra_latency, src_init, src_intv, sink_init, sink_intv, cmp_fns, mem_nbytes):
    s.srcs = [SourceRTL(types[i][0], src_msgs[i], src_init[i], src_intv[i]) for i in range(nports)]
    s.mem = MagicMemoryRTL(nports, list(types), stall_prob, extra_latency, mem_nbytes)
    s.sinks = [SinkRTL(types[i][1], [None] * nresp[i], sink_init[i], sink_intv[i], None, cmp_fns[i]) for i in range(nports)]
    for i in range(nports):
      s.srcs[i].send //= s.mem.ifc[i].req
      s.mem.ifc[i].resp //= s.sinks[i].recv

  def done(s):
    return all(x.done() for x in s.srcs) and all(x.done() for x in s.sinks)

  def line_trace(s):
    return s.mem.line_trace()

def scribble(m):
  """overwrite a request object in place with a different, still valid request"""
  t = int(m.type_)
  m.type_ @= (1 - t) if t < 2 else 3 + (t - 3 + 4) % 9
  m.opaque @= int(m.opaque) ^ 0xff
  m.addr @= int(m.addr) ^ 1
  m.data @= ~m.data

class C18ReuseSrcCL(Component):
  """a CL master. mode 'reuse': keeps ONE request object and overwrites its fields with the next request right after
  each successful send (as an RTL master's message signal does); 'reuse_scribble': additionally scribbles over it right after the send; 'fresh_scribble':
  a fresh object per request, scribbled over right after the send; 'fresh': fresh objects, never touched again."""
  def construct(s, Type, reqs, initial_delay, interval_delay, mode):
    s.send = CallerIfcCL(Type=Type)
    s.reqs = list(reqs)
    s.idx = 0
    s.obj = Type()
    s.count = initial_delay
    s.delay = interval_delay
    s.mode = mode

    @update_once
    def up_src_send():
      if s.count > 0:
        s.count -= 1
      elif not s.reset:
        if s.send.rdy() and s.idx < len(s.reqs):
          r = s.reqs[s.idx]; s.idx += 1
          if s.mode.startswith('reuse'):
            m = s.obj
            m.type_ @= r[0]; m.opaque @= r[1]; m.addr @= r[2]; m.len @= r[3]; m.data @= r[4]
          else:
            m = Type(r[0], r[1], r[2], r[3], r[4])
          s.send(m)
          if s.mode.endswith('scribble'): scribble(m)
          elif s.mode == 'reuse' and s.idx < len(s.reqs):
            # like an RTL master's message signal: the one object already shows the NEXT request after a successful send
            r = s.reqs[s.idx]
            m.type_ @= r[0]; m.opaque @= r[1]; m.addr @= r[2]; m.len @= r[3]; m.data @= r[4]
          s.count = s.delay

  def done(s):
    return s.idx >= len(s.reqs)

  def line_trace(s):
    return f"{s.send}"

class C18BufSinkCL(Component):
  """a consumer that does not copy: the received response OBJECTS wait in a small buffer (a plain list of `cap` entries) and a
  slow consumer takes the oldest one every `period` cycles; `on_drain` sees the object as it is at that time"""
  def construct(s, nresp, cap, period, on_recv, on_drain):
    s.buf = []
    s.cap, s.period, s.nresp = cap, period, nresp
    s.cycle = 0
    s.ndrained = 0
    s.on_recv, s.on_drain = on_recv, on_drain

    @update_once
    def up_drain():
      s.cycle += 1
      if s.buf and s.cycle % s.period == 0:
        s.on_drain(s.buf.pop(0))
        s.ndrained += 1

    s.add_constraints(U(up_drain) < M(s.recv), U(up_drain) < M(s.recv.rdy))

  @non_blocking(lambda s: len(s.buf) < s.cap)
  def recv(s, msg):
    s.on_recv(msg)
    s.buf.append(msg)

  def done(s):
    return s.ndrained >= s.nresp and not s.buf

  def line_trace(s):
    return f"{s.recv}"

class C18HarnessAlias(Component):
  """MagicMemoryCL driven per port by the stock RTL test source through the auto-inserted RTL->CL adapter ('rtlsrc'), by
  C18ReuseSrcCL (its modes), or by the stock TestSrcCL ('cl')"""
  def construct(s, nports, types, drivers, reqs, stall_prob, latency, src_init, src_intv, sink_init, sink_intv, cmp_fns, mem_nbytes, buf=None):
    from pymtl3.stdlib.test_utils.test_srcs import TestSrcRTL
    def mk(i):
      if drivers[i] == 'rtlsrc':
        return TestSrcRTL(types[i][0], [types[i][0](*r) for r in reqs[i]], src_init[i], src_intv[i])
      if drivers[i] == 'cl':
        return TestSrcCL(types[i][0], [types[i][0](*r) for r in reqs[i]], src_init[i], src_intv[i])
      return C18ReuseSrcCL(types[i][0], reqs[i], src_init[i], src_intv[i], drivers[i])
    s.srcs = [mk(i) for i in range(nports)]
    s.mem = MagicMemoryCL(nports, list(types), stall_prob, latency, mem_nbytes)
    if buf:
      s.sinks = [C18BufSinkCL(len(reqs[i]), buf['cap'][i], buf['period'][i], cmp_fns[i][0], cmp_fns[i][1]) for i in range(nports)]
    else:
      s.sinks = [TestSinkCL(types[i][1], [None] * len(reqs[i]), sink_init[i], sink_intv[i], None, cmp_fns[i]) for i in range(nports)]
    for i in range(nports):
      connect(s.srcs[i].send, s.mem.ifc[i].req)       # for 'rtlsrc': RTL master -> CL memory, adapter inserted by connect
      connect(s.mem.ifc[i].resp, s.sinks[i].recv)

  def done(s):
    return all(x.done() for x in s.srcs) and all(x.done() for x in s.sinks)

  def line_trace(s):
    return s.mem.line_trace()

#-------------------------------------------------------------------------
# recording
#-------------------------------------------------------------------------

class RecRandom(Random):
  """the stall component's generator, recording (cycle, value) of every draw"""
  def __init__(self, seed, clock, out):
    super().__init__(seed)
    self._clock, self._out = clock, out
  def random(self):
    v = super().random()
    self._out.append((self._clock(), v))
    return v

def hook_memory_fl(fl, clock, log):
  """wrap read/write/amo of one MagicMemoryFL instance; every outermost call appends
  [cycle, port, [type, opaque, addr, len, data]] where port / request are the locals `i` / `req`
  of the calling `up_mem` frame."""
  state = {'depth': 0}
  def wrap(orig):
    def f(*a, **kw):
      if state['depth'] == 0:
        fr = sys._getframe(1)
        req = fr.f_locals['req']; port = fr.f_locals['i']
        log.append([clock(), port, [int(req.type_), int(req.opaque), int(req.addr), int(req.len), int(req.data)]])
      state['depth'] += 1
      try: return orig(*a, **kw)
      finally: state['depth'] -= 1
    return f
  fl.read, fl.write, fl.amo = wrap(fl.read), wrap(fl.write), wrap(fl.amo)

def put_image(memc, fl, image):
  """write_mem; `write_mem` / `read_mem` assert len(mem) > addr + size, so the very last byte of the array is beyond their
  reach: an image that ends at the last byte puts / gets that byte through the bytearray itself"""
  base, data = image[0], bytes(image[1])
  if base + len(data) < len(fl.mem): memc.write_mem(base, data)
  else:
    assert base + len(data) == len(fl.mem)
    if len(data) > 1: memc.write_mem(base, data[:-1])
    fl.mem[base + len(data) - 1] = data[-1]

def get_image(memc, fl, dump):
  base, size = dump
  if base + size < len(fl.mem): return list(memc.read_mem(base, size))
  assert base + size == len(fl.mem)
  return (list(memc.read_mem(base, size - 1)) if size > 1 else []) + [fl.mem[base + size - 1]]

def check_held(R):
  """a response belongs to its receiver: no two responses delivered on a port are the same Python object, and a delivered
  object still has the field values it had on delivery"""
  if R.held is None: return
  for i, hs in enumerate(R.held):
    seen = {}
    for k, (obj, snap) in enumerate(hs):
      if id(obj) in seen:
        R.resp_objects.append({'what': 'same-object-delivered-twice', 'port': i, 'responses': [seen[id(obj)], k], 'values': snap})
      else: seen[id(obj)] = k
      now = resp_tuple(obj)
      if now != snap:
        R.resp_objects.append({'what': 'mutated-after-delivery', 'port': i, 'response': k, 'at_delivery': snap, 'at_end': now})
  R.held = None     # the objects are not needed any more

class Run:
  """result of one simulation"""
  def __init__(self):
    self.log = []        # [cycle, port, req] in processing order
    self.deliv = []      # per port [cycle, resp tuple]
    self.env = []        # per cycle, per port: code offer + 2*stall + 4*sinkRdy
    self.image = None
    self.cycles = 0
    self.timeout = False
    self.held = None     # per port [response object as delivered, its field values at delivery] (CL memories)
    self.resp_objects = []   # findings of check_held

def run_system(kind, cfg, image, dump, max_cycles=3000):
  """kind 'cl' | 'rtl'. cfg: dict(nports, dbits, reqs (per port list of 5-lists), stall_prob, latency,
  src_init, src_intv, sink_init, sink_intv). image: (base, bytes) written with write_mem.
  Returns a Run (cycle numbers are `sim_cycle_count()` values; the four evaluations inside sim_reset are cycles 0..3)."""
  n = cfg['nports']
  widths = port_widths(cfg)
  abits = cfg.get('abits') or 32      # address width of the message types (every port)
  types = [msg_types(w, abits) for w in widths]
  R = Run()
  R.deliv = [[] for _ in range(n)]
  holder = {}
  clock = lambda: holder['top']._sim.simulated_cycles
  if kind == 'cl': R.held = [[] for _ in range(n)]
  def mk_cmp(i):
    def f(msg, ref):
      R.deliv[i].append([clock(), resp_tuple(msg)])
      if R.held is not None: R.held[i].append([msg, resp_tuple(msg)])     # keep the object itself, as a non-copying consumer would
      return True
    return f
  msgs = [[mk_req(widths[i], r, abits) for r in cfg['reqs'][i]] for i in range(n)]
  H = C18HarnessCL if kind == 'cl' else C18HarnessRTL
  th = H(n, types, msgs, [len(m) for m in msgs], cfg['stall_prob'], cfg['latency'],
         cfg['src_init'], cfg['src_intv'], cfg['sink_init'], cfg['sink_intv'], [mk_cmp(i) for i in range(n)], cfg.get('mem_nbytes', 1 << 16))
  th.elaborate()
  holder['top'] = th
  put_image(th.mem, th.mem.mem, image)
  th.apply(DefaultPassGroup(linetrace=False))
  hook_memory_fl(th.mem.mem, clock, R.log)
  draws = [[] for _ in range(n)]
  prob = cfg['stall_prob']
  if kind == 'cl':
    for i in range(n):
      # MagicMemoryCL builds StallCL( stall_prob, i ), i.e. seed i; the case may choose other seeds
      seed = cfg.get('stall_seed', list(range(n)))[i]
      th.mem.req_stalls[i].stall_rgen = RecRandom(seed, clock, draws[i])
  envd = {}
  def sample_cl(c):
    row = []
    for i in range(n):
      code = 0
      d = [v for (cc, v) in draws[i] if cc == c]
      assert len(d) <= 1
      if d:
        code |= 1
        if not (d[0] > prob): code |= 2
      if th.sinks[i].count == 0: code |= 4
      row.append(code)
      draws[i][:] = [x for x in draws[i] if x[0] > c]
    envd[c] = row
  def sample_rtl(c):
    row = []
    for i in range(n):
      code = 0
      if int(th.srcs[i].send.val): code |= 1
      if not (th.mem.req_stalls[i].rand_value > prob): code |= 2
      if int(th.sinks[i].recv.rdy): code |= 4
      row.append(code)
    envd[c] = row
  sample = sample_cl if kind == 'cl' else sample_rtl
  th.sim_reset()
  if kind == 'cl':
    # cycles 0..2 ran under reset (the source does not call rdy, pipes are empty); keep their draws (none expected)
    for c in range(3):
      for i in range(n):
        assert not [x for x in draws[i] if x[0] == c], 'stall draw during reset'
      envd[c] = [0] * n
  else:
    for c in range(3): envd[c] = [0] * n
  sample(3)
  # "the memory must not keep a reference to a caller-owned message": in scribbling runs every request object the CL source
  # has handed over is overwritten in place (type / opaque / addr / data flipped) before the next cycle
  nsent = [0] * n
  def scribble_sent():
    for i in range(n):
      k = len(msgs[i]) - len(th.srcs[i].msgs)
      for m in msgs[i][nsent[i]:k]: scribble(m)
      nsent[i] = k
  scrib = kind == 'cl' and cfg.get('scribble')
  if scrib: scribble_sent()
  while not th.done() and th.sim_cycle_count() < max_cycles:
    th.sim_tick()
    sample(th.sim_cycle_count())
    if scrib: scribble_sent()
  R.timeout = not th.done()
  for _ in range(3):
    th.sim_tick(); sample(th.sim_cycle_count())
  R.cycles = th.sim_cycle_count() + 1
  R.env = [envd[c] for c in range(R.cycles)]
  check_held(R)
  R.image = get_image(th.mem, th.mem.mem, dump)
  return R

def run_fl(dbits, image, dump, reqs, mem_nbytes=1 << 16, abits=32):
  """direct calls on a MagicMemoryFL; returns (responses as the memories would build them, image)"""
  fl = MagicMemoryFL(mem_nbytes)
  fl.elaborate()
  put_image(fl, fl, image)
  nb = dbits >> 3
  AT = mk_bits(abits); DT = mk_bits(dbits)      # addresses are Bits of the message's address width, as up_mem passes them
  out = []
  for (t, o, a, l, d) in reqs:
    k = l if l else nb
    if t == 0:
      v = fl.read(AT(a), k)
      out.append([t, o, 0, l, int(zext(v, dbits))])
    elif t == 1:
      fl.write(AT(a), k, DT(d)[0:k * 8])
      out.append([t, o, 0, 0, 0])
    else:
      # amo(type, addr, nbytes, Bits(8*nbytes)): the operand is the low k bytes of the data field, as up_mem passes it
      v = fl.amo(mk_bits(4)(t), AT(a), k, DT(d)[0:k * 8])
      if v.nbits != 8 * k: raise AssertionError(f'MagicMemoryFL.amo of {k} bytes returned Bits{v.nbits}')
      out.append([t, o, 0, l, int(zext(v, dbits))])
  return out, get_image(fl, fl, dump)

def run_alias(cfg, image, dump, max_cycles=3000):
  """MagicMemoryCL with per-port drivers cfg['drivers'] (see C18HarnessAlias). Records the processing order (requests as
  the memory saw them), the responses and the final image; the requests as SENT are cfg['reqs']."""
  n = cfg['nports']
  widths = port_widths(cfg)
  abits = cfg.get('abits') or 32      # address width of the message types (every port)
  types = [msg_types(w, abits) for w in widths]
  R = Run()
  R.deliv = [[] for _ in range(n)]
  holder = {}
  clock = lambda: holder['top']._sim.simulated_cycles
  R.held = [[] for _ in range(n)]
  buf = cfg.get('bufsink')        # None: stock TestSinkCL; else dict(cap, period per port): C18BufSinkCL
  def mk_cmp(i):
    if buf:
      # (on delivery, on drain): the object is kept on delivery, its VALUE is taken when the slow consumer drains it
      return (lambda msg: R.held[i].append([msg, resp_tuple(msg)]),
              lambda msg: R.deliv[i].append([clock(), resp_tuple(msg)]))
    def f(msg, ref):
      R.deliv[i].append([clock(), resp_tuple(msg)])
      R.held[i].append([msg, resp_tuple(msg)])
      return True
    return f
  th = C18HarnessAlias(n, types, cfg['drivers'], cfg['reqs'], cfg['stall_prob'], cfg['latency'],
                       cfg['src_init'], cfg['src_intv'], cfg['sink_init'], cfg['sink_intv'], [mk_cmp(i) for i in range(n)], cfg.get('mem_nbytes', 1 << 16), buf)
  th.elaborate()
  holder['top'] = th
  put_image(th.mem, th.mem.mem, image)
  th.apply(DefaultPassGroup(linetrace=False))
  hook_memory_fl(th.mem.mem, clock, R.log)
  th.sim_reset()
  while not th.done() and th.sim_cycle_count() < max_cycles:
    th.sim_tick()
  R.timeout = not th.done()
  for _ in range(12):        # duplicated / extra responses would show up here
    th.sim_tick()
  R.cycles = th.sim_cycle_count() + 1
  R.env = None
  check_held(R)
  R.image = get_image(th.mem, th.mem.mem, dump)
  return R
