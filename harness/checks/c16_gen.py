"""Random RTL designs for C16, emitted as real module source (pymtl3 reads the source of update blocks).

A design is a tree of generated component classes. Every class declares ports (plain, lists, an interface),
wires, child components (single and lists, classes are reused), and drives everything feed-forward (no
combinational loops): connections (`//=`, which merge signals into one net), constants, slices, bitstruct
fields, `@update` and `@update_ff` blocks (registers, wrapping counters, low-entropy functions).
With `slicenets=True` every class also gets value nets that contain no whole signal at all (bit-reversal and byte-swap
wrappers, wires assembled from slices of other signals and constants, struct wires assembled field by field): nets the
VCD pass drops entirely.

Types are described by tuples: ('b', n) = Bits n, ('s', name) = bitstruct `name` of STRUCTS (first field most
significant).  The generator also returns, for every class, the list of signals it declares — the
check's expectation of "every signal of every component" comes from here, not from pymtl3.
"""
import itertools

STRUCTS = {
  'C16Sa': [('x', ('b', 4)), ('y', ('b', 3))],
  'C16Sb': [('f', ('b', 1)), ('g', ('b', 1))],
  'C16Sc': [('v', ('b', 1))],
  'C16Sd': [('p', ('s', 'C16Sa')), ('z', ('b', 8))],
  'C16Se': [('hi', ('b', 40)), ('lo', ('b', 33))],
  'C16Sf': [('tag', ('b', 3)), ('data', ('b', 61))],
  'C16Sg': [('a', ('b', 64)), ('b', ('b', 122)), ('q', ('s', 'C16Sf'))],
}
STRUCT_ORDER = ['C16Sa', 'C16Sb', 'C16Sc', 'C16Sd', 'C16Se', 'C16Sf', 'C16Sg']
WIDTHS = [1, 1, 1, 2, 3, 4, 4, 8, 8, 16, 32, 33, 61, 61, 64, 64, 65, 100, 122, 128, 183]
WIDE = [61, 61, 64, 100, 122, 128, 183]

HEADER = '''from pymtl3 import *

@bitstruct
class C16Sa:
  x: Bits4
  y: Bits3

@bitstruct
class C16Sb:
  f: Bits1
  g: Bits1

@bitstruct
class C16Sc:
  v: Bits1

@bitstruct
class C16Sd:
  p: C16Sa
  z: Bits8

@bitstruct
class C16Se:
  hi: Bits40
  lo: Bits33

@bitstruct
class C16Sf:
  tag: Bits3
  data: mk_bits(61)

@bitstruct
class C16Sg:
  a: Bits64
  b: mk_bits(122)
  q: C16Sf

class C16Ifc( Interface ):
  def construct( s, T ):
    s.msg = InPort( T )
    s.val = InPort()
'''

def nbits(td):
  if td[0] == 'b': return td[1]
  return sum(nbits(f) for _, f in STRUCTS[td[1]])

def ty(td):
  return f'mk_bits({td[1]})' if td[0] == 'b' else td[1]

class CompSpec:
  def __init__(self, name):
    self.name = name
    self.inports = []     # (expr relative to the component, td): driven from outside
    self.outports = []
    self.signals = []     # every signal the class declares (ports, wires, interface members), (expr, td)
    self.children = []    # (expr, CompSpec)
    self.lines = []
    self.methods = []     # class-level method source lines (for method ports)
    self.features = set()

  def source(self):
    body = '\n'.join('    ' + l for l in self.lines) or '    pass'
    meth = ''.join('  ' + l + '\n' for l in self.methods)
    return f'class {self.name}( Component ):\n{meth}  def construct( s ):\n{body}\n'

class Gen:
  def __init__(self, rng, uid, maxdepth, big=False, nonpure=None, slicenets=False):
    self.slicenets = slicenets  # add value nets that contain no whole signal (bits / slices / struct fields / constants only)
    self.nonpure = nonpure      # None / 'method' / 'update_once': makes the design "not pure RTL" for PrepareSimPass
    self.nonpure_done = False
    self.rng = rng
    self.uid = uid
    self.maxdepth = maxdepth
    self.big = big
    self.classes = []

  def rand_td(self):
    rng = self.rng
    if rng.random() < 0.3: return ('s', rng.choice(STRUCT_ORDER))
    return ('b', rng.choice(WIDTHS))

  def gen_comp(self, depth):
    rng = self.rng
    c = CompSpec(f'C16_{self.uid}_{len(self.classes)}x{depth}')
    while any(k.name == c.name for k in self.classes): c.name += 'n'
    L = c.lines
    sources = []
    cnt = itertools.count()
    fresh = lambda p: f'{p}{next(cnt)}'

    def declare(kind, prefix, td):
      n = fresh(prefix)
      L.append(f's.{n} = {kind}( {ty(td)} )')
      c.signals.append((n, td))
      return n

    def add_inport(td):
      n = declare('InPort', 'in', td)
      c.inports.append((n, td)); sources.append((n, td))
      return n

    def get_source(td):
      cands = [e for e, t in sources if t == td]
      if cands: return rng.choice(cands)
      return add_inport(td)

    def bits_sources(minw=1):
      return [(e, t) for e, t in sources if t[0] == 'b' and t[1] >= minw]

    def via_wire(src, td):
      if rng.random() < 0.3:
        w = declare('Wire', 'w', td)
        L.append(f's.{w} //= s.{src}')
        sources.append((w, td)); c.features.add('wire-in-net')
        return w
      return src

    def upblk(stmts, ff=False):
      n = fresh('ff' if ff else 'up')
      L.append('@update_ff' if ff else '@update')
      L.append(f'def {n}():')
      L.extend('  ' + x for x in stmts)

    def cmp_expr():
      """a 1-bit expression that is the direct result of comparing two signals (or &,| of two such results)"""
      def one():
        bs = bits_sources()
        if not bs: return None
        a, td = rng.choice(bs)
        b = rng.choice([e for e, t in bs if t == td])
        return f's.{a} {rng.choice(["==", "!=", "<", "<=", ">", ">="])} s.{b}'
      x = one()
      if x is None: return None
      if rng.random() < 0.3:
        return f'({x}) {rng.choice(["&", "|"])} ({one()})'
      return x

    def drive(sink, td, allow_ff=False):
      r = rng.random()
      if td == ('b', 1) and rng.random() < 0.25:
        x = cmp_expr()
        if x is not None:
          c.features.add('cmp-driven')
          if allow_ff and rng.random() < 0.3: upblk([f's.{sink} <<= {x}'], ff=True)
          else: upblk([f's.{sink} @= {x}'])
          return
      if r < 0.12 and td[0] == 'b':
        L.append(f's.{sink} //= {ty(td)}( {rng.getrandbits(td[1])} )')
        c.features.add('const-net'); return
      if rng.random() < 0.2:
        # the sink (a top-level signal: child port, out port) sits on a net whose writer is a field or a slice
        opts = []
        for e, t in sources:
          if t[0] == 's':
            for f, ft in STRUCTS[t[1]]:
              if ft == td: opts.append(f'{e}.{f}')
              elif ft[0] == 's':
                for f2, ft2 in STRUCTS[ft[1]]:
                  if ft2 == td: opts.append(f'{e}.{f}.{f2}')
          elif td[0] == 'b' and t[1] > td[1]:
            lo = rng.randint(0, t[1] - td[1])
            opts.append(f'{e}[{lo}:{lo + td[1]}]')
        if opts:
          L.append(f's.{sink} //= s.{rng.choice(opts)}')
          c.features.add('field-or-slice-writer'); return
      src = via_wire(get_source(td), td)
      if r < 0.72:
        L.append(f's.{sink} //= s.{src}'); c.features.add('connect')
      elif r < 0.88 or not allow_ff:
        upblk([f's.{sink} @= s.{src}'])
      else:
        upblk([f's.{sink} <<= s.{src}'], ff=True); c.features.add('ff')

    # ---- inputs
    for _ in range(rng.randint(1, 3)): add_inport(self.rand_td())
    if rng.random() < 0.25:
      td = self.rand_td(); k = rng.randint(2, 3); n = fresh('inl')
      L.append(f's.{n} = [ InPort( {ty(td)} ) for _ in range({k}) ]')
      for i in range(k):
        e = f'{n}[{i}]'
        c.signals.append((e, td)); c.inports.append((e, td)); sources.append((e, td))
      c.features.add('port-list')
    if rng.random() < 0.2:
      td = self.rand_td(); n = fresh('ifc')
      L.append(f's.{n} = C16Ifc( {ty(td)} )')
      for m, t in (('msg', td), ('val', ('b', 1))):
        e = f'{n}.{m}'
        c.signals.append((e, t)); c.inports.append((e, t)); sources.append((e, t))
      c.features.add('interface')

    # ---- children
    if depth > 0:
      for _ in range(rng.randint(1 if depth == self.maxdepth else 0, 3)):
        if self.classes and rng.random() < 0.35:
          spec = rng.choice(self.classes); c.features.add('class-reuse')
        else:
          spec = self.gen_comp(depth - 1)
        q = rng.random()
        if q < 0.25:
          n = fresh('cl'); k = rng.choice([2, 2, 3])
          L.append(f's.{n} = [ {spec.name}() for _ in range({k}) ]')
          insts = [f'{n}[{i}]' for i in range(k)]
          c.features.add('child-list')
        elif q < 0.32:
          n = fresh('cm')
          L.append(f's.{n} = [ [ {spec.name}() for _ in range(2) ] for _ in range(2) ]')
          insts = [f'{n}[{i}][{j}]' for i in range(2) for j in range(2)]
          c.features.add('child-list-2d')
        else:
          n = fresh('c')
          L.append(f's.{n} = {spec.name}()')
          insts = [n]
        for inst in insts:
          c.children.append((inst, spec))
          for pn, td in spec.inports: drive(f'{inst}.{pn}', td)
          for pn, td in spec.outports: sources.append((f'{inst}.{pn}', td))

    # ---- local logic
    nlogic = rng.randint(0, 4) + (2 if depth == 0 else 0)
    for _ in range(nlogic):
      kind = rng.choice(['reg', 'reg', 'counter', 'binop', 'lowent', 'slice', 'assemble', 'field', 'build',
                         'resize', 'dead', 'const', 'chain', 'toggle', 'regrst', 'widetoggle', 'cmp', 'cmp', 'cmpfield'])
      c.features.add(kind)
      if kind == 'reg':
        e, td = rng.choice(sources)
        r = declare('Wire', 'r', td)
        upblk([f's.{r} <<= s.{e}'], ff=True)
        sources.append((r, td))
      elif kind == 'regrst':
        bs = bits_sources()
        if not bs: continue
        e, td = rng.choice(bs)
        r = declare('Wire', 'r', td)
        rv = rng.getrandbits(td[1])
        upblk([f'if s.reset: s.{r} <<= {rv}', f'else: s.{r} <<= s.{e}'], ff=True)
        sources.append((r, td))
      elif kind == 'counter':
        td = ('b', rng.choice([1, 2, 2, 3]))
        r = declare('Wire', 'cnt', td)
        if rng.random() < 0.5:
          upblk([f'if s.reset: s.{r} <<= 0', f'else: s.{r} <<= s.{r} + 1'], ff=True)
        else:
          upblk([f's.{r} <<= s.{r} + 1'], ff=True)
        sources.append((r, td))
      elif kind == 'toggle':
        td = ('b', 1)
        r = declare('Wire', 'tg', td)
        upblk([f's.{r} <<= ~s.{r}'], ff=True)
        sources.append((r, td))
      elif kind == 'cmp':
        # 1-bit wire / register holding the very object a comparison returned
        x = cmp_expr()
        if x is None: continue
        td = ('b', 1)
        if rng.random() < 0.35:
          r = declare('Wire', 'cr', td)
          upblk([f's.{r} <<= {x}'], ff=True)
        else:
          r = declare('Wire', 'cx', td)
          upblk([f's.{r} @= {x}'])
        sources.append((r, td))
      elif kind == 'cmpfield':
        sn = rng.choice(['C16Sb', 'C16Sc', 'C16Sf']); td = ('s', sn)
        x = cmp_expr()
        if x is None: continue
        r = declare('Wire', 'cs', td)
        stm = [f's.{r} @= {sn}()']
        for f, ft in STRUCTS[sn]:
          if ft == ('b', 1): stm.append(f's.{r}.{f} @= {cmp_expr()}')
        if len(stm) == 1: stm.append(f's.{r}.tag @= zext( {x}, 3 )')
        upblk(stm)
        sources.append((r, td))
      elif kind == 'widetoggle':
        # a wide register (or a wide field of a struct register) flipping between a value and its complement:
        # consecutive values differ in every bit, in particular by 2^n - 1
        if rng.random() < 0.6:
          td = ('b', rng.choice(WIDE))
          r = declare('Wire', 'wt', td)
          ens = [e for e, t in sources if t == ('b', 1)]
          if ens and rng.random() < 0.5: upblk([f'if s.{rng.choice(ens)}: s.{r} <<= ~s.{r}'], ff=True)
          else: upblk([f's.{r} <<= ~s.{r}'], ff=True)
        else:
          sn = rng.choice(['C16Sf', 'C16Sg']); td = ('s', sn)
          r = declare('Wire', 'wt', td)
          f = {'C16Sf': 'data', 'C16Sg': rng.choice(['a', 'b', 'q.data'])}[sn]
          nx = declare('Wire', 'wn', td)
          upblk([f's.{nx} @= s.{r}', f's.{nx}.{f} @= ~s.{r}.{f}'])
          upblk([f's.{r} <<= s.{nx}'], ff=True)
          sources.append((nx, td))
        sources.append((r, td))
      elif kind == 'binop':
        bs = bits_sources()
        if not bs: continue
        a, td = rng.choice(bs)
        same = [e for e, t in bs if t == td]
        b = rng.choice(same)
        op = rng.choice(['+', '-', '&', '|', '^'])
        x = declare('Wire', 'x', td)
        upblk([f's.{x} @= s.{a} {op} s.{b}'])
        sources.append((x, td))
      elif kind == 'lowent':
        bs = bits_sources()
        if not bs: continue
        a, td = rng.choice(bs)
        x = declare('Wire', 'x', td)
        upblk([f's.{x} @= s.{a} & {rng.choice([1, 1, 3]) & ((1 << td[1]) - 1)}'])
        sources.append((x, td))
      elif kind == 'slice':
        bs = bits_sources(2)
        if not bs: continue
        a, td = rng.choice(bs)
        lo = rng.randint(0, td[1] - 1); hi = rng.randint(lo + 1, td[1])
        x = declare('Wire', 'x', ('b', hi - lo))
        L.append(f's.{x} //= s.{a}[{lo}:{hi}]')
        sources.append((x, ('b', hi - lo)))
      elif kind == 'assemble':
        bs = bits_sources()
        if not bs: continue
        (a, ta), (b, tb) = rng.choice(bs), rng.choice(bs)
        if ta[1] + tb[1] > 200: continue
        td = ('b', ta[1] + tb[1])
        x = declare('Wire', 'big', td)
        if rng.random() < 0.6:
          L.append(f's.{x}[0:{ta[1]}] //= s.{a}')
          L.append(f's.{x}[{ta[1]}:{td[1]}] //= s.{b}')
        else:
          upblk([f's.{x}[0:{ta[1]}] @= s.{a}', f's.{x}[{ta[1]}:{td[1]}] @= s.{b}'])
        sources.append((x, td))
      elif kind == 'field':
        ss = [(e, t) for e, t in sources if t[0] == 's']
        if not ss: continue
        e, td = rng.choice(ss)
        path, ft = '', td
        while ft[0] == 's':
          f, ft2 = rng.choice(STRUCTS[ft[1]])
          path += '.' + f; ft = ft2
          if ft[0] == 's' and rng.random() < 0.3: break
        x = declare('Wire', 'x', ft)
        if rng.random() < 0.6: L.append(f's.{x} //= s.{e}{path}')
        else: upblk([f's.{x} @= s.{e}{path}'])
        sources.append((x, ft))
      elif kind == 'build':
        sn = rng.choice(STRUCT_ORDER); td = ('s', sn)
        x = declare('Wire', 'st', td)
        stmts, conns = [], []
        cands = {f: [e for e, t in sources if t == ft] for f, ft in STRUCTS[sn]}
        use_conn = rng.random() < 0.4 and all(cands.values())
        for f, ft in STRUCTS[sn]:
          if cands[f]:
            e = rng.choice(cands[f])
            if use_conn: conns.append(f's.{x}.{f} //= s.{e}')
            else: stmts.append(f's.{x}.{f} @= s.{e}')
          else:
            stmts.append(f's.{x}.{f} @= ' + (str(rng.getrandbits(ft[1])) if ft[0] == 'b' else f'{ft[1]}()'))
        if stmts: upblk(stmts)
        L.extend(conns)
        sources.append((x, td))
      elif kind == 'resize':
        bs = bits_sources()
        if not bs: continue
        a, ta = rng.choice(bs)
        td = ('b', rng.choice(WIDTHS))
        x = declare('Wire', 'x', td)
        fn = 'zext' if td[1] >= ta[1] else 'trunc'
        upblk([f's.{x} @= {fn}( s.{a}, {td[1]} )'])
        sources.append((x, td))
      elif kind == 'dead':
        declare('Wire', 'dead', self.rand_td())
      elif kind == 'const':
        td = ('b', rng.choice(WIDTHS))
        x = declare('Wire', 'k', td)
        L.append(f's.{x} //= {ty(td)}( {rng.getrandbits(td[1])} )')
        sources.append((x, td))
      elif kind == 'chain':
        e, td = rng.choice(sources)
        for _ in range(rng.randint(1, 3)):
          w = declare('Wire', 'w', td)
          L.append(f's.{w} //= s.{e}')
          sources.append((w, td)); e = w

    # ---- value nets without a whole signal: bit reversal / byte swap wrappers, slice-to-slice, field-to-field,
    # constant-tied slices and fields. VcdGenerationPass drops such nets entirely; where they fall in the
    # enumeration order of get_all_value_nets() (before / after the clock net) changes from instance to instance.
    if self.slicenets:
      def bits_src(minw, maxw=200, widths=None):
        cands = [(e, t) for e, t in sources if t[0] == 'b' and minw <= t[1] <= maxw and (widths is None or t[1] in widths)]
        if cands: return rng.choice(cands)
        td = ('b', rng.choice(widths or [w for w in WIDTHS if minw <= w <= maxw]))
        return add_inport(td), td
      for _ in range(rng.randint(2, 4) if depth == self.maxdepth else rng.randint(0, 2)):
        kind = rng.choice(['bitrev', 'bitrev', 'byteswap', 'slice2slice', 'slice2slice', 'constslice', 'field2field', 'constfield'])
        c.features.add('dropped-net:' + kind)
        if kind == 'bitrev':
          e, td = bits_src(2, 16)
          n = td[1]
          r = declare('Wire', 'rev', td)
          L.append(f'for i in range({n}): s.{r}[i] //= s.{e}[{n - 1}-i]')
          sources.append((r, td))
        elif kind == 'byteswap':
          e, td = bits_src(16, 64, [16, 32, 64])
          n = td[1]
          r = declare('Wire', 'bsw', td)
          L.append(f'for i in range({n // 8}): s.{r}[8*i:8*i+8] //= s.{e}[{n}-8*i-8:{n}-8*i]')
          sources.append((r, td))
        elif kind in ('slice2slice', 'constslice'):
          # a wire assembled from pieces: every piece is a slice of some signal or a constant (the wire is fully driven)
          td = ('b', rng.choice([w for w in WIDTHS if w >= 2]))
          x = declare('Wire', 'sl' if kind == 'slice2slice' else 'ks', td)
          cuts = sorted(set(rng.sample(range(1, td[1]), min(td[1] - 1, rng.randint(1, 3)))))
          pconst = 0.25 if kind == 'slice2slice' else 0.6
          for lo, hi in zip([0] + cuts, cuts + [td[1]]):
            k = hi - lo
            srcs = [(e, t) for e, t in sources if t[0] == 'b' and t[1] >= k and e != x]
            if srcs and rng.random() >= pconst:
              e, ts = rng.choice(srcs); a = rng.randint(0, ts[1] - k)
              L.append(f's.{x}[{lo}:{hi}] //= s.{e}[{a}:{a + k}]')
            else:
              L.append(f's.{x}[{lo}:{hi}] //= {rng.choice([0, (1 << k) - 1, rng.getrandbits(k)])}')
          sources.append((x, td))
        else:
          # a struct wire assembled field by field from the fields of another struct signal / constants
          ss = [(e, t) for e, t in sources if t[0] == 's']
          if ss: e, td = rng.choice(ss)
          else:
            td = ('s', rng.choice(STRUCT_ORDER)); e = add_inport(td)
          x = declare('Wire', 'fs', td)
          for f, ft in STRUCTS[td[1]]:
            if kind == 'constfield' and ft[0] == 'b' and rng.random() < 0.6:
              L.append(f's.{x}.{f} //= {rng.getrandbits(ft[1])}')
            elif ft[0] == 's' and rng.random() < 0.5:
              # (`s.a.b.c //= ...` is not available on a field of a field: connect() is)
              for f2, ft2 in STRUCTS[ft[1]]: L.append(f'connect( s.{x}.{f}.{f2}, s.{e}.{f}.{f2} )')
            else:
              L.append(f's.{x}.{f} //= s.{e}.{f}')
          sources.append((x, td))

    if self.big and depth == self.maxdepth:
      # more than 94 nets: two-character VCD symbols
      k = rng.randint(95, 130); td = ('b', rng.choice([1, 2, 5])); n = fresh('many')
      L.append(f's.{n} = [ Wire( {ty(td)} ) for _ in range({k}) ]')
      src = get_source(td)
      stm = []
      for i in range(k):
        e = f'{n}[{i}]'
        c.signals.append((e, td))
        if i % 3 == 0: stm.append(f's.{e} <<= s.{src}')
        elif i % 3 == 1: stm.append(f's.{e} <<= ~s.{n}[{i - 1}]')
      upblk(stm, ff=True)
      c.features.add('many-nets')

    # ---- not pure RTL: one method port or one update_once block somewhere in the tree
    if self.nonpure and not self.nonpure_done and (depth == self.maxdepth or rng.random() < 0.5):
      self.nonpure_done = True
      bs = bits_sources()
      if self.nonpure == 'method':
        rd = f'int( s.{rng.choice(bs)[0]} )' if bs else '0'
        c.methods += ['def peek_( s ):', f'  return {rd}']
        L.append('s.peek = CalleePort( method = s.peek_ )')
        c.features.add('method-port')
      else:
        e, td = rng.choice(sources)
        x = declare('Wire', 'uo', td)
        n = fresh('once')
        L += ['@update_once', f'def {n}():', f'  s.{x} @= s.{e}']
        sources.append((x, td))
        c.features.add('update-once')

    # ---- outputs
    for _ in range(rng.randint(1, 3)):
      td = rng.choice(sources)[1] if rng.random() < 0.8 else self.rand_td()
      n = declare('OutPort', 'out', td)
      c.outports.append((n, td))
      drive(n, td, allow_ff=True)
    if rng.random() < 0.15:
      td = rng.choice(sources)[1]; k = 2; n = fresh('outl')
      L.append(f's.{n} = [ OutPort( {ty(td)} ) for _ in range({k}) ]')
      for i in range(k):
        e = f'{n}[{i}]'
        c.signals.append((e, td)); c.outports.append((e, td))
        drive(e, td, allow_ff=True)
      c.features.add('port-list')

    self.classes.append(c)
    return c

import re as _re
_PORT_LINE = _re.compile(r'^s\.\w+ = (InPort|OutPort|\[ InPort|\[ OutPort|C16Ifc)\b')

def make_variant(rng, spec, k):
  """a class with the port interface of `spec` and other insides (what replace_component swaps in)"""
  v = CompSpec(f'{spec.name}_v{k}')
  v.inports, v.outports = list(spec.inports), list(spec.outports)
  v.signals = list(spec.inports) + list(spec.outports)
  L = v.lines
  L.extend(l for l in spec.lines if _PORT_LINE.match(l))
  L += ['s.vcnt = Wire( mk_bits(2) )', '@update_ff', 'def v_cnt():', '  s.vcnt <<= s.vcnt + 1']
  v.signals.append(('vcnt', ('b', 2)))
  for i, (o, td) in enumerate(spec.outports):
    cands = [e for e, t in spec.inports if t == td]
    if cands and rng.random() < 0.8:
      e = rng.choice(cands)
      if rng.random() < 0.5: L += ['@update_ff', f'def v_ff{i}():', f'  s.{o} <<= s.{e}']
      else: L += ['@update', f'def v_up{i}():', f'  s.{o} @= s.{e}']
    elif td[0] == 'b':
      L += ['@update_ff', f'def v_ff{i}():', f'  s.{o} <<= s.{o} + 1']
    else:
      L += ['@update', f'def v_up{i}():', f'  s.{o} @= {ty(td)}()']
  v.features.add('replacement')
  return v

def _clone(spec):
  c = CompSpec(spec.name)
  c.__dict__.update(spec.__dict__)
  c.children = list(spec.children)
  return c

def _instances(spec, path=()):
  for e, ch in spec.children:
    yield path + (e,)
    yield from _instances(ch, path + (e,))

def _replace_in_tree(top, path, new):
  """copy-on-write replacement of the instance at `path` in the spec tree; returns the new top spec"""
  top = _clone(top)
  node = top
  for d, e in enumerate(path):
    i = next(k for k, (x, _) in enumerate(node.children) if x == e)
    if d == len(path) - 1:
      node.children[i] = (e, new)
    else:
      ch = _clone(node.children[i][1])
      node.children[i] = (e, ch)
      node = ch
  return top

def _get(spec, path):
  for e in path: spec = dict(spec.children)[e]
  return spec

def generate(rng, uid, maxdepth, big=False, nonpure=None, nrep=0, slicenets=False):
  """returns (module source, top CompSpec after the replacements, replacements)
     replacements = [(instance path, class name, use replace_component_with_obj)] to be applied, in order,
     after elaborate(): child components (list elements preferred, several of one list) are swapped for
     classes with the same ports"""
  g = Gen(rng, uid, maxdepth, big, nonpure, slicenets)
  top = g.gen_comp(maxdepth)
  variants, reps = [], []
  for k in range(nrep):
    paths = list(_instances(top))
    if not paths: break
    lists = [p for p in paths if '[' in p[-1]]
    if reps and rng.random() < 0.5:
      # another element of a list that already had one element replaced
      last = reps[-1][0]
      sib = [p for p in lists if p[:-1] == last[:-1] and p[-1].split('[')[0] == last[-1].split('[')[0] and p != last]
      path = rng.choice(sib) if sib else rng.choice(lists or paths)
    else:
      path = rng.choice(lists) if lists and rng.random() < 0.75 else rng.choice(paths)
    v = make_variant(rng, _get(top, path), k)
    variants.append(v)
    top = _replace_in_tree(top, path, v)
    reps.append((path, v.name, rng.random() < 0.4))
  src = HEADER + '\n' + '\n'.join(c.source() for c in g.classes + variants)
  return src, top, reps

def all_signals(top):
  """every signal of every component of the design:
     [(scope path as tuple of child exprs, expr relative to the component, td)]; clk and reset included"""
  out = []
  def rec(spec, path):
    out.append((path, 'clk', ('b', 1)))
    out.append((path, 'reset', ('b', 1)))
    for e, td in spec.signals: out.append((path, e, td))
    for e, ch in spec.children: rec(ch, path + (e,))
  rec(top, ())
  return out

def generate_openloop(rng, uid, maxdepth, two_methods=True):
  """An open-loop (method driven) top around a generated RTL tree: top-level method ports `push` (hands the next
  input values to a feeding update block) and optionally `peek`; a counter register with its count+1 wire (a dump
  taken at one instant must show nxt == count+1); an update_ff spy block that calls C16_SPY[0] at every clock edge.
  returns (module source, wrapper CompSpec, [(feed wire, td)])"""
  g = Gen(rng, uid, maxdepth)
  dut = g.gen_comp(maxdepth)
  w = CompSpec(f'C16_{uid}_OL')
  L = w.lines
  feeds = []
  L.append(f's.dut = {dut.name}()')
  w.children.append(('dut', dut))
  for i, (pn, td) in enumerate(dut.inports):
    L.append(f's.p{i} = {ty(td)}()')
    L.append(f's.f{i} = Wire( {ty(td)} )')
    L.append(f's.dut.{pn} //= s.f{i}')
    w.signals.append((f'f{i}', td)); feeds.append((f'f{i}', td))
  for i, (pn, td) in enumerate(dut.outports[:2]):
    L.append(f's.o{i} = Wire( {ty(td)} )')
    L.append(f's.o{i} //= s.dut.{pn}')
    w.signals.append((f'o{i}', td))
  L += ['@update', 'def up_feed():'] + [f'  s.f{i} @= s.p{i}' for i in range(len(feeds))] + (['  pass'] if not feeds else [])
  cw = rng.choice([2, 3, 8])
  L += [f's.count = Wire( mk_bits({cw}) )', f's.nxt = Wire( mk_bits({cw}) )',
        '@update', 'def up_nxt():', '  s.nxt @= s.count + 1',
        '@update_ff', 'def up_cnt():', '  if s.reset: s.count <<= 0', '  else: s.count <<= s.nxt']
  w.signals += [('count', ('b', cw)), ('nxt', ('b', cw))]
  L += ['def hook():', '  C16_SPY[0]()', '@update_ff', 'def up_spy():', '  hook()']
  if two_methods:
    L.append('s.add_constraints( M( s.push ) < U( up_feed ), U( up_feed ) < M( s.peek ) )')
  else:
    L.append('s.add_constraints( M( s.push ) < U( up_feed ) )')
  w.methods += ['@method_port', 'def push( s, vals ):'] + [f'  s.p{i} = vals[{i}]' for i in range(len(feeds))] + ['  return None']
  if two_methods:
    w.methods += ['@method_port', 'def peek( s ):', '  return int( s.count )']
  w.methods += ['def line_trace( s ):', '  return ""']
  w.features.add('open-loop')
  src = HEADER + '\nC16_SPY = [ None ]\n\n' + '\n'.join(c.source() for c in g.classes) + '\n' + w.source()
  return src, w, feeds
