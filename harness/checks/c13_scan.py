"""Module-table scanner for the text emitted by the SystemVerilog / Yosys translation passes (C13).

Not a Verilog parser: a line-oriented scanner for the layout the translators emit. It extracts
  * typedef names (`typedef struct packed { ... } NAME;`)
  * per module: name, port names in order, identifiers declared in the module scope (ports, nets / variables /
    localparams, instance names, labels of the always blocks), instantiations `<module> <instance> (`, the labels of the
    always blocks in order (with their kind), and the raw text `module ... endmodule`.
A depth-0 line it does not understand is reported in `unknown` (the check treats that as an infrastructure error, so
that no identifier is missed silently).
"""
import re

DECL_WORDS = {'logic', 'wire', 'reg', 'integer', 'bit', 'localparam', 'genvar', 'int'}

class ScanError(Exception):
  pass

def strip_comment(line):
  i = line.find('//')
  return (line if i < 0 else line[:i]).rstrip()

def _decl_name(stmt):
  """declared name of `logic [7:0] name [0:3]` / `localparam logic [2:0] name = 3'd5` / `S_t name`"""
  stmt = stmt.split('=')[0]
  stmt = re.sub(r'\[[^\]]*\]', ' ', stmt)
  words = stmt.split()
  return words[-1] if len(words) >= 2 else None

def _range_size(r):
  """size of `[a:b]` with small integer expressions (`8-1:0`)"""
  a, b = r.strip()[1:-1].split(':')
  ev = lambda x: int(eval(x, {'__builtins__': {}})) if re.fullmatch(r'[0-9+\-* ()]+', x.strip()) else None
  a, b = ev(a), ev(b)
  if a is None or b is None: return None
  return abs(a - b) + 1

def _port_info(rest, typedef_width):
  """(name, packed width, [unpacked dims]) of `logic [7:0] name [0:3]` / `S_t name` ; width None if not understood"""
  m = re.match(r'^(\S+?)\s*((?:\[[^\]]*\]\s*)*)\s*([^\s\[\]]+)\s*((?:\[[^\]]*\]\s*)*)$', rest.strip())
  if not m: return None
  base, packed, name, unpacked = m.groups()
  w = typedef_width.get(base, 1 if base in DECL_WORDS else None)
  for r in re.findall(r'\[[^\]]*\]', packed):
    k = _range_size(r)
    w = None if (w is None or k is None) else w * k
  dims = [_range_size(r) for r in re.findall(r'\[[^\]]*\]', unpacked)]
  return name, w, dims

def preprocess(text):
  """resolve `ifndef X / `define X / `endif the way a Verilog preprocessor does (a guarded second copy is dropped);
  dropped lines become empty so that line numbers stay"""
  defined, out, stack = set(), [], []
  for line in text.split('\n'):
    t = line.strip()
    if t.startswith('`ifndef'):
      stack.append(t.split()[1] not in defined if len(t.split()) > 1 else True); out.append('')
    elif t.startswith('`ifdef'):
      stack.append(t.split()[1] in defined if len(t.split()) > 1 else True); out.append('')
    elif t.startswith('`else'):
      if stack: stack[-1] = not stack[-1]
      out.append('')
    elif t.startswith('`endif'):
      if stack: stack.pop()
      out.append('')
    elif t.startswith('`define'):
      if all(stack) and len(t.split()) > 1: defined.add(t.split()[1])
      out.append('')
    else:
      out.append(line if all(stack) else '')
  return '\n'.join(out)

def scan(text):
  lines = preprocess(text).split('\n')
  typedefs, modules, unknown = [], [], []
  typedef_width = {}
  i, n = 0, len(lines)
  cur = None
  while i < n:
    raw = lines[i]
    line = strip_comment(raw).strip()
    if not line or line.startswith('`'):
      i += 1; continue
    if cur is None:
      if line.startswith('typedef'):
        j = i
        while j < n and not re.match(r'^\}\s*(\S+)\s*;$', strip_comment(lines[j]).strip()): j += 1
        if j >= n: raise ScanError(f'unterminated typedef at line {i+1}')
        tname = re.match(r'^\}\s*(\S+)\s*;$', strip_comment(lines[j]).strip()).group(1)
        typedefs.append(tname)
        w = 0
        for fl in lines[i + 1:j]:
          fl = strip_comment(fl).strip().rstrip(';')
          if not fl: continue
          info = _port_info(fl, typedef_width)
          w = None if (w is None or info is None or info[1] is None) else w + info[1]
        typedef_width[tname] = w
        i = j + 1; continue
      m = re.match(r'^module\s+(.*)$', line)
      if m:
        name = m.group(1).strip()
        has_paren = False
        if name.endswith('(') and not re.search(r'\([^()]*$', name[:-1]):   # `module X (` on one line
          name = name[:-1].strip(); has_paren = True
        cur = {'name': name, 'ports': [], 'portinfo': {}, 'ids': [], 'insts': [], 'blocks': [], 'start': i, 'decls': []}
        i += 1
        # port list
        if not has_paren:
          while i < n and not strip_comment(lines[i]).strip(): i += 1
          if strip_comment(lines[i]).strip() == ';':       # module without ports
            i += 1; continue
          if strip_comment(lines[i]).strip().startswith('#('):          # parameter list `#( parameter p = 1 )(`
            while i < n and not re.match(r'^\)\s*\($', strip_comment(lines[i]).strip()):
              if strip_comment(lines[i]).strip() == ')':                  # `)` and `(` on separate lines
                i += 1
                while i < n and not strip_comment(lines[i]).strip(): i += 1
                break
              i += 1
            if i >= n: raise ScanError(f'parameter list of module {name} not understood')
            lines[i] = '('
          if strip_comment(lines[i]).strip() != '(':
            raise ScanError(f'expected "(" after module {name} at line {i+1}: {lines[i]!r}')
          i += 1
        while i < n:
          pl = strip_comment(lines[i]).strip()
          i += 1
          if not pl or pl.startswith('`'): continue
          if pl in (');', ')'): break
          closing = pl.endswith(');')
          if closing: pl = pl[:-2].strip()
          pl = pl.rstrip(',').strip()
          pm = re.match(r'^(input|output|inout)\s+(.*)$', pl)
          if not pm: raise ScanError(f'port line not understood in module {name}: {pl!r}')
          pname = _decl_name(pm.group(1) + ' ' + pm.group(2))
          cur['ports'].append(pname); cur['ids'].append(pname)
          info = _port_info(pm.group(2), typedef_width)
          cur['portinfo'][pname] = (info[1], info[2]) if info and info[0] == pname else (None, None)
          if closing: break
        continue
      unknown.append((i + 1, raw)); i += 1; continue
    # inside a module, depth 0
    if line == 'endmodule':
      cur['text'] = '\n'.join(lines[cur['start']:i + 1])
      modules.append(cur); cur = None; i += 1; continue
    m = re.match(r'^(always_comb|always_ff|always_latch|always)\b(.*)$', line)
    if m:
      lab = re.search(r'\bbegin\s*:\s*(\S+)', line)
      if lab:
        cur['blocks'].append((m.group(1), lab.group(1))); cur['ids'].append(lab.group(1))
      depth = 0
      seen_begin = False
      while i < n:
        l2 = strip_comment(lines[i])
        depth += len(re.findall(r'\bbegin\b', l2)) - len(re.findall(r'\bend\b', l2))
        if re.search(r'\bbegin\b', l2): seen_begin = True
        i += 1
        if seen_begin and depth == 0: break
        if not seen_begin and l2.rstrip().endswith(';'): break      # single-statement always
      continue
    if line.startswith('assign'):
      while i < n and not strip_comment(lines[i]).rstrip().endswith(';'): i += 1
      i += 1; continue
    words = line.split()
    first = re.split(r'[\s\[]', line, 1)[0]
    if line.endswith(';') and (first in DECL_WORDS or first in typedefs):
      nm = _decl_name(line[:-1])
      if nm is None: unknown.append((i + 1, raw))
      else:
        cur['ids'].append(nm); cur['decls'].append(nm)
      i += 1; continue
    if len(words) == 2 and not line.endswith(';'):
      j = i + 1
      while j < n and not strip_comment(lines[j]).strip(): j += 1
      if j < n and strip_comment(lines[j]).strip() == '(':
        cur['insts'].append((words[0], words[1])); cur['ids'].append(words[1])
        while j < n and strip_comment(lines[j]).strip() != ');': j += 1
        i = j + 1; continue
    if len(words) == 1 and not line.endswith(';'):
      j = i + 1
      while j < n and not strip_comment(lines[j]).strip(): j += 1
      # `Mod <newline> inst <newline> (`: white space is white space (a module name that ends in a newline)
      if j < n and len(strip_comment(lines[j]).split()) == 1 and not strip_comment(lines[j]).strip().startswith('#('):
        j2 = j + 1
        while j2 < n and not strip_comment(lines[j2]).strip(): j2 += 1
        if j2 < n and strip_comment(lines[j2]).strip() == '(':
          iname = strip_comment(lines[j]).strip()
          cur['insts'].append((words[0], iname)); cur['ids'].append(iname)
          while j2 < n and strip_comment(lines[j2]).strip() != ');': j2 += 1
          i = j2 + 1; continue
      if j < n and strip_comment(lines[j]).strip().startswith('#('):
        while j < n and not re.match(r'^\)\s*(\S+)$', strip_comment(lines[j]).strip()): j += 1
        if j >= n: raise ScanError(f'parametrised instantiation of {words[0]} not understood at line {i+1}')
        iname = re.match(r'^\)\s*(\S+)$', strip_comment(lines[j]).strip()).group(1)
        cur['insts'].append((words[0], iname)); cur['ids'].append(iname)
        while j < n and strip_comment(lines[j]).strip() != ');': j += 1
        i = j + 1; continue
    if len(words) == 3 and words[2] == '(' :
      cur['insts'].append((words[0], words[1])); cur['ids'].append(words[1])
      j = i + 1
      while j < n and strip_comment(lines[j]).strip() != ');': j += 1
      i = j + 1; continue
    unknown.append((i + 1, raw)); i += 1
  if cur is not None: raise ScanError(f'module {cur["name"]} has no endmodule')
  return {'typedefs': typedefs, 'typedef_width': typedef_width, 'modules': modules, 'unknown': unknown}

ID_RE = re.compile(r'[A-Za-z_][A-Za-z0-9_$]*')

def is_id(x):
  """fullmatch: `$` in a pattern also matches just before a trailing newline"""
  return bool(ID_RE.fullmatch(x))

def direct_wf(table, reserved):
  """the direct oracle on a scanned table (independent of the Lean checker): list of (kind, detail)"""
  bad = []
  names = [m['name'] for m in table['modules']]
  for x in sorted(set(names)):
    if names.count(x) > 1: bad.append(('module-defined-twice', x))
  for x in sorted(set(table['typedefs'])):
    if table['typedefs'].count(x) > 1: bad.append(('typedef-defined-twice', x))
  def legal(x): return is_id(x) and x not in reserved
  for x in table['typedefs']:
    if not legal(x): bad.append(('illegal-typedef-name', x))
  for m in table['modules']:
    if not legal(m['name']): bad.append(('illegal-module-name', m['name']))
    for x in m['ids']:
      if not legal(x): bad.append(('illegal-identifier', f"{m['name']}:{x}"))
    for x in sorted(set(m['ids'])):
      if m['ids'].count(x) > 1: bad.append(('duplicate-identifier', f"{m['name']}:{x}"))
    for mod, inst in m['insts']:
      if mod not in names: bad.append(('undefined-module', f"{m['name']}:{mod}"))
  return bad
