"""C02 with functional-level (blocking) blocks: WrapGreenletPass re-keys all_constraints from update blocks to greenlet wrappers.

Not modelled in Lean (the wrapping is a renaming); exercised here:
designs:        generated tops with >= 2 update_once blocks that call BLOCKING methods (@blocking read / write of FL children, directly
                or through CallerIfcFL ports of sub-components) mixed with ordinary @update blocks, connected by (a) value edges
                (wires, a child's OutPort read by a parent block, nets into a child's InPort), (b) explicit U(a) < U(b) between
                blocking blocks, (c) M(x) < M(y) of the stdlib CL queues (PipeQueueCL / BypassQueueCL) between a blocking producer
                and a blocking consumer; textual order of the blocks shuffled against the dependency order.
pass groups:    SimpleSimPass, DefaultPassGroup, UnrollSim, Mamba2020.
direct oracle:  per cycle, from the execution trace written by the blocks themselves: every block exactly once; writer before reader
                for every value edge; explicit pairs and queue pairs honoured; every wire holds, and every blocking sink call saw,
                the value computed from THIS cycle's inputs (python re-evaluation of the dependency DAG).
model tie:      after the pass group, all_constraints with wrappers mapped back to their blocks: every end-point must be in
                _dag.final_upblks (else the schedulers drop the edge), and the pairs _process_methods added (over the blocking
                callers) are compared with Model/Methods.process as in c02_methods.
"""
import random

from ..common import leanio
from ..common.leanio import InfraError
from . import c02_methods

HEAD = '''from pymtl3 import *
from pymtl3.stdlib.queues.cl_queues import PipeQueueCL, BypassQueueCL
TRACE = []
class MemFL{u}( Component ):
  @blocking
  def read( s, addr ):
    return b8( ( 2*int(addr) + 1 ) & 0xff )
  def construct( s ):
    pass
class SinkFL{u}( Component ):
  @blocking
  def write( s, tag, value ):
    s.received.append( (tag, int(value)) )
  def construct( s ):
    s.received = []
class Sub{u}( Component ):
  def construct( s, ident ):
    s.mem = CallerIfcFL()
    s.in_ = InPort( Bits8 )
    s.out = OutPort( Bits8 )
    s.ident = ident
    @update_once
    def sb():
      TRACE.append( s.ident )
      s.out @= s.mem( s.in_ )
'''

class GDesign:
  """blocks 0..n-1 in dependency (rank) order; kind 'fl' (top update_once, blocking read, maybe blocking sink write),
  'sub' (child update_once, CallerIfcFL), 'plain' (top @update); block i drives sig(i); reads = earlier blocks"""
  def __init__(self, rng, uid):
    self.rng, self.uid = rng, uid
    n = rng.randint(3, 7)
    self.kinds = [rng.choice(['fl', 'fl', 'fl', 'sub', 'plain']) for _ in range(n)]
    if sum(k != 'plain' for k in self.kinds) < 2: self.kinds[0] = self.kinds[-1] = 'fl'
    self.reads = []
    for i, k in enumerate(self.kinds):
      if i == 0: self.reads.append([]); continue
      # prefer the previous blocking block: greenlet -> greenlet edges
      cand = list(range(i))
      m = 1 if k == 'sub' else rng.choice([1, 1, 2])
      rs = set()
      if rng.random() < 0.7:
        prev = [j for j in cand if self.kinds[j] != 'plain']
        if prev: rs.add(prev[-1])
      while len(rs) < min(m, len(cand)): rs.add(rng.choice(cand))
      if k == 'sub': rs = set(list(rs)[:1]) if rng.random() < 0.85 else set()
      self.reads.append(sorted(rs))
    self.sinks = [k == 'fl' and self.reads[i] and rng.random() < 0.5 for i, k in enumerate(self.kinds)]
    # explicit U<U between blocking top blocks without a direct value edge
    self.explicit = []
    fls = [i for i, k in enumerate(self.kinds) if k == 'fl']
    for _ in range(rng.choice([0, 1, 1, 2])):
      if len(fls) >= 2:
        a, b = sorted(rng.sample(fls, 2))
        if a not in self.reads[b] and (a, b) not in self.explicit: self.explicit.append((a, b))
    # queue pairs: ids n.. ; (kind, producer id, consumer id)
    self.queues = []
    nid = n
    for _ in range(rng.choice([0, 1, 1, 2])):
      self.queues.append((rng.choice(['PipeQueueCL', 'BypassQueueCL']), nid, nid + 1)); nid += 2
    self.nblocks = nid
    self.order = [i for i, k in enumerate(self.kinds) if k != 'sub'] + list(range(n, nid))
    rng.shuffle(self.order)
    if rng.random() < 0.5: self.order.sort(reverse=True)        # textual order against the dependency order

  def sig(self, i):
    return f's.sub{i}.out' if self.kinds[i] == 'sub' else f's.w{i}'

  def source(self):
    u = self.uid
    L = [HEAD.format(u=u), f'class GG{u}( Component ):', '  def construct( s ):', f'    s.mem = MemFL{u}()', f'    s.snk = SinkFL{u}()',
         '    s.cyc = Wire( Bits8 )', '    @update_ff', '    def up_cyc():', '      s.cyc <<= s.cyc + 1']
    for i, k in enumerate(self.kinds):
      if k == 'sub':
        L += [f'    s.sub{i} = Sub{u}( {i} )', f'    s.sub{i}.mem //= s.mem.read']
        if self.reads[i]: L.append(f'    s.sub{i}.in_ //= {self.sig(self.reads[i][0])}')
      else: L.append(f'    s.w{i} = Wire( Bits8 )')
    for qi, (qk, p, c) in enumerate(self.queues): L.append(f'    s.q{qi} = {qk}( 1 )')
    qblk = {}
    for qi, (qk, p, c) in enumerate(self.queues):
      qblk[p] = ['    @update_once', f'    def b{p}():', f'      TRACE.append( {p} )', f'      if s.q{qi}.enq.rdy():', f'        s.q{qi}.enq( s.mem.read( s.cyc ) )']
      qblk[c] = ['    @update_once', f'    def b{c}():', f'      TRACE.append( {c} )', f'      if s.q{qi}.deq.rdy():', f'        s.snk.write( "q{qi}", s.q{qi}.deq() )']
    for i in self.order:
      if i in qblk: L += qblk[i]; continue
      k = self.kinds[i]
      arg = ' + '.join([self.sig(j) for j in self.reads[i]] or ['s.cyc'])
      if k == 'fl':
        L += ['    @update_once', f'    def b{i}():', f'      TRACE.append( {i} )']
        if self.sinks[i]: L.append(f'      s.snk.write( {i}, {arg} )')
        L.append(f'      s.w{i} @= s.mem.read( {arg} )')
      else:
        L += ['    @update', f'    def b{i}():', f'      TRACE.append( {i} )', f'      s.w{i} @= {arg} + 1']
    if self.explicit:
      L += ['    s.add_constraints(', ',\n'.join(f'      U( b{a} ) < U( b{b} )' for a, b in self.explicit), '    )']
    return '\n'.join(L) + '\n'

  def expected(self, cyc):
    """values of the driven signals and what the sink calls must have seen, for this cycle's s.cyc"""
    val, seen = {}, {}
    for i, k in enumerate(self.kinds):
      if k == 'sub': x = val[self.reads[i][0]] if self.reads[i] else 0
      else: x = sum(val[j] for j in self.reads[i]) & 0xff if self.reads[i] else cyc
      if self.sinks[i]: seen[i] = x
      val[i] = (x + 1) & 0xff if k == 'plain' else (2 * x + 1) & 0xff
    return val, seen

  def required(self):
    req = [(j, i, 'value') for i in range(len(self.kinds)) for j in self.reads[i]]
    req += [(a, b, 'explicit') for a, b in self.explicit]
    for qk, p, c in self.queues: req.append((c, p, 'M(deq)<M(enq)') if qk == 'PipeQueueCL' else (p, c, 'M(enq)<M(deq)'))
    return req

def groups():
  from pymtl3.passes.mamba import Mamba2020, UnrollSim
  from pymtl3.passes.PassGroups import DefaultPassGroup, SimpleSimPass
  return [('simple', SimpleSimPass), ('default', DefaultPassGroup), ('unroll', lambda: UnrollSim(print_line_trace=False)),
          ('mamba', lambda: Mamba2020(print_line_trace=False))]

def tie(ck, top, case, lines, meta):
  """all_constraints after WrapGreenletPass, wrappers mapped back; end-points must be schedulable vertices"""
  from pymtl3.passes.sim.GenDAGPass import GenDAGPass
  mapping = getattr(top._dag, 'blk_greenlet_mapping', {})
  back = {w: b for b, w in mapping.items()}
  final = top._dag.final_upblks
  after_w = set(top._dag.all_constraints)
  dangling = [(getattr(a, '__name__', '?'), getattr(b, '__name__', '?'), a in final, b in final) for a, b in after_w if a not in final or b not in final]
  if dangling:
    ck.disagreement('every end-point of _dag.all_constraints is a vertex of _dag.final_upblks (after WrapGreenletPass)', case,
                    'all end-points in final_upblks', sorted(dangling)[:8])
  ck.hist('greenlet_wrapped_blocks', min(len(mapping), 8))
  ck.hist('greenlet_gg_edges', min(sum(1 for a, b in after_w if a in back and b in back), 8))
  ex = c02_methods.Extract(top)
  after = {(back.get(a, a), back.get(b, b)) for a, b in after_w}
  saved_objs = top._dag.constraint_objs
  GenDAGPass()._process_value_constraints(top)
  before = set(top._dag.all_constraints)
  top._dag.all_constraints = after_w; top._dag.constraint_objs = saved_objs
  # a wrapper that was not mapped back / an original that should have been wrapped shows up here as a lost or foreign pair
  lost = [(a.__name__, b.__name__) for a, b in before - after]
  if lost:
    ck.disagreement('value / explicit pairs survive WrapGreenletPass (modulo the block -> wrapper renaming)', case, sorted(lost)[:8], 'absent after the pass group')
  isb = set(ex.blocks)
  toid = lambda s: {(ex.ids[a], ex.ids[b]) for (a, b) in s if a in isb and b in isb}
  c = dict(case); c['input'] = ex.model_input()
  lines.append(ex.line()); meta.append((c, toid(after - before), toid(before)))

def drive(ck, d, lines, meta):
  src = d.source()
  cls = c02_methods.load(ck, src, f'GG{d.uid}')
  mod = __import__('sys').modules[cls.__module__]
  from pymtl3.passes.tracing.CLLineTracePass import CLLineTracePass
  req = d.required()
  for gname, mk in groups():
    case = {'greenlet': True, 'source': src, 'top': f'GG{d.uid}', 'group': gname}
    ck.count({'src': hash(src) & 0xffffffff, 'group': gname}, True)
    ck.hist('greenlet_group', gname)
    try:
      top = cls(); top.elaborate()
      top.set_metadata(CLLineTracePass.enable, False)
      top.apply(mk())
      top.sim_reset()
    except Exception as e:
      ck.violation('greenlet-design-rejected', {'group': gname, 'exc': type(e).__name__}, case,
                   {'what': f'{type(e).__name__}: {e}'[:400], 'oracle': 'an acyclic FL/CL design is schedulable by every simulation pass group'})
      continue
    bad = None
    for cyc in range(3):
      del mod.TRACE[:]; del top.snk.received[:]
      try: top.sim_tick()
      except Exception as e:
        bad = ('exception', f'{type(e).__name__}: {e}'[:300]); break
      tr = list(mod.TRACE)
      pos = {b: k for k, b in enumerate(tr)}
      if sorted(tr) != list(range(d.nblocks)):
        bad = ('not-exactly-once', tr); break
      viol = [(a, b, why) for a, b, why in req if not pos[a] < pos[b]]
      if viol:
        bad = ('order', {'trace': tr, 'violated': viol}); break
      val, seen = d.expected(int(top.cyc))
      got = {i: int(eval(d.sig(i), {'s': top})) for i in range(len(d.kinds))}
      if got != val:
        bad = ('stale-value', {'trace': tr, 'signals': got, 'expected': val}); break
      rec = {t: v for t, v in top.snk.received if isinstance(t, int)}
      if rec != seen:
        bad = ('stale-value-at-sink', {'trace': tr, 'sink_saw': rec, 'expected': seen}); break
    if bad:
      ck.violation('greenlet-order', {'group': gname, 'what': bad[0]}, case,
                   {'cycle': cyc, 'detail': bad[1], 'required': req,
                    'oracle': 'per cycle: each block once; writer before reader; explicit U<U and queue M<M pairs honoured; same-cycle values'})
    tie(ck, top, case, lines, meta)

def run(ck):
  n = 40 if ck.tier == 'quick' else 400
  lines, meta = [], []
  for _ in range(n):
    drive(ck, GDesign(ck.rng, next(c02_methods._uid)), lines, meta)
  c02_methods.compare(ck, lines, meta)
  ck.extra_cov['greenlet_designs'] = n

def replay(ck, case):
  """re-run one recorded design under its pass group a few times (the scheduler's tie-break is random)"""
  cls = c02_methods.load(ck, case['source'], case['top'])
  mod = __import__('sys').modules[cls.__module__]
  from pymtl3.passes.tracing.CLLineTracePass import CLLineTracePass
  mk = dict(groups())[case['group']]
  rc = 0
  for trial in range(6):
    random.seed(trial)
    top = cls(); top.elaborate(); top.set_metadata(CLLineTracePass.enable, False); top.apply(mk()); top.sim_reset()
    final = top._dag.final_upblks
    dang = [(a.__name__, b.__name__) for a, b in top._dag.all_constraints if a not in final or b not in final]
    del mod.TRACE[:]; top.sim_tick()
    print(f'trial {trial}: trace {list(mod.TRACE)} dangling constraints {dang}')
    if dang: rc = 1
  return rc
