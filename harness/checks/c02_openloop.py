"""C02 under open-loop simulation: OpenLoopCLPass.schedule_with_top_level_callee (the scheduler behind AutoTickSimPass).

The pass puts the top-level callee ports into the intra-cycle schedule together with the update blocks, using
`top._dag.top_level_callee_constraints` (pairs of ACTUAL methods / blocks collected by GenDAGPass._process_methods), which it maps
back to CalleePort vertices and, for the method of a non-blocking interface, on to its rdy guard. That mapping is NOT modelled in
Lean; the schedule it produces is checked here against the declared constraints themselves.

designs:        generated tops exposing 1-4 callee ports (@method_port, @non_blocking with rdy) and 1-4 update / update_once blocks,
                explicit constraints of the shapes U<M, M<U, M<M, M==M among them (consistent with one rank order, so a schedule
                exists; an == class on one side of a < only), a child with constrained method ports called by the top's blocks;
                stdlib NormalQueueCL / PipeQueueCL / BypassQueueCL as top.  Each: elaborate + GenDAGPass + OpenLoopCLPass, repeated with
                the global `random` re-seeded (the pass shuffles its vertices).
direct oracle:  the installed schedule is read from the wrapper closures (my_idx_orig, my_idx_new, schedule_no_method): every update
                block exactly once; for every DECLARED constraint X < Y (ports and blocks taken from add_constraints' own arguments,
                Y replaced by its rdy when it is the method of a non-blocking interface, X / Y widened by a declared ==), both ends
                schedule vertices: X stands before Y; rdy before its method.  Behaviour: a random call sequence on the generated tops —
                the blocks and methods log their execution; per cycle every block at most once (exactly once in completed cycles),
                the logged order honours the same pairs (a method called sees the blocks that must precede it already run in this
                cycle), and two consecutive calls ordered by the constraints happen in the same cycle / the next one as the order
                demands; stdlib queues: FIFO behaviour, NormalQueueCL's rdy reflects the occupancy at the start of the cycle.
model tie:      the block-level pairs GenDAGPass adds for the NON-top methods: Model/Methods.process vs all_constraints (c02_methods).
                Any topological order of the resulting graph is acceptable (PV.C02.kahn_sound, PV.C11s for the SCC-level sort).
"""
import random

from . import c02_methods

GEN_HEAD = '''from pymtl3 import *
TRACE = []
class OC{u}( Component ):
  def construct( s ):
    s.add_constraints( M( s.p ) < M( s.q ) )
  @method_port
  def p( s ):
    TRACE.append( 'c.p' )
  @method_port
  def q( s ):
    TRACE.append( 'c.q' )
'''

class OLDesign:
  def __init__(self, rng, uid):
    self.rng, self.uid = rng, uid
    self.mp = rng.randint(0, 3)
    self.nb = rng.randint(0 if self.mp else 1, 2)
    while not 1 <= self.mp + self.nb <= 4: self.nb = rng.randint(0, 2)
    self.blocks = [(f'b{i}', rng.choice(['update', 'update_once'])) for i in range(rng.randint(1, 4))]
    self.child = rng.random() < 0.5 and len(self.blocks) >= 2
    # vertices: blocks, m<i>, n<i>.rdy, n<i>
    verts = [b for b, _ in self.blocks] + [f'm{i}' for i in range(self.mp)]
    order = verts + [f'n{i}' for i in range(self.nb)]
    rng.shuffle(order)
    self.rank = {}
    for v in order:
      if v.startswith('n'):
        self.rank[v + '.rdy'] = len(self.rank); self.rank[v] = len(self.rank)
      else: self.rank[v] = len(self.rank)
    callees = [f'm{i}' for i in range(self.mp)] + [f'n{i}' for i in range(self.nb)] + [f'n{i}.rdy' for i in range(self.nb)]
    # one optional == between two callee methods; its class may stand on ONE side of a < only
    self.eq = None
    meths = [c for c in callees if not c.endswith('.rdy')]
    if len(meths) >= 2 and rng.random() < 0.4: self.eq = tuple(rng.sample(meths, 2))
    cls = lambda v: list(self.eq) if self.eq and v in self.eq else [v]
    guard = lambda v: v + '.rdy' if v.startswith('n') and not v.endswith('.rdy') else v
    self.lt = []
    items = [b for b, _ in self.blocks] + callees
    for _ in range(60):
      if len(self.lt) >= rng.randint(1, 5): break
      x, y = rng.sample(items, 2)
      if x.startswith('b') and y.startswith('b'): continue
      if x.split('.')[0] == y.split('.')[0]: continue                      # rdy / method of one interface
      if self.eq and x in self.eq and y in self.eq: continue
      if len(cls(x)) > 1 and len(cls(y)) > 1: continue
      if all(self.rank[xs] < self.rank[guard(ys)] for xs in cls(x) for ys in cls(y)) and (x, y) not in self.lt: self.lt.append((x, y))
    # child methods called by two blocks, in rank order
    self.ccalls = {}
    if self.child:
      ob = [b for b, k in self.blocks if k == 'update_once']
      if len(ob) >= 2:
        a, b = sorted(rng.sample(ob, 2), key=lambda v: self.rank[v])
        self.ccalls = {a: 's.c.p()', b: 's.c.q()'}
      else: self.child = False
    self.text_order = list(self.blocks); rng.shuffle(self.text_order)

  def source(self):
    u = self.uid
    t = lambda v: f'U( {v} )' if v.startswith('b') else f'M( s.{v} )'
    L = [GEN_HEAD.format(u=u), f'class OT{u}( Component ):', '  def construct( s ):']
    if self.child: L.append(f'    s.c = OC{u}()')
    for b, k in self.text_order:
      L += [f'    @{k}', f'    def {b}():', f"      TRACE.append( '{b}' )"]
      if b in self.ccalls: L.append(f'      {self.ccalls[b]}')
    cons = [f'{t(x)} < {t(y)}' for x, y in self.lt] + ([f'{t(self.eq[0])} == {t(self.eq[1])}'] if self.eq else [])
    self.rng.shuffle(cons)
    if cons: L += ['    s.add_constraints(', ',\n'.join('      ' + c for c in cons), '    )']
    L += ['    @update_ff', '    def up_ff():', "      TRACE.append( 'ff' )"]
    for i in range(self.mp): L += ['  @method_port', f'  def m{i}( s, v=0 ):', f"    TRACE.append( 'm{i}' )"]
    for i in range(self.nb):
      L += [f"  @non_blocking( lambda s: ( TRACE.append( 'n{i}.rdy' ), True )[1] )", f'  def n{i}( s, v=0 ):', f"    TRACE.append( 'n{i}' )"]
    return '\n'.join(L) + '\n'

# ----------------------------------------------------------------------------------------------------------------------

def closure_of(port):
  f = port.method
  return dict(zip(f.__code__.co_freevars, [c.cell_contents for c in f.__closure__]))

def read_schedule(top, ports, blocks):
  """full update schedule (ports and blocks) reconstructed from the wrappers OpenLoopCLPass installed"""
  info = {p: closure_of(p) for p in ports}
  some = next(iter(info.values()))
  ups = [f for f in some['schedule_no_method'] if f in blocks]
  n = len(ups) + len(ports)
  full = [None] * n
  for p, c in info.items():
    i = c['my_idx_orig']
    if not 0 <= i < n or full[i] is not None: return None, ups, f'bad my_idx_orig {i}'
    full[i] = p
  it = iter(ups)
  for k in range(n):
    if full[k] is None: full[k] = next(it)
  # consistency of the two indices: the next non-method block after a port
  for p, c in info.items():
    after = [f for f in full[c['my_idx_orig'] + 1:] if f in blocks]
    want = some['schedule_no_method'].index(after[0]) if after else len(ups)
    if c['my_idx_new'] != want: return full, ups, f'my_idx_new {c["my_idx_new"]} of {p!r} does not point at the next block ({want})'
  return full, ups, None

def declared_pairs(top, vertices):
  """required (X, Y, why) over schedule vertices, from the arguments of add_constraints themselves"""
  from pymtl3.dsl.Connectable import CalleePort, MethodPort, NonBlockingIfc
  node = lambda x: x.method if isinstance(x, NonBlockingIfc) else x
  def guard(v):
    if isinstance(v, CalleePort) and v.in_non_blocking_interface() and not v._dsl.is_rdy:
      return v.get_parent_object().rdy
    return v
  cons = [(node(x), node(y), e) for x, y, e in top.get_all_explicit_constraints()[3]]
  parent = {}
  def find(a):
    parent.setdefault(a, a)
    while parent[a] is not a: a = parent[a]
    return a
  for x, y, e in cons:
    if e: parent[find(x)] = find(y)
  allv = {n for x, y, _ in cons for n in (x, y)}
  cls = lambda x: [m for m in allv if find(m) is find(x)]
  req = []
  for x, y, e in cons:
    if e: continue
    for xs, ys in [(xs, y) for xs in cls(x)] + [(x, ys) for ys in cls(y)]:
      if xs in vertices and guard(ys) in vertices and xs is not guard(ys): req.append((xs, guard(ys), f'{vname(x)} < {vname(y)}'))
  for v in vertices:
    if guard(v) is not v: req.append((guard(v), v, 'rdy before method'))
  seen, out = set(), []
  for a, b, w in req:
    if (id(a), id(b)) not in seen: seen.add((id(a), id(b))); out.append((a, b, w))
  return out

def vname(v):
  return v.__name__ if not hasattr(v, '_dsl') else repr(v)[2:].replace('.method', '')

def static_check(ck, top, case, tag):
  """returns (ports, blocks, required pairs, full schedule) or None after reporting"""
  from pymtl3.dsl.Connectable import CalleePort
  ports = [x for x in top.get_all_object_filter(lambda x: isinstance(x, CalleePort) and x.get_host_component() is top)]
  blocks = set(top._dag.final_upblks) - set(top.get_all_update_ff())
  full, ups, err = read_schedule(top, ports, blocks)
  if err or sorted(map(id, ups)) != sorted(map(id, blocks)):
    ck.violation('openloop-schedule', {'tag': tag, 'what': 'blocks-not-exactly-once' if not err else 'indices'}, case,
                 {'problem': err, 'blocks_in_schedule': [f.__name__ for f in ups], 'blocks': sorted(f.__name__ for f in blocks),
                  'oracle': 'every update block exactly once in the open-loop schedule; wrapper indices consistent'})
    return None
  verts = set(ports) | blocks
  req = declared_pairs(top, verts)
  pos = {v: k for k, v in enumerate(full)}
  bad = [(vname(a), vname(b), why) for a, b, why in req if not pos[a] < pos[b]]
  if bad:
    ck.violation('openloop-order', {'tag': tag, 'where': 'schedule'}, case,
                 {'violated': bad[:6], 'schedule': [vname(v) for v in full],
                  'oracle': 'every declared X < Y between schedule vertices is honoured (Y = its rdy for the method of a non-blocking interface); rdy before method'})
  return ports, blocks, req, full

def apply_openloop(top, seed):
  from pymtl3.passes.autotick.OpenLoopCLPass import OpenLoopCLPass
  from pymtl3.passes.sim.GenDAGPass import GenDAGPass
  top.elaborate()
  top.apply(GenDAGPass())
  random.seed(seed)
  return OpenLoopCLPass(print_line_trace=False)

def closure_pairs(req):
  names = {(vname(a), vname(b)) for a, b, _ in req}
  ch = True
  while ch:
    ch = False
    for a, b in list(names):
      for c, d in list(names):
        if b == c and (a, d) not in names: names.add((a, d)); ch = True
  return names

def behaviour(ck, d, top, mod, case, req, rng):
  """random call sequence; oracle on the execution log"""
  top.sim_reset()
  del mod.TRACE[:]
  order = closure_pairs(req)
  calls = []
  for _ in range(rng.randint(4, 9)):
    k = rng.randrange(d.mp + d.nb)
    calls.append(f'm{k}' if k < d.mp else f'n{k - d.mp}')
  seq = []      # (name invoked, cycle count after)
  for c in calls:
    if c.startswith('n'):
      ok = getattr(top, c).rdy(); seq.append((c + '.rdy', top.sim_cycle_count()))
      if not ok: continue
    getattr(top, c)(1); seq.append((c, top.sim_cycle_count()))
  tr = list(mod.TRACE)
  bnames = [b for b, _ in d.blocks]
  cycles, cur = [], []
  for e in tr:
    if e == 'ff': cycles.append(cur); cur = []
    else: cur.append(e)
  problems = []
  for ci, cyc in enumerate(cycles + [cur]):
    complete = ci < len(cycles)
    for b in bnames:
      n = cyc.count(b)
      if n > 1 or (complete and n != 1): problems.append(f'cycle {ci}: block {b} ran {n} times')
    first = {}
    for k, e in enumerate(cyc): first.setdefault(e, k)
    last = {e: k for k, e in enumerate(cyc)}
    for a, b in order:
      if a in last and b in first and not last[a] < first[b]: problems.append(f'cycle {ci}: {b} executed before {a} although {a} < {b}')
      # a method that was called sees every block that must precede it already executed in this cycle
      if b in first and a in bnames and a not in first: problems.append(f'cycle {ci}: {b} executed, block {a} (< {b}) not yet')
  for (c1, k1), (c2, k2) in zip(seq, seq[1:]):
    if (c1, c2) in order and k2 != k1: problems.append(f'{c1} then {c2} (declared {c1} < {c2}) not in the same cycle: {k1} -> {k2}')
    if ((c2, c1) in order or c1 == c2) and k2 != k1 + 1: problems.append(f'{c1} then {c2} ({c2} <= {c1}) must advance exactly one cycle: {k1} -> {k2}')
  if problems:
    ck.violation('openloop-order', {'tag': 'gen', 'where': 'behaviour'}, case,
                 {'problems': problems[:6], 'calls': seq, 'log': tr[:80],
                  'oracle': 'execution log of a random call sequence: blocks once per cycle, declared order honoured within a cycle, constrained consecutive calls share / advance the cycle'})

def queue_behaviour(ck, kind, top, case):
  problems = []
  top.sim_reset()
  if kind == 'NormalQueueCL':
    if not top.enq.rdy(): problems.append('empty 1-entry NormalQueueCL is not ready for enq')
    else:
      top.enq(11)
      if top.enq.rdy(): problems.append('enq.rdy() True in the cycle after the 1-entry queue was filled (rdy evaluated before up_pulse)')
      elif not top.deq.rdy() or top.deq() != 11: problems.append('message enqueued cannot be dequeued')
  else:
    got, k = [], 0
    for _ in range(6):
      if top.enq.rdy(): top.enq(k); k += 1
      if top.deq.rdy(): got.append(top.deq())
    if not got or got != list(range(len(got))): problems.append(f'{kind}: dequeued {got} after enqueuing 0..{k - 1}')
  if problems:
    ck.violation('openloop-order', {'tag': kind, 'where': 'behaviour'}, case, {'problems': problems})

def run(ck):
  # own PRNG and the global `random` state restored afterwards: the other streams of c02.run are not perturbed
  rng = random.Random(f'{ck.seed}:C02:{ck.tier}:openloop')
  state = random.getstate()
  try: _run(ck, rng)
  finally: random.setstate(state)

def _run(ck, rng):
  lines, meta = [], []
  ndes, reps = (40, 10) if ck.tier == 'quick' else (300, 12)
  for _ in range(ndes):
    d = OLDesign(rng, next(c02_methods._uid))
    src = d.source()
    cls = c02_methods.load(ck, src, f'OT{d.uid}')
    mod = __import__('sys').modules[cls.__module__]
    for rep in range(reps):
      seed = rng.randrange(1 << 30)
      case = {'openloop': True, 'source': src, 'top': f'OT{d.uid}', 'seed': seed}
      ck.count({'src': hash(src) & 0xffffffff, 'seed': seed}, bool(d.lt))
      ck.hist('openloop_design', 'gen')
      try:
        top = cls(); op = apply_openloop(top, seed)
        if rep == 0:
          ex = c02_methods.Extract(top)
          added, before = c02_methods.added_pairs(top, ex)
          c = dict(case); c['input'] = ex.model_input()
          lines.append(ex.line()); meta.append((c, added, before))
        top.apply(op)
      except Exception as e:
        ck.violation('openloop-rejected', {'tag': 'gen', 'exc': type(e).__name__}, case,
                     {'what': f'{type(e).__name__}: {e}'[:400], 'oracle': 'constraints consistent with one rank order are schedulable'})
        break
      res = static_check(ck, top, case, 'gen')
      if res is None: continue
      ck.hist('openloop_required_pairs', min(len(res[2]), 10))
      behaviour(ck, d, top, mod, case, res[2], rng)
  # stdlib queues at top
  from pymtl3.stdlib.queues.cl_queues import BypassQueueCL, NormalQueueCL, PipeQueueCL
  for Q in (NormalQueueCL, PipeQueueCL, BypassQueueCL):
    for n in (1, 2):
      for rep in range(reps):
        seed = rng.randrange(1 << 30)
        case = {'openloop': True, 'stdlib': Q.__name__, 'n': n, 'seed': seed}
        ck.count(case, True); ck.hist('openloop_design', Q.__name__)
        top = Q(n); top.apply(apply_openloop(top, seed))
        if static_check(ck, top, case, Q.__name__) is not None and n == 1: queue_behaviour(ck, Q.__name__, top, case)
  c02_methods.compare(ck, lines, meta)
  ck.extra_cov['openloop_designs'] = ndes + 6

def replay(ck, case):
  n0 = len(ck.violations)
  if case.get('stdlib'):
    from pymtl3.stdlib.queues import cl_queues
    top = getattr(cl_queues, case['stdlib'])(case['n']); top.apply(apply_openloop(top, case['seed']))
    res = static_check(ck, top, case, case['stdlib'])
  else:
    cls = c02_methods.load(ck, case['source'], case['top'])
    top = cls(); top.apply(apply_openloop(top, case['seed']))
    res = static_check(ck, top, case, 'gen')
  if res: print('schedule:', [vname(v) for v in res[3]]); print('required:', [(vname(a), vname(b), w) for a, b, w in res[2]])
  for v in ck.violations[n0:]: print('VIOLATION', v.kind, v.signature, str(v.detail)[:1200])
  return 1 if len(ck.violations) > n0 else 0
