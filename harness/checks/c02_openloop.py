"""C02 under open-loop simulation: OpenLoopCLPass.schedule_with_top_level_callee (the scheduler behind AutoTickSimPass).

The pass puts the top-level callee ports into the intra-cycle schedule together with the update blocks, using
`top._dag.top_level_callee_constraints` (pairs of ACTUAL methods / blocks collected by GenDAGPass._process_methods), which it maps
back to CalleePort vertices and, for the method of a non-blocking interface, on to its rdy guard. The direct oracle judges the schedule
it produces against the declared constraints themselves; the pass (mapping, graph, SCC sort, wrappers, run-time protocol) is modelled in
Lean (Model/OpenLoop.lean, Props/C02o.lean) and compared with the real pass and the real execution order below ("model tie").

designs:        generated tops exposing 1-4 callee ports (@method_port, @non_blocking with rdy) and 1-4 update / update_once blocks,
                explicit constraints of the shapes U<M, M<U, M<M, M==M among them (consistent with one rank order, so a schedule
                exists; an == class on one side of a < only), a child with constrained method ports called by the top's blocks;
                stdlib NormalQueueCL / PipeQueueCL / BypassQueueCL as top.  Each: elaborate + GenDAGPass + OpenLoopCLPass, repeated with
                the global `random` re-seeded (the pass shuffles its vertices).  Second family (model tie and its own static oracle
                `static_check2`): value wires between the update blocks, free (not rank-consistent) constraints — non-trivial SCCs,
                method -> block -> rdy rings that only the pass's assert reports — and, for a third of them, a top that exposes the
                ports of the generated design through its own CalleePort / CalleeIfcCL objects (method nets).
                Third family (`GLDesign`, WrapGreenletPass applied as in AutoTickSimPass): an update_once block that calls a blocking FL
                method of a child (so it becomes a greenlet ticker) with declared U(blk) < M(top method) / M(top method) < U(blk)
                constraints, the top methods plain or rdy-guarded; oracles: declared pairs in the installed schedule, in the execution
                log, and pull() == lut( value pushed in the same cycle ); model tie with the block ids taken after WrapGreenletPass.
direct oracle:  the installed schedule is read from the wrapper closures (my_idx_orig, my_idx_new, schedule_no_method): every update
                block exactly once; for every DECLARED constraint X < Y (ports and blocks taken from add_constraints' own arguments,
                Y replaced by its rdy when it is the method of a non-blocking interface, X / Y widened by a declared ==), both ends
                schedule vertices: X stands before Y; rdy before its method.  Behaviour: a random call sequence on the generated tops —
                the blocks and methods log their execution; per cycle every block at most once (exactly once in completed cycles),
                the logged order honours the same pairs (a method called sees the blocks that must precede it already run in this
                cycle), and two consecutive calls ordered by the constraints happen in the same cycle / the next one as the order
                demands; stdlib queues: FIFO behaviour, NormalQueueCL's rdy reflects the occupancy at the start of the cycle.
model tie:      the block-level pairs GenDAGPass adds for the NON-top methods: Model/Methods.process vs all_constraints (c02_methods).
                The pass itself is modelled in Model/OpenLoop.lean (theorems: Props/C02o.lean, driver pv_openloop): the model's
                input (blocks, callee ports / interfaces with their ACTUAL methods, all_constraints and
                top_level_callee_constraints in set iteration order, the shuffled vertex list, the ffs configuration) is read off
                the real design (`ModelTie`), and compared exactly: the installed schedule (ports, blocks, SCC wrappers, ffs layout),
                every wrapper's (my_idx_orig, my_idx_new), and — for random call sequences over several cycles, with sim_reset at the
                start and sometimes in the middle — the execution order observed with sys.setprofile (update blocks, ff-phase
                functions, the user-level method / rdy functions) and sim_cycle_count() after every call, against the model's plan.
"""
import random, sys

from ..common import leanio
from ..common.leanio import InfraError
from . import c02_methods

DRIVERS = ['openloop']
MODULE = 'PymtlVerif.Props.C02o'
THEOREMS = ['PV.C02o.' + t for t in [
  'map_exact', 'map_assert', 'edges_exact', 'static_total', 'schedule_partition', 'schedule_respects_edges', 'callee_constraint_scheduled',
  'guardless_right_end', 'guarded_right_end', 'rdy_before_method', 'assert_iff_leftover', 'schedule_shape', 'wrap_exact', 'exec_total',
  'call_plan', 'invariant', 'cycle_is_schedule_sublist', 'every_entry_once_per_cycle', 'methods_in_call_order', 'cycle_count',
  'same_cycle_iff_ascending', 'pair_order_at_runtime', 'constraint_order_at_runtime', 'writer_before_reader_at_runtime', 'exec_frame',
  'reset_effect']]
THEOREM_MODULE = {t: MODULE for t in THEOREMS}
TRUSTED = [
  'Model/OpenLoop.lean stands for OpenLoopCLPass.schedule_with_top_level_callee and the wrappers it installs; parameters taken from the '
  'environment are arguments of the model: the vertex order after random.shuffle (captured by a proxy for the module attribute `random` of '
  'OpenLoopCLPass.py, harness process only), the iteration order of the sets all_constraints / top_level_callee_constraints (the harness '
  'iterates the same set objects), the iteration order of the int sets G_new[i] (theorems: any permutation; driver: by table slot, which is '
  'CPython\'s order when the members do not collide in the table — checked per row, other cases are counted as `inexact` and only their SCC '
  'partition is compared) and tmp_schedule of a non-trivial SCC (theorems: any permutation; driver: the observed list)',
  'c02_openloop.ModelTie reads the model input off the elaborated design after GenDAGPass (object -> id by dict semantics, as the pass\'s own '
  'dicts and sets) and reads the result back from the closures of sim_reset / the method wrappers',
]
ASSUMPTIONS = [
  'open-loop scheduler: MODELLED (Model/OpenLoop.lean) and proved for every input, every shuffle, every set order and every sequence of top-level '
  'calls (Props/C02o.lean): the raw-method -> CalleePort -> rdy-guard translation of top_level_callee_constraints, the graph (rdy -> method edges '
  'only in E, not in G), SCC partition (PV.Scc.kosaraju), G_new from E, the worklist sort with Q.pop(0), the assert, update_schedule, the ffs '
  'layout, wrapper indices, the run-time protocol of actual_method (finish the cycle when the call comes too late, catch up, call) and '
  'sim_reset. PARTIAL: a non-trivial SCC is one schedule entry run once per cycle (its inner iteration and BFS order are C11\'s subject, the '
  'order is a parameter); a CalleePort inside a non-trivial SCC is not wrapped by the pass and is outside the run-time theorems; '
  'print_line_trace / VCD / text-wave entries of ffs are modelled as opaque functions; GenDAGPass\'s production of '
  'top_level_callee_constraints is an input here (its == widening is covered by the declared-constraint oracle of this module)',
]
RULE = ('open-loop model tie: the generated tops of c02_openloop (1-4 callee ports, 1-4 blocks, U<M / M<U / M<M / M==M) and a second family with value '
        'wires between the blocks, free (not rank-consistent) constraints incl. method -> block -> rdy rings that must hit the assert, a third of them behind a top that re-exports the ports through method nets, the greenlet family (a block calling a blocking FL method, wrapped by WrapGreenletPass, constrained against top-level methods on either side, 6 shuffles each), and the three stdlib '
        'queues as top; per design several shuffles; per schedule a random call sequence of 6-14 calls (rdy / method / plain ports in any order, '
        'sim_reset first in 3 of 4 runs, a second sim_reset in the middle in 1 of 5); non-trivial = at least one callee constraint edge in E')

GEN_HEAD = '''from pymtl3 import *
TRACE = []
class OC{u}( Component ):
  def construct( s ):
    s.add_constraints( M( s.p ) < M( s.q ) )
  @method_port
  def p( s ):
    TRACE.append( 'c.p' )
  @method_port
  def q( s ):
    TRACE.append( 'c.q' )
'''

class OLDesign:
  def __init__(self, rng, uid, wires=False, free=False):
    self.rng, self.uid = rng, uid
    self.wires, self.free, self.reads = wires, free, {}
    self.mp = rng.randint(0, 3)
    self.nb = rng.randint(0 if self.mp else 1, 2)
    while not 1 <= self.mp + self.nb <= 4: self.nb = rng.randint(0, 2)
    self.blocks = [(f'b{i}', rng.choice(['update', 'update_once'])) for i in range(rng.randint(1, 4))]
    self.child = rng.random() < 0.5 and len(self.blocks) >= 2
    # vertices: blocks, m<i>, n<i>.rdy, n<i>
    verts = [b for b, _ in self.blocks] + [f'm{i}' for i in range(self.mp)]
    order = verts + [f'n{i}' for i in range(self.nb)]
    rng.shuffle(order)
    self.rank = {}
    for v in order:
      if v.startswith('n'):
        self.rank[v + '.rdy'] = len(self.rank); self.rank[v] = len(self.rank)
      else: self.rank[v] = len(self.rank)
    callees = [f'm{i}' for i in range(self.mp)] + [f'n{i}' for i in range(self.nb)] + [f'n{i}.rdy' for i in range(self.nb)]
    # one optional == between two callee methods; its class may stand on ONE side of a < only
    self.eq = None
    meths = [c for c in callees if not c.endswith('.rdy')]
    if len(meths) >= 2 and rng.random() < 0.4: self.eq = tuple(rng.sample(meths, 2))
    cls = lambda v: list(self.eq) if self.eq and v in self.eq else [v]
    guard = lambda v: v + '.rdy' if v.startswith('n') and not v.endswith('.rdy') else v
    self.lt = []
    items = [b for b, _ in self.blocks] + callees
    for _ in range(60):
      if len(self.lt) >= rng.randint(1, 5): break
      x, y = rng.sample(items, 2)
      if x.startswith('b') and y.startswith('b'): continue
      if x.split('.')[0] == y.split('.')[0]: continue                      # rdy / method of one interface
      if self.eq and x in self.eq and y in self.eq: continue
      if len(cls(x)) > 1 and len(cls(y)) > 1: continue
      if (free or all(self.rank[xs] < self.rank[guard(ys)] for xs in cls(x) for ys in cls(y))) and (x, y) not in self.lt: self.lt.append((x, y))
    # child methods called by two blocks, in rank order
    self.ccalls = {}
    if self.child:
      ob = [b for b, k in self.blocks if k == 'update_once']
      if len(ob) >= 2:
        a, b = sorted(rng.sample(ob, 2), key=lambda v: self.rank[v])
        self.ccalls = {a: 's.c.p()', b: 's.c.q()'}
      else: self.child = False
    self.text_order = list(self.blocks); rng.shuffle(self.text_order)
    if wires:
      # second family: every `update` block drives its own wire o_<b> from the wires of the blocks it reads (rank order; `free`: any order,
      # so value cycles = non-trivial SCCs can arise)
      ub = [b for b, k in self.blocks if k == 'update']
      for a in ub:
        for b in ub:
          if a != b and rng.random() < 0.45 and (self.rank[a] < self.rank[b] or (free and rng.random() < 0.6)):
            self.reads.setdefault(b, []).append(a)
      if free and self.nb and rng.random() < 0.5:
        # a ring the pass can only report through its assert: n.method -> block -> n.rdy (and rdy -> method is implicit)
        b = rng.choice([b for b, _ in self.blocks]); n = f'n{rng.randrange(self.nb)}'
        for c in [(n, b), (b, n + '.rdy')]:
          if c not in self.lt: self.lt.append(c)

  def wrapper_source(self, rng):
    """a top that exposes (some of) the callee ports of the generated design through its own CalleePort / CalleeIfcCL objects"""
    u = self.uid
    names = [f'm{i}' for i in range(self.mp)] + [f'n{i}' for i in range(self.nb)]
    keep = [n for n in names if rng.random() < 0.8] or [rng.choice(names)]
    L = [f'class OW{u}( Component ):', '  def construct( s ):', f'    s.inner = OT{u}()']
    for n in keep:
      L += [f'    s.{n} = ' + ('CalleePort()' if n.startswith('m') else 'CalleeIfcCL()'), f'    connect( s.{n}, s.inner.{n} )']
    return '\n'.join(L) + '\n'

  def source(self):
    u = self.uid
    t = lambda v: f'U( {v} )' if v.startswith('b') else f'M( s.{v} )'
    L = [GEN_HEAD.format(u=u), f'class OT{u}( Component ):', '  def construct( s ):']
    if self.child: L.append(f'    s.c = OC{u}()')
    if self.wires:
      for b, k in self.blocks:
        if k == 'update': L.append(f'    s.o_{b} = Wire( Bits8 )')
    for b, k in self.text_order:
      L += [f'    @{k}', f'    def {b}():', f"      TRACE.append( '{b}' )"]
      if self.wires and k == 'update':
        L.append(f'      s.o_{b} @= ' + (' | '.join(f's.o_{a}' for a in self.reads[b]) if self.reads.get(b) else '1'))
      if b in self.ccalls: L.append(f'      {self.ccalls[b]}')
    cons = [f'{t(x)} < {t(y)}' for x, y in self.lt] + ([f'{t(self.eq[0])} == {t(self.eq[1])}'] if self.eq else [])
    self.rng.shuffle(cons)
    if cons: L += ['    s.add_constraints(', ',\n'.join('      ' + c for c in cons), '    )']
    L += ['    @update_ff', '    def up_ff():', "      TRACE.append( 'ff' )"]
    for i in range(self.mp): L += ['  @method_port', f'  def m{i}( s, v=0 ):', f"    TRACE.append( 'm{i}' )"]
    for i in range(self.nb):
      L += [f"  @non_blocking( lambda s: ( TRACE.append( 'n{i}.rdy' ), True )[1] )", f'  def n{i}( s, v=0 ):', f"    TRACE.append( 'n{i}' )"]
    return '\n'.join(L) + '\n'

# ----------------------------------------------------------------------------------------------------------------------

def closure_of(port):
  f = port.method
  return dict(zip(f.__code__.co_freevars, [c.cell_contents for c in f.__closure__]))

def read_schedule(top, ports, blocks):
  """full update schedule (ports and blocks) reconstructed from the wrappers OpenLoopCLPass installed"""
  info = {p: closure_of(p) for p in ports}
  some = next(iter(info.values()))
  ups = [f for f in some['schedule_no_method'] if f in blocks]
  n = len(ups) + len(ports)
  full = [None] * n
  for p, c in info.items():
    i = c['my_idx_orig']
    if not 0 <= i < n or full[i] is not None: return None, ups, f'bad my_idx_orig {i}'
    full[i] = p
  it = iter(ups)
  for k in range(n):
    if full[k] is None: full[k] = next(it)
  # consistency of the two indices: the next non-method block after a port
  for p, c in info.items():
    after = [f for f in full[c['my_idx_orig'] + 1:] if f in blocks]
    want = some['schedule_no_method'].index(after[0]) if after else len(ups)
    if c['my_idx_new'] != want: return full, ups, f'my_idx_new {c["my_idx_new"]} of {p!r} does not point at the next block ({want})'
  return full, ups, None

def declared_pairs(top, vertices):
  """required (X, Y, why) over schedule vertices, from the arguments of add_constraints themselves"""
  from pymtl3.dsl.Connectable import CalleePort, MethodPort, NonBlockingIfc
  node = lambda x: x.method if isinstance(x, NonBlockingIfc) else x
  def guard(v):
    if isinstance(v, CalleePort) and v.in_non_blocking_interface() and not v._dsl.is_rdy:
      return v.get_parent_object().rdy
    return v
  cons = [(node(x), node(y), e) for x, y, e in top.get_all_explicit_constraints()[3]]
  parent = {}
  def find(a):
    parent.setdefault(a, a)
    while parent[a] is not a: a = parent[a]
    return a
  for x, y, e in cons:
    if e: parent[find(x)] = find(y)
  allv = {n for x, y, _ in cons for n in (x, y)}
  cls = lambda x: [m for m in allv if find(m) is find(x)]
  req = []
  for x, y, e in cons:
    if e: continue
    for xs, ys in [(xs, y) for xs in cls(x)] + [(x, ys) for ys in cls(y)]:
      if xs in vertices and guard(ys) in vertices and xs is not guard(ys): req.append((xs, guard(ys), f'{vname(x)} < {vname(y)}'))
  for v in vertices:
    if guard(v) is not v: req.append((guard(v), v, 'rdy before method'))
  seen, out = set(), []
  for a, b, w in req:
    if (id(a), id(b)) not in seen: seen.add((id(a), id(b))); out.append((a, b, w))
  return out

def vname(v):
  return v.__name__ if not hasattr(v, '_dsl') else repr(v)[2:].replace('.method', '')

def static_check(ck, top, case, tag):
  """returns (ports, blocks, required pairs, full schedule) or None after reporting"""
  from pymtl3.dsl.Connectable import CalleePort
  ports = [x for x in top.get_all_object_filter(lambda x: isinstance(x, CalleePort) and x.get_host_component() is top)]
  blocks = set(top._dag.final_upblks) - set(top.get_all_update_ff())
  full, ups, err = read_schedule(top, ports, blocks)
  if err or sorted(map(id, ups)) != sorted(map(id, blocks)):
    ck.violation('openloop-schedule', {'tag': tag, 'what': 'blocks-not-exactly-once' if not err else 'indices'}, case,
                 {'problem': err, 'blocks_in_schedule': [f.__name__ for f in ups], 'blocks': sorted(f.__name__ for f in blocks),
                  'oracle': 'every update block exactly once in the open-loop schedule; wrapper indices consistent'})
    return None
  verts = set(ports) | blocks
  req = declared_pairs(top, verts)
  pos = {v: k for k, v in enumerate(full)}
  bad = [(vname(a), vname(b), why) for a, b, why in req if not pos[a] < pos[b]]
  if bad:
    ck.violation('openloop-order', {'tag': tag, 'where': 'schedule'}, case,
                 {'violated': bad[:6], 'schedule': [vname(v) for v in full],
                  'oracle': 'every declared X < Y between schedule vertices is honoured (Y = its rdy for the method of a non-blocking interface); rdy before method'})
  return ports, blocks, req, full

def apply_openloop(top, seed, wrapgl=False):
  from pymtl3.passes.autotick.OpenLoopCLPass import OpenLoopCLPass
  from pymtl3.passes.sim.GenDAGPass import GenDAGPass
  top.elaborate()
  top.apply(GenDAGPass())
  if wrapgl:                                  # as AutoTickSimPass does: blocks that call blocking methods become greenlet tickers
    from pymtl3.passes.sim.WrapGreenletPass import WrapGreenletPass
    top.apply(WrapGreenletPass())
  random.seed(seed)
  return OpenLoopCLPass(print_line_trace=False)

def closure_pairs(req):
  names = {(vname(a), vname(b)) for a, b, _ in req}
  ch = True
  while ch:
    ch = False
    for a, b in list(names):
      for c, d in list(names):
        if b == c and (a, d) not in names: names.add((a, d)); ch = True
  return names

def behaviour(ck, d, top, mod, case, req, rng):
  """random call sequence; oracle on the execution log"""
  top.sim_reset()
  del mod.TRACE[:]
  order = closure_pairs(req)
  calls = []
  for _ in range(rng.randint(4, 9)):
    k = rng.randrange(d.mp + d.nb)
    calls.append(f'm{k}' if k < d.mp else f'n{k - d.mp}')
  seq = []      # (name invoked, cycle count after)
  for c in calls:
    if c.startswith('n'):
      ok = getattr(top, c).rdy(); seq.append((c + '.rdy', top.sim_cycle_count()))
      if not ok: continue
    getattr(top, c)(1); seq.append((c, top.sim_cycle_count()))
  tr = list(mod.TRACE)
  bnames = [b for b, _ in d.blocks]
  cycles, cur = [], []
  for e in tr:
    if e == 'ff': cycles.append(cur); cur = []
    else: cur.append(e)
  problems = []
  for ci, cyc in enumerate(cycles + [cur]):
    complete = ci < len(cycles)
    for b in bnames:
      n = cyc.count(b)
      if n > 1 or (complete and n != 1): problems.append(f'cycle {ci}: block {b} ran {n} times')
    first = {}
    for k, e in enumerate(cyc): first.setdefault(e, k)
    last = {e: k for k, e in enumerate(cyc)}
    for a, b in order:
      if a in last and b in first and not last[a] < first[b]: problems.append(f'cycle {ci}: {b} executed before {a} although {a} < {b}')
      # a method that was called sees every block that must precede it already executed in this cycle
      if b in first and a in bnames and a not in first: problems.append(f'cycle {ci}: {b} executed, block {a} (< {b}) not yet')
  for (c1, k1), (c2, k2) in zip(seq, seq[1:]):
    if (c1, c2) in order and k2 != k1: problems.append(f'{c1} then {c2} (declared {c1} < {c2}) not in the same cycle: {k1} -> {k2}')
    if ((c2, c1) in order or c1 == c2) and k2 != k1 + 1: problems.append(f'{c1} then {c2} ({c2} <= {c1}) must advance exactly one cycle: {k1} -> {k2}')
  if problems:
    ck.violation('openloop-order', {'tag': 'gen', 'where': 'behaviour'}, case,
                 {'problems': problems[:6], 'calls': seq, 'log': tr[:80],
                  'oracle': 'execution log of a random call sequence: blocks once per cycle, declared order honoured within a cycle, constrained consecutive calls share / advance the cycle'})

def queue_behaviour(ck, kind, top, case):
  problems = []
  top.sim_reset()
  if kind == 'NormalQueueCL':
    if not top.enq.rdy(): problems.append('empty 1-entry NormalQueueCL is not ready for enq')
    else:
      top.enq(11)
      if top.enq.rdy(): problems.append('enq.rdy() True in the cycle after the 1-entry queue was filled (rdy evaluated before up_pulse)')
      elif not top.deq.rdy() or top.deq() != 11: problems.append('message enqueued cannot be dequeued')
  else:
    got, k = [], 0
    for _ in range(6):
      if top.enq.rdy(): top.enq(k); k += 1
      if top.deq.rdy(): got.append(top.deq())
    if not got or got != list(range(len(got))): problems.append(f'{kind}: dequeued {got} after enqueuing 0..{k - 1}')
  if problems:
    ck.violation('openloop-order', {'tag': kind, 'where': 'behaviour'}, case, {'problems': problems})


# ----------------------------------------------------------------------------------------------------------------------
# model tie: Model/OpenLoop.lean (driver pv_openloop) against the real pass and the real execution order
# ----------------------------------------------------------------------------------------------------------------------

class capture_shuffle:
  """record the list OpenLoopCLPass shuffles (its `vertices`): a proxy for the attribute `random` of the pass's module, harness
  process only; every other attribute is the real module's"""
  def __enter__(self):
    import pymtl3.passes.autotick.OpenLoopCLPass as m
    self.m, self.orig, self.lists = m, m.random, []
    cap = self
    class Proxy:
      def __getattr__(s, name): return getattr(cap.orig, name)
      def shuffle(s, l, *a, **k):
        cap.orig.shuffle(l, *a, **k); cap.lists.append(list(l))
    m.random = Proxy()
    return self
  def __exit__(self, *a):
    self.m.random = self.orig

def user_code(port):
  """code object of the user-level function behind a callee port (below the CL-trace wrapper, the bound method and the
  `_bound_method` closure of a rdy function)"""
  m = port.__dict__.get('raw_method') or port.__dict__.get('original_method') or port.method
  for _ in range(6):
    if hasattr(m, '__func__'): m = m.__func__; continue
    if getattr(m, '__name__', '') in ('_bound_method', '_binded_method') and m.__closure__:
      cells = dict(zip(m.__code__.co_freevars, [c.cell_contents for c in m.__closure__]))
      if 'method' in cells: m = cells['method']; continue
    break
  return m.__code__

class ModelTie:
  """phase 1 (after GenDAGPass, before OpenLoopCLPass): the model's input; phase 2 (after the pass): the real result"""
  def __init__(self, top):
    from pymtl3.dsl.Connectable import CalleeIfcCL, CalleePort
    self.top = top
    self.ids, self.names = {}, {}
    V0 = top._dag.final_upblks - top.get_all_update_ff()
    self.blocks = sorted(V0, key=lambda b: b.__name__)
    for b in self.blocks: self.oid(b, b.__name__)
    allports = top.get_all_object_filter(lambda x: isinstance(x, CalleePort) and x.get_host_component() is top)
    self.ports = [x for x in allports if not x.in_non_blocking_interface()]
    self.ifcs = list(top.get_all_object_filter(lambda x: isinstance(x, CalleeIfcCL) and x.get_host_component() is top))
    self.port_rows = [(self.oid(x, vname(x)), self.oid(x.method, 'raw:' + vname(x))) for x in self.ports]
    self.ifc_rows = [(self.oid(x.method, vname(x.method)), self.oid(x.rdy, vname(x.rdy)),
                      self.oid(x.method.method, 'raw:' + vname(x.method)), self.oid(x.rdy.method, 'raw:' + vname(x.rdy))) for x in self.ifcs]
    self.portverts = list(self.ports) + [p for x in self.ifcs for p in (x.method, x.rdy)]
    nm = lambda x: getattr(x, '__name__', None) or repr(x)
    self.cons = [(self.oid(u, nm(u)), self.oid(v, nm(v))) for (u, v) in top._dag.all_constraints]
    self.tlc = [(self.oid(u, 'raw:' + nm(u)), self.oid(v, 'raw:' + nm(v))) for (u, v) in top._dag.top_level_callee_constraints]
    self.vertex_ids = [self.ids[b] for b in self.blocks] + [self.ids[p] for p in self.portverts]
    # every callee port of the design that stands for a top-level one (itself, or a member of its method net: same ACTUAL method)
    self.alias = {}
    for q in top.get_all_object_filter(lambda x: isinstance(x, CalleePort)):
      for tp in self.portverts:
        if q is tp or (q.method is not None and q.method == tp.method): self.alias[q] = tp
    # ... and every original block stands for its greenlet ticker (the vertex after WrapGreenletPass)
    for b, w in (getattr(top._dag, 'blk_greenlet_mapping', None) or {}).items(): self.alias[b] = w

  def oid(self, x, name):
    if x not in self.ids:
      self.ids[x] = len(self.ids); self.names[self.ids[x]] = name
    return self.ids[x]

  def after(self, op, cap):
    """read the real result; returns an error string or None"""
    from pymtl3.passes.tracing.CLLineTracePass import CLLineTracePass
    from pymtl3.passes.tracing.PrintTextWavePass import PrintTextWavePass
    from pymtl3.passes.tracing.VcdGenerationPass import VcdGenerationPass
    top = self.top
    if len(cap.lists) != 1: return f'{len(cap.lists)} shuffles recorded'
    if any(v not in self.ids for v in cap.lists[0]): return 'shuffled vertex unknown to the extraction'
    self.order = [self.ids[v] for v in cap.lists[0]]
    fn = top.sim_reset
    cells = dict(zip(fn.__code__.co_freevars, fn.__closure__))
    sched_of = lambda f: list(dict(zip(f.__code__.co_freevars, f.__closure__))['schedule'].cell_contents)
    self.ups, self.ffs = sched_of(cells['up'].cell_contents), sched_of(cells['ff'].cell_contents)
    self.snm = self.ups + self.ffs
    self.ffblocks = [self.oid(b, b.__name__) for b in top._sched.schedule_ff]
    self.flips = list(top._sched.schedule_posedge_flip)
    self.cfg = (bool(op.print_line_trace), self.ffblocks, top.has_metadata(VcdGenerationPass.vcd_func),
                top.has_metadata(PrintTextWavePass.textwave_func), list(range(len(self.flips))),
                top.has_metadata(CLLineTracePass.clear_cl_trace_func))
    self.ff_expected = {'clearcl': top.get_metadata(CLLineTracePass.clear_cl_trace_func) if self.cfg[5] else None,
                        'vcd': top.get_metadata(VcdGenerationPass.vcd_func) if self.cfg[2] else None,
                        'textwave': top.get_metadata(PrintTextWavePass.textwave_func) if self.cfg[3] else None}
    # the wrappers
    self.wrapped = {}
    for p in self.portverts:
      f = p.method
      if getattr(f, '__name__', '') == 'actual_method' and f.__closure__:
        c = dict(zip(f.__code__.co_freevars, [x.cell_contents for x in f.__closure__]))
        if c['schedule_no_method'] != self.snm: return f'schedule_no_method of {vname(p)} is not ups + ffs of sim_reset'
        self.wrapped[p] = (c['my_idx_orig'], c['my_idx_new'])
    n = len(self.snm) + len(self.wrapped)
    full = [None] * n
    for p, (o, _) in self.wrapped.items():
      if not 0 <= o < n or full[o] is not None: return f'bad my_idx_orig {o}'
      full[o] = p
    it = iter(self.snm)
    for k in range(n):
      if full[k] is None: full[k] = next(it)
    self.full = full
    self.intras = []
    for f in self.ups:
      if getattr(f, '__name__', '').startswith('wrapped_SCC'):
        g = f.__globals__.get('scc')
        if not isinstance(g, list) or any(b not in self.ids for b in g): return 'SCC wrapper without a readable member list'
        self.intras.append([self.ids[b] for b in g])
    return None

  def real_slots(self):
    out = []
    for x in self.full[:len(self.full) - len(self.ffs)]:
      if x in self.wrapped: out.append(['port', str(self.ids[x])])
      elif getattr(x, '__name__', '').startswith('wrapped_SCC'):
        out.append(['scc', x.__name__[len('wrapped_SCC_'):]] + [str(self.ids[b]) for b in x.__globals__['scc']])
      elif x in self.ids: out.append(['blk', str(self.ids[x])])
      else: out.append(['unknown', getattr(x, '__name__', '?')])
    for f in self.ffs:
      nm = getattr(f, '__name__', '?')
      if nm == '<lambda>' and f.__code__.co_filename.endswith('OpenLoopCLPass.py'): out.append(['ff', 'const'])
      elif nm == 'print_line_trace' and f.__code__.co_filename.endswith('OpenLoopCLPass.py'): out.append(['ff', 'print'])
      elif f in self.ids and self.ids[f] in self.ffblocks: out.append(['ff', f'ffblk{self.ids[f]}'])
      elif any(f is g for g in self.flips): out.append(['ff', f'flip{[g is f for g in self.flips].index(True)}'])
      else:
        k = [k for k, g in self.ff_expected.items() if g is not None and g is f]
        out.append(['ff', k[0] if k else 'unknown:' + nm])
    return out

  def line(self, ops):
    return leanio.line('openloop', 'run', ['blocks'] + [self.ids[b] for b in self.blocks], ['ports'] + [list(r) for r in self.port_rows],
                       ['ifcs'] + [list(r) for r in self.ifc_rows], ['cons'] + [list(c) for c in self.cons],
                       ['tlc'] + [list(c) for c in self.tlc], ['order'] + self.order,
                       ['ff', self.cfg[0], ['ffblocks'] + self.cfg[1], self.cfg[2], self.cfg[3], ['flips'] + self.cfg[4], self.cfg[5]],
                       ['intra'] + self.intras, ['ops'] + ops)

  def model_input(self):
    return {'blocks': [self.ids[b] for b in self.blocks], 'ports': self.port_rows, 'ifcs': self.ifc_rows, 'cons': self.cons, 'tlc': self.tlc,
            'order': getattr(self, 'order', None), 'names': {str(k): v for k, v in sorted(self.names.items())}}

  def run_ops(self, rng, nops, protocol=False):
    """random top-level calls on the real simulator; returns (ops for the model, observed events, cycle counts after each op, error).
    protocol: a method of a non-blocking interface is only called after its rdy returned True (stdlib queues)"""
    top = self.top
    code2 = {}
    for k, f in enumerate(self.snm):
      if hasattr(f, '__code__'): code2.setdefault(f.__code__, []).append(f'r{k}')
    nargs = {}
    for p, (o, _) in self.wrapped.items():
      code = user_code(p)
      code2.setdefault(code, []).append(f'm{o}'); nargs[p] = max(code.co_argcount - 1, 0)
    events = []
    def prof(frame, event, arg):
      if event == 'call':
        lab = code2.get(frame.f_code)
        if lab is not None: events.append(lab)
    wl = sorted(self.wrapped, key=lambda p: self.wrapped[p][0])
    ifc_of = {x.method: x for x in self.ifcs}
    ops, cyc = [], []
    def do(p):
      sys.setprofile(prof)
      try: r = top.sim_reset() if p is None else p(*([1] * nargs[p]))
      finally: sys.setprofile(None)
      ops.append('reset' if p is None else self.ids[p]); cyc.append(top.sim_cycle_count())
      return r
    try:
      if rng.random() < 0.75: do(None)
      while len(ops) < nops and wl:
        if rng.random() < 0.04: do(None); continue
        p = rng.choice(wl)
        if p in ifc_of and ifc_of[p].rdy in self.wrapped and (protocol or rng.random() < 0.5):
          if not do(ifc_of[p].rdy): continue          # the protocol of a non-blocking interface: ask rdy, call only if ready
        do(p)
    except Exception as e:
      return ops, events, cyc, f'{type(e).__name__}: {e}'[:300]
    return ops, events, cyc, None

def reply_tree(rep):
  return {t[0]: t[1:] for t in leanio.parse_sexp(rep) if isinstance(t, list)}

def model_tie_static(ck, tie, rep, case):
  """compare the model's static result (reply `rep`) with the real one; returns (ok, exact, tree)"""
  tree = reply_tree(rep)
  if not rep.startswith('ok '):
    ck.disagreement('OpenLoopCLPass≈Model/OpenLoop: verdict', case, rep[:300], 'scheduled')
    return False, False, tree
  n = len(tree['sccs'])
  rows = [[int(x) for x in r] for r in tree['gnew']]
  # CPython iterates a set of small ints by table slot (x % 8 below 5 members, x % 32 from the fifth on): reproducible when no two
  # members share a slot (the driver orders the rows that way)
  exact = all((len(r) < 5 and len({x % 8 for x in r}) == len(r)) or (len(r) >= 5 and n <= 32) for r in rows)
  ck.hist('openloop_model_exact', int(exact))
  real = tie.real_slots()
  msched = tree['sched']
  if exact:
    if msched != real:
      ck.disagreement('OpenLoopCLPass≈Model/OpenLoop: schedule (update_schedule + ffs)', case, msched, real)
      return False, exact, tree
    mw = sorted((int(v), int(o), int(k)) for v, o, k in tree['wraps'])
    rw = sorted((tie.ids[p], o, k) for p, (o, k) in tie.wrapped.items())
    if mw != rw:
      ck.disagreement('OpenLoopCLPass≈Model/OpenLoop: wrapper indices (vertex, my_idx_orig, my_idx_new)', case, mw, rw)
      return False, exact, tree
  else:
    key = lambda s: sorted((tuple(sorted(x[2:])) if x[0] == 'scc' else (x[0], x[1])) for x in s)
    if key(msched) != key(real):
      ck.disagreement('OpenLoopCLPass≈Model/OpenLoop: schedule entries (as a set; G_new row order not reproducible)', case, msched, real)
      return False, exact, tree
  return True, exact, tree

def model_tie_dynamic(ck, tie, tree, ops, events, cyc, err, case):
  if err is not None:
    ck.disagreement('OpenLoopCLPass≈Model/OpenLoop: a top-level call raised', dict(case, ops=ops), 'no call of a wrapped port raises', err); return
  flat = [e for c in tree['done'] for e in c] + list(tree['cur'])
  mcyc = [int(c) for c in tree['cycles']]
  bad = len(flat) != len(events) or any(m not in labs for m, labs in zip(flat, events))
  if bad or mcyc != cyc:
    k = next((i for i, (m, labs) in enumerate(zip(flat, events)) if m not in labs), min(len(flat), len(events)))
    ck.disagreement('OpenLoopCLPass≈Model/OpenLoop: execution order of a call sequence (sys.setprofile) / sim_cycle_count',
                    dict(case, ops=ops), {'events': ' '.join(flat)[:600], 'cycles': mcyc, 'first_difference_at': k},
                    {'events': ' '.join('|'.join(l) for l in events)[:600], 'cycles': cyc})

def model_tie(ck, top, op, case, rng2, lines, meta, nops, protocol=False):
  """apply the pass with the shuffle captured, run a random call sequence, queue the model request"""
  tie = ModelTie(top)
  real_err = None
  with capture_shuffle() as cap:
    try: top.apply(op)
    except Exception as e: real_err = type(e).__name__
  c = dict(case); c['model'] = True
  if real_err:
    if len(cap.lists) != 1: raise InfraError(f'c02_openloop.ModelTie: {real_err} before the shuffle')
    tie.order = [tie.ids[v] for v in cap.lists[0]]
    tie.cfg, tie.intras = (False, [], False, False, [], False), []
    c['model_input'] = tie.model_input()
    lines.append(tie.line([])); meta.append((tie, c, real_err, None, None, None))
    return tie
  err = tie.after(op, cap)
  if err: raise InfraError(f'c02_openloop.ModelTie: {err}')
  ops, events, cyc, rerr = tie.run_ops(rng2, nops, protocol=protocol)
  c['model_input'] = tie.model_input()
  lines.append(tie.line(ops)); meta.append((tie, c, None, (ops, events, cyc), rerr, None))
  return tie

def model_compare(ck, lines, meta):
  if not lines: return
  replies = ck.drv('openloop').batch(lines)
  for (tie, case, real_err, run, rerr, _), rep in zip(meta, replies):
    tie.top = None
    if reply_tree(rep).get('portinscc') == ['1']:
      # a CalleePort inside a non-trivial SCC: the pass sorts the group by __name__ (AttributeError), or generates a wrapper that calls the
      # port, and does not wrap the port: outside the model (and outside what the pass supports)
      ck.hist('openloop_model_verdict', 'port-in-scc:' + (real_err or 'scheduled'))
      if real_err is None and all(p in tie.wrapped for p in tie.portverts):
        ck.disagreement('OpenLoopCLPass≈Model/OpenLoop: verdict', case, 'a callee port lies on a constraint cycle (non-trivial SCC): ' + rep[:300],
                        'scheduled, every callee port wrapped: ' + str(tie.real_slots()))
      continue
    if real_err:
      ck.hist('openloop_model_verdict', real_err)
      if not (real_err == 'AssertionError' and rep.startswith('err schedAssert')):
        ck.disagreement('OpenLoopCLPass≈Model/OpenLoop: verdict', case, rep[:300], real_err)
      continue
    ck.hist('openloop_model_verdict', 'ok')
    ok, exact, tree = model_tie_static(ck, tie, rep, case)
    ck.hist('openloop_model_sccs', min(len(tree.get('sccs', [])), 12))
    ck.hist('openloop_model_nontrivial_groups', sum(1 for g in tree.get('sccs', []) if len(g) > 1))
    ck.hist('openloop_model_callee_edges', min(len(tie.tlc), 6))
    if ok and exact: model_tie_dynamic(ck, tie, tree, run[0], run[1], run[2], rerr, case)


def static_check2(ck, d, tie, case, tag='gen2'):
  """direct oracle for the second family, on the schedule the pass installed (SCC wrappers allowed): every block exactly once (as an
  entry or inside exactly one wrapper); every declared pair and every writer -> reader pair of the value wires in order, unless both
  ends sit in one wrapper"""
  where = {}
  dup = []
  for k, x in enumerate(tie.full[:len(tie.full) - len(tie.ffs)]):
    ms = x.__globals__['scc'] if getattr(x, '__name__', '').startswith('wrapped_SCC') else [x]
    for m in ms:
      if m in where: dup.append(vname(m))
      where[m] = k
  missing = [b.__name__ for b in tie.blocks if b not in where]
  if dup or missing:
    ck.violation('openloop-schedule', {'tag': tag, 'what': 'blocks-not-exactly-once'}, case,
                 {'duplicates': dup, 'missing': missing, 'oracle': 'every update block exactly once in the open-loop schedule'})
    return
  al = lambda x: tie.alias.get(x, x)
  req = [(al(a), al(b), w) for a, b, w in declared_pairs(tie.top, set(tie.alias) | set(tie.blocks))]
  byname = {b.__name__: b for b in tie.blocks}
  req += [(byname[a], byname[b], f'{b} reads o_{a}') for b, rs in d.reads.items() for a in rs]
  bad = [(vname(a), vname(b), why) for a, b, why in req if a in where and b in where and where[a] != where[b] and not where[a] < where[b]]
  if bad:
    ck.violation('openloop-order', {'tag': tag, 'where': 'schedule'}, case,
                 {'violated': bad[:6], 'schedule': [vname(v) if v in tie.ids else getattr(v, '__name__', '?') for v in tie.full],
                  'oracle': 'every declared X < Y and every writer -> reader pair between different schedule entries is honoured'})

# ----------------------------------------------------------------------------------------------------------------------
# third family: a greenlet-wrapped block (it calls a blocking FL method of a child) constrained against top-level methods
# ----------------------------------------------------------------------------------------------------------------------

GL_HEAD = '''from pymtl3 import *
from pymtl3.dsl import CalleeIfcFL, CallerIfcFL
TRACE = []
class OGL{u}( Component ):
  def construct( s ):
    s.look = CalleeIfcFL( method=s.look_ )
  def look_( s, v ):
    return v + 1
'''

class GLDesign:
  '''top: push(v) stores v; `drive` copies it to wire a; the update_once block up_g computes w = lut.look( a or v ) through a blocking
  CallerIfcFL (so WrapGreenletPass wraps it); pull() returns w.  Declared: M(push) < U(drive) or M(push) < U(up_g) (block on the right),
  U(up_g) < M(pull) or M(pull) < U(up_g) (block on the left / right); push / pull are plain method ports or non-blocking interfaces
  (then a right-hand method stands for its rdy); an optional extra block with one more constraint'''
  def __init__(self, rng, uid):
    self.uid = uid
    self.src_v = rng.random() < 0.4                    # up_g reads s.v itself: M(push) < U(up_g)
    self.after = rng.random() < 0.7                    # U(up_g) < M(pull): pull returns this cycle's value
    self.kind = {m: rng.choice(['mp', 'nb']) for m in ('push', 'pull')}
    self.extra = rng.choice([None, 'U( b0 ) < M( s.pull )', 'M( s.push ) < U( b0 )', 'U( b0 ) < U( up_g )'])
    self.reads = {} if self.src_v else {'up_g': ['drive']}
    self.order = ['drive', 'up_g'] + (['b0'] if self.extra else []); rng.shuffle(self.order)

  def source(self):
    u = self.uid
    body = {'drive': ['    @update', '    def drive():', "      TRACE.append( 'drive' )", '      s.a @= s.v'],
            'up_g': ['    @update_once', '    def up_g():', "      TRACE.append( 'up_g' )",
                     '      s.w @= s.look( ' + ('Bits8( s.v )' if self.src_v else 's.a') + ' )'],
            'b0': ['    @update', '    def b0():', "      TRACE.append( 'b0' )"]}
    L = [GL_HEAD.format(u=u), f'class OG{u}( Component ):', '  def construct( s ):', '    s.v = 0',
         '    s.a = Wire( Bits8 ); s.w = Wire( Bits8 )', f'    s.lut = OGL{u}(); s.look = CallerIfcFL(); s.look //= s.lut.look']
    for b in self.order: L += body[b]
    cons = ['M( s.push ) < U( up_g )' if self.src_v else 'M( s.push ) < U( drive )',
            'U( up_g ) < M( s.pull )' if self.after else 'M( s.pull ) < U( up_g )'] + ([self.extra] if self.extra else [])
    L += ['    s.add_constraints( ' + ', '.join(cons) + ' )', '    @update_ff', '    def up_ff():', "      TRACE.append( 'ff' )"]
    for m, sig, stmt in (('push', 's, v', 's.v = v'), ('pull', 's', 'return int( s.w )')):
      L.append('  @method_port' if self.kind[m] == 'mp' else f"  @non_blocking( lambda s: ( TRACE.append( '{m}.rdy' ), True )[1] )")
      L += [f'  def {m}( {sig} ):', f"    TRACE.append( '{m}' )", f'    {stmt}']
    return '\n'.join(L) + '\n'

def gl_behaviour(ck, d, top, mod, case, names, rng):
  '''push(v) then pull(), several rounds; oracle on the design's own execution log and on the values'''
  top.sim_reset()
  del mod.TRACE[:]
  order = {(a, b) for a, b, _ in names}
  while True:
    more = {(a, d2) for a, b in order for c, d2 in order if b == c} - order
    if not more: break
    order |= more
  vals, got, cyc = [], [], []
  for _ in range(rng.randint(3, 5)):
    v = rng.randint(1, 100); vals.append(v)
    if d.kind['push'] == 'nb': top.push.rdy()
    top.push(v)
    if d.kind['pull'] == 'nb': top.pull.rdy()
    got.append(top.pull()); cyc.append(top.sim_cycle_count())
  tr = list(mod.TRACE)
  cycles, cur = [], []
  for e in tr:
    if e == 'ff': cycles.append(cur); cur = []
    else: cur.append(e)
  blocks = set(d.order)
  problems = []
  for ci, c in enumerate(cycles + [cur]):
    for b in blocks:
      n = c.count(b)
      if n > 1 or (ci < len(cycles) and n != 1): problems.append(f'cycle {ci}: block {b} ran {n} times')
    first = {}
    for k, e in enumerate(c): first.setdefault(e, k)
    last = {e: k for k, e in enumerate(c)}
    for a, b in order:
      if a in last and b in first and not last[a] < first[b]: problems.append(f'cycle {ci}: {b} executed before {a} although {a} < {b}')
      if b in first and a in blocks and a not in first: problems.append(f'cycle {ci}: {b} executed, block {a} (< {b}) not yet')
  if d.after:
    # push < (drive <) up_g < pull: what is pushed is looked up and pulled in the same cycle, one cycle per round
    if got != [v + 1 for v in vals]: problems.append(f'pull() returned {got} after push of {vals}: expected {[v + 1 for v in vals]}')
    if cyc != list(range(cyc[0], cyc[0] + len(cyc))): problems.append(f'sim_cycle_count after the rounds: {cyc}, expected one cycle per round')
  if problems:
    ck.violation('openloop-order', {'tag': 'greenlet', 'where': 'behaviour'}, case,
                 {'problems': problems[:6], 'pushed': vals, 'pulled': got, 'log': tr[:80],
                  'oracle': 'greenlet-wrapped block against top-level methods: blocks once per cycle, declared order honoured in the execution '
                            'log, pull() returns lut( value pushed in this cycle ) when U(up_g) < M(pull)'})

def gl_case(ck, d, cls, mod, case, rng2, tlines, tmeta, nops):
  '''one (design, shuffle): instance 1 = model tie + schedule oracle; instance 2 = behaviour / value oracle'''
  top = cls()
  tie = model_tie(ck, top, apply_openloop(top, case['seed'], wrapgl=True), case, rng2, tlines, tmeta, nops)
  if not hasattr(tie, 'full'):
    ck.violation('openloop-rejected', {'tag': 'greenlet'}, case, {'oracle': 'the declared constraints are consistent: the design is schedulable'}); return
  static_check2(ck, d, tie, case, tag='greenlet')
  # structural tie: after WrapGreenletPass no constraint against a top-level method may still name an original (now wrapped) block —
  # such an end is no vertex, model and pass both drop the pair
  stale = [(getattr(x, '__name__', '?'), getattr(y, '__name__', '?')) for x, y in tie.top._dag.top_level_callee_constraints
           if x in tie.top._dag.blk_greenlet_mapping or y in tie.top._dag.blk_greenlet_mapping]
  if stale: ck.disagreement('top_level_callee_constraints re-keyed by WrapGreenletPass (every block end is a vertex of the open-loop graph)', case,
                            'no end is a wrapped original block', stale)
  al = lambda x: tie.alias.get(x, x)
  names = [(vname(al(a)), vname(al(b)), w) for a, b, w in declared_pairs(tie.top, set(tie.alias) | set(tie.blocks))]
  names += [(a, b, 'value') for b, rs in d.reads.items() for a in rs]
  top2 = cls(); top2.apply(apply_openloop(top2, case['seed'], wrapgl=True))
  gl_behaviour(ck, d, top2, mod, case, names, rng2)

def third_family(ck, rng2, tlines, tmeta, ndes, reps, nops):
  for _ in range(ndes):
    d = GLDesign(rng2, next(c02_methods._uid))
    src = d.source()
    cls = c02_methods.load(ck, src, f'OG{d.uid}')
    mod = sys.modules[cls.__module__]
    for rep in range(reps):
      seed = rng2.randrange(1 << 30)
      case = {'openloop': True, 'source': src, 'top': f'OG{d.uid}', 'seed': seed, 'family': 3, 'wrapgl': True,
              'gl': {'src_v': d.src_v, 'after': d.after, 'kind': d.kind, 'extra': d.extra, 'order': d.order}}
      ck.count({'src': hash(src) & 0xffffffff, 'seed': seed, 'family': 3}, True)
      ck.hist('openloop_design', 'greenlet'); ck.hist('openloop_greenlet_shape', f"{'v' if d.src_v else 'a'}/{'after' if d.after else 'before'}/{d.kind['push']}/{d.kind['pull']}")
      gl_case(ck, d, cls, mod, case, rng2, tlines, tmeta, nops)

def second_family(ck, rng2, tlines, tmeta, ndes, reps, nops):
  """tops with value wires between the update blocks and free (not rank-consistent) constraints: non-trivial SCCs, rings that
  only the assert reports"""
  for _ in range(ndes):
    d = OLDesign(rng2, next(c02_methods._uid), wires=True, free=rng2.random() < 0.6)
    src = d.source()
    wrapped = rng2.random() < 0.35
    if wrapped: src += d.wrapper_source(rng2)
    topname = f'OW{d.uid}' if wrapped else f'OT{d.uid}'
    cls = c02_methods.load(ck, src, topname)
    for rep in range(reps):
      seed = rng2.randrange(1 << 30)
      case = {'openloop': True, 'source': src, 'top': topname, 'seed': seed, 'family': 2}
      ck.count({'src': hash(src) & 0xffffffff, 'seed': seed, 'family': 2}, bool(d.lt))
      ck.hist('openloop_design', 'gen2-wrapped' if wrapped else 'gen2')
      top = cls()
      tie = model_tie(ck, top, apply_openloop(top, seed), case, rng2, tlines, tmeta, nops)
      if hasattr(tie, 'full') and all(p in tie.wrapped for p in tie.portverts): static_check2(ck, d, tie, case)

def run(ck):
  # own PRNG and the global `random` state restored afterwards: the other streams of c02.run are not perturbed
  rng = random.Random(f'{ck.seed}:C02:{ck.tier}:openloop')
  state = random.getstate()
  try: _run(ck, rng)
  finally: random.setstate(state)

def _run(ck, rng):
  lines, meta = [], []
  ndes, reps = (40, 10) if ck.tier == 'quick' else (300, 12)
  # model tie (Model/OpenLoop.lean): own PRNG, own instances of the designs — the stream above is not perturbed
  rng2 = random.Random(f'{ck.seed}:C02:{ck.tier}:openloop-model')
  tlines, tmeta = [], []
  tie_reps, nops = (5, 12) if ck.tier == 'quick' else (8, 14)
  for _ in range(ndes):
    d = OLDesign(rng, next(c02_methods._uid))
    src = d.source()
    cls = c02_methods.load(ck, src, f'OT{d.uid}')
    mod = __import__('sys').modules[cls.__module__]
    for rep in range(reps):
      seed = rng.randrange(1 << 30)
      case = {'openloop': True, 'source': src, 'top': f'OT{d.uid}', 'seed': seed}
      ck.count({'src': hash(src) & 0xffffffff, 'seed': seed}, bool(d.lt))
      ck.hist('openloop_design', 'gen')
      try:
        top = cls(); op = apply_openloop(top, seed)
        if rep == 0:
          ex = c02_methods.Extract(top)
          added, before = c02_methods.added_pairs(top, ex)
          c = dict(case); c['input'] = ex.model_input()
          lines.append(ex.line()); meta.append((c, added, before))
        top.apply(op)
      except Exception as e:
        ck.violation('openloop-rejected', {'tag': 'gen', 'exc': type(e).__name__}, case,
                     {'what': f'{type(e).__name__}: {e}'[:400], 'oracle': 'constraints consistent with one rank order are schedulable'})
        break
      res = static_check(ck, top, case, 'gen')
      if res is None: continue
      ck.hist('openloop_required_pairs', min(len(res[2]), 10))
      behaviour(ck, d, top, mod, case, res[2], rng)
      if rep < tie_reps:
        top2 = cls(); model_tie(ck, top2, apply_openloop(top2, seed), case, rng2, tlines, tmeta, nops)
  # stdlib queues at top
  from pymtl3.stdlib.queues.cl_queues import BypassQueueCL, NormalQueueCL, PipeQueueCL
  for Q in (NormalQueueCL, PipeQueueCL, BypassQueueCL):
    for n in (1, 2):
      for rep in range(reps):
        seed = rng.randrange(1 << 30)
        case = {'openloop': True, 'stdlib': Q.__name__, 'n': n, 'seed': seed}
        ck.count(case, True); ck.hist('openloop_design', Q.__name__)
        top = Q(n); top.apply(apply_openloop(top, seed))
        if static_check(ck, top, case, Q.__name__) is not None and n == 1: queue_behaviour(ck, Q.__name__, top, case)
        if rep < tie_reps:
          top2 = Q(n); model_tie(ck, top2, apply_openloop(top2, seed), case, rng2, tlines, tmeta, nops, protocol=True)
  c02_methods.compare(ck, lines, meta)
  # ck.count draws from ck.rng: put its state back so that the streams that run after this one generate what they generated before
  # the second family existed
  state = ck.rng.getstate()
  try:
    second_family(ck, rng2, tlines, tmeta, ndes, tie_reps, nops)
    third_family(ck, rng2, tlines, tmeta, *((12, 6) if ck.tier == 'quick' else (80, 10)), nops)
  finally: ck.rng.setstate(state)
  model_compare(ck, tlines, tmeta)
  ck.extra_cov['openloop_designs'] = ndes + 6
  ck.extra_cov['openloop_model_runs'] = len(tlines)

def replay_model(ck, case):
  """model and implementation side by side for one (design, seed): static result and one random call sequence"""
  rng2 = random.Random(case.get('seed', 0))
  lines, meta = [], []
  if case.get('stdlib'):
    from pymtl3.stdlib.queues import cl_queues
    top = getattr(cl_queues, case['stdlib'])(case['n'])
  else:
    top = c02_methods.load(ck, case['source'], case['top'])()
  state = random.getstate()
  try:
    tie = model_tie(ck, top, apply_openloop(top, case['seed'], wrapgl=bool(case.get('wrapgl'))), case, rng2, lines, meta, 10, protocol=bool(case.get('stdlib')))
  finally: random.setstate(state)
  rep = ck.drv('openloop').batch(lines)[0]
  print('request:', lines[0][:1500]); print('model  :', rep[:1500])
  if meta[0][2]: print('impl   :', meta[0][2])
  else:
    print('impl   : sched', tie.real_slots(), 'wraps', sorted((tie.ids[p], o, k) for p, (o, k) in tie.wrapped.items()))
    print('impl   : ops', meta[0][3][0], 'events', ' '.join('|'.join(l) for l in meta[0][3][1]), 'cycles', meta[0][3][2])
  n0 = len(ck.breaks)
  model_compare(ck, lines, meta)
  for b in ck.breaks[n0:]: print('DISAGREEMENT', b['correspondence'], 'model:', str(b['model'])[:600], 'impl:', str(b['impl'])[:600])
  return 1 if len(ck.breaks) > n0 else 0

def replay_greenlet(ck, case):
  d = GLDesign(random.Random(0), 0)
  for k, v in case['gl'].items(): setattr(d, k, v)
  d.reads = {} if d.src_v else {'up_g': ['drive']}
  cls = c02_methods.load(ck, case['source'], case['top'])
  n0, lines, meta = len(ck.violations), [], []
  state = random.getstate()
  try: gl_case(ck, d, cls, sys.modules[cls.__module__], case, random.Random(case['seed']), lines, meta, 10)
  finally: random.setstate(state)
  if meta and meta[0][3]: print('schedule:', meta[0][0].real_slots(), {str(k): v for k, v in sorted(meta[0][0].names.items())})
  for v in ck.violations[n0:]: print('VIOLATION', v.kind, v.signature, str(v.detail)[:1500])
  return 1 if len(ck.violations) > n0 else 0

def replay(ck, case):
  if case.get('model'): return replay_model(ck, case)
  if case.get('wrapgl'): return replay_greenlet(ck, case)
  n0 = len(ck.violations)
  if case.get('stdlib'):
    from pymtl3.stdlib.queues import cl_queues
    top = getattr(cl_queues, case['stdlib'])(case['n']); top.apply(apply_openloop(top, case['seed']))
    res = static_check(ck, top, case, case['stdlib'])
  else:
    cls = c02_methods.load(ck, case['source'], case['top'])
    top = cls(); top.apply(apply_openloop(top, case['seed']))
    res = static_check(ck, top, case, 'gen')
  if res: print('schedule:', [vname(v) for v in res[3]]); print('required:', [(vname(a), vname(b), w) for a, b, w in res[2]])
  for v in ck.violations[n0:]: print('VIOLATION', v.kind, v.signature, str(v.detail)[:1200])
  return 1 if len(ck.violations) > n0 else 0
