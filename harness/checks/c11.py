"""C11 — combinational cycles settle on a fixed point or are reported.

proof:          lean/PymtlVerif/Props/C11.lean (stable_is_fixed_point, watchOKB_sound, none_means_unstable, fixed_point_accepted,
                false_loop_eq_acyclic)
correspondence: cyclic designs (false loops through disjoint slices, convergent true loops, divergent loops, loops with an
                update_once block) under DynamicSchedulePass and Mamba2020; the real inner order and the real watch list are read
                from the generated SCC wrapper and given to the model's `iterate`; the model also evaluates `watchOKB` on them;
                the LOOP STRUCTURE of every generated wrapper is parsed into Model/LoopIR.IR and `IR.ok` is evaluated on it
                (Props/C11w.lean: ok => the wrapper is `iterate`); the same kinds as method-driven tops under OpenLoopCLPass
                (harness/checks/c11_openloop.py)
direct oracle:  (a) after return every block re-run changes nothing, (b) false loops equal the acyclic reference, (c) divergent
                loops raise UpblkCyclicError with <= 100 sweeps, (d) acyclic-only passes raise UpblkCyclicError at scheduling time
"""
import sys

from ..common import leanio, rtlgen
from . import c11_scc, c01_mamba, c11_openloop
from ..common.leanio import InfraError

PID = 'C11'
DRIVERS = ['rtl'] + c11_scc.DRIVERS
MODULE = ['PymtlVerif.Props.C11', c11_scc.MODULE]
THEOREMS = ['PV.C11.' + t for t in ['stable_sound', 'watchOKB_sound', 'iterate_some', 'stable_is_fixed_point', 'none_means_unstable',
                                    'fixed_point_accepted', 'false_loop_eq_acyclic', 'iterate_frame', 'runEntries_frame', 'fixed_transfer', 'run_idem', 'whole_schedule']] + c11_scc.THEOREMS
THEOREM_MODULE = {t: c11_scc.MODULE for t in c11_scc.THEOREMS}
TRUSTED = [
  'Model/Rtl.lean iterate/runEntries = the SCC super-block: no longer taken on trust for the loop shape - the generated wrapper is parsed into '
  'Model/LoopIR.IR on every run and PV.C11w.run_eq_iterate applies when the driver evaluates IR.ok = 1 (see c11_openloop.TRUSTED for the parser)',
  'the watch list and inner order are parsed from the generated wrapper source (inspect.getsource) by rtlgen.parse_scc',
] + c11_scc.TRUSTED
ASSUMPTIONS = ['self-dependence inside one block (reading a bit the same block writes) is outside the hypotheses (GenDAGPass ignores it)']
# ---- begin: Mamba2020 SCC packing on hub designs with several instances of one lane class (harness/checks/c01_mamba.py, part='scc')
DRIVERS = DRIVERS + c01_mamba.DRIVERS
MODULE = MODULE + [c01_mamba.MODULE]
THEOREMS = THEOREMS + c01_mamba.THEOREMS_SCC
THEOREM_MODULE.update({t: c01_mamba.MODULE for t in c01_mamba.THEOREMS_SCC})
TRUSTED = TRUSTED + c01_mamba.TRUSTED
# ---- end
# ---- begin: loop structure of the generated wrappers + cyclic designs under OpenLoopCLPass (harness/checks/c11_openloop.py)
DRIVERS = DRIVERS + c11_openloop.DRIVERS
MODULE = MODULE + [c11_openloop.MODULE]
THEOREMS = THEOREMS + c11_openloop.THEOREMS
THEOREM_MODULE.update({t: c11_openloop.MODULE for t in c11_openloop.THEOREMS})
TRUSTED = TRUSTED + c11_openloop.TRUSTED
# ---- end

RULE = ('cyclic designs of seven kinds (false / false loop through separately written fields of a bitstruct read as a whole / convergent pair / convergent ring of 3-4 / ring of 10-14 mostly branchy blocks (cut into several meta blocks by Mamba2020) / divergent / update_once-in-loop) plus upstream and '
        'downstream blocks, random operators and widths; a case = (design, pass group); all are non-trivial; distinct by (source, flow)')

RULE = RULE + ' | ' + c11_scc.RULE + ' | ' + c11_openloop.RULE

def fn1(rng, w, e):
  """a random unary function of width w"""
  k = rng.random()
  if k < 0.3: return ('b', 'add', w, e, ('c', w, rng.randint(1, (1 << w) - 1)))
  if k < 0.5: return ('b', 'xor', w, e, ('c', w, rng.getrandbits(w)))
  if k < 0.65: return ('n', w, e)
  if k < 0.8: return ('b', 'and', w, e, ('c', w, rng.getrandbits(w) | 1))
  return e

def gen_cyclic(rng, kind):
  d = rtlgen.Design(rng, next(rtlgen._uid))
  w = rng.choice([1, 2, 4, 4, 8])
  d.new_sig('', 'reset', 1, 'in')
  i0 = d.new_sig('', 'in0', w, 'in'); i1 = d.new_sig('', 'in1', w, 'in')
  out = d.new_sig('', 'out0', w, 'out')
  def blk(asgs, kind_='comb', styles=None):
    bid = d.new_id()
    d.blocks.append({'id': bid, 'name': f'blk_{bid}', 'comp': '', 'kind': kind_, 'asgs': asgs, 'styles': styles or {}})
    return bid
  R = lambda s, lo=0, ww=None: ('r', s.idx, lo, ww if ww is not None else s.width)
  fine = None
  if kind == 'false':
    n = rng.randint(2, 3)
    if rng.random() < 0.4:
      # the sliced signal is a FIELD of a bitstruct wire: the watched variables are then slices of a struct field (a slice
      # of a plain Bits wire is widened to the whole wire by the schedulers, a slice of a field is not)
      flds = [('g', w), ('f', n * w)]
      rng.shuffle(flds)
      sx = rtlgen.StructT(f'SX{d.uid}', flds)
      xs_ = d.new_sig('', 'xs', 0, 'wire', sx)
      fo = next(lo for (p_, lo, ww, _) in sx.named() if p_ == 'f')
      class _Fld:          # a view of field f of xs with the interface of a signal (idx, width) for the code below
        idx = xs_.idx; width = n * w; off = fo
      x = _Fld
    else:
      x = d.new_sig('', 'x', n * w, 'wire')
      x.off = 0
    ys = [d.new_sig('', f'y{i}', w, 'wire') for i in range(n - 1)]
    # block A writes all slices of x: slice 0 from the input, slice i from y[i-1]; block Bi: y[i] = f(x slice i)
    asgs = [((x.idx, x.off, w), fn1(rng, w, R(i0)))]
    for i in range(1, n): asgs.append(((x.idx, x.off + i * w, w), fn1(rng, w, R(ys[i - 1]))))
    if rng.random() < 0.5: asgs.reverse()
    blk(asgs)
    # optionally the read of x that closes the loop is made inside an `@s.func` helper that another, earlier defined block
    # calls as well (the reads of a helper belong to EVERY block that calls it)
    via_helper = rng.random() < 0.35
    if via_helper:
      he = fn1(rng, w, R(x, x.off, w))
      if he[0] == 'r': he = ('n', w, he)
      d.helpers.append(('hf0', he, w))
      def call():
        e = (he[0],) + he[1:]
        d.fn_call[id(e)] = (e, 'hf0')
        return e
      z = d.new_sig('', 'z', w, 'wire')
      for _ in range(rng.randint(1, 2)):        # earlier callers of the same helper
        blk([((z.idx, 0, w), ('b', 'xor', w, call(), R(i1)))] if _ == 0 else [((out.idx, 0, w), ('b', 'xor', w, call(), R(x, x.off + (n - 1) * w, w)))])
      d.via_helper = True
    nout = sum(1 for b_ in d.blocks for (t, _e) in b_['asgs'] if t[0] == out.idx)
    for i in range(n - 1):
      src_ = call() if (via_helper and i == 0) else fn1(rng, w, R(x, x.off + i * w, w))
      blk([((ys[i].idx, 0, w), src_)])
    if not nout: blk([((out.idx, 0, w), ('b', 'xor', w, R(x, x.off + (n - 1) * w, w), R(i1)))])
    expect = 'value'
  elif kind == 'conv':
    a = d.new_sig('', 'a', w, 'wire'); b = d.new_sig('', 'b', w, 'wire')
    op = rng.choice(['or', 'and'])
    blk([((a.idx, 0, w), ('b', op, w, R(b), R(i0)))])
    blk([((b.idx, 0, w), ('b', op, w, R(a), R(i1)))])
    if rng.random() < 0.5:
      c = d.new_sig('', 'c', w, 'wire')
      blk([((c.idx, 0, w), ('b', op, w, R(a), R(b)))])
      blk([((out.idx, 0, w), R(c))])
    else:
      blk([((out.idx, 0, w), R(b))])
    expect = 'value'
  elif kind == 'ring':
    # a monotone ring of 3-4 blocks: x0 = x1 op i, x1 = x2 op j, ..., x_{k-1} = x0 op l; converging needs up to k sweeps,
    # so a watch list that misses one of the variables returns an unstable state for some inputs
    k = rng.randint(3, 4)
    # names with prefix relations on purpose (x / x2 / x2b ...): the watch-list construction sorts and compares reprs
    pool = rng.choice([['x', 'x2', 'x2b', 'xx'], ['a', 'ab', 'abc', 'b'], ['y', 'y1', 'y10', 'y2'], ['x0', 'x1', 'x2', 'x3']])
    rng.shuffle(pool)
    xs = [d.new_sig('', pool[i], w, 'wire') for i in range(k)]
    op = rng.choice(['or', 'and'])
    ins = [i0, i1, d.new_sig('', 'in2', w, 'in'), d.new_sig('', 'in3', w, 'in')]
    # optionally an upstream block whose output every ring block reads: then every ring block is a BFS root of the
    # intra-SCC order and the sweep order is by block name, possibly against the data flow
    up = None
    if rng.random() < 0.5:
      up = d.new_sig('', 'en', w, 'wire')
      blk([((up.idx, 0, w), ('b', 'or', w, R(i0), ('c', w, (1 << w) - 1)))])
    order = list(range(k)); rng.shuffle(order)
    for i in order:
      e = ('b', op, w, R(xs[(i + 1) % k]), R(ins[i]))
      if up is not None: e = ('b', 'and', w, e, R(up))
      blk([((xs[i].idx, 0, w), e)])
    blk([((out.idx, 0, w), R(xs[0]))])
    expect = 'value'
  elif kind == 'structloop':
    # a false loop through the fields of a bitstruct: one block writes two (or three) fields of `m` separately, another block
    # of the same cyclic group reads `m` as a whole (`s.n @= s.m`); the watch list is built from the objects recorded for the
    # edges, so every field written in the group has to end up watched, whichever side discovered the edge
    nf = rng.randint(2, 3)
    if rng.random() < 0.5:
      # a nested struct field: a sweep that changes only nested leaves must still be seen by the stability test
      inner = rtlgen.StructT(f'SLI{d.uid}', [(f'g{i}', w) for i in range(2)])
      fields = [('h', inner)] + [(f'f{i}', w) for i in range(nf - 2)]
      rng.shuffle(fields)
    else:
      fields = [(f'f{i}', w) for i in range(nf)]
    st = rtlgen.StructT(f'SL{d.uid}', fields)
    m = d.new_sig('', 'm', 0, 'wire', st); n = d.new_sig('', 'n', 0, 'wire', st)
    lv = st.leaves()
    rng.shuffle(lv)                      # the chain visits the leaves in a random order
    nf = len(lv)
    F = lambda sg, i: (sg.idx, lv[i][1], lv[i][2])
    ins = [i0, i1, d.new_sig('', 'in2', w, 'in')]
    def copy_blk(): blk([((n.idx, 0, st.width), R(m))])
    def split_blk():
      asgs = [(F(m, 0), fn1(rng, w, R(ins[0])))]
      for i in range(1, nf):
        src = ('r',) + F(n, i - 1)
        asgs.append((F(m, i), ('b', rng.choice(['or', 'xor', 'add']), w, fn1(rng, w, src), R(ins[i]))))
      rng.shuffle(asgs)
      blk(asgs)
    def out_blk(): blk([((out.idx, 0, w), ('r',) + F(n, nf - 1))])
    # optionally a predecessor both blocks read, so that both are BFS roots of the group and run in name order
    todo = [copy_blk, split_blk, out_blk]
    rng.shuffle(todo)
    for f in todo: f()
    expect = 'value'
    fine = 'one-at-a-time'
  elif kind == 'bigring':
    # a monotone ring of 10-14 blocks, most of them with an if/else: Mamba2020 cuts an SCC of >= 10 blocks into several
    # meta blocks (after 5 consecutive branchy blocks, or branchiness 20); DynamicSchedulePass keeps one flat group
    k = rng.randint(10, 14)
    xs = [d.new_sig('', f'x{i}', w, 'wire') for i in range(k)]
    op = rng.choice(['or', 'and'])
    ins = [i0, i1, d.new_sig('', 'in2', w, 'in'), d.new_sig('', 'in3', w, 'in')]
    sel = d.new_sig('', 'sel', k, 'in')
    order = list(range(k)); rng.shuffle(order)
    p_br = rng.choice([0.5, 0.8, 1.0])
    for i in order:
      nxt = R(xs[(i + 1) % k])
      e = ('b', op, w, nxt, R(ins[i % 4]))
      if rng.random() < p_br:
        e2 = ('b', op, w, nxt, R(ins[(i + 1) % 4])) if rng.random() < 0.7 else nxt
        blk([((xs[i].idx, 0, w), ('m', R(sel, i, 1), e, e2))], styles={0: 'ifelse'})
      else:
        blk([((xs[i].idx, 0, w), e)])
    blk([((out.idx, 0, w), R(xs[rng.randrange(k)]))])
    expect = 'value'
  elif kind == 'structwhole':
    # a false loop in which every value that travels between the blocks of the group is a WHOLE bitstruct signal (copied
    # with `s.m @= s.x`): the stability test of the group then compares struct objects, whose fields are updated in place
    flds = [('a', rng.choice([1, 2, 4])), ('b', rng.choice([2, 4, 8]))]
    if rng.random() < 0.4: flds.append(('c', ('L', (2,), rng.choice([1, 4]))))
    st = rtlgen.StructT(f'SW{d.uid}', flds)
    sin = d.new_sig('', 'sin', 0, 'in', st)
    n_ = rng.randint(2, 4)
    ms = [d.new_sig('', f'm{i}', 0, 'wire', st) for i in range(n_)]
    sout = d.new_sig('', 'sout', 0, 'out', st)
    W_ = st.width
    # block A: m0 = sin and, in the same block, the last hop (sout = m_{n-1}); blocks Bi: m_i = m_{i-1}
    asgs = [((ms[0].idx, 0, W_), R(sin)), ((sout.idx, 0, W_), R(ms[-1]))]
    if rng.random() < 0.5: asgs.reverse()
    order = list(range(1, n_)); rng.shuffle(order)
    pre = rng.random() < 0.5
    if pre: blk(asgs)
    for i in order: blk([((ms[i].idx, 0, W_), R(ms[i - 1]))])
    if not pre: blk(asgs)
    blk([((out.idx, 0, w), ('b', 'xor', w, R(i0), R(i1)))])
    expect = 'value'
  elif kind == 'hostloop':
    # a false loop whose signals live in two (or three) child components: the watched variables of the SCC then belong to
    # several host components (the generated super-block compares them host by host).  Each child computes b = a ^ k; the
    # parent feeds child j+1's `a` from child j's `b`, low half to high half, so the bit-level dependencies are acyclic.
    w = rng.choice([2, 4, 8]); h = w // 2
    nch = rng.randint(2, 3)
    ins = [d.new_sig('', f'hin{q}', w, 'in') for q in range(4)]
    blk([((out.idx, 0, out.width), R(i0) if rng.random() < 0.5 else ('b', 'xor', out.width, R(i0), R(i1)))])
    out = d.new_sig('', 'out1', w, 'out')
    top_reset = next(s_ for s_ in d.sigs if s_.comp == '' and s_.name == 'reset')
    ch = []
    for j in range(nch):
      cn = f'c{j}'
      d.comps[cn] = {}; d.comps['']['children'].append(cn)
      r = d.new_sig(cn, 'reset', 1, 'in')
      rtlgen.add_net(d, (r.idx, 0, 1), (top_reset.idx, 0, 1), implicit=True)
      a = d.new_sig(cn, 'a', w, 'in'); k_ = d.new_sig(cn, 'k', w, 'in'); b = d.new_sig(cn, 'b', w, 'out')
      ch.append((cn, a, k_, b))
    def cblk(cn, asgs):
      bid = d.new_id()
      d.blocks.append({'id': bid, 'name': f'blk_{bid}', 'comp': cn, 'kind': 'comb', 'asgs': asgs, 'styles': {}})
    # an upstream block drives every child's k: every child block is then a BFS root of the intra-SCC order
    kasgs = [((k_.idx, 0, w), fn1(rng, w, R(ins[3]))) for (_, _, k_, _) in ch]
    if rng.random() < 0.5: blk(kasgs)
    else:
      for a_ in kasgs: blk([a_])
    order = list(range(nch)); rng.shuffle(order)
    for j in order:
      cn, a, k_, b = ch[j]
      pb = ch[(j - 1) % nch][3]
      # child 0 closes the block-level loop: its high half comes from the last child's high half, which depends on low halves only
      hi_src = R(pb, h, w - h) if j == 0 else R(pb, 0, w - h)
      asgs = [((a.idx, h, w - h), hi_src), ((a.idx, 0, h), R(ins[j % 3], 0, h))]
      if rng.random() < 0.5: asgs.reverse()
      blk(asgs)
    corder = list(range(nch)); rng.shuffle(corder)
    for j in corder:
      cn, a, k_, b = ch[j]
      cblk(cn, [((b.idx, 0, w), ('b', 'xor', w, R(a), R(k_)))])
    blk([((out.idx, 0, w), ('b', 'xor', w, R(ch[-1][3]), R(ch[0][3])))])
    expect = 'value'
  elif kind == 'div':
    a = d.new_sig('', 'a', w, 'wire'); b = d.new_sig('', 'b', w, 'wire')
    if rng.random() < 0.5:
      blk([((a.idx, 0, w), ('n', w, R(b)))])
    else:
      blk([((a.idx, 0, w), ('b', 'add', w, R(b), ('c', w, 1)))])
    blk([((b.idx, 0, w), R(a))])
    blk([((out.idx, 0, w), R(a))])
    expect = 'cyclic'
  elif kind == 'divcond':
    # diverges only while in0[0] is set
    a = d.new_sig('', 'a', w, 'wire'); b = d.new_sig('', 'b', w, 'wire')
    blk([((a.idx, 0, w), ('m', R(i0, 0, 1), ('n', w, R(b)), R(i1)))], styles={0: 'ifelse'})
    blk([((b.idx, 0, w), R(a))])
    blk([((out.idx, 0, w), R(b))])
    expect = 'cond'
  else:
    raise ValueError(kind)
  d.fine_inputs = fine
  return d, expect

def once_source(uid):
  """a loop that contains an update_once block (not expressible in the RTL model: checked for the error only)"""
  return f'''from pymtl3 import *
class GenOnce{uid}( Component ):
  def construct( s ):
    s.in0 = InPort( Bits4 )
    s.a = Wire( Bits4 )
    s.b = Wire( Bits4 )
    @update
    def up_a():
      s.a @= s.b | s.in0
    @update_once
    def up_b():
      s.b @= s.a
'''

def count_sweeps(rs, fn, blk_id):
  code = rs.id2blk[blk_id].__code__
  n = [0]
  def prof(frame, event, arg):
    if event == 'call' and frame.f_code is code: n[0] += 1
  sys.setprofile(prof)
  try:
    fn()
  finally:
    sys.setprofile(None)
  return n[0]

def run(ck):
  from pymtl3.dsl.errors import UpblkCyclicError
  rng = ck.rng
  # self-contained family with its own PRNG, run FIRST: a wrapper the text parsers below cannot read stops the main stream, the
  # direct oracle of this family must still get its chance to find the concrete failing design (ck.rng is left untouched)
  _st = rng.getstate(); c11_openloop.run_hostosc(ck); rng.setstate(_st)
  n = 250 if ck.tier == 'quick' else 3500
  lines, meta = [], []
  wrappers = c11_openloop.WrapperChecks(ck)
  for _ in range(n):
    kind = rng.choice(['false', 'false', 'conv', 'ring', 'ring', 'div', 'divcond', 'bigring', 'structloop', 'hostloop', 'hostloop', 'structwhole'])
    d, expect = gen_cyclic(rng, kind)
    src = d.source()
    ck.extra_cov.setdefault('sample_design_source', src)
    cls = rtlgen.load_class(ck.workdir, d)
    cycles = rtlgen.gen_inputs(rng, d, rng.randint(4, 8))
    if getattr(d, 'fine_inputs', None) == 'one-at-a-time':
      # change one input per cycle: a sweep in which only one (possibly unwatched) variable moves
      cur = dict(cycles[0]); cycles = [sorted(cur.items())]
      for _ in range(rng.randint(6, 10)):
        g = rng.choice([k for k in cur if d.sigs[k].name != 'reset'])
        cur[g] = rng.getrandbits(d.sigs[g].width)
        cycles.append(sorted(cur.items()))
    ck.hist('kind', kind)
    # (e) acyclic-only passes must reject
    for flow in ['simple', 'heutopo', 'unroll']:
      ck.count({'src_hash': hash(src) & 0xffffffff, 'flow': flow}, True)
      try:
        rtlgen.RealSim(cls, d, flow); outcome = 'scheduled'
      except UpblkCyclicError: outcome = 'UpblkCyclicError'
      except Exception as e: outcome = type(e).__name__
      if outcome != 'UpblkCyclicError':
        ck.violation('cycle-not-rejected', {'flow': flow}, {'source': src, 'flow': flow},
                     {'outcome': outcome, 'oracle': 'passes that cannot iterate must raise UpblkCyclicError on a cyclic block graph'})
    ref = rtlgen.RefSim(d) if kind in ('false', 'structloop') else None
    for flow in ['default', 'mamba']:
      ck.count({'src_hash': hash(src) & 0xffffffff, 'flow': flow}, True); ck.hist('flow', flow)
      try:
        rs = rtlgen.RealSim(cls, d, flow)
      except Exception as e:
        # neither a settled value nor a reported cycle: the pass group itself failed on a legal cyclic design
        ck.violation('pass-group-failed-on-cyclic-design', {'flow': flow, 'kind': kind, 'error': type(e).__name__}, {'source': src, 'flow': flow},
                     {'error': f'{type(e).__name__}: {str(e)[:300]}', 'oracle': 'a cyclic group is either iterated to a fixed point or reported with UpblkCyclicError when simulated'})
        continue
      entries = rtlgen.model_entries(rs)
      scc_ids = next((e[1] for e in entries if e[0] == 'scc'), None)
      if scc_ids is None:
        ck.disagreement('cyclic design scheduled without an SCC block', {'source': src, 'flow': flow}, 'scc expected', str(entries)); continue
      # the loop structure of every generated wrapper: parsed into the IR of Model/LoopIR.lean, `IR.ok` evaluated by the driver;
      # the variables it COMPARES must be the variables it snapshots (the watch list the model is given)
      for fn_, e_ in zip([x[1] for x in rs.schedule_entries() if x[0] == 'scc'], [x for x in entries if x[0] == 'scc']):
        wrappers.add(d, fn_, flow, {'source': src, 'flow': flow}, want_watch=e_[2])
      trace, status = [], 'ok'
      comb_blks = [b for b in rs.top._dag.final_upblks]
      refsim = rtlgen.RefSim(d) if kind in ('false', 'structloop') else None
      for k, ins in enumerate(cycles):
        rs.set_inputs(ins)
        try:
          sweeps = count_sweeps(rs, rs.top.sim_eval_combinational, scc_ids[0])
          a = rs.read_all()
          # direct oracle (a): fixed point
          for blk in comb_blks:
            blk()
            if rs.read_all() != a:
              ck.violation('returned-unstable-state', {'flow': flow, 'kind': kind}, {'source': src, 'flow': flow, 'inputs': cycles[:k + 1], 'signals': [s_.path for s_ in d.sigs]},
                           {'block': blk.__name__, 'before': a, 'after': rs.read_all(), 'signals': [s.path for s in d.sigs]})
              break
          rs.top.sim_tick()
          b = rs.read_all()
          trace.append((a, b))
          if refsim is not None:
            ra, rb = refsim.cycle(ins)
            if (a, b) != (ra, rb):
              ck.violation('false-loop-differs-from-acyclic', {'flow': flow}, {'source': src, 'flow': flow, 'inputs': cycles[:k + 1], 'signals': [s_.path for s_ in d.sigs]},
                           {'impl': (a, b), 'ref': (ra, rb), 'signals': [s.path for s in d.sigs],
                            'oracle': 'a false loop must evaluate to the values of the equivalent acyclic design'})
          if sweeps > 100:
            ck.violation('more-than-100-sweeps', {'flow': flow}, {'source': src, 'flow': flow}, {'sweeps': sweeps})
        except UpblkCyclicError:
          status = ('cyclic', k); break
      will_diverge = (kind == 'div') or (kind == 'divcond' and any(dict(c)[1] & 1 for c in cycles))
      if kind == 'div' and status == 'ok':
        ck.violation('divergent-loop-returned', {'flow': flow}, {'source': src, 'flow': flow, 'inputs': cycles, 'signals': [s_.path for s_ in d.sigs]},
                     {'trace': trace[:2], 'oracle': 'a loop with no stable assignment must raise UpblkCyclicError'})
      if kind in ('false', 'conv', 'ring', 'bigring', 'structloop', 'hostloop', 'structwhole') and status != 'ok':
        ck.violation('convergent-loop-rejected', {'flow': flow, 'kind': kind}, {'source': src, 'flow': flow, 'inputs': cycles, 'signals': [s_.path for s_ in d.sigs]}, {'status': status})
      lines.append(rtlgen.model_sim_line(d, entries, [], cycles))
      meta.append(('sim', d, src, flow, entries, cycles, trace, status))
      e = next(e for e in entries if e[0] == 'scc')
      lines.append(leanio.line('rtl', 'watchok', d.sexp(), e[1], e[2]))
      meta.append(('watch', d, src, flow, entries, cycles, trace, status))
      lines.append(leanio.line('rtl', 'entries', d.sexp(), [list(x) for x in entries]))
      meta.append(('entries', d, src, flow, entries, cycles, trace, status))
  wrappers.finish()
  replies = ck.drv('rtl').batch(lines)
  for (what, d, src, flow, entries, cycles, trace, status), rep in zip(meta, replies):
    if what == 'entries':
      if rep != 'entries 1 1 1 1':
        ck.disagreement('real SCC schedule satisfies the hypotheses of whole_schedule (each block once, wfBlocks, entries in topological order, watch lists cover)',
                        {'source': src, 'flow': flow, 'entries': entries}, rep, 'scheduled')
      continue
    if what == 'watch':
      if rep != 'watchok 1':
        ck.disagreement('watch list covers the SCC variables (hypothesis of stable_is_fixed_point)',
                        {'source': src, 'flow': flow, 'entries': entries}, rep, 'wrapper generated')
      continue
    got = rtlgen.parse_sim_reply(rep)
    if isinstance(got, tuple):
      if status == 'ok' or status[1] != got[1]:
        ck.disagreement('Model iterate≈SCC wrapper', {'source': src, 'flow': flow, 'entries': entries, 'inputs': cycles, 'signals': [s_.path for s_ in d.sigs]}, rep, str(status))
    else:
      if status != 'ok' or got != trace:
        ck.disagreement('Model iterate≈SCC wrapper', {'source': src, 'flow': flow, 'entries': entries, 'inputs': cycles, 'signals': [s_.path for s_ in d.sigs]}, got[:3], [status, trace[:3]])
  # loops containing an update_once block
  import importlib.util, os
  for i in range(2 if ck.tier == 'quick' else 6):
    uid = next(rtlgen._uid)
    path = os.path.join(ck.workdir, f'pvonce_{os.getpid()}_{uid}.py')
    with open(path, 'w') as f: f.write(once_source(uid))
    spec = importlib.util.spec_from_file_location(f'pvonce_{uid}', path); mod = importlib.util.module_from_spec(spec)
    sys.modules[f'pvonce_{uid}'] = mod; spec.loader.exec_module(mod)
    from pymtl3.passes.PassGroups import DefaultPassGroup
    from pymtl3.passes.mamba.PassGroups import Mamba2020
    for name, grp in [('default', DefaultPassGroup()), ('mamba', Mamba2020(print_line_trace=False))]:
      top = getattr(mod, f'GenOnce{uid}')(); top.elaborate()
      ck.count({'once': uid, 'flow': name}, True); ck.hist('kind', 'once')
      try:
        top.apply(grp); outcome = 'scheduled'
      except UpblkCyclicError: outcome = 'UpblkCyclicError'
      except Exception as e: outcome = type(e).__name__
      if outcome != 'UpblkCyclicError':
        ck.violation('update_once-in-cycle-accepted', {'flow': name}, {'source': once_source(uid), 'flow': name}, {'outcome': outcome})
  ck.extra_cov['designs'] = n
  c11_scc.run(ck)
  c01_mamba.run(ck, part='scc')
  c11_openloop.run(ck)

def replay(ck, data):
  if (data.get('case') or {}).get('pass') in ('Mamba2020', 'HeuTopoUnrollSim'): return c01_mamba.replay(ck, data)
  if (data.get('case') or {}).get('scc'): return c11_scc.replay(ck, data)
  if (data.get('case') or {}).get('openloop') or (data.get('case') or {}).get('openloop_gap') or (data.get('case') or {}).get('openloop_greenlet') or (data.get('case') or {}).get('openloop_hostosc'): return c11_openloop.replay(ck, data)
  print(data.get('kind'), data.get('signature')); print(str(data.get('detail'))[:1500])
  return rtlgen.replay_source(ck, data.get('case') or {})
