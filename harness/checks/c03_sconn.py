"""C03 / C12 (structural part), helper of c03.py — which `assign` is emitted in which module:
`gen_connections` (generic/structural/StructuralTranslatorL1.py) + `StructuralRTLIRGenL1Pass._gen_metadata` + one assign per pair.

proof:          lean/PymtlVerif/Props/C03s.lean over Model/SConn.lean (the LIFO traversal of every net from its writer with an
                arbitrary iteration order of the adjacency sets, the four-case hosting rule, orientation by membership, the
                assertion): tree_edges (+ _fuel, _order_indep), host_total / host_can_name / host_elsewhere_iff /
                no_typeError_of_legal, emit_error_iff / emit_error_iff_legal, emit_exact / emit_eq_assigns / single_driver /
                members_equal_writer / assigns_settle / assigns_fixed_point_unique, emit_order, preconditions_sound
correspondence: generated structural hierarchies (depth 1-3, single / 1-D / 2-D lists of sub-components sharing a class, ports,
                port lists, wires, bitstruct ports, slices and struct fields as sources, split outputs, constants, update blocks as
                writers, pass-through nets across levels, fan-out, parent-to-child, child-to-parent, child-to-child; variants:
                same-child loop-through, a statement re-stated by the parent of the component that owns it, a redundant
                statement) are elaborated by the REAL code; the model input is read off the real objects exactly as the pass
                reads it (get_connect_order() per component, get_signal_adjacency_dict() with the iteration order of every
                set, get_all_value_nets(), get_host_component(), get_parent_object()); compared exactly: the set filed under
                every component by the real gen_connections, the oriented `connections` metadata of every component produced
                by the real StructuralRTLIRGenL1Pass._gen_metadata (or its assertion), the verdict of the real
                VerilogTranslationPass and YosysTranslationPass (accepted / TypeError / RTLIRConversionError), the net
                members vs the traversal
direct oracle:  independent of the model, on the emitted SystemVerilog text of accepted designs (own reading of the text: modules,
                instances, assigns; own name mangling): every net member other than the writer is the left side of exactly one
                `assign` over the module it is declared in and the parent's module, the writer of none, and following the
                assigns from any member ends at the writer (a constant writer: at its literal)
"""
import importlib.util, itertools, os, re, sys

from ..common import leanio
from ..common.leanio import InfraError

MODULE = 'PymtlVerif.Props.C03s'
DRIVERS = ['sconn']
THEOREMS = ['PV.C03s.' + t for t in [
  'preconditions_sound', 'tree_edges', 'tree_edges_fuel', 'tree_edges_order_indep',
  'host_total', 'host_can_name', 'host_elsewhere_iff', 'no_typeError_of_legal',
  'emit_error_iff', 'emit_total', 'emit_error_iff_legal',
  'emit_exact', 'emit_eq_assigns', 'accepted_stmts_are_tree_edges', 'single_driver', 'members_equal_writer',
  'assigns_settle', 'assigns_fixed_point_unique', 'emit_order']]
THEOREM_MODULE = {t: MODULE for t in THEOREMS}
TRUSTED = [
  'Model/SConn.lean stands for gen_connections (traversal = PV.Nets.walk, the stack machine; four-case hosting rule; component 0 = '
  'Python None) and for StructuralRTLIRGenL1Pass._gen_metadata (orientation by membership, the assertion); its input is data read off '
  'the real elaborated design by c03_sconn.extract (connect_order, adjacency dict with the iteration order of every set, value nets, '
  'hosts, parents); how a pair of the `connections` metadata becomes text (gen_signal_expr, rtlir_tr_connection, name mangling of '
  'sub-component ports) is NOT modelled: it is covered by the direct oracle on the emitted text (own mangling) and by C03 proper',
]
ASSUMPTIONS = [
  'structural clause: hypotheses of emit_exact / single_driver / members_equal_writer (ValidOrder, NetsOk, StmtsNodup) and of '
  'emit_error_iff_legal (no connection loop, statements between signals the executing component can name, proper component tree) are '
  'what elaboration establishes (C08/C09); they are re-evaluated on every design of the run (driver flags valid / nodup / cyclic, net '
  'members vs traversal, disjointness and cover in the harness) and a breach is reported as a disagreement',
  'structural clause: a legal design the translator rejects (a parent connecting two ports of one child: filed under the child, the '
  'parent\'s assertion fails) is outside C03\'s quantifier ("every hierarchy the pass accepts"); the model predicts the rejection '
  '(emit_error_iff_legal) and the run checks the prediction',
]
RULE = ('structural clause: one PRNG -> class trees of depth 1-3; per class 1-3 in ports (+ a port list), 1-3 out ports, 0-3 wires over '
        'Bits8 / Bits4 / a bitstruct, 0-3 child slots (single, 1-D list, 2-D list of one class); every sink (own out / wire / child in) gets '
        'one source of its type (own in / wire / out, child out, slice or struct field of one, constant, update block), loops avoided by '
        'union-find, statement orientation and spelling (//=, connect) random; variants: loop-through of one child at the parent, a '
        'child\'s statement re-stated by its parent, a redundant statement closing a cycle (rejected by elaboration: counted, not '
        'compared); non-trivial = at least 3 components or a variant; distinct = distinct source text')

_uid = itertools.count()

# ---------------------------------------------------------------------------------------------
# generator
# ---------------------------------------------------------------------------------------------
TY = {'b8': 'Bits8', 'b4': 'Bits4', 'pt': 'SPt'}
SUB = {'b8': [('[0:4]', 'b4'), ('[4:8]', 'b4')], 'pt': [('.x', 'b4'), ('.y', 'b4')]}
HDR = 'from pymtl3 import *\n\n@bitstruct\nclass SPt:\n  x: Bits4\n  y: Bits4\n\n'

class UF:
  def __init__(s): s.p = {}
  def find(s, x):
    s.p.setdefault(x, x)
    while s.p[x] != x:
      s.p[x] = s.p[s.p[x]]; x = s.p[x]
    return x
  def union(s, a, b): s.p[s.find(a)] = s.find(b)

class Cls:
  def __init__(s, name):
    s.name = name
    s.ins, s.outs = [], []      # (expr suffix e.g. 'i0' / 'iv[1]', type) ; outs: (suffix, type, dep in-suffix or None)
    s.text = ''
    s.internal = []             # whole-signal statements (a suffix, b suffix) between own in ports and own wires / outs
    s.ncomp = 1
    s.outdeps = {}              # out suffix -> own in suffixes it hangs on through connections (whole, slice, field, children)

def gen_class(rng, tag, counter, depth, maxdepth, classes, want):
  """one component class (children first). `want`: set of variants still to place ('loop', 'dup', 'redundant')."""
  k = next(counter)
  C = Cls(f'SC{tag}_{k}')
  L = ['  def construct( s ):']
  nodes = {}                    # expr -> dict(T, src(bool), inst(prefix or None))
  sinks = []
  def add(expr, T, src, sink, inst=None):
    nodes[expr] = {'T': T, 'src': src, 'inst': inst}
    if sink: sinks.append(expr)
  # ---- own ports and wires
  tys = ['b8', 'b8', 'b8', 'b4', 'b4', 'pt']
  for i in range(rng.choice([1, 2, 2, 3])):
    T = rng.choice(tys); L.append(f'    s.i{i} = InPort( {TY[T]} )'); C.ins.append((f'i{i}', T)); add(f's.i{i}', T, True, False)
  if rng.random() < 0.3:
    T = rng.choice(['b8', 'b4']); n = rng.choice([2, 3])
    L.append(f'    s.iv = [ InPort( {TY[T]} ) for _ in range({n}) ]')
    for j in range(n): C.ins.append((f'iv[{j}]', T)); add(f's.iv[{j}]', T, True, False)
  split = set()
  for i in range(rng.choice([1, 2, 2, 3])):
    T = rng.choice(tys); L.append(f'    s.o{i} = OutPort( {TY[T]} )')
    if T == 'b8' and rng.random() < 0.15:
      split.add(f's.o{i}'); C.outs.append([f'o{i}', T, None])
      add(f's.o{i}[0:4]', 'b4', False, True); add(f's.o{i}[4:8]', 'b4', False, True)
    else:
      C.outs.append([f'o{i}', T, None]); add(f's.o{i}', T, True, True)
  for i in range(rng.choice([0, 1, 1, 2, 3])):
    T = rng.choice(tys); L.append(f'    s.w{i} = Wire( {TY[T]} )'); add(f's.w{i}', T, True, True)
  # ---- children
  uf = UF()
  insts = []                    # (prefix, class)
  if depth < maxdepth:
    for c in range(rng.choice([1, 1, 2, 2, 3] if depth == 0 else [0, 1, 1, 2])):
      K = gen_class(rng, tag, counter, depth + 1, maxdepth, classes, want)
      shape = rng.choice(['one', 'one', 'one', 'list', 'list', 'grid'])
      if shape == 'one':
        L.append(f'    s.c{c} = {K.name}()'); prefs = [f's.c{c}']
      elif shape == 'list':
        n = rng.choice([2, 2, 3]); L.append(f'    s.c{c} = [ {K.name}() for _ in range({n}) ]'); prefs = [f's.c{c}[{j}]' for j in range(n)]
      else:
        L.append(f'    s.c{c} = [ [ {K.name}() for _ in range(2) ] for _ in range(2) ]'); prefs = [f's.c{c}[{a}][{b}]' for a in range(2) for b in range(2)]
      for P in prefs:
        insts.append((P, K)); C.ncomp += K.ncomp
        for (nm, T) in K.ins: add(f'{P}.{nm}', T, False, True, P)
        for (nm, T, dep) in K.outs:
          add(f'{P}.{nm}', T, True, False, P)
          for d in K.outdeps.get(nm, ()): uf.union(f'{P}.{nm}', f'{P}.{d}')
          if dep is not None: uf.union(f'{P}.{nm}', f'{P}.{dep}')
  # ---- every sink gets one source
  srcof = {}
  stmts = []
  upd = []
  def base(e):                  # the node a sub-signal expression belongs to
    return e[:-5] if e.endswith(('[0:4]', '[4:8]')) else e
  def spell(sink, src):
    f = rng.choice(['a', 'a', 'a', 'b', 'c', 'd'])
    if f == 'a': return f'    {sink} //= {src}'
    if f == 'b': return f'    {src} //= {sink}'
    if f == 'c': return f'    connect( {src}, {sink} )'
    return f'    connect( {sink}, {src} )'
  rng.shuffle(sinks)
  force_loop = None
  if 'loop' in want and depth <= 1:
    cands = [(P, K) for (P, K) in insts if any(d is None and any(T2 == T for (_, T2) in K.ins) for (_, T, d) in K.outs)]
    if cands and rng.random() < 0.9:
      P, K = rng.choice(cands)
      o = rng.choice([(nm, T) for (nm, T, d) in K.outs if d is None and any(T2 == T for (_, T2) in K.ins)])
      i = rng.choice([nm for (nm, T2) in K.ins if T2 == o[1]])
      force_loop = (f'{P}.{i}', f'{P}.{o[0]}'); want.discard('loop')
  for sk in sinks:
    T = nodes[sk]['T']; inst = nodes[sk]['inst']
    if force_loop and force_loop[0] == sk:
      src = force_loop[1]
      if uf.find(src) != uf.find(sk):
        stmts.append(spell(sk, src)); uf.union(sk, src); srcof[sk] = src; continue
    direct = [e for e, nd in nodes.items() if nd['src'] and nd['T'] == T and e not in split and uf.find(base(e)) != uf.find(base(sk))
              and not (inst is not None and nd['inst'] == inst)]
    sub = [(e, sfx) for e, nd in nodes.items() if nd['src'] and e not in split and nd['T'] in SUB and uf.find(base(e)) != uf.find(base(sk))
           and not (inst is not None and nd['inst'] == inst) for (sfx, T2) in SUB[nd['T']] if T2 == T]
    own = inst is None
    r = rng.random()
    if direct and r < 0.68:
      src = rng.choice(direct); stmts.append(spell(sk, src)); uf.union(base(sk), base(src)); srcof[sk] = src
    elif sub and r < 0.82:
      e, sfx = rng.choice(sub); stmts.append(spell(sk, e + sfx)); uf.union(base(sk), base(e)); srcof[sk] = e + sfx
    elif T != 'pt' and (r < 0.88 or not own) and not (own and not direct and not sub and r >= 0.88):
      stmts.append(f'    {sk} //= {rng.randrange(1, 15)}'); srcof[sk] = 'const'
    elif own:
      rd = [e for e, nd in nodes.items() if nd['T'] == T and e.startswith('s.i')]
      rhs = (rng.choice(rd) if rd and rng.random() < 0.7 else (f'SPt( {rng.randrange(16)}, {rng.randrange(16)} )' if T == 'pt' else str(rng.randrange(1, 15))))
      upd.append((sk, rhs)); srcof[sk] = 'upd'
    else:                       # a struct input of a child with nothing to drive it: a fresh own input port
      nm = f'i{len([1 for (n, _) in C.ins if not n.startswith("iv")])}'
      L.insert(1, f'    s.{nm} = InPort( {TY[T]} )'); C.ins.append((nm, T)); add(f's.{nm}', T, True, False)
      stmts.append(spell(sk, f's.{nm}')); uf.union(sk, f's.{nm}'); srcof[sk] = f's.{nm}'
  # ---- variants
  if 'dup' in want and insts and rng.random() < 0.85:
    cands = [(P, a, b) for (P, K) in insts for (a, b) in K.internal]
    if cands:
      P, a, b = rng.choice(cands); stmts.append(f'    {P}.{a} //= {P}.{b}'); want.discard('dup')
  if 'redundant' in want and rng.random() < 0.9:
    groups = {}
    for e, nd in nodes.items():
      if e in split or '[' in e.split('.')[-1] and e.endswith(':4]') or e.endswith(':8]'): continue
      groups.setdefault((uf.find(e), nd['T']), []).append(e)
    cands = [g for g in groups.values() if len([e for e in g if nodes[e]['inst'] is None]) >= 2]
    if cands:
      g = [e for e in rng.choice(cands) if nodes[e]['inst'] is None]; a, b = rng.sample(g, 2)
      if srcof.get(a) != b and srcof.get(b) != a:
        stmts.append(f'    connect( {a}, {b} )'); want.discard('redundant')
  rng.shuffle(stmts)
  L += stmts
  for n, (sk, rhs) in enumerate(upd):
    L += ['    @update', f'    def up{n}():', f'      {sk} @= {rhs}']
  # ---- summary for the parent: an out port in the same net as an own in port passes that port through (`dep`); and every own
  #      in port an out port hangs on through connections of any kind (slices, fields, children): a parent must not close a loop
  instd = dict(insts)
  def whole(e):
    for sfx in ('[0:4]', '[4:8]', '.x', '.y'):
      if e.endswith(sfx) and e[:-len(sfx)] in nodes: return e[:-len(sfx)]
    return e
  def netroot(e, seen):
    if e in seen or e not in nodes: return None
    seen.add(e)
    if nodes[e]['inst'] is None and e.startswith('s.i'): return e
    if e in srcof: return netroot(srcof[e], seen) if srcof[e] not in ('const', 'upd') else None
    P = nodes[e]['inst']
    if P is not None:
      d = next((d for (n2, _, d) in instd[P].outs if f'{P}.{n2}' == e), None)
      return netroot(f'{P}.{d}', seen) if d is not None else None
    return None
  def hangs(e, seen):
    if e in split: return hangs(e + '[0:4]', seen) | hangs(e + '[4:8]', seen)
    if e in srcof:
      if e in seen: return set()
      seen.add(e)
      return hangs(srcof[e], seen) if srcof[e] not in ('const', 'upd') else set()
    e = whole(e)
    if e in seen or e not in nodes: return set()
    if e in srcof: return hangs(e, seen)
    seen.add(e)
    if nodes[e]['inst'] is None: return {e} if e.startswith('s.i') else set()
    P = nodes[e]['inst']; out = set()
    for d in instd[P].outdeps.get(e[len(P) + 1:], ()): out |= hangs(f'{P}.{d}', seen)
    return out
  C.outdeps = {}
  for o in C.outs:
    e = f's.{o[0]}'
    C.outdeps[o[0]] = sorted(x[2:] for x in hangs(e, set()))
    if e in split: continue
    r = netroot(e, set())
    if r is not None: o[2] = r[2:]
  for sk, src in srcof.items():
    if nodes[sk]['inst'] is None and src in nodes and nodes[src]['inst'] is None and src.startswith('s.i') and sk in nodes and '[' not in sk.split('.')[-1].replace('iv[', ''):
      C.internal.append((sk[2:], src[2:]))
  C.outs = [tuple(o) for o in C.outs]
  C.text = f'class {C.name}( Component ):\n' + '\n'.join(L) + '\n'
  classes.append(C)
  return C

def gen_design(rng, tag, variant=None):
  while True:
    classes, counter = [], itertools.count()
    want = {variant} if variant else set()
    maxdepth = rng.choice([1, 1, 2, 2, 2, 3] if variant is None else [1, 2, 2])
    top = gen_class(rng, tag, counter, 0, maxdepth, classes, want)
    if top.ncomp <= 24: break                      # keeps the quick tier inside its budget; larger trees add nothing new
  return HDR + '\n'.join(c.text for c in classes), top.name, {'variant': variant, 'placed': variant is not None and not want, 'ncomp': top.ncomp, 'depth': maxdepth}

# ---------------------------------------------------------------------------------------------
# the real design
# ---------------------------------------------------------------------------------------------
def load(workdir, src, name):
  mod = f'pvsconn_{os.getpid()}_{next(_uid)}'
  path = os.path.join(workdir, mod + '.py')
  with open(path, 'w') as f: f.write(src)
  spec = importlib.util.spec_from_file_location(mod, path); m = importlib.util.module_from_spec(spec)
  sys.modules[mod] = m; spec.loader.exec_module(m)
  return getattr(m, name)

class Extract:
  """the inputs of gen_connections / _gen_metadata, read off the elaborated design"""
  def __init__(s, top):
    s.top = top
    s.comps = sorted(top.get_all_components(), key=lambda c: (c.get_component_level(), repr(c)))
    s.cid = {c: i + 1 for i, c in enumerate(s.comps)}
    s.par = [0] + [s.cid.get(c.get_parent_object(), 0) for c in s.comps]
    s.objs, s.sid = [], {}
    def num(x):
      if x not in s.sid: s.sid[x] = len(s.objs); s.objs.append(x)
      return s.sid[x]
    s.stmts = []
    for c in s.comps:
      for (a, b) in c.get_connect_order(): s.stmts.append((s.cid[c], num(a), num(b)))
    s.nets_real = top.get_all_value_nets()
    s.nets = []
    for (w, mem) in s.nets_real:
      if w is None: raise InfraError('a net without writer after elaboration')
      s.nets.append((num(w), sorted(num(m) for m in sorted(mem, key=repr))))
    s.adjs = top.get_signal_adjacency_dict()
    s.order = []
    for u in list(s.adjs.keys()):
      vs = list(s.adjs[u])           # the order in which `for v in adjs[u]` iterates this set in this process
      if vs: s.order.append([num(u)] + [num(v) for v in vs])
    s.host = [s.cid.get(x.get_host_component(), 0) for x in s.objs]
  def line(s):
    return leanio.line('sconn', 'emit', ['comps'] + s.par, ['sigs'] + s.host, ['stmts'] + [list(t) for t in s.stmts],
                       ['nets'] + [[w] + ms for (w, ms) in s.nets], ['order'] + s.order)
  def name(s, i): return repr(s.objs[i])
  def pairs(s, ps): return [(s.name(a), s.name(b)) for (a, b) in ps]

def translate(top, workdir, be='verilog'):
  if be == 'verilog': from pymtl3.passes.backends.verilog import VerilogTranslationPass as P
  else: from pymtl3.passes.backends.yosys import YosysTranslationPass as P
  top.set_metadata(P.enable, True)
  cwd = os.getcwd(); os.chdir(workdir)
  try:
    top.apply(P())
    fn = top.get_metadata(P.translated_filename)
    fn = fn if os.path.isabs(fn) else os.path.join(workdir, fn)
    with open(fn) as f: txt = f.read()
    os.remove(fn)
    return 'ok', txt
  except (TypeError, AssertionError) as e:
    return type(e).__name__, str(e)[:300]
  except Exception as e:
    if type(e).__name__ == 'RTLIRConversionError': return 'RTLIRConversionError', str(e)[:300]
    raise
  finally:
    os.chdir(cwd)

def real_passes(X):
  """the real gen_connections and, per component, the real _gen_metadata"""
  from pymtl3.passes.backends.generic.structural.StructuralTranslatorL1 import gen_connections
  from pymtl3.passes.rtlir.structural.StructuralRTLIRGenL1Pass import StructuralRTLIRGenL1Pass as L1
  from pymtl3.passes.rtlir.structural.StructuralRTLIRSignalExpr import gen_signal_expr
  from pymtl3.passes.rtlir.rtype.RTLIRType import RTLIRGetter
  top = X.top
  try: ic = gen_connections(top)
  except TypeError: return None, None
  filed = {}
  for c, st in ic.items():
    filed[X.cid.get(c, 0)] = sorted((X.sid.get(u, -1), X.sid.get(v, -1)) for (u, v) in st)
  p = L1(ic); p.tr_top = top
  if not top.has_metadata(L1.rtlir_getter): top.set_metadata(L1.rtlir_getter, RTLIRGetter(cache=True))
  emit = {}
  for c in X.comps:
    try:
      p._gen_metadata(c)
      emit[X.cid[c]] = ('ok', list(c.get_metadata(L1.connections)))
    except AssertionError:
      emit[X.cid[c]] = ('err', 'RTLIRConversionError')
  return filed, (emit, gen_signal_expr)

# ---------------------------------------------------------------------------------------------
# direct oracle on the emitted text
# ---------------------------------------------------------------------------------------------
def parse_text(txt):
  mods = {}
  for m in re.finditer(r'^module\s+(\w+)\s*\((.*?)\);(.*?)^endmodule', txt, re.S | re.M):
    body = m.group(3)
    assigns = [(re.sub(r'\s+', '', a), re.sub(r'\s+', '', b)) for (a, b) in re.findall(r'^\s*assign\s+(.+?)\s*=\s*(.+?);\s*$', body, re.M)]
    insts = {i: mn for (mn, i) in re.findall(r'^\s*(\w+)\s+(\w+)\s*\n\s*\(\s*\n\s*\.', body, re.M)}
    mods[m.group(1)] = {'assigns': assigns, 'insts': insts}
  return mods

def sv_suffix(sfx):
  """'.p.x[0:4]' / '[1][0:4]' -> SystemVerilog spelling (slices become [hi-1:lo])"""
  return re.sub(r'\[(\d+):(\d+)\]', lambda m: f'[{int(m.group(2)) - 1}:{m.group(1)}]', sfx)

def rel_names(x, host, parent):
  """spelling of signal x in its host's module and in the module of the host's parent"""
  r, h = repr(x), repr(host)
  assert r.startswith(h + '.'), (r, h)
  own = r[len(h) + 1:]
  m = re.match(r'[A-Za-z_]\w*', own)
  nm, rest = m.group(0), own[m.end():]
  local = nm + sv_suffix(rest)
  up = None
  if parent is not None:
    hp = h[len(repr(parent)) + 1:]                      # 'c0[1][0]'
    hm = re.match(r'[A-Za-z_]\w*', hp)
    up = f'{hm.group(0)}__{nm}{hp[hm.end():]}{sv_suffix(rest)}'
  return local, up

def inst_name(c, parent):
  hp = repr(c)[len(repr(parent)) + 1:]
  return re.sub(r'\[(\d+)\]', r'__\1', hp)

ORACLE = {'designs': 0, 'nets': 0, 'members_followed_to_writer': 0}

def text_oracle(X, txt):
  """-> list of (kind, detail) breaches"""
  from pymtl3.dsl.Connectable import Const
  mods = parse_text(txt)
  inst_mods = {mn for m in mods.values() for mn in m['insts'].values()}
  tops = [n for n in mods if n not in inst_mods]
  if len(tops) != 1: return [('text-unreadable', {'top_candidates': tops})]
  modof = {X.top: tops[0]}
  for c in X.comps:                                      # sorted by level: parents first
    if c is X.top: continue
    p = c.get_parent_object()
    mn = mods[modof[p]]['insts'].get(inst_name(c, p)) if p in modof else None
    if mn is None or mn not in mods: return [('instance-missing', {'component': repr(c), 'expected_instance': inst_name(c, p)})]
    modof[c] = mn
  bad = []
  ORACLE['designs'] += 1
  for (w, mem) in X.nets_real:
    ORACLE['nets'] += 1
    members = sorted(mem, key=repr)
    spell = {}                                           # (context component, spelling) -> member
    where = {}
    for x in members:
      if isinstance(x, Const): continue
      h = x.get_host_component(); p = h.get_parent_object()
      local, up = rel_names(x, h, p)
      where[x] = [(h, local)] + ([(p, up)] if p is not None else [])
      for (c, s) in where[x]: spell[(c, s)] = x
    def drivers(x):
      return [(c, rhs) for (c, s) in where[x] for (lhs, rhs) in mods[modof[c]]['assigns'] if lhs == s]
    for x in members:
      if isinstance(x, Const): continue
      d = drivers(x)
      if x is w:
        if d: bad.append(('writer-is-driven', {'writer': repr(x), 'assigns': [f'{repr(c)}: {s} = {r}' for (c, r) in d for s in [dict(where[x]).get(c)]]}))
        continue
      if len(d) != 1:
        bad.append(('member-driver-count', {'member': repr(x), 'net_writer': repr(w), 'drivers': len(d),
                                            'looked_for': [f'{modof[c]}: assign {s} = ...' for (c, s) in where[x]]}))
        continue
      cur, steps, ok = x, 0, False
      while steps <= len(members) + 1:
        steps += 1
        if cur is w: ok = True; break
        dd = drivers(cur)
        if len(dd) != 1: break
        c, rhs = dd[0]
        if isinstance(w, Const) and re.fullmatch(r"\d+'d\d+", rhs):
          ok = int(rhs.split("'d")[1]) == int(w._dsl.const); break
        nxt = spell.get((c, rhs))
        if nxt is None: break
        cur = nxt
      if ok: ORACLE['members_followed_to_writer'] += 1
      if not ok:
        bad.append(('member-not-reaching-writer', {'member': repr(x), 'net_writer': repr(w), 'stopped_at': repr(cur)}))
  return bad

# ---------------------------------------------------------------------------------------------
# one design
# ---------------------------------------------------------------------------------------------
def check_design(ck, src, name, info, lines, meta):
  cls = load(ck.workdir, src, name)
  case = {'sconn': True, 'source': src, 'top': name, 'variant': info.get('variant')}
  top = cls()
  try: top.elaborate()
  except Exception as e:
    ck.hist('sconn_elab', type(e).__name__); ck.count({'sconn': hash(src) & 0xffffffff, 'elab': type(e).__name__}, False)
    if info.get('variant') is None and type(e).__name__ not in ('InvalidConnectionError',):
      raise InfraError(f'generated structural design rejected by elaboration: {type(e).__name__}: {str(e)[:300]}\n{src}')
    return
  ck.hist('sconn_elab', 'ok')
  X = Extract(top)
  verdict, txt = translate(top, ck.workdir)
  top_y = cls(); top_y.elaborate()                  # C12: the Yosys back end shares gen_connections and the RTLIR pass
  verdict_y, _ = translate(top_y, ck.workdir, 'yosys')
  ck.hist('sconn_verdict_yosys', verdict_y)
  ck.hist('sconn_verdict', verdict); ck.hist('sconn_components', min(len(X.comps), 16)); ck.hist('sconn_variant', str(info.get('variant')) + ('' if info.get('variant') is None else ('/placed' if info.get('placed') else '/not-placed')))
  ck.hist('sconn_stmts', min(len(X.stmts) // 5 * 5, 60)); ck.hist('sconn_nets', min(len(X.nets) // 2 * 2, 30))
  nontrivial = len(X.comps) >= 3 or info.get('variant') is not None
  ck.count({'sconn': hash(src) & 0xffffffff}, nontrivial)
  # ---- direct oracle (accepted designs): single driver and reachability of the writer, on the text
  if verdict == 'ok':
    for kind, detail in text_oracle(X, txt)[:3]:
      ck.violation('structural-' + kind, {'clause': 'sconn', 'kind': kind}, case,
                   dict(detail, oracle='every net member other than the writer is the left side of exactly one assign (its module or the '
                                       'parent\'s), the writer of none, and the assigns lead from every member to the writer',
                        text=txt[-3000:]))
  # ---- the hypotheses of the theorems, on the real data
  seen = {}
  for (w, ms) in X.nets:
    for m in ms:
      if m in seen: ck.disagreement('SConn precondition NetsOk.disjoint (a signal in two value nets)', case, 'n/a', X.name(m))
      seen[m] = w
  for (c, a, b) in X.stmts:
    if a not in seen or b not in seen: ck.disagreement('SConn precondition NetsOk.cover (a connected signal in no value net)', case, 'n/a', [X.name(a), X.name(b)])
  adj = {}
  for (c, a, b) in X.stmts: adj.setdefault(a, set()).add(b); adj.setdefault(b, set()).add(a)
  real_adj = {X.sid[u]: {X.sid[v] for v in vs} for u, vs in X.adjs.items() if vs}
  if adj != real_adj:
    ck.disagreement('get_signal_adjacency_dict() is not the union of the connect statements', case, sorted(adj), sorted(real_adj))
  filed, em = real_passes(X)
  lines.append(X.line()); meta.append((case, X, verdict, txt, filed, em, info, verdict_y))

def compare(ck, rep, m):
  case, X, verdict, txt, filed, em, info, verdict_y = m
  r = leanio.parse_sexp(rep)
  d = {r[i]: r[i + 1] for i in range(0, len(r), 2)}
  if d['valid'] != '1': ck.disagreement('SConn precondition ValidOrder (adjacency sets vs statements)', case, rep[:300], 'n/a')
  if d['nodup'] != '1': ck.disagreement('SConn precondition StmtsNodup (a component states one pair twice)', case, rep[:300], 'n/a')
  if d['netsok'] != '1': ck.disagreement('SConn precondition NetsOk (get_all_value_nets() vs the connected components of the statements)', case, rep[:300], 'n/a')
  # members of every net = what the traversal reaches
  mnets = sorted((int(w), sorted(int(x) for x in ms)) for (w, ms) in d['nets'])
  if mnets != sorted(X.nets):
    ck.disagreement('SConn.traverse reaches exactly the members of get_all_value_nets()', case, mnets[:6], sorted(X.nets)[:6])
  # verdict of the whole translation
  if d['verdict'] != verdict:
    ck.disagreement('SConn.verdict≈VerilogTranslationPass (accepted / TypeError / RTLIRConversionError)', case, d['verdict'], [verdict, str(txt)[:200]])
  if d['verdict'] != verdict_y:
    ck.disagreement('SConn.verdict≈YosysTranslationPass (accepted / TypeError / RTLIRConversionError)', case, d['verdict'], verdict_y)
  # prediction of emit_error_iff_legal, evaluated on the real data
  hostc = lambda i: X.host[i]
  legal = all((hostc(a) == c or X.par[hostc(a)] == c) and (hostc(b) == c or X.par[hostc(b)] == c) for (c, a, b) in X.stmts)
  if legal and d['cyclic'] == '0':
    pred = any(hostc(a) == hostc(b) != c for (c, a, b) in X.stmts)
    if pred != (verdict != 'ok'):
      ck.disagreement('emit_error_iff_legal: rejected iff some component connects two signals of one other component', case, pred, verdict)
  if filed is None:
    if d['verdict'] != 'TypeError': ck.disagreement('gen_connections raised TypeError', case, d['verdict'], 'TypeError')
    return
  mfiled = {int(c): sorted((int(a), int(b)) for (a, b) in ps) for (c, ps) in d['filed']}
  rfiled = {c: filed.get(c, []) for c in mfiled}
  extra = {c: v for c, v in filed.items() if c not in mfiled and v}
  if mfiled != rfiled or extra:
    diff = [c for c in mfiled if mfiled[c] != rfiled[c]]
    c0 = diff[0] if diff else None
    ck.disagreement('SConn.filed≈gen_connections (set filed under every component)', case,
                    {'component': repr(X.comps[c0 - 1]) if c0 else None, 'model': X.pairs(mfiled.get(c0, []))},
                    {'impl': X.pairs(rfiled.get(c0, [])), 'under_unknown_keys': {k: X.pairs(v) for k, v in extra.items()}})
  emit, gse = em
  for ent in d['emit']:
    c = int(ent[0]); comp = X.comps[c - 1]
    got = emit[c]
    if ent[1] == 'err':
      if got[0] != 'err': ck.disagreement('SConn.emit≈_gen_metadata (model rejects, implementation emits)', case, ent, [repr(comp), len(got[1])])
      continue
    if got[0] == 'err':
      ck.disagreement('SConn.emit≈_gen_metadata (implementation rejects, model emits)', case, [repr(comp), X.pairs([(int(a), int(b)) for (a, b) in ent[2]])], got[1]); continue
    mp = [(int(a), int(b)) for (a, b) in ent[2]]
    want = [(gse(comp, X.objs[a]), gse(comp, X.objs[b])) for (a, b) in mp]
    if want != got[1]:
      ck.disagreement('SConn.emit≈_gen_metadata (oriented connections in connect_order)', case,
                      [repr(comp), X.pairs(mp)], [repr(comp), [(str(a), str(b)) for (a, b) in got[1]][:12]])

def run_batch(ck, designs):
  lines, meta = [], []
  for (src, name, info) in designs: check_design(ck, src, name, info, lines, meta)
  for rep, m in zip(ck.drv('sconn').batch(lines), meta): compare(ck, rep, m)
  return len(meta)

def run(ck):
  rng = ck.rng
  import random
  quick = ck.tier == 'quick'
  n_clean, n_var = (140, 12) if quick else (1200, 120)
  designs = []
  for _ in range(n_clean): designs.append(gen_design(random.Random(rng.getrandbits(64)), next(_uid)))
  for v in ('loop', 'dup', 'redundant'):
    for _ in range(n_var): designs.append(gen_design(random.Random(rng.getrandbits(64)), next(_uid), v))
  ck.extra_cov.setdefault('sconn_sample_source', designs[0][0])
  done = 0
  for i in range(0, len(designs), 60): done += run_batch(ck, designs[i:i + 60])
  ck.extra_cov['sconn_designs'] = {'generated': len(designs), 'elaborated_and_compared': done}
  ck.extra_cov['sconn_text_oracle'] = dict(ORACLE)

def replay(ck, data):
  case = data.get('case') or data
  src, name = case.get('source'), case.get('top')
  if not src or not name: print('replay needs the generated source'); return 1
  lines, meta = [], []
  check_design(ck, src, name, {'variant': case.get('variant') or 'replay'}, lines, meta)
  for rep, m in zip(ck.drv('sconn').batch(lines), meta):
    print('model :', rep[:2000]); print('impl  : verdict', m[2]); compare(ck, rep, m)
  print(src)
  for v in ck.violations: print('VIOLATION', v.kind, v.signature, {k: x for k, x in v.detail.items() if k != 'text'})
  for b in ck.breaks: print('DISAGREEMENT', b['correspondence'], b['model'], b['impl'])
  return 1 if (ck.violations or ck.breaks) else 0
