"""C02 (first clause), helper of c02.py — the value constraints GenDAGPass computes.

proof:          lean/PymtlVerif/Props/C02d.lean (model: Model/GenDag.lean = GenDAGPass._process_value_constraints;
                implicit pair <=> related written/read objects <=> a written bit is read; final set with explicit
                inversions; every topological order of the final set runs a non-ff writer of a bit before its readers)
correspondence: generated designs are elaborated, GenDAGPass is applied, and the model input is read off the REAL
                metadata the pass reads (top._dsl.all_upblk_reads / all_upblk_writes, top._dag.genblk_reads /
                genblk_writes, get_all_update_ff(), get_all_explicit_constraints() snapshotted before the pass, which
                mutates U_U); every real object is mapped to (top-level signal, field path, slice) from the object
                itself (_dsl.parent_obj / _dsl.slice / _dsl._my_name + _my_indices); the model's final pairs must equal
                top._dag.all_constraints, its tagged objects top._dag.constraint_objs
direct oracle:  independent of the model and of the object hierarchy: every read / written real object is expanded to
                its set of (top-level signal, bit) with the real packed positions (a zero instance of the real bitstruct
                type with ones poked at the object, to_bits()); every (non-ff writer, other reader) pair sharing a bit
                must be in all_constraints writer->reader unless the reverse pair is explicit (then the reverse must be
                there); every explicit pair must be there
family (g):     constants tied to PARTS of signals (gen_const / check_const).  What a constant net block writes is NOT read
                from genblk_writes: it comes from the design description (Extract fix_writes), for the model input and for
                the bit-sharing oracle above alike; and a second oracle uses no metadata of the pass at all: the (constant
                net, reader) pairs sharing a bit are derived from the description, the blocks are found by generated name /
                source name, and under every pass group (Dynamic, Simple, HeuristicTopo, Mamba2020, Unroll) the constant
                net block must be placed before each such reader in the real schedule, must be entered before it in the
                first evaluation (sys.setprofile), and the reader outputs after the FIRST sim_eval_combinational() /
                sim_tick() (no reset) must equal the reference assembled from the description
"""
import importlib.util, itertools, os, re, sys

from ..common import leanio, rtlgen
from ..common.leanio import InfraError
from . import c08_gen

MODULE = 'PymtlVerif.Props.C02d'
DRIVERS = ['gendag']
THEOREMS = ['PV.C02d.' + t for t in [
  'implicit_iff_related', 'implicit_by_walks', 'implicit_iff_bits', 'final_constraints', 'explicit_pairs',
  'explicit_honoured', 'implicit_kept', 'schedule_respects_bits', 'schedule_respects_explicit',
  'constraint_objs_cover', 'wf_checked']]
TRUSTED = [
  'Model/GenDag.lean stands for GenDAGPass._process_value_constraints (dict/set semantics: results are compared as sets; '
  'blocks are numbered by the harness; `x in obj.get_sibling_slices() and x in write_upblks` is modelled as "x is a written '
  'slice object of the same parent", which presumes every slice object is registered in its parent\'s _dsl.slices — checked '
  'on every extracted object); its input is read off the elaborated design by c02_gendag.Extract',
  'objects well-formed w.r.t. a leaves table (WfObj, hypothesis of implicit_iff_bits / schedule_respects_bits): the field '
  'path of a real sub-signal leads to a Bits leaf of the signal\'s type and a slice lies inside its leaf — not re-proved, '
  'the direct oracle (real packed bit positions) stands in for it on the generated designs',
]
ASSUMPTIONS = [
  'value constraints only (all_constraints before _process_methods adds method pairs; the generated designs have no '
  'method ports, so the compared set is the final one); scheduling of the constraint graph is C02\'s Kahn/SCC part',
  'Input.WF (block ids distinct, kind/host per top-level signal, non-empty slices) is checked by the driver on every '
  'request (PV.C02d.wf_checked)',
]
RULE = ('value-constraint clause: (a) rtlgen designs (structs, nested structs, lists of signals, children, nets, ff blocks; '
        'slice-overlap family), plain and decorated with U<U (order / inversion / 2-cycle) and RD(x)/WR(x) <> U entries on '
        'objects other blocks read/write; (b) c08_gen legal hierarchical designs (fields, nested slices, constants); '
        '(e) library components (RTL queues with interfaces and bitstruct messages, arbiters, crossbar, register file); (c) shape designs: one component, Bits and nested-bitstruct wires with list fields, random written objects '
        '(single writer per bit) and random read objects (whole / field / nested field / list element / slice / variable '
        'index), nets, ff blocks, explicit constraints; (d) table: for each written object of a fixed universe, readers of '
        'every object of the universe; (g) constants tied to parts of signals: a top component and an optional child, every subject '
        'signal (Bits8/12, struct, nested struct; Wire / OutPort / child InPort driven by the parent) cut into disjoint slices / '
        'single bits / fields / nested fields / slices of fields, each driven by a constant net (pairwise distinct constants, int, '
        'Bits or struct instance, `//=` or connect in either order), an update block, a net from a part of an earlier signal, or '
        'nothing; 2-5 readers per signal (update block / net / ff; in the component or in the parent) of the whole signal, '
        'containing / contained / partially overlapping slices, bits, the parent struct, the field, 70% aimed at a constant part; '
        'each (design, pass group) runs eval-first or tick-first. case = one design; non-trivial = at least one implicit pair')

_uid = itertools.count()

# ---------------------------------------------------------------------------------------------
# reading the model input off the real design
# ---------------------------------------------------------------------------------------------
def child_names(Type):
  """names of the sub-signals Signal.__getattr__ creates under a signal of bitstruct type, in declaration order
  (a list field yields one sub-signal per element: name[i][j])"""
  out = []
  def rec(name, t):
    if isinstance(t, list):
      for i, x in enumerate(t): rec(f'{name}[{i}]', x)
    else: out.append(name)
  for name, t in Type.__bitstruct_fields__.items(): rec(name, t)
  return out

class Extract:
  """elaborated top -> numbered blocks / objects, model request, real result"""
  def __init__(self, top, fix_writes=None):
    from pymtl3.dsl.Connectable import Signal, InPort, OutPort, Wire
    from pymtl3.passes.sim.GenDAGPass import GenDAGPass
    self.Signal = Signal
    self.kinds = {InPort: 'in', OutPort: 'out', Wire: 'wire'}
    self.top = top
    # the pass adds the expanded pairs to the U_U set it gets from the DSL: take the explicit input first
    U_U, RD_U, WR_U, _ = top.get_all_explicit_constraints()
    self.uu = set(U_U)
    self.rdu = {o: set(v) for o, v in RD_U.items() if v}
    self.wru = {o: set(v) for o, v in WR_U.items() if v}
    GenDAGPass()(top)
    self.ff = set(top.get_all_update_ff())
    self.reads, self.writes = {}, {}
    for data, tgt in ((top._dsl.all_upblk_reads, self.reads), (top._dag.genblk_reads, self.reads),
                      (top._dsl.all_upblk_writes, self.writes), (top._dag.genblk_writes, self.writes)):
      for blk, objs in data.items(): tgt.setdefault(blk, []).extend(objs)
    # family (g): the objects a constant net block writes come from the design description, not from genblk_writes
    if fix_writes is not None: self.writes.update(fix_writes(top))
    blks = set(self.reads) | set(self.writes) | set(top._dag.final_upblks)
    for (a, b) in self.uu: blks |= {a, b}
    for d in (self.rdu, self.wru):
      for o, v in d.items(): blks |= {b for (_, b) in v}
    hosts = top._dsl.all_upblk_hostobj
    self.blks = sorted(blks, key=lambda b: (b.__name__, repr(hosts.get(b))))
    self.bid = {b: i for i, b in enumerate(self.blks)}
    if len(self.bid) != len(self.blks): raise InfraError('duplicate block functions')
    # objects
    self.objs, self.oid, self.sids, self.hostids = [], {}, {}, {}
    for d in (self.reads, self.writes):
      for b in self.blks:
        for o in sorted(d.get(b, []), key=repr): self.obj_id(o)
    for d in (self.rdu, self.wru):
      for o in sorted(d, key=repr): self.obj_id(o)
    self.real_final = {(self.bid[a], self.bid[b]) for (a, b) in top._dag.all_constraints}
    self.real_cobjs = set()
    for (a, b), os_ in top._dag.constraint_objs.items():
      for o in os_: self.real_cobjs.add((self.bid[a], self.bid[b], self.obj_id(o)))

  def describe(self, o):
    """(sid, kind, host, fields, slice) from the object itself"""
    if not isinstance(o, self.Signal):
      return [self.sids.setdefault(('nonsig', id(o)), len(self.sids)), 'const', 0, [], None]
    sl, x = None, o
    if x._dsl.slice is not None:
      sl = [x._dsl.slice.start, x._dsl.slice.stop]
      p = x._dsl.parent_obj
      if p._dsl.slices.get((sl[0], sl[1])) is not x or x.get_parent_object() is not p:
        raise InfraError(f'slice object {o!r} is not registered in its parent\'s _dsl.slices')
      x = p
    fields = []
    while x._dsl.top_level_signal is not x:
      p = x._dsl.parent_obj
      if not isinstance(p, self.Signal) or x._dsl.slice is not None: raise InfraError(f'unexpected parent chain of {o!r}')
      name = x._dsl._my_name + ''.join(f'[{i}]' for i in (x._dsl._my_indices or []))
      names = child_names(p._dsl.Type)
      if name not in names: raise InfraError(f'{o!r}: {name} is not a sub-signal name of {p._dsl.Type}')
      fields.append(names.index(name))
      x = p
    if isinstance(x._dsl.parent_obj, self.Signal): raise InfraError(f'top-level signal {x!r} has a signal parent')
    kind = next((k for c, k in self.kinds.items() if isinstance(x, c)), None)
    if kind is None: raise InfraError(f'{x!r}: unknown signal class')
    sid = self.sids.setdefault(('sig', id(x)), len(self.sids))
    host = self.hostids.setdefault(id(x.get_host_component()), len(self.hostids))
    return [sid, kind, host, fields[::-1], sl]

  def obj_id(self, o):
    k = id(o)
    if k not in self.oid:
      self.oid[k] = len(self.objs); self.objs.append(o)
    return self.oid[k]

  def request(self):
    ol = [self.describe(o) for o in self.objs]
    keys = [(d[0], tuple(d[3]), tuple(d[4]) if d[4] else None) for d in ol]
    if len(set(keys)) != len(keys): raise InfraError('two real objects with one (signal, path, slice) description')
    bl = [[i, b in self.ff, sorted({self.obj_id(o) for o in self.reads.get(b, [])}),
           sorted({self.obj_id(o) for o in self.writes.get(b, [])})] for i, b in enumerate(self.blks)]
    uu = sorted([self.bid[a], self.bid[b]] for (a, b) in self.uu)
    vc = lambda d: sorted([self.obj_id(o), sign == 1, self.bid[b]] for o, v in d.items() for (sign, b) in v)
    self.desc = ol
    return leanio.line('gendag', 'run', ['objs'] + ol, ['blks'] + bl, ['uu'] + uu, ['rdu'] + vc(self.rdu), ['wru'] + vc(self.wru))

  # ---- direct oracle ---------------------------------------------------------------------
  def obj_bits(self, o):
    """(top-level signal, bit) positions of a real object in the packed value of its top-level signal, from the real
    data types: ones poked into a zero instance at the object, then to_bits()"""
    from pymtl3.datatypes import Bits, mk_bits
    if not isinstance(o, self.Signal): return frozenset()
    sl, x = None, o
    if x._dsl.slice is not None: sl = (x._dsl.slice.start, x._dsl.slice.stop); x = x._dsl.parent_obj
    steps = []
    while x._dsl.top_level_signal is not x:
      steps.append((x._dsl._my_name, list(x._dsl._my_indices or []))); x = x._dsl.parent_obj
    steps.reverse()
    T = x._dsl.Type
    def ones(v, sl=None):
      if isinstance(v, Bits):
        lo, hi = sl or (0, v.nbits)
        return mk_bits(v.nbits)(((1 << (hi - lo)) - 1) << lo)
      if isinstance(v, list): return [ones(y) for y in v]
      new = type(v)()
      for name in type(v).__bitstruct_fields__: setattr(new, name, ones(getattr(v, name)))
      return new
    if not steps:
      val = ones(T(), sl)
    else:
      val = cur = T()
      for k, (name, idxs) in enumerate(steps):
        last = k == len(steps) - 1
        if not idxs:
          if last: setattr(cur, name, ones(getattr(cur, name), sl))
          else: cur = getattr(cur, name)
        else:
          c = getattr(cur, name)
          for i in idxs[:-1]: c = c[i]
          if last: c[idxs[-1]] = ones(c[idxs[-1]], sl)
          else: cur = c[idxs[-1]]
    n = int(val.to_bits()) if not isinstance(val, Bits) else int(val)
    return frozenset((id(x), b) for b in range(n.bit_length()) if (n >> b) & 1)

  def oracle(self):
    """(missing, wrong_direction, explicit_missing, explicit, inverted_but_kept): lists / sets of block-id pairs"""
    cache = {}
    def bits(os_):
      out = set()
      for o in os_:
        if id(o) not in cache: cache[id(o)] = self.obj_bits(o)
        out |= cache[id(o)]
      return out
    rb = {b: bits(self.reads.get(b, [])) for b in self.blks}
    wb = {b: bits(self.writes.get(b, [])) for b in self.blks}
    # the explicit pairs, restated: U<U, and for RD(x)<U / >U every other block that reads exactly x (WR: writes)
    expl = {(self.bid[a], self.bid[b]) for (a, b) in self.uu}
    for d, tab in ((self.rdu, self.reads), (self.wru, self.writes)):
      for x, v in d.items():
        for (sign, u) in v:
          for b in self.blks:
            if b is not u and any(y is x for y in tab.get(b, [])):
              expl.add((self.bid[b], self.bid[u]) if sign == 1 else (self.bid[u], self.bid[b]))
    final = self.real_final
    missing, wrong, kept = [], [], []
    self.shared = 0
    for a in self.blks:
      if a in self.ff or not wb[a]: continue
      for b in self.blks:
        if a is b or not (wb[a] & rb[b]): continue
        self.shared += 1
        p = (self.bid[a], self.bid[b]); q = (p[1], p[0])
        if q in expl:
          if q not in final: missing.append(q)
          if p in final and p not in expl: kept.append(p)
        elif p not in final:
          (wrong if q in final else missing).append(p)
    return missing, wrong, sorted(expl - final), expl, kept

def parse_reply(rep):
  r = {x[0]: x[1:] for x in leanio.parse_sexp(rep)}
  P = lambda k: {(int(a), int(b)) for a, b in r[k]}
  return P('final'), P('impl'), P('expl'), {(int(a), int(b), int(c)) for a, b, c in r['cobjs']}

# ---------------------------------------------------------------------------------------------
# designs
# ---------------------------------------------------------------------------------------------
def load_source(workdir, src, tag):
  modname = f'pvgd_{os.getpid()}_{tag}_{next(_uid)}'
  path = os.path.join(workdir, modname + '.py')
  with open(path, 'w') as f: f.write(src)
  spec = importlib.util.spec_from_file_location(modname, path)
  mod = importlib.util.module_from_spec(spec)
  sys.modules[modname] = mod
  spec.loader.exec_module(mod)
  return mod

def insert_into_class(src, cls, lines):
  """put statements at the end of construct() of class `cls` (the generators end every construct with `    pass`)"""
  L = src.split('\n')
  i = next(k for k, l in enumerate(L) if l.startswith(f'class {cls}('))
  j = next(k for k in range(i, len(L)) if L[k] == '    pass')
  return '\n'.join(L[:j] + lines + L[j:])

def decorate_rtlgen(rng, d, src):
  """RD(x)/WR(x) <> U entries for an rtlgen design: x = an object some block of component C reads / writes (so that the
  expansion is not empty), U = a block of C"""
  fp = rtlgen.footprints(d)
  added, seen = 0, set()
  for _ in range(rng.randint(1, 3)):
    blks = [b for b in d.blocks if not b.get('lam')]       # a `//= lambda` block has no Python name to put in U( ... )
    if not blks: break
    u = rng.choice(blks)
    comp = u['comp']
    cands = []
    for b in d.blocks:
      if b['comp'] != comp or b['id'] == u['id']: continue
      kind, rds, wrs = fp[b['id']]
      cands += [('RD', r) for r in rds] + [('WR', w) for w in wrs]
    if not cands: continue
    typ, r = rng.choice(cands)
    try: ref = d.ref(comp, r)
    except ValueError: continue
    op = rng.choice('<>')
    if (typ, ref, u['name']) in seen: continue       # add_constraints asserts "Duplicated constraint"
    seen.add((typ, ref, u['name']))
    src = insert_into_class(src, d.cls_name(comp), [f'    s.add_constraints( {typ}( {ref} ) {op} U( {u["name"]} ) )'])
    added += 1
  return src, added

# (c) shape designs ----------------------------------------------------------------------------
SHAPE_TYPES = '''from pymtl3 import *

@bitstruct
class GdIn{u}:
  p: Bits4
  q: [ Bits2, Bits2 ]

@bitstruct
class GdSt{u}:
  a: Bits4
  inner: GdIn{u}
  l: [ Bits8, Bits8 ]
  z: Bits1
'''
# sub-objects of a GdSt signal: (suffix, type tag, generator-side bit range inside the 29-bit struct; used only to keep
# the generated writes single-writer — the check itself takes positions from the real types)
ST_OBJS = [('', 'St', (0, 29)), ('.a', 4, (25, 29)), ('.inner', 'In', (17, 25)), ('.inner.p', 4, (21, 25)),
           ('.inner.q[0]', 2, (19, 21)), ('.inner.q[1]', 2, (17, 19)), ('.l[0]', 8, (9, 17)), ('.l[1]', 8, (1, 9)), ('.z', 1, (0, 1))]
IN_OBJS = [('', 'In', (0, 8)), ('.p', 4, (4, 8)), ('.q[0]', 2, (2, 4)), ('.q[1]', 2, (0, 2))]

def sub_objects(name, typ, rng, nslices=2):
  """(expr, width-or-type, (sigkey, lo, hi)) for a signal `name` of type typ (int = Bits width, 'St', 'In')"""
  out = []
  base = [('', typ, (0, typ))] if isinstance(typ, int) else (ST_OBJS if typ == 'St' else IN_OBJS)
  for suf, t, (lo, hi) in base:
    out.append((f's.{name}{suf}', t, (name, lo, hi)))
    if isinstance(t, int) and t >= 2:
      for _ in range(nslices):
        a = rng.randint(0, t - 1); b = rng.randint(a + 1, t)
        if (a, b) != (0, t): out.append((f's.{name}{suf}[{a}:{b}]', b - a, (name, lo + a, lo + b)))
  return out

def gen_shape(rng):
  u = next(_uid)
  sigs = []          # (name, ctor, typ)
  tn = lambda t: f'Bits{t}' if isinstance(t, int) else f'Gd{t}{u}'
  for i in range(rng.randint(1, 2)): sigs.append((f'i{i}', 'InPort', rng.choice([4, 8, 'St', 'In'])))
  for i in range(rng.randint(2, 4)): sigs.append((f'w{i}', rng.choice(['Wire', 'Wire', 'OutPort']), rng.choice([2, 4, 8, 8, 12, 'St', 'St', 'In'])))
  for i in range(rng.randint(0, 2)): sigs.append((f'r{i}', 'Wire', rng.choice([4, 8, 'St'])))      # registers
  for i in range(rng.randint(0, 2)): sigs.append((f'n{i}', 'Wire', rng.choice([4, 8, 8, 'In', 'St'])))   # net readers
  sigs.append(('sel', 'InPort', 1))
  lst = rng.random() < 0.4
  if lst: sigs.append(('wl', 'list', rng.choice([4, 8])))
  objs = {}
  for (name, ctor, typ) in sigs:
    if ctor == 'list':
      for k in range(2): objs[f'{name}[{k}]'] = sub_objects(f'{name}[{k}]', typ, rng)
    else: objs[name] = sub_objects(name, typ, rng)
  all_objs = [o for v in objs.values() for o in v]
  nb = rng.randint(2, 6)
  blks = [dict(name=f'b{k}', ff=False, reads=[], writes=[]) for k in range(nb)]
  taken = {}         # sigkey -> list of (lo, hi, block)
  def free_for(o, k):
    key, lo, hi = o[2]
    return all(hi <= l or h <= lo or bk == k for (l, h, bk) in taken.get(key, []))
  writable = [n for n in objs if n[0] == 'w']
  def take(o, k):
    taken.setdefault(o[2][0], []).append((o[2][1], o[2][2], k))
    blks[k]['writes'].append(o[0])
  # directed: a Bits signal / an 8-bit list element cut into 2-4 pieces written by different blocks, and readers of
  # random sub-ranges of it (overlapping several written sibling slices, one end, containing a piece, inside a piece)
  cut_reads = []
  for (name, ctor, typ) in sigs:
    if name[0] != 'w' or ctor == 'list' or rng.random() < 0.4: continue
    if isinstance(typ, int) and typ >= 4: base, W, off = f's.{name}', typ, 0
    elif typ == 'St': base, W, off = f's.{name}.l[1]', 8, 1
    else: continue
    cuts = sorted(rng.sample(range(1, W), rng.randint(1, min(3, W - 1))))
    bounds = [0] + cuts + [W]
    for i in range(len(bounds) - 1):
      if rng.random() < 0.15: continue
      lo, hi = bounds[i], bounds[i + 1]
      take((f'{base}[{lo}:{hi}]', hi - lo, (name, off + lo, off + hi)), rng.randrange(nb))
    for _ in range(rng.randint(1, 3)):
      a = rng.randint(0, W - 1); b = rng.randint(a + 1, W)
      cut_reads.append(base if (a, b) == (0, W) else f'{base}[{a}:{b}]')
  for _ in range(rng.randint(nb, 3 * nb)):
    k = rng.randrange(nb)
    o = rng.choice(objs[rng.choice(writable)])
    if rng.random() < 0.08:      # a write through a variable index is recorded as a write of the whole signal
      vs = [(n, t) for n, c, t in sigs if n[0] == 'w' and c != 'list' and isinstance(t, int)]
      if vs:
        n, t = rng.choice(vs); o = (f's.{n}[s.sel]', 1, (n, 0, t))
    if not free_for(o, k): continue
    if any(bk == k for (_, _, bk) in taken.get(o[2][0], [])) and rng.random() < 0.6: continue   # same-block overlap: sometimes
    take(o, k)
  regs = [n for n in objs if n[0] == 'r']
  for g, name in enumerate(regs):
    blks.append(dict(name=f'f{g}', ff=True, reads=[], writes=[f's.{name}']))
  for b in blks:
    for _ in range(rng.randint(0, 4)):
      o = rng.choice(all_objs)
      b['reads'].append(o[0])
    for r in cut_reads:
      if rng.random() < 0.5: b['reads'].append(r)
    if rng.random() < 0.25:      # variable index: the whole signal / every element is recorded
      cands = [n for n, c, t in sigs if isinstance(t, int) and c != 'list' and n != 'sel']
      if cands: b['reads'].append(f's.{rng.choice(cands)}[s.sel]')
    if rng.random() < 0.2:
      cands = [n for n, c, t in sigs if t == 'St']
      if cands: b['reads'].append(f's.{rng.choice(cands)}.l[s.sel]')
    if lst and rng.random() < 0.3: b['reads'].append('s.wl[s.sel]')
  # nets: reader = an object of an n-signal, writer = an object of the same type that is driven
  conns = []
  driven = [o for o in all_objs if o[2][0][0] == 'i' or o[0] in {w for b in blks for w in b['writes']}]
  for name in [n for n in objs if n[0] == 'n']:
    cands = list(objs[name]); rng.shuffle(cands)
    used = []
    for o in cands[:3]:
      if any(not (o[2][2] <= l or h <= o[2][1]) for (l, h) in used): continue
      ws = [x for x in driven if x[1] == o[1] and x[2][0] != name]
      if not ws: continue
      w = rng.choice(ws)
      used.append((o[2][1], o[2][2]))
      conns.append(f'    connect( {o[0]}, {w[0]} )' if rng.random() < 0.7 else f'    connect( {w[0]}, {o[0]} )')
  cons = []
  combs = [b for b in blks if not b['ff']]
  for _ in range(rng.choice([0, 0, 1, 2, 3])):
    k = rng.random()
    ub = rng.choice(blks)
    if k < 0.35 and len(combs) >= 2:
      a, b = rng.sample(combs, 2)
      cons.append(f'U( {a["name"]} ) < U( {b["name"]} )')
    else:
      typ = 'RD' if rng.random() < 0.5 else 'WR'
      pool = [x for b in blks for x in (b['reads'] if typ == 'RD' else b['writes']) if 's.sel]' not in x]
      if not pool: continue
      cons.append(f'{typ}( {rng.choice(pool)} ) {rng.choice("<>")} U( {ub["name"]} )')
  cons = list(dict.fromkeys(cons))
  cls = f'GdShape{u}'
  out = [SHAPE_TYPES.format(u=u), f'class {cls}( Component ):', '  def construct( s ):']
  for (name, ctor, typ) in sigs:
    if ctor == 'list': out.append(f'    s.{name} = [ Wire( {tn(typ)} ) for _ in range(2) ]')
    else: out.append(f'    s.{name} = {ctor}( {tn(typ)} )')
  out += conns
  for b in blks:
    out += [f'    @update_ff' if b['ff'] else '    @update', f'    def {b["name"]}():']
    for k, r in enumerate(b['reads']): out.append(f'      t{k} = {r}')
    for w in b['writes']: out.append(f'      {w} {"<<=" if b["ff"] else "@="} 0')
    if not b['reads'] and not b['writes']: out.append('      pass')
  for c in cons: out.append(f'    s.add_constraints( {c} )')
  out += ['    pass', '']
  return '\n'.join(out), cls

# (d) table: every (written object, read object) pair of a fixed universe ----------------------
TABLE_OBJS = ['s.x', 's.x.a', 's.x.a[0:2]', 's.x.a[1:3]', 's.x.a[2:4]', 's.x.inner', 's.x.inner.p', 's.x.inner.p[0:4]', 's.x.inner.q[0]',
              's.x.inner.q[1]', 's.x.inner.q[1][0:1]', 's.x.l[0]', 's.x.l[1]', 's.x.l[1][0:5]', 's.x.l[1][4:8]', 's.x.l[1][5:6]', 's.x.z', 's.y']

def gen_table(k, ff=False):
  u = next(_uid)
  cls = f'GdTab{u}'
  w = TABLE_OBJS[k]
  out = [SHAPE_TYPES.format(u=u), f'class {cls}( Component ):', '  def construct( s ):',
         f'    s.x = Wire( GdSt{u} )', f'    s.y = Wire( GdSt{u} )']
  if ff: out += ['    @update_ff', '    def wr():', '      s.x <<= s.y']
  else: out += ['    @update', '    def wr():', f'      {w} @= 0']
  for j, r in enumerate(TABLE_OBJS):
    out += ['    @update', f'    def rd{j}():', f'      t = {r}']
  out += ['    pass', '']
  return '\n'.join(out), cls

# (e) library components (interfaces, function-free RTL with nets across two levels) ------------
STDLIB = [
  ('from pymtl3.stdlib.queues.queues import NormalQueueRTL', 'NormalQueueRTL( Bits8, 2 )'),
  ('from pymtl3.stdlib.queues.queues import NormalQueueRTL', 'NormalQueueRTL( GdMsg, 3 )'),
  ('from pymtl3.stdlib.queues.queues import PipeQueueRTL', 'PipeQueueRTL( GdMsg, 2 )'),
  ('from pymtl3.stdlib.queues.queues import BypassQueueRTL', 'BypassQueueRTL( Bits8, 1 )'),
  ('from pymtl3.stdlib.stream.queues import NormalQueueRTL', 'NormalQueueRTL( GdMsg, 2 )'),
  ('from pymtl3.stdlib.stream.queues import PipeQueueRTL', 'PipeQueueRTL( Bits8, 1 )'),
  ('from pymtl3.stdlib.stream.queues import BypassQueueRTL', 'BypassQueueRTL( Bits8, 2 )'),
  ('from pymtl3.stdlib.basic_rtl.arbiters import RoundRobinArbiter', 'RoundRobinArbiter( 4 )'),
  ('from pymtl3.stdlib.basic_rtl.arbiters import RoundRobinArbiterEn', 'RoundRobinArbiterEn( 3 )'),
  ('from pymtl3.stdlib.basic_rtl.crossbars import Crossbar', 'Crossbar( 3, Bits8 )'),
  ('from pymtl3.stdlib.basic_rtl.register_files import RegisterFile', 'RegisterFile( Bits8, 4, 2, 1 )'),
]

def gen_stdlib(k):
  imp, ctor = STDLIB[k]
  u = next(_uid)
  cls = f'GdStd{u}'
  base, args = ctor.split('(', 1)[0], ctor.split('(', 1)[1].rsplit(')', 1)[0].strip()
  src = '\n'.join(['from pymtl3 import *', imp, '', '@bitstruct', 'class GdMsg:', '  a: Bits4', '  b: Bits8', '',
                   f'class {cls}( {base} ):', '  def construct( s ):', f'    super().construct( {args} )', ''])
  return src, cls

# (f) one signal constrained by several components ----------------------------------------------
HIER_FLOWS = ['default', 'simple', 'heutopo', 'mamba', 'unroll']

def gen_hier(rng):
  """a chain of 2-3 components (child C inside [P inside] Top); x = a port of C (whole / slice / struct field), written
  by C.up_out; every level i has a block rd_i that reads exactly x (through its own path) and a block aux_i that does
  not touch x; every level may declare value constraints on x: WR kind for rd_i (`U(rd_i) < WR(x)`: reader before the
  writer, inverting the implicit pair; or `WR(x) < U(rd_i)`), RD kind for aux_i (`U(aux_i) < RD(x)` / `RD(x) < U(aux_i)`:
  before / after every block that reads x). At least two levels declare the same kind. Returns (src, cls, spec)."""
  u = next(_uid)
  depth = rng.choice([2, 3, 3])
  shape = rng.choice(['whole', 'whole', 'slice', 'field'])
  names = ['C', 'P', 'Top'] if depth == 3 else ['C', 'Top']
  w = 8 if shape == 'whole' else 4
  xs = {'whole': 'out', 'slice': 'out[0:4]', 'field': 'out.a'}[shape]
  inst = ['c', 'p']         # instance name of the level-k component inside the level-(k+1) component
  def down(l, k):           # path prefix from the level-l component to the level-k component (k <= l)
    return ''.join(inst[j] + '.' for j in range(l - 1, k - 1, -1))
  xpath = lambda level: 's.' + down(level, 0) + xs
  # choices
  while True:
    wr = [rng.choice(['before', 'before', 'after', None]) for _ in range(depth)]
    rd = [rng.choice(['before', 'after', None, None]) for _ in range(depth)]
    if sum(1 for k in wr if k) >= 2 or sum(1 for k in rd if k) >= 2: break
  declared = []      # (typ, level, component class, block, 'before'|'after')
  cls = lambda level: f'GdH{u}_{names[level]}'
  out = ['from pymtl3 import *', '', '@bitstruct', f'class GdHS{u}:', '  b: Bits4', '  a: Bits4', '']
  T = f'GdHS{u}' if shape == 'field' else 'Bits8'
  for level in range(depth):
    x = xpath(level)
    out += [f'class {cls(level)}( Component ):', '  def construct( s ):', '    s.in_ = InPort( Bits8 )',
            f'    s.seen = OutPort( Bits{w} )', '    s.auxo = OutPort( Bits8 )']
    if level == 0:
      out += [f'    s.out = OutPort( {T} )', '    @update', '    def up_out():',
              f'      {x} @= ' + ('s.in_ + 1' if shape == 'whole' else 's.in_[0:4] + 1')]
      if shape != 'whole':
        out += ['    @update', '    def up_rest():', f'      s.{"out[4:8]" if shape == "slice" else "out.b"} @= s.in_[4:8]']
    else:
      sub = inst[level - 1]
      out += [f'    s.{sub} = {cls(level - 1)}()', f'    s.{sub}.in_ //= s.in_']
      if shape != 'whole' and rng.random() < 0.5:      # a reader of the whole port: related to x, not x itself
        out += [f'    s.wh{level} = OutPort( {T} )', '    @update', f'    def up_whole_{level}():',
                f'      s.wh{level} @= {x.rsplit(".out", 1)[0]}.out']
    out += ['    @update', f'    def rd_{level}():', f'      s.seen @= {x}',
            '    @update', f'    def aux_{level}():', '      s.auxo @= s.in_']
    cons = []
    if wr[level]:
      a, b = f'U( rd_{level} )', f'WR( {x} )'
      if wr[level] == 'after': a, b = b, a
      cons.append(f'{a} < {b}' if rng.random() < 0.6 else f'{b} > {a}')
      declared.append(['WR', level, cls(level), f'rd_{level}', wr[level]])
    if rd[level]:
      a, b = f'U( aux_{level} )', f'RD( {x} )'
      if rd[level] == 'after': a, b = b, a
      cons.append(f'{a} < {b}' if rng.random() < 0.6 else f'{b} > {a}')
      declared.append(['RD', level, cls(level), f'aux_{level}', rd[level]])
    if rd[level] != 'after' and rng.random() < 0.3:
      cons.append(f'U( aux_{level} ) < U( rd_{level} )')
    rng.shuffle(cons)
    if cons and rng.random() < 0.5: out.append('    s.add_constraints( ' + ', '.join(cons) + ' )')
    else: out += [f'    s.add_constraints( {c} )' for c in cons]
    out += ['    pass', '']
  spec = {'x': xpath(depth - 1), 'declared': declared, 'depth': depth, 'shape': shape,
          'readers': [[f'rd_{l}', 's.' + down(depth - 1, l) + 'seen', wr[l] == 'before'] for l in range(depth)]}
  return '\n'.join(out), cls(depth - 1), spec

def hier_tables(top, spec):
  """(declared, real): the value-constraint entries as (kind, repr(x), sign, block name) — from the generated
  description, and from top._dsl.all_RD_U_constraints / all_WR_U_constraints"""
  x = eval(spec['x'], {'s': top})
  # `U(b) < WR(x)` is stored as (sign -1, b): WR(x) > U(b)
  decl = {(typ, repr(x), -1 if how == 'before' else 1, blk) for (typ, _, _, blk, how) in spec['declared']}
  real = set()
  _, RD_U, WR_U, _ = top.get_all_explicit_constraints()
  for typ, tab in (('RD', RD_U), ('WR', WR_U)):
    for o, v in tab.items():
      for (sign, b) in v: real.add((typ, repr(o), sign, b.__name__))
  return decl, real

def check_hier(ck, src, clsname, spec, lines, metas, verbose=False):
  """model side like every other family (appended to lines/metas) + declared-vs-collected tables + the direct oracle on
  the real schedules and simulated values of every pass group"""
  import types
  mod = load_source(ck.workdir, src, 'hier')
  case = {'gendag': True, 'family': 'hier', 'top': clsname, 'source': src, 'hier': spec}
  bad = 0
  try:
    cls = getattr(mod, clsname)
    top = cls(); top.elaborate()
    decl, real = hier_tables(top, spec)
    if verbose: print('declared      :', sorted(decl)); print('collected     :', sorted(real))
    if decl != real:
      bad = 1
      ck.disagreement('declared RD/WR(x)<>U entries≈all_RD_U/all_WR_U_constraints', case,
                      {'declared_not_collected': sorted(decl - real)}, {'collected_not_declared': sorted(real - decl)})
    ex = Extract(top)
    lines.append(ex.request()); metas.append((ex, case, 'hier'))
    stub = types.SimpleNamespace(blocks=[], nets={})
    for flow in HIER_FLOWS:
      try:
        rs = rtlgen.RealSim(cls, stub, flow)
      except Exception as e:
        bad = 1
        ck.violation('legal-constraints-rejected', {'flow': flow, 'family': 'hier'}, dict(case, flow=flow),
                     {'outcome': type(e).__name__ + ': ' + str(e)[:300], 'oracle': 'the declared constraints are acyclic: the design must be scheduled'})
        continue
      t = rs.top
      blks = list(t._dag.final_upblks)
      rs.blk2id = {b: i for i, b in enumerate(blks)}; rs.unknown = []
      entries = rs.schedule_entries()
      if any(e[0] != 'b' for e in entries): raise InfraError(f'hier: unexpected schedule entries {entries}')
      order = [e[1] for e in entries]
      pos = {i: k for k, i in enumerate(order)}
      byname = {b.__name__: rs.blk2id[b] for b in blks}
      tabs = {'RD': [t._dsl.all_upblk_reads, t._dag.genblk_reads], 'WR': [t._dsl.all_upblk_writes, t._dag.genblk_writes]}
      viol = []
      for (typ, level, comp, bname, how) in spec['declared']:
        b = byname[bname]
        S = [rs.blk2id[blk] for tab in tabs[typ] for blk, objs in tab.items() if any(repr(o) == spec['x'] for o in objs) and rs.blk2id[blk] != b]   # signals are values after the sim passes: match by name
        if typ == 'WR' and not S: raise InfraError(f'hier: no block writes {spec["x"]}')
        for o in S:
          if b not in pos or o not in pos or not (pos[b] < pos[o] if how == 'before' else pos[o] < pos[b]):
            viol.append({'declared_in': comp, 'constraint': (f'U({bname}) < {typ}({spec["x"]})' if how == 'before' else f'{typ}({spec["x"]}) < U({bname})'),
                         'other_block': blks[o].__name__})
      sched_names = [blks[i].__name__ for i in order]
      if verbose: print(f'{flow:8s} schedule:', sched_names)
      if viol:
        bad = 1
        ck.violation('declared-value-constraint-order', {'flow': flow}, dict(case, flow=flow),
                     {'schedule': sched_names, 'violated': viol,
                      'oracle': 'every declared U(b) < WR/RD(x) puts b before every other block that writes/reads exactly x (after it for WR/RD(x) < U(b)), whichever component declared it'})
      # simulated values: readers declared before the writer see the value of the previous evaluation
      t.in_ @= 5; t.sim_eval_combinational(); t.in_ @= 7; t.sim_eval_combinational()
      got = {spec['x']: int(eval(spec['x'], {'s': t}))}; want = {spec['x']: 8}
      for (bname, path, before) in spec['readers']:
        got[path] = int(eval(path, {'s': t})); want[path] = 6 if before else 8
      if verbose: print(f'{flow:8s} values  :', got, 'expected', want)
      if got != want:
        bad = 1
        ck.violation('declared-value-constraint-value', {'flow': flow}, dict(case, flow=flow),
                     {'values': got, 'expected': want, 'schedule': sched_names,
                      'oracle': 'in_=5 then in_=7, one combinational evaluation each: x = in_+1 = 8; a reader constrained before the writer of x still sees 6, every other reader sees 8'})
    ck.hist('gendag_hier_shape', f"{spec['shape']}/{spec['depth']}")
    ck.hist('gendag_hier_same_kind_declarers', max(sum(1 for d in spec['declared'] if d[0] == k) for k in ('RD', 'WR')))
  finally:
    sys.modules.pop(mod.__name__, None)
  return bad

# (g) constants tied to PARTS of signals: the net blocks of constant writers ------------------------
CN_TYPES = '''from pymtl3 import *

@bitstruct
class CnIn{u}:
  p: Bits4
  q: Bits2

@bitstruct
class CnSt{u}:
  kind: Bits4
  inner: CnIn{u}
  len_: Bits6
'''
# generator-side layout of the two struct types (first field = most significant); the value oracle checks it against
# the real packed values
CN_FIELDS = {'St': [('.kind', 12, 16, 4), ('.inner', 6, 12, 'In'), ('.inner.p', 8, 12, 4), ('.inner.q', 6, 8, 2), ('.len_', 0, 6, 6)],
             'In': [('.p', 2, 6, 4), ('.q', 0, 2, 2)]}
CN_WIDTH = {'St': 16, 'In': 6}
CN_MODES = ['eval', 'tick']
cn_w = lambda t: t if isinstance(t, int) else CN_WIDTH[t]

def cn_sub(rng, suf, lo, w):
  """a proper slice / single bit of a Bits part (suf, lo, width w >= 2)"""
  if rng.random() < 0.35:
    a = rng.randrange(w)
    return (f'{suf}[{a}]' if rng.random() < 0.6 else f'{suf}[{a}:{a+1}]', lo + a, lo + a + 1, 1)
  while True:
    a = rng.randint(0, w - 1); b = rng.randint(a + 1, w)
    if (a, b) != (0, w): return (f'{suf}[{a}:{b}]', lo + a, lo + b, b - a)

def cn_random_part(rng, typ):
  """(suffix, lo, hi, type of the part) of a signal of type typ"""
  W = cn_w(typ)
  if isinstance(typ, int):
    return ('', 0, W, W) if rng.random() < 0.15 else cn_sub(rng, '', 0, W)
  if rng.random() < 0.2: return ('', 0, W, typ)
  suf, lo, hi, t = rng.choice(CN_FIELDS[typ])
  if isinstance(t, int) and t >= 2 and rng.random() < 0.4: return cn_sub(rng, suf, lo, t)
  return (suf, lo, hi, t)

def cn_pieces(rng, typ):
  """disjoint parts of a signal of type typ (candidates for a driver each)"""
  out = []
  def leaf(suf, lo, w):
    if w >= 2 and rng.random() < (0.35 if suf else 1.0):
      cuts = sorted(rng.sample(range(1, w), rng.randint(1, min(3, w - 1))))
      bs = [0] + cuts + [w]
      for a, b in zip(bs, bs[1:]):
        if b - a == 1 and rng.random() < 0.5: out.append((f'{suf}[{a}]', lo + a, lo + b, 1))
        else: out.append((f'{suf}[{a}:{b}]', lo + a, lo + b, b - a))
    else: out.append((suf, lo, lo + w, w))
  if isinstance(typ, int): leaf('', 0, typ)
  elif typ == 'In': leaf('.p', 2, 4); leaf('.q', 0, 2)
  else:
    leaf('.kind', 12, 4); leaf('.len_', 0, 6)
    if rng.random() < 0.35: out.append(('.inner', 6, 12, 'In'))
    else: leaf('.inner.p', 8, 4); leaf('.inner.q', 6, 2)
  return out

def gen_const(rng):
  """top component T (optionally with a child C).  Every subject signal (Wire / OutPort of its component; InPort of the
  child, driven by the parent) is cut into disjoint parts, each driven by a CONSTANT net, by an update block (from a
  slice of in_), by a net from a part of an earlier signal, or by nothing.  Readers (update blocks, nets, ff blocks; in
  the component itself, or in the parent for a child's OutPort) read the whole signal, slices, single bits, the parent
  struct, fields - most of them chosen to overlap a constant part.  Returns (source, top class, spec); the spec is the
  design description every oracle of check_const is derived from."""
  u = next(_uid)
  tname = lambda t: f'Bits{t}' if isinstance(t, int) else f'Cn{t}{u}'
  used_consts = set()
  sigs, readers, wblks = [], [], []           # sigs in evaluation order (child first)
  has_child = rng.random() < 0.6
  nid = itertools.count()
  def new_sig(comp, name, ctor, typ, driver_comp):
    sg = dict(key=('c.' if comp == 'C' else '') + name, comp=comp, name=name, ctor=ctor, typ=typ, W=cn_w(typ), drv_comp=driver_comp, pieces=[])
    earlier = [x for x in sigs if (x['comp'] == comp or (comp == 'T' and x['comp'] == 'C' and x['ctor'] == 'OutPort')) and driver_comp == comp]
    for (suf, lo, hi, t) in cn_pieces(rng, typ):
      r = rng.random()
      drv = None
      if r < 0.55:
        w = hi - lo
        for _ in range(6):
          v = rng.randrange(1 << w) if rng.random() < 0.85 else 0
          if (w, v) not in used_consts and (t, v) not in used_consts: break
        else: v = None
        if v is not None:
          used_consts.add((w, v)); used_consts.add((t, v))
          drv = dict(kind='const', value=v, cid=next(nid))
      elif r < 0.75 and isinstance(t, int):
        drv = dict(kind='comp', k=rng.randint(0, 16 - (hi - lo)), blk=f'{driver_comp}_w{next(nid)}')
      elif r < 0.9 and isinstance(t, int) and earlier:
        src = rng.choice(earlier); w = hi - lo
        for _ in range(8):
          ssuf, slo, shi, st = cn_random_part(rng, src['typ'])
          if shi - slo == w and isinstance(st, int): break
        else: ssuf = None
        if ssuf is not None and not any(p['drv'] and p['drv']['kind'] in ('const', 'net') and (p['lo'], p['hi']) == (slo, shi) for p in src['pieces']) \
           and any(p['drv'] and p['lo'] < shi and slo < p['hi'] for p in src['pieces']):
          drv = dict(kind='net', src=src['key'], ssuf=ssuf, slo=slo, shi=shi, rid=f'n{next(nid)}')
      sg['pieces'].append(dict(suf=suf, lo=lo, hi=hi, typ=t, drv=drv))
    sigs.append(sg)
    return sg
  def add_readers(sg, comp):
    consts = [p for p in sg['pieces'] if p['drv'] and p['drv']['kind'] == 'const']
    for _ in range(rng.randint(2, 5)):
      part = cn_random_part(rng, sg['typ'])
      if consts and rng.random() < 0.7:
        tgt = rng.choice(consts)
        for _ in range(10):
          if part[1] < tgt['hi'] and tgt['lo'] < part[2]: break
          part = cn_random_part(rng, sg['typ'])
      suf, lo, hi, t = part
      k = rng.random()
      kind = 'blk' if k < 0.55 else ('net' if k < 0.88 else 'ff')
      if kind == 'net' and (any(p['drv'] and p['drv']['kind'] in ('const', 'net') and (p['lo'], p['hi']) == (lo, hi) for p in sg['pieces'])
                            or not any(p['drv'] and p['lo'] < hi and lo < p['hi'] for p in sg['pieces'])):
        kind = 'blk'      # a net from exactly a constant part joins the constant's net: no block of its own
      i = next(nid)
      readers.append(dict(rid=f'r{i}', comp=comp, kind=kind, sig=sg['key'], suf=suf, lo=lo, hi=hi, typ=t, out=f'o{i}', blk=f'{comp}_rd{i}'))
  if has_child:
    for i in range(rng.randint(0, 2)): add_readers(new_sig('C', f'ci{i}', 'InPort', rng.choice([8, 12, 'St', 'In']), 'T'), 'C')
    for i in range(rng.randint(1, 2)):
      sg = new_sig('C', f'cx{i}', rng.choice(['Wire', 'OutPort', 'OutPort']), rng.choice([8, 12, 'St', 'St', 'In']), 'C')
      add_readers(sg, 'C')
      if sg['ctor'] == 'OutPort' and rng.random() < 0.7: add_readers(sg, 'T')
  for i in range(rng.randint(1, 3) if has_child else rng.randint(2, 3)):
    add_readers(new_sig('T', f'tx{i}', rng.choice(['Wire', 'Wire', 'OutPort']), rng.choice([8, 12, 'St', 'St', 'In']), 'T'), 'T')
  # ---- source
  bykey = {sg['key']: sg for sg in sigs}
  def ref(comp, key, suf):       # expression for signal `key` seen from component comp
    sg = bykey[key]
    return ('s.' if sg['comp'] == comp else 's.c.') + sg['name'] + suf
  def const_text(p):
    v, t = p['drv']['value'], p['typ']
    if t == 'In': return f'CnIn{u}( {v >> 2}, {v & 3} )'
    return rng.choice([str(v), hex(v), f'Bits{t}( {v} )'])
  def body(comp):
    L = []
    for sg in sigs:
      if sg['comp'] == comp: L.append(f"    s.{sg['name']} = {sg['ctor']}( {tname(sg['typ'])} )")
    if comp == 'T' and has_child: L += [f'    s.c = CnC{u}()', '    s.c.in_ //= s.in_']
    stm = []
    for sg in sigs:
      if sg['drv_comp'] != comp: continue
      for p in sg['pieces']:
        d = p['drv']
        if not d: continue
        x = ref(comp, sg['key'], p['suf'])
        if d['kind'] == 'const':
          c = const_text(p)
          simple = p['suf'].count('.') == 0 or (p['suf'].count('.') == 1 and '[' not in p['suf'])
          k = rng.random()
          stm.append([f'    {x} //= {c}'] if (simple and k < 0.5) else [f'    connect( {x}, {c} )'] if k < 0.8 else [f'    connect( {c}, {x} )'])
        elif d['kind'] == 'comp':
          stm.append(['    @update', f"    def {d['blk']}():", f"      {x} @= s.in_[{d['k']}:{d['k'] + p['hi'] - p['lo']}]"])
        else:
          y = ref(comp, d['src'], d['ssuf'])
          stm.append([f'    connect( {x}, {y} )'] if rng.random() < 0.5 else [f'    {x} //= {y}'] if p['suf'].count('.') == 0 else [f'    connect( {y}, {x} )'])
    for r in readers:
      if r['comp'] != comp: continue
      x = ref(comp, r['sig'], r['suf'])
      decl = f"    s.{r['out']} = OutPort( {tname(r['typ'])} )"
      if r['kind'] == 'net': stm.append([decl, f"    s.{r['out']} //= {x}"])
      elif r['kind'] == 'blk': stm.append([decl, '    @update', f"    def {r['blk']}():", f"      s.{r['out']} @= {x}"])
      else: stm.append([decl, '    @update_ff', f"    def {r['blk']}():", f"      s.{r['out']} <<= {x}"])
    rng.shuffle(stm)
    return L + [l for g in stm for l in g]
  out = [CN_TYPES.format(u=u)]
  if has_child:
    out += [f'class CnC{u}( Component ):', '  def construct( s ):', '    s.in_ = InPort( 16 )'] + body('C') + ['    pass', '']
  out += [f'class CnT{u}( Component ):', '  def construct( s ):', '    s.in_ = InPort( 16 )'] + body('T') + ['    pass', '']
  spec = {'u': u, 'sigs': sigs, 'readers': readers}
  return '\n'.join(out), f'CnT{u}', spec

def cn_reference(spec, v):
  """packed value of every subject signal and the value every reader's output port shows once every block has run
  after its writers, for in_ = v"""
  val = {}
  for sg in spec['sigs']:
    x = 0
    for p in sg['pieces']:
      d, m = p['drv'], (1 << (p['hi'] - p['lo'])) - 1
      if not d: continue
      if d['kind'] == 'const': y = d['value']
      elif d['kind'] == 'comp': y = (v >> d['k']) & m
      else: y = (val[d['src']] >> d['slo']) & m
      x |= y << p['lo']
    val[sg['key']] = x
  outs = {}
  for r in spec['readers']:
    path = ('c.' if r['comp'] == 'C' else '') + r['out']
    outs[path] = (r['kind'], (val[r['sig']] >> r['lo']) & ((1 << (r['hi'] - r['lo'])) - 1))
  return val, outs

def cn_pairs(spec):
  """from the design description only: (constant net, reader) pairs that share a bit.  A reader is an update block or a
  net block (a net reader, or the net that drives a part of another signal) - ff readers run in the ff phase."""
  consts, rds = [], []
  for sg in spec['sigs']:
    for p in sg['pieces']:
      d = p['drv']
      if d and d['kind'] == 'const': consts.append(dict(cid=d['cid'], sig=sg['key'], suf=p['suf'], lo=p['lo'], hi=p['hi'], typ=p['typ'], value=d['value']))
      if d and d['kind'] == 'net': rds.append(dict(rid=d['rid'], kind='net', sig=d['src'], suf=d['ssuf'], lo=d['slo'], hi=d['shi']))
  for r in spec['readers']:
    if r['kind'] != 'ff': rds.append(dict(rid=r['rid'], kind=r['kind'], sig=r['sig'], suf=r['suf'], lo=r['lo'], hi=r['hi'], blk=r['blk']))
  pairs = [(c['cid'], r['rid']) for c in consts for r in rds if c['sig'] == r['sig'] and c['lo'] < r['hi'] and r['lo'] < c['hi']]
  return consts, rds, pairs

def cn_norm(s): return s.replace(' ', '').lower()

def cn_locate(top, mod, spec, consts, rds, reprs):
  """the real block functions, found by generated name / source name only (no metadata of the pass): constant net block =
  the generated block whose source name is `Net (writer is <repr of the constant>` (the constants of a design are
  pairwise distinct); reader update block by function name; reader net block by `Net (writer is <repr of the read part>`"""
  from pymtl3.datatypes import mk_bits
  u = spec['u']
  gen = {}
  for b in top._dag.final_upblks:
    fn = b.__code__.co_filename
    if fn.startswith('Net (writer is '): gen.setdefault(cn_norm(fn), []).append(b)
  named = {}
  for b in top._dag.final_upblks:
    if not b.__code__.co_filename.startswith('Net (writer is '): named.setdefault(b.__name__, []).append(b)
  cblk, rblk = {}, {}
  for c in consts:
    val = getattr(mod, f'CnIn{u}')(c['value'] >> 2, c['value'] & 3) if c['typ'] == 'In' else mk_bits(c['hi'] - c['lo'])(c['value'])
    bs = gen.get(cn_norm(f'Net (writer is {val!r}'), [])
    if len(bs) > 1: raise InfraError(f'constnet: {len(bs)} generated blocks for the constant {val!r}')
    cblk[c['cid']] = bs[0] if bs else None
  for r in rds:
    bs = named.get(r['blk'], []) if r['kind'] == 'blk' else gen.get(cn_norm(f"Net (writer is {reprs[r['rid']]}"), [])
    if len(bs) != 1: raise InfraError(f"constnet: {len(bs)} blocks for reader {r['rid']} ({r['kind']} of {r['sig']}{r['suf']})")
    rblk[r['rid']] = bs[0]
  return cblk, rblk

def check_const(ck, src, clsname, spec, lines, metas, modes, verbose=False, fixed_ins=None):
  """family (g): model side like every other family, except that the objects written by the constant net blocks are
  taken from the design description (Extract fix_writes); direct oracle independent of the pass's metadata on the real
  schedule, the run-time call order and the simulated values of every pass group"""
  import types
  mod = load_source(ck.workdir, src, 'constnet')
  case = {'gendag': True, 'family': 'constnet', 'top': clsname, 'source': src, 'constnet': spec}
  consts, rds, pairs = cn_pairs(spec)
  bad = 0
  try:
    cls = getattr(mod, clsname)
    top = cls()
    try: top.elaborate()
    except Exception as e:
      ck.hist('gendag_rejected', 'constnet')
      if verbose: print('elaboration raised', type(e).__name__, str(e)[:300])
      return 'rejected'
    key2path = lambda key, suf: 's.' + key + suf
    reprs = {r['rid']: repr(eval(key2path(r['sig'], r['suf']), {'s': top})) for r in rds}
    described = {}
    def fix_writes(t):
      cblk, _ = cn_locate(t, mod, spec, consts, rds, reprs)
      out = {}
      for c in consts:
        if cblk[c['cid']] is None: raise InfraError(f"constnet: no generated block for the constant net of {c['sig']}{c['suf']}")
        out[cblk[c['cid']]] = [eval(key2path(c['sig'], c['suf']), {'s': t})]
      described.update(out)
      return out
    ex = Extract(top, fix_writes=fix_writes)
    got_w = {b.__name__ + '@' + repr(o[0]): sorted(map(repr, top._dag.genblk_writes.get(b, []))) for b, o in described.items()}
    want_w = {b.__name__ + '@' + repr(o[0]): sorted(map(repr, o)) for b, o in described.items()}
    if got_w != want_w:
      bad = 1
      ck.disagreement('described writes of the constant net blocks≈genblk_writes', case, want_w, got_w)
    lines.append(ex.request()); metas.append((ex, case, 'constnet'))
    stub = types.SimpleNamespace(blocks=[], nets={})
    cdesc = {c['cid']: f"{c['sig']}{c['suf']} //= {c['value']:#x}" for c in consts}
    rdesc = {r['rid']: (r.get('blk') or 'net') + f" reads {r['sig']}{r['suf']}" for r in rds}
    for flow in HIER_FLOWS:
      for mode in modes[flow]:
        rs = rtlgen.RealSim(cls, stub, flow)
        t = rs.top
        blks = list(t._dag.final_upblks)
        rs.blk2id = {b: i for i, b in enumerate(blks)}; rs.unknown = []
        entries = rs.schedule_entries()
        if any(e[0] != 'b' for e in entries): raise InfraError(f'constnet: unexpected schedule entries {entries}')
        order = [e[1] for e in entries]
        cblk, rblk = cn_locate(t, mod, spec, consts, rds, reprs)
        label = lambda i: blks[i].__name__ + ' <' + blks[i].__code__.co_filename + '>' if blks[i].__code__.co_filename.startswith('Net') else blks[i].__name__
        # (ii) run-time order of the very first evaluation, (iii) its values
        code2id = {b.__code__: i for b, i in rs.blk2id.items()}
        if len(code2id) != len(blks): raise InfraError('constnet: two blocks share a code object')
        calls = []
        def prof(frame, event, arg):
          if event == 'call':
            i = code2id.get(frame.f_code)
            if i is not None: calls.append(i)
        vals = []
        ins = list(fixed_ins) if fixed_ins else [ck.rng.getrandbits(16) | 1, ck.rng.getrandbits(16)]
        for step, v in enumerate(ins):
          t.in_ @= v
          if step == 0: sys.setprofile(prof)
          try: (t.sim_eval_combinational if mode == 'eval' else t.sim_tick)()
          finally: sys.setprofile(None)
          _, outs = cn_reference(spec, v)
          got, want = {}, {}
          for path, (kind, w) in outs.items():
            if kind == 'ff' and mode == 'eval': continue
            got[path] = int(eval('s.' + path, {'s': t}).to_bits()); want[path] = w
          vals.append((step, v, got, want))
        for name, seq in (('schedule', order), ('run-time', calls)):
          pos = {}
          for k, i in enumerate(seq): pos.setdefault(i, k)
          viol = []
          for (cid, rid) in pairs:
            cb, rb = cblk[cid], rblk[rid]
            if cb is None: continue
            a, b = rs.blk2id[cb], rs.blk2id[rb]
            if name == 'run-time' and (a not in pos or b not in pos): continue
            if a not in pos or b not in pos or not pos[a] < pos[b]:
              viol.append({'constant_net': cdesc[cid], 'its_block_position': pos.get(a), 'reader': rdesc[rid], 'reader_position': pos.get(b)})
          if verbose: print(f'{flow:8s} {mode:4s} {name:8s}:', [label(i) for i in seq], '->', len(viol), 'pairs out of order')
          if viol:
            bad = 1
            ck.violation('constant-net-after-reader', {'flow': flow, 'where': name}, dict(case, flow=flow, mode=mode, ins=ins),
                         {'order': [label(i) for i in seq], 'violated': viol[:8], 'n_violated': len(viol),
                          'oracle': 'the net block that copies a constant into a part of a signal is placed / runs before every update block and net block that reads a bit of that part (pairs derived from the design description)'})
        for (step, v, got, want) in vals:
          if verbose: print(f'{flow:8s} {mode:4s} in_={v:#06x}:', 'values as expected' if got == want else {k: (got[k], want[k]) for k in got if got[k] != want[k]})
          if got != want:
            bad = 1
            ck.violation('constant-net-first-evaluation-value', {'flow': flow, 'mode': mode}, dict(case, flow=flow, mode=mode, ins=ins),
                         {'step': step, 'in_': v, 'got_vs_expected': {k: [got[k], want[k]] for k in got if got[k] != want[k]},
                          'oracle': f'no reset; in_ set, then one {"sim_eval_combinational()" if mode == "eval" else "sim_tick()"} per step: every reader output = the read bits of the signal assembled from its constant / computed / net-driven parts'})
            break
        missing = [cdesc[c] for c in cblk if cblk[c] is None]
        if missing and not bad: raise InfraError(f'constnet: no generated block found for {missing}')
        ck.hist('gendag_constnet_mode', f'{flow}/{mode}')
    ck.hist('gendag_constnet_consts', min(len(consts), 8)); ck.hist('gendag_constnet_pairs', min(len(pairs), 16))
    for c in consts:
      ck.hist('gendag_constnet_part', 'struct' if c['typ'] == 'In' else ('nested-' if c['suf'].count('.') == 2 else 'field-' if '.' in c['suf'] else '') +
              ('bit' if c['hi'] - c['lo'] == 1 and '[' in c['suf'] else 'slice' if '[' in c['suf'] else 'whole-field'))
      ck.hist('gendag_constnet_host', 'child-inport-from-parent' if c['sig'].startswith('c.ci') else 'child' if c['sig'].startswith('c.') else 'top')
    for (cid, rid) in pairs:
      c = next(x for x in consts if x['cid'] == cid); r = next(x for x in rds if x['rid'] == rid)
      rel = 'whole' if r['suf'] == '' else 'same' if (r['lo'], r['hi']) == (c['lo'], c['hi']) else 'contains' if r['lo'] <= c['lo'] and c['hi'] <= r['hi'] else \
            'inside' if c['lo'] <= r['lo'] and r['hi'] <= c['hi'] else 'partial'
      ck.hist('gendag_constnet_reader', f"{r['kind']}/{rel}")
  finally:
    sys.modules.pop(mod.__name__, None)
  return bad

# ---------------------------------------------------------------------------------------------
# one design: elaborate, extract, oracle, model
# ---------------------------------------------------------------------------------------------
def prepare(ck, src, clsname, family):
  """returns (Extract, request line) or None when the generated design does not elaborate"""
  mod = load_source(ck.workdir, src, family)
  try:
    top = getattr(mod, clsname)()
    try:
      top.elaborate()
    except Exception as e:
      return ('rejected', type(e).__name__ + ': ' + str(e)[:200])
    ex = Extract(top)
    return ex, ex.request()
  finally:
    sys.modules.pop(mod.__name__, None)

def evaluate(ck, ex, rep, case, family):
  missing, wrong, expl_missing, expl, kept = ex.oracle()
  mfinal, mimpl, mexpl, mcobjs = parse_reply(rep)
  ck.count(case, nontrivial=bool(mimpl))
  ck.hist('gendag_family', family); ck.hist('gendag_implicit_pairs', min(len(mimpl), 12))
  ck.hist('gendag_explicit_pairs', min(len(mexpl), 6)); ck.hist('gendag_inverted', min(len({(b, a) for (a, b) in mimpl} & mexpl), 3))
  names = [b.__name__ for b in ex.blks]
  nm = lambda ps: sorted([names[a], names[b]] for (a, b) in ps)
  ok = True
  if missing or wrong:
    ok = False
    ck.violation('missing-value-constraint', {'what': 'wrong-direction' if wrong else 'no-edge'}, case,
                 {'writer_reader_pairs_sharing_a_bit_without_edge': nm(missing), 'edge_only_in_reader_to_writer_direction': nm(wrong),
                  'all_constraints': nm(ex.real_final), 'explicit': nm(expl),
                  'oracle': 'a non-ff block that writes a bit runs before every other block that reads that bit, unless the pair is explicitly inverted'})
  if kept:
    ok = False
    ck.violation('inverted-pair-kept', {}, case, {'implicit_pairs_kept_although_the_reverse_is_explicit': nm(kept), 'all_constraints': nm(ex.real_final),
                 'explicit': nm(expl), 'oracle': 'an explicit constraint inverts the implicit writer->reader pair: only the explicit direction remains'})
  if expl_missing:
    ok = False
    ck.violation('explicit-constraint-dropped', {}, case, {'missing': nm(expl_missing), 'all_constraints': nm(ex.real_final),
                 'oracle': 'every U<U pair and every pair an RD/WR(x) <> U entry expands to is in all_constraints'})
  if mfinal != ex.real_final:
    ck.disagreement('valueConstraints≈all_constraints', case, {'only_model': nm(mfinal - ex.real_final)}, {'only_impl': nm(ex.real_final - mfinal)})
    ok = False
  elif mcobjs != ex.real_cobjs:
    show = lambda s: sorted([names[a], names[b], repr(ex.objs[o])] for (a, b, o) in s)
    ck.disagreement('constraintObjs≈constraint_objs', case, show(mcobjs - ex.real_cobjs), show(ex.real_cobjs - mcobjs))
    ok = False
  if mexpl != expl:
    ck.disagreement('explicitPairs≈restated expansion', case, nm(mexpl - expl), nm(expl - mexpl)); ok = False
  return ok

def run(ck):
  rng = ck.rng
  quick = ck.tier == 'quick'
  todo = []       # (src, cls, family)
  # (d) table
  for k in range(len(TABLE_OBJS)):
    todo.append(gen_table(k) + ('table',))
  todo.append(gen_table(0, ff=True) + ('table',))
  # (e) library components
  for k in range(len(STDLIB)): todo.append(gen_stdlib(k) + ('stdlib',))
  # (a) rtlgen
  for _ in range(100 if quick else 400):
    r = rng.random()
    d = rtlgen.generate_slices(rng) if r < 0.25 else rtlgen.generate(rng, max_blocks=8, structs=(rng.random() < 0.7))
    fam = 'rtlgen'
    k = rng.random()
    if k < 0.3:
      if rtlgen.add_explicit(d, rng.choice(['order', 'invert', 'cycle'])) is not None: fam = 'rtlgen+UU'
    src = d.source()
    if 0.3 <= k < 0.75:
      src, n = decorate_rtlgen(rng, d, src)
      if n: fam = 'rtlgen+RDWR'
    todo.append((src, d.cls_name(''), fam))
  # (b) c08_gen legal designs
  for _ in range(50 if quick else 200):
    d = c08_gen.gen_legal(rng, d1=(rng.random() < 0.3))
    var = d.variant_orders(rng, identity=True)
    todo.append((d.source([var]), d.cls_name(0, 0), 'c08gen'))
  # (c) shapes
  for _ in range(250 if quick else 1000):
    todo.append(gen_shape(rng) + ('shape',))
  lines, metas, rejected = [], [], {}
  for (src, cls, fam) in todo:
    r = prepare(ck, src, cls, fam)
    if r[0] == 'rejected':
      rejected.setdefault(fam, []).append(r[1]); ck.hist('gendag_rejected', fam)
      # a design of another generator that does not elaborate is that generator's property (C08/C09), not a verdict on
      # the value constraints: skip it; only a family that is rejected wholesale means the generator itself is broken
      continue
    ex, line = r
    lines.append(line); metas.append((ex, {'gendag': True, 'family': fam, 'top': cls, 'source': src}, fam))
  # (f) several components constraining one signal
  for _ in range(25 if quick else 120):
    src, cls, spec = gen_hier(rng)
    check_hier(ck, src, cls, spec, lines, metas)
  # (g) constants tied to parts of signals
  ncn, cn_rej = (32 if quick else 160), 0
  for _ in range(ncn):
    src, cls, spec = gen_const(rng)
    modes = {flow: [rng.choice(CN_MODES)] for flow in HIER_FLOWS}
    if check_const(ck, src, cls, spec, lines, metas, modes) == 'rejected': cn_rej += 1
  if cn_rej * 4 > ncn: raise InfraError(f'c02_gendag: {cn_rej} of {ncn} constant-net designs do not elaborate')
  ck.extra_cov['gendag_constnet_rejected_at_elaboration'] = cn_rej
  for fam in {f for (_, _, f) in todo}:
    tot = sum(1 for (_, _, f) in todo if f == fam)
    if tot >= 5 and len(rejected.get(fam, [])) * 2 > tot and fam != 'shape':
      raise InfraError(f'c02_gendag: {len(rejected[fam])} of {tot} {fam} designs do not elaborate, e.g. {rejected[fam][0]}')
  if len(rejected.get('shape', [])) > 0.5 * sum(1 for t in todo if t[2] == 'shape'):
    raise InfraError(f'c02_gendag: most shape designs are rejected at elaboration: {rejected["shape"][:3]}')
  reps = ck.drv('gendag').batch(lines)
  shared = 0
  for (ex, case, fam), rep in zip(metas, reps):
    evaluate(ck, ex, rep, case, fam)
    shared += ex.shared
  ck.extra_cov['gendag_designs'] = len(metas)
  ck.extra_cov['gendag_bit_sharing_pairs'] = shared
  ck.extra_cov['gendag_shapes_rejected_at_elaboration'] = len(rejected.get('shape', []))

def replay(ck, data):
  case = data.get('case', data) if isinstance(data, dict) else data
  src, cls = case.get('source'), case.get('top')
  if not src or not cls:
    print('no source recorded in this replay'); return 1
  if case.get('constnet'):
    lines, metas = [], []
    n0 = len(ck.violations) + len(ck.breaks)
    bad = check_const(ck, src, cls, case['constnet'], lines, metas, {flow: list(CN_MODES) for flow in HIER_FLOWS}, verbose=True, fixed_ins=case.get('ins'))
    if bad == 'rejected': return 1
    if metas:
      ex, c, fam = metas[0]
      if not evaluate(ck, ex, ck.drv('gendag').batch(lines)[0], c, fam): bad = 1
    for v in ck.violations: print('VIOLATION', v.kind, v.signature, str(v.detail)[:900])
    return 1 if (bad or len(ck.violations) + len(ck.breaks) > n0) else 0
  if case.get('hier'):
    lines, metas = [], []
    n0 = len(ck.violations) + len(ck.breaks)
    bad = check_hier(ck, src, cls, case['hier'], lines, metas, verbose=True)
    for v in ck.violations: print('VIOLATION', v.kind, v.signature, str(v.detail)[:600])
    return 1 if (bad or len(ck.violations) + len(ck.breaks) > n0) else 0
  r = prepare(ck, src, cls, 'replay')
  if r[0] == 'rejected':
    print('elaboration raised', r[1]); return 1
  ex, line = r
  rep = ck.drv('gendag').batch([line])[0]
  names = [b.__name__ for b in ex.blks]
  nm = lambda ps: sorted((names[a], names[b]) for (a, b) in ps)
  missing, wrong, expl_missing, expl, kept = ex.oracle()
  mfinal, mimpl, mexpl, mcobjs = parse_reply(rep)
  print('blocks        :', [(n, 'ff' if b in ex.ff else 'comb', sorted(map(repr, ex.reads.get(b, []))), sorted(map(repr, ex.writes.get(b, [])))) for n, b in zip(names, ex.blks)])
  print('implementation:', nm(ex.real_final))
  print('model         :', nm(mfinal))
  print('explicit      :', nm(expl))
  print('oracle        : sharing a bit without edge', nm(missing), '; only reversed edge', nm(wrong), '; explicit pair missing', nm(expl_missing), '; implicit pair kept against an explicit inversion', nm(kept))
  return 1 if (missing or wrong or expl_missing or kept or mfinal != ex.real_final or mcobjs != ex.real_cobjs) else 0
